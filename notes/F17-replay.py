import asyncio
from asynkit.experimental.priority import PriorityLock, PriorityTask

log = []
names = {}

def snap(lock, label):
    items = sorted(((p, names[e[1]()]) for p, e in lock._waiters.items()), key=lambda x: x[1]) if lock._waiters else []
    live = [(names[e[1]()], e[0].done()) for _, e in lock._waiters.items()] if lock._waiters else []
    return label, items, sorted(live)

async def main():
    loop = asyncio.get_running_loop()
    l0, l1, l2 = PriorityLock(), PriorityLock(), PriorityLock()
    tasks = {}

    async def O2():
        async with l2:
            await asyncio.sleep(0)
            await asyncio.sleep(0)
            log.append(("before release of l2: keys in l2", snap(l2, "l2")[1]))
            log.append(("effective priorities", {n: t.effective_priority() for n, t in tasks.items()}))
            log.append(("l2 waiters (name, fut.done())", snap(l2, "l2")[2]))
            log.append(("l1 waiters (name, fut.done())", snap(l1, "l1")[2]))
        log.append("O2 released l2")

    async def O1():
        async with l1:
            async with l2:
                log.append("O1 got l2")

    async def W2():
        async with l2:
            log.append("W2 got l2")

    async def U():
        async with l0:
            async with l1:
                log.append("U got l1")

    async def T():
        tasks["U"].cancel()
        async with l0:
            log.append("T got l0")

    def mk(name, coro, prio):
        t = PriorityTask(coro, loop=loop, priority=prio)
        tasks[name] = t
        names[t] = name
        return t

    mk("O2", O2(), 0); mk("O1", O1(), 5); mk("U", U(), 7)
    await asyncio.sleep(0)
    mk("T", T(), -5); mk("W2", W2(), 3)
    await asyncio.gather(*tasks.values(), return_exceptions=True)

asyncio.run(main())
for x in log:
    print(x)
