#!/venv/bin/python
"""Run the pinned test suite (guard OFF) and compare the set of passing tests with
BASELINE.json's stable_pass.  Exit 0 iff every stable_pass test still passes."""
import json, os, subprocess, sys, tempfile
import xml.etree.ElementTree as ET

base = json.load(open("/root/.vp/BASELINE.json"))
with tempfile.NamedTemporaryFile(suffix=".xml", dir="/verif", delete=False) as t:
    out = t.name
env = dict(os.environ)
env.pop("ASYNKIT_VERIF", None)
cmd = base["cmd"].replace("<file>", out)
r = subprocess.run(cmd, shell=True, env=env, capture_output=True, text=True)
passed = set()
for tc in ET.parse(out).getroot().iter("testcase"):
    if not any(c.tag in ("failure", "error", "skipped") for c in tc):
        passed.add(f"{tc.get('classname')}::{tc.get('name')}")
os.remove(out)
missing = [t for t in base["stable_pass"] if t not in passed]
print(f"passed={len(passed)} stable_pass={len(base['stable_pass'])} missing={len(missing)}")
for m in missing[:20]:
    print("  MISSING", m)
sys.exit(1 if missing else 0)
