#!/bin/sh
# tools/safe_commit.sh "<message>" [paths to leave out...]
# Commits /verif (leaving out work in progress), then proves the committed Coq tree builds from clean
# in a scratch directory (what MANIFEST.setup_cmd will do); prints BUILD-OK or BUILD-FAILED.
cd /verif
MSG="$1"; shift
git add -A
for p in "$@"; do git reset -q -- "$p" 2>/dev/null; done
git commit -qm "$MSG" || true
rm -rf /tmp/cb; mkdir -p /tmp/cb; git archive HEAD coq | tar -x -C /tmp/cb
( cd /tmp/cb/coq && timeout 1500 sh mk.sh > /tmp/cb/build.log 2>&1 )
if [ $? -eq 0 ]; then echo "BUILD-OK $(grep -c '^COQC' /tmp/cb/build.log) files"; else echo "BUILD-FAILED"; tail -5 /tmp/cb/build.log; fi
rm -rf /tmp/cb/coq
