#!/usr/bin/env python3
"""Regenerate MANIFEST.json from tools/manifest_src.json (claimed checks) so that it is always schema-valid."""
import json, os
V = os.path.dirname(os.path.dirname(os.path.abspath(__file__)))
src = json.load(open(os.path.join(V, "tools", "manifest_src.json")))
props = [json.loads(l)["id"] for l in open(os.path.join(V, "properties.jsonl"))]
checks = []
for pid in props:
    c = src["claimed"].get(pid)
    if not c:
        continue
    checks.append({
        "property_id": pid,
        "quick_cmd": f"./check {pid} --tier quick",
        "thorough_cmd": f"./check {pid} --tier thorough",
        "evidence_file": f"/verif/evidence/{pid}.json",
        "replay_cmd_template": "./check replay {path}",
        "engine": "coq-model+correspondence",
        "level_claimed": {"category": "proof", "text": c["text"], "design_ref": c.get("design_ref", f"DESIGN.md section 4 ({pid})")},
        "level_note": c["note"],
        "technique": c.get("technique", "Coq 8.16 theorems over a hand-written Gallina model; model tied to /repo by per-run in-kernel (vm_compute) correspondence; independent oracle searches for the failing input"),
    })
na = [{"property_id": p, "reason": src["not_applicable"].get(p, "check not built yet in this session (work in progress; see DESIGN.md section 8)")}
      for p in props if p not in src["claimed"]]
m = {
    "version": 1,
    "setup_cmd": "sh coq/mk.sh",
    "hooks": {"guard": "ASYNKIT_VERIF", "enable": "no source hooks are needed: checks import /repo/src directly (PYTHONPATH=/repo/src) and drive the real classes and event loops from outside",
              "baseline_off_cmd": "/venv/bin/python /verif/tools/baseline.py", "source_commits": [], "add_only": True},
    "engines": [{"name": "coq-model+correspondence", "path": "/verif/check",
                 "serves_properties": [c["property_id"] for c in checks],
                 "kind_free_text": "Coq 8.16.1 development under coq/theories (models, proofs, Props/Cxx.v statements with Print Assumptions); harness/ generates cases, runs the real asynkit, evaluates the model on the same inputs inside coqc (vm_compute) and compares; independent Python oracles locate failing inputs"}],
    "checks": checks,
    "notes": src.get("notes", ""),
    "not_applicable": na,
}
json.dump(m, open(os.path.join(V, "MANIFEST.json"), "w"), indent=1)
print("claimed:", [c["property_id"] for c in checks])
