#!/bin/sh
# tools/try_seed.sh <dir with patch.diff and demo.py> <Cxx> [more Cxx...]
# Validates a seeded change (suite unchanged, demo fails with / passes without) on a scratch copy of /repo
# and runs the given checks against it (ASYNKIT_SRC).  Prints a JSON summary.
set -u
D=$(cd "$1" && pwd); shift
W=/tmp/seedtest.$$
rm -rf $W; mkdir -p $W; cp -r /repo/src /repo/tests /repo/pyproject.toml $W/ 2>/dev/null
cd $W
if ! patch -p1 -s < $D/patch.diff; then echo '{"error":"patch does not apply"}'; rm -rf $W; exit 2; fi
SUITE=$(PYTHONPATH=$W/src /venv/bin/python -m pytest -q -p no:cacheprovider tests 2>&1 | tail -1)
PYTHONPATH=$W/src timeout 120 /venv/bin/python $D/demo.py > $W/demo_with.out 2>&1; DW=$?
PYTHONPATH=/repo/src timeout 120 /venv/bin/python $D/demo.py > $W/demo_without.out 2>&1; DWO=$?
echo "suite_with_change: $SUITE"
echo "demo_with_change_exit: $DW   demo_without_change_exit: $DWO"
for P in "$@"; do
  OUT=$(cd /verif && ASYNKIT_SRC=$W/src timeout 1500 ./check $P --tier quick 2>&1 | grep -v WARNING | cut -c1-220)
  RC=$?
  echo "check $P: $(echo "$OUT" | grep -c VIOLATION) VIOLATION line(s): $(echo "$OUT" | head -2 | tr '\n' ' ')"
  for R in $(echo "$OUT" | grep -o '/verif/replays/[^ ]*json' | head -1); do
    python3 -c "import json; d=json.load(open('$R')); print('   replay:', d.get('kind'), '|', str(d.get('failure'))[:300])"
  done
done
rm -rf $W
