(* Shared header: arithmetic automation settings and small list utilities.
   Stdlib only. *)
From Coq Require Export ZArith List Bool Lia Arith PeanoNat.
From Coq Require Export ZifyBool ZifyNat.
Export ListNotations.
Ltac Zify.zify_post_hook ::= Z.to_euclidean_division_equations.

Set Implicit Arguments.

(* positional list helpers used by every array-like model *)
Fixpoint set_nth {A} (l : list A) (i : nat) (x : A) : list A :=
  match l, i with
  | [], _ => []
  | _ :: t, O => x :: t
  | h :: t, S i => h :: set_nth t i x
  end.

Fixpoint remove_nth {A} (l : list A) (i : nat) : list A :=
  match l, i with
  | [], _ => []
  | _ :: t, O => t
  | h :: t, S i => h :: remove_nth t i
  end.

Fixpoint insert_nth {A} (l : list A) (i : nat) (x : A) : list A :=
  match i, l with
  | O, _ => x :: l
  | S i, [] => [x]
  | S i, h :: t => h :: insert_nth t i x
  end.

Lemma set_nth_length {A} (l : list A) i x : length (set_nth l i x) = length l.
Proof. revert i; induction l as [|h t IH]; intros [|i]; simpl; auto. Qed.

Lemma remove_nth_length {A} (l : list A) i :
  i < length l -> length (remove_nth l i) = length l - 1.
Proof.
  revert i; induction l as [|h t IH]; intros [|i] H; simpl in *; try lia.
  rewrite IH by lia. lia.
Qed.

Lemma insert_nth_length {A} (l : list A) i x :
  length (insert_nth l i x) = S (length l).
Proof. revert l; induction i as [|i IH]; intros [|h t]; simpl; auto. Qed.
