(* Observation values exchanged with the Python harness.  Every model exposes
   [run : input -> obs]; the harness writes the implementation's observation as
   an [obs] literal and the comparison is evaluated inside the kernel. *)
From Asynkit Require Import Base.Prelude.

Inductive obs := OI (z : Z) | OL (l : list obs).

Fixpoint obs_eqb (a b : obs) {struct a} : bool :=
  match a, b with
  | OI x, OI y => Z.eqb x y
  | OL l, OL m =>
      (fix go (l m : list obs) {struct l} : bool :=
         match l, m with
         | [], [] => true
         | x :: l', y :: m' => obs_eqb x y && go l' m'
         | _, _ => false
         end) l m
  | _, _ => false
  end.

Definition ob (b : bool) : obs := OI (if b then 1 else 0)%Z.
Definition on (n : nat) : obs := OI (Z.of_nat n).
Definition olist {A} (f : A -> obs) (l : list A) : obs := OL (map f l).
Definition oopt {A} (f : A -> obs) (o : option A) : obs :=
  match o with None => OL [] | Some x => OL [f x] end.

(* the generic mismatch finder used by generated cases files *)
Definition mismatches {I} (run : I -> obs) (cases : list (Z * (I * obs))) : list Z :=
  map fst (filter (fun c => negb (obs_eqb (run (fst (snd c))) (snd (snd c)))) cases).
Definition model_outputs {I} (run : I -> obs) (cases : list (Z * (I * obs))) (n : nat)
  : list (Z * obs) :=
  map (fun c => (fst c, run (fst (snd c))))
      (firstn n (filter (fun c => negb (obs_eqb (run (fst (snd c))) (snd (snd c)))) cases)).

(* ------------------------------------------------------------------------
   Hashing.  Coq elaborates large literals slowly (about 10^4 nodes/s), so the
   harness sends, instead of the implementation's full observation, two 61-bit
   multiplicative hashes (multipliers 33 and 129 modulo 2^61: odd, hence every
   single token influences the result) of its token stream.  The model's
   observation is hashed the same way inside the kernel and compared; on a
   mismatch the model's full observation is printed and diffed by the harness. *)
Definition MASK : Z := Z.ones 61.

Definition tokz (z : Z) : Z := if (z <? 0)%Z then (3 + 2 * (- z - 1))%Z else (2 + 2 * z)%Z.

Definition hstep (h : Z * Z) (t : Z) : Z * Z :=
  (Z.land (Z.shiftl (fst h) 5 + fst h + t + 1) MASK,
   Z.land (Z.shiftl (snd h) 7 + snd h + t + 1) MASK).

Fixpoint hfold (h : Z * Z) (o : obs) {struct o} : Z * Z :=
  match o with
  | OI z => hstep h (tokz z)
  | OL l =>
      hstep ((fix go (h : Z * Z) (l : list obs) {struct l} : Z * Z :=
                match l with
                | [] => h
                | x :: t => go (hfold h x) t
                end) (hstep h 0%Z) l) 1%Z
  end.

Definition obs_hash (o : obs) : Z * Z := hfold (7%Z, 11%Z) o.
Definition hash_eqb (a b : Z * Z) : bool := (fst a =? fst b)%Z && (snd a =? snd b)%Z.

Definition mismatches_h {I} (run : I -> obs) (cases : list (Z * (I * (Z * Z)))) : list Z :=
  map fst (filter (fun c => negb (hash_eqb (obs_hash (run (fst (snd c)))) (snd (snd c)))) cases).
Definition model_outputs_h {I} (run : I -> obs) (cases : list (Z * (I * (Z * Z)))) (n : nat)
  : list (Z * obs) :=
  map (fun c => (fst c, run (fst (snd c))))
      (firstn n (filter (fun c => negb (hash_eqb (obs_hash (run (fst (snd c)))) (snd (snd c)))) cases)).
