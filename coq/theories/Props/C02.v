(* C02 - Coroutine wrappers are transparent to the await protocol.

   A coroutine body is a tree [c : coro] (Coro/Tree.v): all it can do until it
   returns, raises or suspends, and, through the continuation stored at each
   suspension, how it reacts to whatever is sent or thrown into it next.
   [native_await c] (Coro/Native.v) is the body of
       async def ref(): return await c
   i.e. CPython's PEP 380/492 delegation.  [eqv] is bisimilarity of trees:
   same effects inside the body, same values yielded, same reaction to every
   send / throw -- hence (eqv_drive) the same answers to every sequence of
   send(), throw() and close() applied from outside.
   The wrapper models (Coro/Relay.v) are tied to asynkit by the correspondence
   check; [no_oob_first c] says that the body does not end its first segment by
   raising the Monitor's own OOBData exception ("no out-of-band data"). *)
From Asynkit Require Import Base.Prelude Coro.Tree Coro.Native Coro.TreeProofs
  Coro.Relay Coro.RelayProofs Coro.AwaitMethodProofs.

(* Bisimilar bodies cannot be told apart by any driver. *)
Theorem C02_eqv_is_observational : forall kd c c' s ops,
  eqv c c' -> drive kd (New c) s ops = drive kd (New c') s ops.
Proof. exact eqv_drive. Qed.
Print Assumptions C02_eqv_is_observational.

(* Each wrapper's iterator reacts exactly like a native await of the body:
   CoroStart (construction + __await__), CoroStart.as_coroutine(), coro_await,
   coro_iter, awaitmethod_iter, Monitor.aawait, BoundMonitor. *)
Theorem C02_transparent_CoroStart : forall c, eqv (corostart c) (native_await c).
Proof. exact corostart_transparent. Qed.
Print Assumptions C02_transparent_CoroStart.

Theorem C02_transparent_as_coroutine : forall c, eqv (corostart_as_coroutine c) (native_await c).
Proof. exact as_coroutine_transparent. Qed.
Print Assumptions C02_transparent_as_coroutine.

Theorem C02_transparent_coro_await : forall c, eqv (coro_await c) (native_await c).
Proof. exact coro_await_transparent. Qed.
Print Assumptions C02_transparent_coro_await.

Theorem C02_transparent_coro_iter : forall c, eqv (coro_iter c) (native_await c).
Proof. exact coro_iter_transparent. Qed.
Print Assumptions C02_transparent_coro_iter.

Theorem C02_transparent_awaitmethod_iter : forall c, eqv (awaitmethod_iter c) (native_await c).
Proof. exact awaitmethod_iter_transparent. Qed.
Print Assumptions C02_transparent_awaitmethod_iter.

Theorem C02_transparent_Monitor : forall c,
  no_oob_first c -> eqv (monitor_aawait 0 c) (native_await c).
Proof. exact monitor_transparent. Qed.
Print Assumptions C02_transparent_Monitor.

Theorem C02_transparent_BoundMonitor : forall c,
  no_oob_first c -> eqv (boundmonitor 0 c) (native_await c).
Proof. exact boundmonitor_transparent. Qed.
Print Assumptions C02_transparent_BoundMonitor.

(* awaitmethod hands out the coroutine's own iterator; `await obj` on it is a
   native await of the body (for every wrapper w, in one statement): *)
Theorem C02_transparent : forall w c,
  no_oob_first c -> eqv (native_await (wrap w c)) (native_await c).
Proof. exact wrap_transparent. Qed.
Print Assumptions C02_transparent.

(* ... and the raw iterator made by awaitmethod answers every driver sequence
   like the native await, provided GeneratorExit arrives through close() (as
   `await` and every relay deliver it) and not through throw(GeneratorExit). *)
Theorem C02_awaitmethod_raw : forall c s ops,
  forallb not_throw_genexit ops = true ->
  drive_stop KCoro (New (awaitmethod c)) s ops = drive_stop KCoro (New (native_await c)) s ops.
Proof. exact awaitmethod_raw_transparent. Qed.
Print Assumptions C02_awaitmethod_raw.

(* Congruence: equivalent bodies stay equivalent behind every wrapper; a native
   await of a native await is a native await. *)
Theorem C02_congruence : forall w c c', eqv c c' -> eqv (wrap w c) (wrap w c').
Proof. exact wrap_cong. Qed.
Print Assumptions C02_congruence.

Theorem C02_native_idempotent : forall c, eqv (native_await (native_await c)) (native_await c).
Proof. exact native_await_idem. Qed.
Print Assumptions C02_native_idempotent.

(* Stacks of wrappers of ANY depth ([wrap_stack]: outermost first, each inner
   awaitable made into a coroutine again the way the harness does it). *)
Theorem C02_stack : forall ws c,
  no_oob_first c -> eqv (native_await (wrap_stack ws c)) (native_await c).
Proof. exact stack_transparent. Qed.
Print Assumptions C02_stack.

(* ... and unless the outermost wrapper is awaitmethod, the stack's own
   iterator answers every send/throw/close sequence like the native await. *)
Theorem C02_stack_drive : forall w ws c kd s ops,
  raw_transparent w = true -> no_oob_first c ->
  drive kd (New (wrap_stack (w :: ws) c)) s ops = drive kd (New (native_await c)) s ops.
Proof. exact stack_drive. Qed.
Print Assumptions C02_stack_drive.

(* CoroStart.athrow(e) on a CoroStart suspended at [k]: throw e there, then
   await the rest.  aclose(): the same with GeneratorExit, absorbing
   GeneratorExit and the return value (a body that yields again keeps being
   awaited: native close() would raise "coroutine ignored GeneratorExit"). *)
Theorem C02_athrow : forall y k e,
  eqv (cs_athrow (CsSusp y k) e) (native_await (k (Throw e))).
Proof. exact athrow_transparent. Qed.
Print Assumptions C02_athrow.

Theorem C02_aclose : forall y k,
  eqv (cs_aclose (CsSusp y k))
      (await_ KCoro (native_await (k (Throw GeneratorExit)))
              (fun _ => Ret VNone)
              (fun e => if is_genexit e then Ret VNone else Raise e)).
Proof. exact aclose_transparent. Qed.
Print Assumptions C02_aclose.
