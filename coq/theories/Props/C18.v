From Coq Require Import QArith.
From Asynkit Require Import Base.Prelude Queue.PQ Queue.PosPQ Queue.Exec Queue.Threads Queue.ThreadsCorr.
Open Scope Z_scope.
(* C18 is false for the priority loop on the unchanged code (known finding F13): a foreign
   append that strikes inside popleft makes the operation raise AND loses the entry that was
   being popped. *)
Definition w_pre : list (Z * Q) := [(1, 0%Q); (2, 0%Q); (3, 0%Q)].
Theorem C18_refuted :
  let s := prefill w_pre in
  let x := foreign_entry s 200 0%Q in
  let r := t_popleft s 0%nat x in
  tout_ r = TRaise /\ map (@eobj pv) (arr (pq_ (tq r))) = [2; 3; 200].
Proof. vm_compute. split; reflexivity. Qed.
Print Assumptions C18_refuted.
