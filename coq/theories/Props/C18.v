(* C18 - asynkit event loops keep asyncio's thread-safety contract  (PARTIAL: false for the
   priority loop on the unchanged code, known finding F13).
   Final statements; the proofs are in Queue/ThreadsProofs.v, the step-level model in
   Queue/Threads.v (validated against CPython + asynkit with real second threads).

   Reading guide.  [E] = PriEntry of a PriorityValue; [elt] = PriEntry.__lt__; [ed] a default.
   [cst] = state of one of heapq's C functions: the array [carr], the comparison budget
   [cbudget] (None: no other thread exists; Some k: a foreign thread appends the entry [cx]
   - a complete, atomic heappush [push_atomic] - during comparison number k), and [cerr]
   (the C code noticed the size change and gave up with RuntimeError).  [start s k x] is
   the state in which a loop-thread operation on queue [s] begins.  [t_popleft], [t_append],
   [t_find_remove], [t_reschedule] are the loop thread's PosPriorityQueue operations built on
   these; their result [tres] is the queue afterwards [tq] and the outcome [tout_]
   (TOk v | TNone | TRaise).  [pos_*] / [PInv] are the sequential model and invariant of C17. *)
From Coq Require Import QArith Sorting.Permutation.
From Asynkit Require Import Base.Prelude Queue.PQ Queue.Heap Queue.HeapqModel Queue.PosPQ Queue.Exec
  Queue.PosProofs Queue.Threads Queue.ThreadsCorr Queue.ThreadsProofs.
Local Close Scope Q_scope.
Open Scope Z_scope.

(* ---- 1. without interference the C (swap-based) heapq functions compute exactly the arrays
   of the hole-based Python transcription HeapqModel that C17 is proved about ---- *)
Theorem C18_c_sift_equiv :
  forall (a : list E) (x : E),
    let s := mkC a None x false in
    (forall fuel startpos pos, (pos < length a)%nat -> (pos < fuel)%nat ->
       c_siftdown fuel s startpos pos = mkC (HeapqModel.siftdown elt ed a startpos pos) None x false) /\
    (forall pos, (pos < length a)%nat ->
       c_siftup s pos = mkC (HeapqModel.siftup elt ed a pos) None x false) /\
    (forall e, c_heappush s e = mkC (HeapqModel.heappush elt ed a e) None x false) /\
    (c_heappop s = match HeapqModel.heappop elt ed a with
                   | None => (s, None)
                   | Some (e, a') => (mkC a' None x false, Some e)
                   end) /\
    c_heapify s = mkC (HeapqModel.heapify elt ed a) None x false.
Proof. exact c_sift_equiv. Qed.
Print Assumptions C18_c_sift_equiv.

(* hence, run alone, they satisfy heapq's contract HeapSpec (Queue/Heap.v): permutation and
   heap property for push / pop / heapify *)
Theorem C18_c_heapq_meets_spec :
  HeapSpec (mkHI pv_lt pv_dflt
              (fun a e => carr (c_heappush (mkC a None ed false) e))
              (fun a => match c_heappop (mkC a None ed false) with
                        | (s, Some e) => Some (e, carr s) | (_, None) => None end)
              (fun a => carr (c_heapify (mkC a None ed false)))).
Proof. exact c_heapq_spec. Qed.
Print Assumptions C18_c_heapq_meets_spec.

(* ---- 2. a foreign append that does not strike inside the operation.
   If the loop-thread operation does not raise (for popleft: on a non-empty queue; popleft on
   an empty queue raises IndexError without any comparison) then its result is the SEQUENTIAL
   composition: the operation of the C17 model Queue/PosPQ.v, then an ordinary append
   (pos_append_pri) of the foreign object with its priority.  This is what a lock around the
   queue, or marshalling foreign appends through a deque, would guarantee.
   [foreign_append s x] is that ordinary append (C18_foreign_append_def). ---- *)
Theorem C18_foreign_append_def :
  forall (s : pos) (x : E), foreign_append s x = pos_append_pri HPV s (eobj x) (base (epri x)).
Proof. exact (fun s x => eq_refl). Qed.
Print Assumptions C18_foreign_append_def.

Theorem C18_atomic_ok :
  forall (s : pos) (k : nat) (x : E),
    (arr (pq_ s) <> [] -> tout_ (t_popleft s k x) <> TRaise ->
       exists o s', pos_popleft HPV s = Some (o, s') /\
                    t_popleft s k x = mkT (foreign_append s' x) (TOk o)) /\
    (arr (pq_ s) = [] -> t_popleft s k x = mkT (foreign_append s x) TRaise) /\
    (forall o p, tout_ (t_append s o p k x) <> TRaise ->
       t_append s o p k x = mkT (foreign_append (pos_append_pri HPV s o p) x) TNone) /\
    (forall o, tout_ (t_find_remove s o k x) <> TRaise ->
       t_find_remove s o k x = match pos_find HPV s (Z.eqb o) true with
                               | None => mkT (foreign_append s x) TNone
                               | Some (o', s') => mkT (foreign_append s' x) (TOk o')
                               end) /\
    (forall o p, tout_ (t_reschedule s o p k x) <> TRaise ->
       t_reschedule s o p k x = match pos_reschedule HPV s (Z.eqb o) p with
                                | None => mkT (foreign_append s x) TNone
                                | Some (o', s') => mkT (foreign_append s' x) (TOk o')
                                end).
Proof. exact t_ops_atomic. Qed.
Print Assumptions C18_atomic_ok.

(* the same for popleft / append, with the hypothesis on the C function's final state: it ended
   with some budget left (k was at least the number of comparisons it performed), which is
   equivalent to "no error flag" *)
Theorem C18_atomic_ok_budget :
  forall (s : pos) (k : nat) (x : E),
    (forall k', cbudget (fst (c_heappop (start s k x))) = Some k' ->
       t_popleft s k x = match pos_popleft HPV s with
                         | None => mkT (foreign_append s x) TRaise
                         | Some (o, s') => mkT (foreign_append s' x) (TOk o)
                         end) /\
    (forall o p k',
       cbudget (c_heappush (start s k x) (mkE (mkPV p (n_ins s) 0 1) (seqn (pq_ s)) o)) = Some k' ->
       t_append s o p k x = mkT (foreign_append (pos_append_pri HPV s o p) x) TNone) /\
    (cerr (fst (c_heappop (start s k x))) = false <->
       exists k', cbudget (fst (c_heappop (start s k x))) = Some k').
Proof. exact t_atomic_budget. Qed.
Print Assumptions C18_atomic_ok_budget.

(* so the C17 invariant (heap, distinct sequence numbers below _sequence, boosting off,
   classes well-formed) still holds afterwards *)
Theorem C18_atomic_inv :
  forall (s : pos) (k : nat) (x : E), PInv HPV s ->
    (tout_ (t_popleft s k x) <> TRaise \/ arr (pq_ s) = [] -> PInv HPV (tq (t_popleft s k x))) /\
    (forall o p, tout_ (t_append s o p k x) <> TRaise -> PInv HPV (tq (t_append s o p k x))) /\
    (forall o, tout_ (t_find_remove s o k x) <> TRaise -> PInv HPV (tq (t_find_remove s o k x))) /\
    (forall o p, tout_ (t_reschedule s o p k x) <> TRaise -> PInv HPV (tq (t_reschedule s o p k x))).
Proof. exact t_ops_atomic_inv. Qed.
Print Assumptions C18_atomic_inv.

(* whole runs.  A history is a list of (loop-thread operation, k, foreign entry): every
   operation is accompanied by one foreign append that would strike during comparison k.
   [t_run] executes it on the step-level model, [seq_run] executes "operation of PosPQ, then
   pos_append_pri of the foreign entry" on the C17 model.  If every foreign append falls
   BETWEEN operations ([all_between]: no operation raises, except popleft's IndexError on an
   empty queue) the two runs coincide - states and every returned value - and the invariant is
   kept: such a run IS a sequential history of the C17 model, to which C17's theorems (exactly
   once, priority order, heap intact) apply. *)
Theorem C18_atomic_history :
  forall (h : list (lop * nat * E)) (s : pos),
    all_between s h ->
    t_run s h = seq_run s h /\ (PInv HPV s -> PInv HPV (fst (t_run s h))).
Proof. exact t_run_sequential. Qed.
Print Assumptions C18_atomic_history.

(* "does not strike" in terms of k itself.  [lop] = LPop | LApp o p | LFindRemove o | LResched o p;
   [t_op s op k x] the corresponding t_* operation, [seq_op s op] the PosPQ operation (new state,
   outcome), [between s op k x] := the operation did not raise, or it is popleft on an empty
   queue.  Every operation has a number of comparisons n, depending only on the queue and
   the operation: a foreign append scheduled for comparison k >= n happens after it and the
   result is the sequential composition; one scheduled for k < n strikes and the operation
   raises RuntimeError. *)
Theorem C18_strike_threshold :
  forall (s : pos) (op : lop), exists n : nat, forall (k : nat) (x : E),
    ((n <= k)%nat ->
       t_op s op k x = mkT (foreign_append (fst (seq_op s op)) x) (snd (seq_op s op))) /\
    ((k < n)%nat -> tout_ (t_op s op k x) = TRaise /\ ~ between s op k x).
Proof. exact atomic_when_budget_suffices. Qed.
Print Assumptions C18_strike_threshold.

(* ---- 3. the scheduling loops (stock deque as ready queue).  TRUSTED: each deque operation
   is one C call under the GIL, so an interleaving is a list of atomic events
   (Foreign x | LoopPop | LoopAppend y | LoopInsert k y | LoopRemove i) applied to a list by
   [drun] from the empty queue; [submitted evs] lists all submissions in order (foreign ones
   tagged Fo, loop-thread ones Lo), [foreigns evs] the foreign ones.  For EVERY interleaving:
   popped + removed + still queued = submitted, as multisets (nothing lost or duplicated; with
   distinct submissions each is popped at most once), and the foreign entries executed or
   still queued appear in arrival order ([subseq] = order-preserving sub-list; all of them
   when the loop thread removed none). ---- *)
Theorem C18_deque_loops :
  forall evs : list dev,
    let s := drun evs (mkD [] [] []) in
    Permutation (dpopped s ++ dremoved s ++ dq s) (submitted evs) /\
    (NoDup (submitted evs) -> NoDup (dpopped s ++ dremoved s ++ dq s)) /\
    subseq (filter is_foreign (dpopped s ++ dq s)) (map Fo (foreigns evs)) /\
    (filter is_foreign (dremoved s) = [] ->
       filter is_foreign (dpopped s ++ dq s) = map Fo (foreigns evs)).
Proof. exact deque_loops. Qed.
Print Assumptions C18_deque_loops.

(* ---- 4. the known finding, characterised for ALL queues satisfying the C17 invariant.
   popleft on >= 3 entries performs at least one comparison; a foreign append during
   comparison 0 makes it raise, and the array afterwards is the foreign entry plus everything
   EXCEPT the head: the entry being popped is gone (it was already overwritten when sifting
   started, and the error path drops it).  append on a non-empty queue, struck: raises, both
   the new and the foreign entry are in the array, but _sequence advanced only once - when the
   foreign thread read the same _sequence the two share their sequence number. ---- *)
Theorem C18_strike_always_raises :
  forall (s : pos) (x : E), PInv HPV s ->
    ((3 <= length (arr (pq_ s)))%nat ->
       let r := t_popleft s 0 x in
       tout_ r = TRaise /\
       Permutation (arr (pq_ (tq r))) (x :: tl (arr (pq_ s))) /\
       (~ In x (arr (pq_ s)) -> ~ In (hd ed (arr (pq_ s))) (arr (pq_ (tq r))))) /\
    (forall o p, (1 <= length (arr (pq_ s)))%nat ->
       let e := mkE (mkPV p (n_ins s) 0 1) (seqn (pq_ s)) o in
       let r := t_append s o p 0 x in
       tout_ r = TRaise /\
       Permutation (arr (pq_ (tq r))) (x :: e :: arr (pq_ s)) /\
       seqn (pq_ (tq r)) = seqn (pq_ s) + 1 /\
       (eseq x = seqn (pq_ s) -> x <> e -> ~ NoDup (map eseq (arr (pq_ (tq r)))))).
Proof. exact strike_always_raises. Qed.
Print Assumptions C18_strike_always_raises.

(* the same whatever the comparison k during which the strike happens (cerr = true: the C
   function was struck), for all four operations.  find+remove and reschedule lose nothing
   (the array is the intended content plus the foreign entry) but raise, and their heapify is
   abandoned half-way (see witness (d) below). *)
Theorem C18_strike_any_comparison :
  forall (s : pos) (k : nat) (x : E), Qeq_bool (factor s) 0 = true ->
    (cerr (fst (c_heappop (start s k x))) = true ->
       let r := t_popleft s k x in
       tout_ r = TRaise /\ Permutation (arr (pq_ (tq r))) (x :: tl (arr (pq_ s))) /\
       seqn (pq_ (tq r)) = seqn (pq_ s) + 1) /\
    (forall o p,
       let e := mkE (mkPV p (n_ins s) 0 1) (seqn (pq_ s)) o in
       cerr (c_heappush (start s k x) e) = true ->
       let r := t_append s o p k x in
       tout_ r = TRaise /\ Permutation (arr (pq_ (tq r))) (x :: e :: arr (pq_ s)) /\
       seqn (pq_ (tq r)) = seqn (pq_ s) + 1) /\
    (forall o,
       let r := t_find_remove s o k x in
       tout_ r = TRaise ->
       exists i, find_last_index (Z.eqb o) (arr (pq_ s)) = Some i /\
                 Permutation (nth i (arr (pq_ s)) ed :: arr (pq_ (tq r))) (x :: arr (pq_ s)) /\
                 seqn (pq_ (tq r)) = seqn (pq_ s) + 1) /\
    (forall o p,
       let r := t_reschedule s o p k x in
       tout_ r = TRaise ->
       exists i, find_last_index (Z.eqb o) (arr (pq_ s)) = Some i /\
                 let e := nth i (arr (pq_ s)) ed in
                 Permutation (arr (pq_ (tq r)))
                   (x :: set_nth (arr (pq_ s)) i (mkE (mkPV p (n_ins s) 0 1) (eseq e) (eobj e))) /\
                 seqn (pq_ (tq r)) = seqn (pq_ s) + 1).
Proof. exact strike_any_comparison. Qed.
Print Assumptions C18_strike_any_comparison.

(* iteration struck (list.sort() empties the list while it sorts; Threads.v models the strike
   as unconditional): ValueError("list modified during sort") escapes, the queue is the
   sorted old content - the FOREIGN entry is discarded (its callback is never run) although
   the foreign thread's `_sequence += 1` took effect *)
Theorem C18_iter_struck :
  forall s : pos, Qeq_bool (factor s) 0 = true ->
    let r := t_iter_struck s in
    tout_ r = TRaise /\
    arr (pq_ (tq r)) = stable_sort HPV (arr (pq_ s)) /\
    seqn (pq_ (tq r)) = seqn (pq_ s) + 1.
Proof. exact t_iter_struck_spec. Qed.
Print Assumptions C18_iter_struck.

(* ---- 5. C18 is false for the priority loop on the unchanged code (known finding F13).
   Witnesses on queues built by plain appends (objects 1..n, priority 0), foreign object 200
   with priority 0, strike during comparison 0:
   (a)+(b) popleft raises AND the entry being popped (object 1) is lost;
   (c) append of object 100 raises and leaves objects 100 and 200 with the SAME sequence number;
   (d) reschedule(1, priority 1) raises and leaves a non-heap: the entry at index 1 is smaller
       than its parent at index 0, so object 1 (priority 1) would be popped before the
       priority-0 entries. ---- *)
Definition w_pre : list (Z * Q) := [(1, 0%Q); (2, 0%Q); (3, 0%Q)].
Definition w_pre4 : list (Z * Q) := [(1, 0%Q); (2, 0%Q); (3, 0%Q); (4, 0%Q)].
Theorem C18_refuted :
  (let s := prefill w_pre in
   let x := foreign_entry s 200 0%Q in
   let r := t_popleft s 0%nat x in
   tout_ r = TRaise /\ map (@eobj pv) (arr (pq_ (tq r))) = [2; 3; 200]) /\
  (let s := prefill w_pre in
   let x := foreign_entry s 200 0%Q in
   let r := t_append s 100 0%Q 0%nat x in
   tout_ r = TRaise /\
   map (fun e => (eobj e, eseq e)) (arr (pq_ (tq r))) = [(1, 0); (2, 1); (3, 2); (100, 3); (200, 3)] /\
   seqn (pq_ (tq r)) = 4) /\
  (let s := prefill w_pre4 in
   let x := foreign_entry s 200 0%Q in
   let r := t_reschedule s 1 1%Q 0%nat x in
   let a := arr (pq_ (tq r)) in
   tout_ r = TRaise /\
   map (fun e => (eobj e, base (epri e))) a = [(1, 1%Q); (4, 0%Q); (3, 0%Q); (2, 0%Q); (200, 0%Q)] /\
   elt (nth 1 a ed) (nth 0 a ed) = true).
Proof. vm_compute. repeat split; reflexivity. Qed.
Print Assumptions C18_refuted.

(* the hypotheses of 2. and 4. are satisfiable: every queue built by appends satisfies PInv, and
   on the witness queue budget 5 falls between operations while budget 0 strikes *)
Example C18_hyps_satisfiable :
  (forall l, PInv HPV (prefill l)) /\
  (let s := prefill w_pre in
   let x := foreign_entry s 200 0%Q in
   (3 <= length (arr (pq_ s)))%nat /\
   tout_ (t_popleft s 5%nat x) = TOk 1 /\ tout_ (t_popleft s 0%nat x) = TRaise).
Proof. split; [exact prefill_inv | vm_compute; repeat split; lia]. Qed.

(* ------------------------------------------------------------------------------------------
   After the repair (fix: commit "call_soon_threadsafe appended to the heap based ready queue
   from foreign threads"): foreign submissions only append to an inbox deque and the loop thread
   drains it at the start of each iteration.  [rev_ := RForeign x | RLoop op | RDrain]; a run is
   ANY list of such events - in particular a submission may arrive "in the middle" of a loop-thread
   operation, which at this level means anywhere between two events. *)
From Asynkit Require Import Queue.ThreadsRepaired.

Theorem C18_repaired_queue_invariant :
  forall (evs : list rev_) (r : rst), PInv HPV (rq_ r) -> PInv HPV (rq_ (rrun r evs)).
Proof. exact repaired_inv. Qed.
Print Assumptions C18_repaired_queue_invariant.

Theorem C18_repaired_operation_undisturbed :
  forall (r : rst) (op : lop) (xs : list E),
    let r' := rrun r (map RForeign xs ++ [RLoop op]) in
    rq_ r' = fst (seq_op (rq_ r) op) /\ routs r' = routs r ++ [snd (seq_op (rq_ r) op)] /\
    rinbox r' = rinbox r ++ xs.
Proof. exact repaired_op_undisturbed. Qed.
Print Assumptions C18_repaired_operation_undisturbed.

Theorem C18_repaired_drain_is_sequential_appends :
  forall r : rst,
    rq_ (rstep r RDrain) = fold_left foreign_append (rinbox r) (rq_ r) /\ rinbox (rstep r RDrain) = [].
Proof. exact repaired_drain. Qed.
Print Assumptions C18_repaired_drain_is_sequential_appends.

Theorem C18_repaired_never_struck :
  forall (evs : list rev_) (r : rst) (o : tout),
    In o (routs (rrun r evs)) -> In o (routs r) \/ exists s op, o = snd (seq_op s op).
Proof. exact repaired_never_struck. Qed.
Print Assumptions C18_repaired_never_struck.

(* ---- the wake-up half of the repaired call_soon_threadsafe (Queue/Wakeup.v): the foreign thread
   does [inbox.append(handle); _write_to_self()], the loop thread [drain; select (blocks unless
   something is ready or the self-pipe is readable; reads the pipe); run].  A schedule is ANY list
   of tokens [TLoop | TForeign i | TStutter] over any number n of foreign threads; the loop may be
   at either point of its iteration and the pipe in either state when the submissions begin.
   [WInv] = {ran ++ rdy ++ inbox = order of the appends; no duplicates; a handle is in that history
   iff its thread has appended; every handle in the inbox has a pending wake-up (pipe readable, or
   the loop about to drain, or its thread still before its write)}. *)
Close Scope Z_scope.
Open Scope nat_scope.
From Asynkit Require Import Queue.Wakeup Queue.WakeupProofs.

Theorem C18_wakeup_invariant :
  forall (n : nat) (start : lpc) (w : bool) (ts : list tok), WInv (wrun (winit n start w) ts).
Proof. exact wake_inv. Qed.
Print Assumptions C18_wakeup_invariant.

(* nothing is stranded: a loop blocked in select() with no submission in progress has an empty
   inbox and has run every submitted callback *)
Theorem C18_no_stranded_callback :
  forall s : wst, WInv s -> all_done s = true -> blocked s = true ->
    inbox s = [] /\ rdy s = [] /\ ran s = hist s /\ forall i, i < length (fts s) -> In i (ran s).
Proof. exact (@blocked_means_collected). Qed.
Print Assumptions C18_no_stranded_callback.

(* liveness: two loop iterations after the last submission completed, every callback has run *)
Theorem C18_all_run_within_two_iterations :
  forall s : wst, WInv s -> all_done s = true ->
    let s' := wrun s [TLoop; TLoop; TLoop; TLoop] in
    forall i, i < length (fts s) -> In i (ran s').
Proof. exact (@all_run_within_four). Qed.
Print Assumptions C18_all_run_within_two_iterations.

(* exactly once, in submission order *)
Theorem C18_exactly_once_in_order :
  forall (n : nat) (start : lpc) (w : bool) (ts : list tok),
    let s := wrun (winit n start w) ts in
    ran s ++ rdy s ++ inbox s = hist s /\ NoDup (ran s) /\ forall i, In i (ran s) -> started s i.
Proof. exact exactly_once_fifo. Qed.
Print Assumptions C18_exactly_once_in_order.

(* deciding BEFORE the append whether a wake-up is needed (from the emptiness of the inbox) strands
   a callback: both submissions complete, the loop blocked in select(), handle 1 still in the inbox *)
Theorem C18_check_then_act_refuted :
  let s := wrun2 (winit2 2 LDrain false) bad_schedule in
  fts2 s = [GDone; GDone] /\ blocked (base2 s) = true /\ inbox (base2 s) = [1] /\ ran (base2 s) = [0].
Proof. exact check_then_act_refuted. Qed.
Print Assumptions C18_check_then_act_refuted.

(* ---- the same protocol with the drain loop at the granularity of the code (Queue/WakeupFine.v):
   [while inbox: ready.append(inbox.popleft())] moves ONE handle per loop step, and foreign threads
   may append and write to the self-pipe between any two of those steps. ---- *)
From Asynkit Require Import Queue.WakeupFine Queue.WakeupFineProofs.

Theorem C18_wakeup_invariant_itemwise_drain :
  forall (n : nat) (start : lpc) (w : bool) (ts : list tok), WInv (wrun_f (winit n start w) ts).
Proof. exact wake_inv_f. Qed.
Print Assumptions C18_wakeup_invariant_itemwise_drain.

Theorem C18_no_stranded_callback_itemwise_drain :
  forall (n : nat) (start : lpc) (w : bool) (ts : list tok),
    let s := wrun_f (winit n start w) ts in
    all_done s = true -> blocked s = true ->
    inbox s = [] /\ rdy s = [] /\ ran s = hist s /\ forall i, i < length (fts s) -> In i (ran s).
Proof. exact blocked_means_collected_f. Qed.
Print Assumptions C18_no_stranded_callback_itemwise_drain.

Theorem C18_exactly_once_in_order_itemwise_drain :
  forall (n : nat) (start : lpc) (w : bool) (ts : list tok),
    let s := wrun_f (winit n start w) ts in
    ran s ++ rdy s ++ inbox s = hist s /\ NoDup (ran s) /\ forall i, In i (ran s) -> started s i.
Proof. exact exactly_once_fifo_f. Qed.
Print Assumptions C18_exactly_once_in_order_itemwise_drain.

(* an uninterrupted item-wise drain of m handles (m+1 loop steps) is the atomic drain of Wakeup.v *)
Theorem C18_itemwise_drain_refines_atomic :
  forall (m : nat) (s : wst), lp s = LDrain -> length (inbox s) = m ->
    wrun_f s (loop_alone (m + 1)) = step_loop s.
Proof. exact drain_f_is_atomic. Qed.
Print Assumptions C18_itemwise_drain_refines_atomic.

(* liveness: after the last submission completed, at most |inbox| + 3 steps of the loop thread *)
Theorem C18_all_run_itemwise_drain :
  forall s : wst, WInv s -> all_done s = true ->
    exists k, k <= length (inbox s) + 3 /\
      forall i, i < length (fts s) -> In i (ran (wrun_f s (loop_alone k))).
Proof. exact (@all_run_fine). Qed.
Print Assumptions C18_all_run_itemwise_drain.
