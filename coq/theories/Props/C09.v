From Asynkit Require Import Base.Prelude Sched.Model.
(* placeholder: the C09 theorems land in Sched/PartitionProofs.v *)
Theorem C09_blocked_not_runnable :
  forall s t, task_is_blocked s t = true -> task_is_runnable s t = false.
Proof. intros s t H. unfold task_is_runnable. rewrite H. reflexivity. Qed.
Print Assumptions C09_blocked_not_runnable.
