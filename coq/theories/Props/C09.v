(* C09 - runnable, blocked and current tasks partition all tasks.
   Model: Sched/Model.v (validated by the correspondence check of Sched/Corr.v).
   Invariant and proofs: Sched/PartTables.v, PartitionProofs.v, PartitionSteps.v,
   PartitionRun.v, PartitionFinal.v.

   Vocabulary (PartTables.v):
     hcnt s t    number of entries of the ready queue that are step/wakeup handles of task t
     ccnt s t g  number of copies of t's wake-up callback among the callbacks of future g
     bo s t      the PENDING future t waits on (twaiter), if any
     qok_list    "the ready queue is the list queue" (stock loop / scheduling loops)
     action_ok   side condition on user programs: task_timeout's exit (OTimeoutExit b) is only
                 called with a block id returned by an earlier enter (coro_ok) *)
From Coq Require Import QArith Sorting.Permutation.
From Asynkit Require Import Base.Prelude Queue.PosPQ Sched.Model Sched.PartTables Sched.PartitionProofs
     Sched.PartitionSteps Sched.PartitionRun Sched.PartitionFinal.
Open Scope nat_scope.

(* what Inv09 says between two actions: every task is done (D), runnable (R) or blocked (B) *)
Theorem C09_inv_meaning :
  forall qok s, Inv09 qok s -> current s = None /\
  forall t, t < length (tasks s) ->
    (* D *) tdone s t = true \/
    (* R *) (tdone s t = false /\
             (twaiter (gett s t) = None \/ exists f, twaiter (gett s t) = Some f /\ fdone s f = true) /\
             hcnt s t = 1 /\ forall g, fdone s g = false -> ccnt s t g = 0) \/
    (* B *) (tdone s t = false /\
             exists f, twaiter (gett s t) = Some f /\ fdone s f = false /\
                       hcnt s t = 0 /\ ccnt s t f = 1 /\
                       forall g, g <> f -> fdone s g = false -> ccnt s t g = 0).
Proof.
  intros qok s [I Hc]. split; auto. intros t Ht.
  destruct (tdone s t) eqn:Hd; [left; reflexivity|right].
  pose proof (i_cls I t Ht Hd) as C. unfold cls in C. simpl in C. destruct C as [R1 R2].
  unfold bo in R1, R2. destruct (twaiter (gett s t)) as [f|] eqn:Hw.
  - destruct (fdone s f) eqn:Hf.
    + left. split; auto. split; eauto.
    + right. split; auto. exists f. repeat split; auto.
      * rewrite (R2 f Hf), Nat.eqb_refl. reflexivity.
      * intros g Hn Hg. rewrite (R2 g Hg). destruct (Nat.eqb_spec f g); congruence.
  - left. split; auto.
Qed.
Print Assumptions C09_inv_meaning.

(* Inv09 holds initially and is preserved by every environment action (run one handle,
   begin an iteration / timers, advance the clock, spawn any program, any library call
   from outside) - for every user program, on any ready queue meeting QSpec *)
Theorem C09_inv_generic :
  forall qok, QSpec qok ->
  (forall prio factor draws lks cds nev,
     qok (ready (init_st prio factor draws lks cds nev)) ->
     Inv09 qok (init_st prio factor draws lks cds nev)) /\
  (forall s a, Inv09 qok s -> action_ok s a -> Inv09 qok (do_action s a)) /\
  (forall l s, Inv09 qok s -> actions_ok s l -> Inv09 qok (fold_left do_action l s)).
Proof.
  intros qok QS. split; [|split].
  - intros. apply Inv09_init; auto.
  - intros. apply Inv09_action; auto.
  - intros. apply Inv09_run; auto.
Qed.
Print Assumptions C09_inv_generic.

(* ... in particular, unconditionally, on the list queue (stock loop and scheduling loops) *)
Theorem C09_inv :
  forall factor draws lks cds nev l,
    let s0 := init_st false factor draws lks cds nev in
    actions_ok s0 l -> Inv09 qok_list (fold_left do_action l s0).
Proof.
  intros. apply (Inv09_run qok_list QSpec_list); auto.
  apply (Inv09_init qok_list). exact Logic.I.
Qed.
Print Assumptions C09_inv.

(* inside a step too: library calls and user code keep the invariant with the running
   task in class (C) (no handle, no wake-up callback, not waiting on a pending future) *)
Theorem C09_inv_inside_step :
  forall qok, QSpec qok -> forall c t,
  (forall op s s' r, lib_call t op s = (s', r) -> op_ok (length (blocks s)) op ->
                     InvC qok c s -> InvC qok c s' /\ current s' = current s) /\
  (forall c0 s s' o, exec t c0 s = (s', o) -> coro_ok (length (blocks s)) c0 ->
                     InvC qok c s -> InvC qok c s' /\ current s' = current s).
Proof.
  intros qok QS c t. split.
  - intros op s s' r E Hop I. destruct (lib_call_K qok QS c t op s s' r E Hop I) as [[I' Ex] _].
    split; auto. apply (e_cur Ex).
  - intros c0 s s' o E Hok I. destruct (exec_K qok QS c t c0 s s' o E Hok I) as [[I' Ex] _].
    split; auto. apply (e_cur Ex).
Qed.
Print Assumptions C09_inv_inside_step.

(* the partition: under Inv09 (between steps: current = None; inside a step: current = the
   running task) every live task is in exactly one of {current}, runnable_tasks(), blocked_tasks(),
   and task_is_runnable / task_is_blocked agree with real membership of the ready queue *)
Theorem C09_partition :
  forall qok s t, InvC qok (current s) s -> In t (all_tasks s) ->
  (current s = Some t /\ ~ In t (runnable_tasks s) /\ ~ In t (blocked_tasks s)) \/
  (current s <> Some t /\ In t (runnable_tasks s) /\ ~ In t (blocked_tasks s) /\
   hcnt s t = 1 /\ task_is_runnable s t = true /\ task_is_blocked s t = false) \/
  (current s <> Some t /\ ~ In t (runnable_tasks s) /\ In t (blocked_tasks s) /\
   hcnt s t = 0 /\ task_is_runnable s t = false /\ task_is_blocked s t = true).
Proof. exact partition_classes. Qed.
Print Assumptions C09_partition.

Theorem C09_runnable_iff_in_queue :
  forall qok s t, InvC qok (current s) s ->
  t < length (tasks s) -> tdone s t = false -> current s <> Some t ->
  (task_is_runnable s t = true <-> 0 < hcnt s t) /\
  (task_is_blocked s t = true <-> hcnt s t = 0).
Proof. exact runnable_iff_in_queue. Qed.
Print Assumptions C09_runnable_iff_in_queue.

(* blocked_tasks() is by construction a subset of all_tasks(); a handle in the ready queue
   always belongs to an existing task *)
Theorem C09_subsets :
  forall qok s t, InvC qok (current s) s ->
  (In t (blocked_tasks s) -> In t (all_tasks s)) /\
  (In t (runnable_tasks s) -> t < length (tasks s)).
Proof.
  intros qok s t I. split.
  - intros H. apply in_blocked_tasks in H. tauto.
  - intros H. apply in_runnable_iff in H. destruct (Nat.lt_ge_cases t (length (tasks s))); auto.
    destruct (i_oor I t H0). lia.
Qed.
Print Assumptions C09_subsets.

(* the assertions inside runnable_tasks()/blocked_tasks() never fail, provided no DONE task
   still has a handle queued (only possible in the model by completing a task's own future
   with Future.set_result/set_exception/cancel, which asyncio.Task refuses) *)
Theorem C09_query_ok :
  forall qok s, InvC qok (current s) s ->
  (forall t, In t (runnable_tasks s) -> tdone s t = false) -> (0 <= query_code s)%Z.
Proof. exact query_code_ok. Qed.
Print Assumptions C09_query_ok.

(* ---- non-vacuity: a reachable state with a blocked, a done and a runnable task ---- *)
Definition ex_waiter : coro :=
  Call ONewFut (fun r => match r with
                         | RVal f => Call (OAwaitFut (Z.to_nat f)) (fun _ => Ret 0)
                         | RExc e => Raise e end).
Definition ex_actions : list action :=
  [ASpawn SPy ex_waiter; AStep; ASpawn SPlain (Ret 5); AStep; ASpawn SPlain (Ret 7)].
Definition ex_state : st := fold_left do_action ex_actions (init_st false 0 [] [] [] 0).

Lemma ex_actions_ok : actions_ok (init_st false 0 [] [] [] 0) ex_actions.
Proof.
  simpl. repeat split; auto; intros; try exact Logic.I.
  all: try (destruct rep; simpl; auto; split; auto; intros; exact Logic.I).
Qed.

Example C09_example :
  Inv09 qok_list ex_state /\
  (* task 0 blocked on future 1, task 1 done, task 2 runnable *)
  bo ex_state 0 = Some 1 /\ hcnt ex_state 0 = 0 /\ ccnt ex_state 0 1 = 1 /\
  tdone ex_state 1 = true /\
  tdone ex_state 2 = false /\ hcnt ex_state 2 = 1 /\
  all_tasks ex_state = [0; 2] /\ runnable_tasks ex_state = [2] /\ blocked_tasks ex_state = [0] /\
  query_code ex_state = 10102%Z.
Proof.
  split; [apply (C09_inv 0 [] [] [] 0 ex_actions ex_actions_ok)|].
  vm_compute. repeat split; reflexivity.
Qed.

(* ------------------------------------------------------------------------------------
   The priority loop.  qok_pos r  :=  r = RPos p  with  PInv HPV p  (Queue/PosProofs.v): the
   PosPriorityQueue's array is heap-ordered, its sequence numbers are distinct and below the
   counter, the boost factor is 0 and every entry is positional (class 0, boost 0) or regular
   (class 1).  The queue model run by the scheduler model (HPV = the transcription of CPython's
   heapq) meets the ready-queue interface QSpec, so everything above that is stated "for every
   qok with QSpec qok" holds on the priority loop. *)
From Asynkit Require Import Queue.PosProofs Queue.Exec Sched.PrioQueueProofs.

Theorem C09_qspec_prio : QSpec qok_pos.
Proof. exact QSpec_pos. Qed.
Print Assumptions C09_qspec_prio.

(* Inv09 in every reachable state of the priority loop (boost factor 0), for every program *)
Theorem C09_inv_prio :
  forall draws lks cds nev l,
    let s0 := init_st true 0 draws lks cds nev in
    actions_ok s0 l -> Inv09 qok_pos (fold_left do_action l s0).
Proof. exact Inv09_prio. Qed.
Print Assumptions C09_inv_prio.

(* ... whose ready queue therefore always satisfies the PosPriorityQueue invariant *)
Theorem C09_prio_queue_inv :
  forall draws lks cds nev l,
    let s0 := init_st true 0 draws lks cds nev in
    actions_ok s0 l -> exists p, ready (fold_left do_action l s0) = RPos p /\ PInv HPV p.
Proof. exact reachable_PInv. Qed.
Print Assumptions C09_prio_queue_inv.

(* non-vacuity: the example history above on the priority loop, with PriorityTasks *)
Definition ex_actions_prio : list action :=
  [ASpawn SPy ex_waiter; AStep; ASpawn (SPrio 2) (Ret 5); AStep; ASpawn (SPrio 1) (Ret 7);
   ASpawn SPlain (Ret 8)].
Definition ex_state_prio : st := fold_left do_action ex_actions_prio (init_st true 0 [] [] [] 0).

Lemma ex_actions_prio_ok : actions_ok (init_st true 0 [] [] [] 0) ex_actions_prio.
Proof.
  simpl. repeat split; auto; intros; try exact Logic.I.
  all: try (destruct rep; simpl; auto; split; auto; intros; exact Logic.I).
Qed.

Example C09_example_prio :
  Inv09 qok_pos ex_state_prio /\
  bo ex_state_prio 0 = Some 1 /\ hcnt ex_state_prio 0 = 0 /\ ccnt ex_state_prio 0 1 = 1 /\
  tdone ex_state_prio 1 = true /\
  all_tasks ex_state_prio = [0; 2; 3] /\ runnable_tasks ex_state_prio = [3; 2] /\
  blocked_tasks ex_state_prio = [0].
Proof.
  split; [apply (C09_inv_prio [] [] [] 0 ex_actions_prio ex_actions_prio_ok)|].
  vm_compute. repeat split; reflexivity.
Qed.

(* ------------------------------------------------------------------------------------
   The priority loop with starvation boosting ENABLED (any boost factor - the default one
   included - and any sequence of random draws).  qok_boost r := r = RPos p with the
   PriorityQueue invariant of its array (PQProofs.Inv HPV (pq_ p): heap order, distinct
   sequence numbers below the counter).  do_maintenance only lowers boost fields and
   re-heapifies, so the array invariant and the multiset of queued handles survive it
   (Sched/PrioQueueBoost.v); hence QSpec and Inv09 hold for every factor. *)
From Asynkit Require Import Queue.PQProofs Sched.PrioQueueBoost.

Theorem C09_qspec_prio_boost : QSpec qok_boost.
Proof. exact QSpec_boost. Qed.
Print Assumptions C09_qspec_prio_boost.

Theorem C09_inv_prio_boost :
  forall factor draws lks cds nev l,
    let s0 := init_st true factor draws lks cds nev in
    actions_ok s0 l -> Inv09 qok_boost (fold_left do_action l s0).
Proof. exact Inv09_prio_boost. Qed.
Print Assumptions C09_inv_prio_boost.

(* non-vacuity: the priority-loop example history with the default factor *)
Example C09_example_prio_boost :
  Inv09 qok_boost (fold_left do_action ex_actions_prio (init_st true (6#5) [1#2] [] [] 0)).
Proof.
  apply (C09_inv_prio_boost (6#5) [1#2] [] [] 0 ex_actions_prio).
  simpl. repeat split; auto; intros; try exact Logic.I.
  all: try (destruct rep; simpl; auto; split; auto; intros; exact Logic.I).
Qed.

(* ------------------------------------------------------------------------------------
   Finished tasks are inert (Sched/InertBase.v, InertOps.v, InertLib.v, InertRun.v,
   InertStatic.v, InertThms.v).  Inv09 leaves finished tasks unconstrained because the model is
   total and lets foreign code complete a task's own future (side condition 2 of notes/C09.md).
   Under the domain condition nec the missing half is an invariant too.

   Vocabulary:
     notaskb s f     f is not the future of any task of s (boolean)
     op_nec s op     op is not OSetResult f / OSetExc f / OFutCancel f with f a task's future
                     (asyncio: Task.set_result / set_exception raise, Task.cancel is not
                     Future.cancel); every other operation is unrestricted
     exec_nec t c s  op_nec for every library call executed while task t runs the code c from s
     action_nec, nec s acts
                     the same for an environment action / a whole run: the ADo operations and every
                     library call of every step taken (run-checked, decided by computation)
     act_nf, nofin   the static sufficient condition: the programs and ADo operations of the run
                     never use OSetResult / OSetExc / OFutCancel at all
     NDH s           no handle of a finished task is in the ready queue (Sched/InterruptNext.v)
     XI c s          the inductive strengthening: (x_dead) a finished task has no queued handle and
                     no wake-up callback on a pending future, (x_alive) the running task c is not
                     finished, (x_ow) the future of task t has owner t, (x_ql, x_qc, x_qe, x_qh) every
                     future id stored in a lock / condition / event waiter table or in a sleep-timer
                     callback is an allocated plain future (owner None), (x_pl, x_pc) the waiter
                     heaps satisfy the heap invariant. *)
From Asynkit Require Import Sched.InterruptNext Sched.InertBase Sched.InertLib Sched.InertRun
     Sched.InertStatic Sched.InertThms.

Theorem C09_finished_tasks_inert :
  (* in every state reachable under actions_ok + nec - list queue, priority queue, priority queue
     with boosting (any factor, any draws) - Inv09 holds, no handle of a finished task is queued,
     a finished task has no handle and no wake-up callback on a pending future *)
  (forall factor draws lks cds nev acts,
     let s0 := init_st false factor draws lks cds nev in
     actions_ok s0 acts -> nec s0 acts ->
     let s := fold_left do_action acts s0 in
     Inv09 qok_list s /\ XI None s /\ NDH s /\
     (forall t, t < List.length (tasks s) -> tdone s t = true ->
        hcnt s t = 0 /\ forall g, fdone s g = false -> ccnt s t g = 0) /\
     ~ In LEInvalidState (errors s)) /\
  (forall draws lks cds nev acts,
     let s0 := init_st true 0 draws lks cds nev in
     actions_ok s0 acts -> nec s0 acts ->
     let s := fold_left do_action acts s0 in
     Inv09 qok_pos s /\ XI None s /\ NDH s /\
     (forall t, t < List.length (tasks s) -> tdone s t = true ->
        hcnt s t = 0 /\ forall g, fdone s g = false -> ccnt s t g = 0) /\
     ~ In LEInvalidState (errors s)) /\
  (forall factor draws lks cds nev acts,
     let s0 := init_st true factor draws lks cds nev in
     actions_ok s0 acts -> nec s0 acts ->
     let s := fold_left do_action acts s0 in
     Inv09 qok_boost s /\ XI None s /\ NDH s /\
     (forall t, t < List.length (tasks s) -> tdone s t = true ->
        hcnt s t = 0 /\ forall g, fdone s g = false -> ccnt s t g = 0) /\
     ~ In LEInvalidState (errors s)) /\
  (* for any ready queue meeting QSpec: XI beside Inv09 through every action, and inside steps
     through every library call and every program, with the running task c not finished *)
  (forall qok, QSpec qok ->
     (forall s a, Inv09 qok s -> XI None s -> action_ok s a -> action_nec s a ->
                  Inv09 qok (do_action s a) /\ XI None (do_action s a)) /\
     (forall c t op s s' r, lib_call t op s = (s', r) -> PartTables.op_ok (List.length (blocks s)) op -> op_nec s op ->
                            InvC qok c s -> XI c s -> InvC qok c s' /\ XI c s') /\
     (forall c t c0 s s' o, exec t c0 s = (s', o) -> coro_ok (List.length (blocks s)) c0 -> exec_nec t c0 s ->
                            InvC qok c s -> XI c s -> InvC qok c s' /\ XI c s') /\
     (forall c s, InvC qok c s -> XI c s -> NDH s)) /\
  (* nec is implied by a syntactic condition on the programs and outside calls of the run *)
  (forall prio factor draws lks cds nev acts,
     Forall act_nf acts -> nec (init_st prio factor draws lks cds nev) acts) /\
  (* and it is what excludes the witness of notes/C09.md *)
  (let acts := [ASpawn SPlain (Ret 0); ADo (OSetResult 0 1)] in
   actions_ok (init_st false 0 [] [] [] 0) acts /\ ~ nec (init_st false 0 [] [] [] 0) acts).
Proof.
  split; [exact inert_reach_list|]. split; [exact inert_reach_pos|]. split; [exact inert_reach_boost|].
  split.
  - intros qok QS. split; [|split; [|split]].
    + intros s a J X Ha Hn. split; [apply (Inv09_action qok QS); auto|apply (inert_action qok QS); auto].
    + intros c t op s s' r E Hop Hn I X.
      destruct (lib_call_KX qok QS c t op s s' r E Hop Hn I X) as [[I' _] X']. auto.
    + intros c t c0 s s' o E Hok Hn I X.
      destruct (exec_KX qok QS c t c0 s s' o E Hok Hn I X) as [[I' _] X']. auto.
    + intros c s I X. exact (NDH_of_inert qok c s I X).
  - split; [exact nec_static_init|exact nec_excludes_witness].
Qed.
Print Assumptions C09_finished_tasks_inert.

(* non-vacuity: a run in which a task completes a PLAIN future with set_result (allowed by nec),
   two tasks finish, a third is cancelled from outside: the hypotheses hold (nec by computation)
   and the three tasks end finished with an empty ready queue and no loop error *)
Example C09_example_inert :
  actions_ok ix_s0 ix_acts /\ nec ix_s0 ix_acts /\
  Inv09 qok_list ix_state /\ NDH ix_state /\
  (forall t, t < List.length (tasks ix_state) -> tdone ix_state t = true ->
     hcnt ix_state t = 0 /\ forall g, fdone ix_state g = false -> ccnt ix_state t g = 0) /\
  tdone ix_state 0 = true /\ tdone ix_state 1 = true /\ tdone ix_state 2 = true /\
  fstate_ (getf ix_state 1) = FResult 7 /\ log ix_state = [(2, 2%Z); (1, 1%Z)] /\
  rq_items (ready ix_state) = [] /\ errors ix_state = [].
Proof. exact inert_example. Qed.
