(* C13 - PriorityLock: mutual exclusion and no lost wake-up under cancel/interrupt.
   Statements over the executable scheduler model (Sched/Model.v), for ALL user programs
   (arbitrary [coro] trees), ALL configurations (both loops, any number of locks, tasks,
   conditions, events) and ALL environment action sequences [acts] that satisfy the side
   condition [run_ok] (Sched/LockProofs.v), which is checked along the run itself:
     - no `OSetResult f`/`OSetExc f` (by user code or by the environment) names the future
       of a *current* PriorityLock waiter - user code cannot obtain that future in the
       real system; cancelling it (OFutCancel/OCancelAw/OCancel, task_throw, task_interrupt,
       timeouts) is allowed at every point;
     - the environment does not call PriorityLock.acquire from outside a task
       (`ADo (OAcquire _)`; the real code asserts current_task() is not None).
   Vocabulary (Sched/LockInv.v): [woken s f] = the future holds a result or an exception
   (done and not cancelled: the test of the repaired _wake_up_first);
   [pq_objs (lpq (getl s l))] = the futures of the waiters queued on lock l. *)
From Coq Require Import QArith.
From Asynkit Require Import Base.Prelude Queue.PQ Queue.PosPQ Queue.Exec Sched.Model Sched.Corr
  Sched.QFacts Sched.LockInv Sched.LockOps Sched.LockLib Sched.LockProofs Sched.LockStatic Sched.LockThms.
Open Scope nat_scope.

(* The inductive invariant (record [Inv], Sched/LockInv.v: I1 ownership bookkeeping,
   well-formed waiter queues, I5 at most one woken waiter and none while owned, lock-waiter
   futures are known to nobody else, handles/callbacks name existing tasks, suspended
   acquire frames are unique and their future is queued) holds in every reachable state. *)
Theorem C13_inv :
  forall (prio_loop : bool) (factor : Q) (draws : list Q) (lks : list lkind)
         (cds : list (ckind * nat)) (nev : nat) (acts : list action),
    run_ok (init_st prio_loop factor draws lks cds nev) acts ->
    Inv (fold_left do_action acts (init_st prio_loop factor draws lks cds nev)).
Proof. exact C13_inv_all. Qed.
Print Assumptions C13_inv.

(* Mutual exclusion, and locked() reflects it: in every reachable state, for every lock l,
   at most one task records l as held and it is the owner; a PriorityTask that owns l
   records it; for a PriorityLock, locked <-> it has an owner; nobody records l twice. *)
Theorem C13_mutex :
  forall prio_loop factor draws lks cds nev acts,
    run_ok (init_st prio_loop factor draws lks cds nev) acts ->
    let s := fold_left do_action acts (init_st prio_loop factor draws lks cds nev) in
    forall l, l < length (locks s) ->
      (forall t1 t2, In l (tholding (gett s t1)) -> In l (tholding (gett s t2)) -> t1 = t2) /\
      (forall t, In l (tholding (gett s t)) -> lowner (getl s l) = Some t) /\
      (forall t, lowner (getl s l) = Some t -> is_prio_task s t = true ->
                 In l (tholding (gett s t))) /\
      (lkind_ (getl s l) = LPrio ->
       (llocked (getl s l) = true <-> exists t, lowner (getl s l) = Some t)) /\
      (forall t, count_occ Nat.eq_dec (tholding (gett s t)) l <= 1).
Proof. intros. eapply mutex_reach; eauto. Qed.
Print Assumptions C13_mutex.

(* I5: at most one queued waiter of a lock has been woken with a result, and none while
   the lock is owned. *)
Theorem C13_at_most_one_woken :
  forall prio_loop factor draws lks cds nev acts,
    run_ok (init_st prio_loop factor draws lks cds nev) acts ->
    let s := fold_left do_action acts (init_st prio_loop factor draws lks cds nev) in
    forall l,
      (forall f1 f2, In f1 (pq_objs (lpq (getl s l))) -> In f2 (pq_objs (lpq (getl s l))) ->
         woken s f1 = true -> woken s f2 = true -> f1 = f2) /\
      (lowner (getl s l) <> None ->
       forall f, In f (pq_objs (lpq (getl s l))) -> woken s f = false).
Proof. intros. eapply one_woken_reach; eauto. Qed.
Print Assumptions C13_at_most_one_woken.

(* `assert self._owning is None` never fails for a woken waiter: whenever the code after
   `await fut` of PriorityLock.acquire is entered in a reachable state with a successful
   wake-up (input RVal) for a queued waiter whose future holds a result, _take_lock
   succeeds and acquire() returns True. *)
Theorem C13_take_lock_only_when_free :
  forall prio_loop factor draws lks cds nev acts,
    run_ok (init_st prio_loop factor draws lks cds nev) acts ->
    let s := fold_left do_action acts (init_st prio_loop factor draws lks cds nev) in
    forall l t f had v v',
      In f (pq_objs (lpq (getl s l))) -> fstate_ (getf s f) = FResult v' ->
      snd (acquire_p_finish s t l f had (RVal v)) = RVal 1 /\
      exists s', take_lock s l t = inl s'.
Proof. intros. eapply take_reach; eauto. Qed.
Print Assumptions C13_take_lock_only_when_free.

(* I4, no lost wake-up (the half about futures): in every reachable state a free
   PriorityLock with waiters has a waiter whose future is done - woken with a result (by
   C13_at_most_one_woken there is at most one such), or cancelled.  The task of a done
   future has been scheduled by Future.__schedule_callbacks / the cancel/interrupt that
   completed it, and its acquire() either takes the lock or, in its finally clause, calls
   _wake_up_first again (lstep_acquire_p_finish).  That the scheduled handle is eventually
   run is a property of the ready queue (C08/C10), not claimed here. *)
Theorem C13_wake_in_flight :
  forall prio_loop factor draws lks cds nev acts,
    run_ok (init_st prio_loop factor draws lks cds nev) acts ->
    let s := fold_left do_action acts (init_st prio_loop factor draws lks cds nev) in
    forall l, lkind_ (getl s l) = LPrio -> llocked (getl s l) = false ->
      pq_objs (lpq (getl s l)) <> [] ->
      exists f, In f (pq_objs (lpq (getl s l))) /\ fdone s f = true.
Proof. intros. eapply wake_in_flight_reach; eauto. Qed.
Print Assumptions C13_wake_in_flight.

(* A static class on which the side condition always holds: programs that never call
   set_result / set_exception on a future ([nosr]: no `Call (OSetResult _ _) _` /
   `Call (OSetExc _ _) _` anywhere in the tree, children included), spawned and driven by
   environment actions that do not either and do not acquire from outside a task
   ([act_static]).  Every harness script without OSetResult/OSetExc denotes such a program
   (in particular all C13 worker scripts over {acquire, release, sleep(0), wait event} and
   all environment sequences over {step, cancel, task_throw, task_interrupt, set event}). *)
Theorem C13_static_side_condition :
  (forall prio_loop factor draws lks cds nev acts,
     Forall act_static acts -> run_ok (init_st prio_loop factor draws lks cds nev) acts) /\
  (forall s : script, script_plain s -> nosr (denote_task s)) /\
  (forall how c, act_static (ASpawn how c) <-> nosr c) /\
  (forall op, act_static (ADo op) <->
     (match op with OSetResult _ _ | OSetExc _ _ => False | _ => True end) /\
     (match op with OAcquire _ => true | _ => false end) = false).
Proof.
  split; [exact run_ok_static_init|]. split; [exact denote_task_nosr|].
  split; [intros; reflexivity|intros; reflexivity].
Qed.
Print Assumptions C13_static_side_condition.

(* hence, unconditionally on that class: the invariant, mutual exclusion and the wake-up
   in flight *)
Theorem C13_static :
  forall prio_loop factor draws lks cds nev acts,
    Forall act_static acts ->
    let s := fold_left do_action acts (init_st prio_loop factor draws lks cds nev) in
    Inv s /\
    (forall l, l < length (locks s) ->
       (forall t1 t2, In l (tholding (gett s t1)) -> In l (tholding (gett s t2)) -> t1 = t2) /\
       (forall t, In l (tholding (gett s t)) -> lowner (getl s l) = Some t) /\
       (forall t, lowner (getl s l) = Some t -> is_prio_task s t = true -> In l (tholding (gett s t))) /\
       (lkind_ (getl s l) = LPrio ->
        (llocked (getl s l) = true <-> exists t, lowner (getl s l) = Some t)) /\
       (forall t, count_occ Nat.eq_dec (tholding (gett s t)) l <= 1)) /\
    (forall l f1 f2, In f1 (pq_objs (lpq (getl s l))) -> In f2 (pq_objs (lpq (getl s l))) ->
       woken s f1 = true -> woken s f2 = true -> f1 = f2) /\
    (forall l f, lowner (getl s l) <> None -> In f (pq_objs (lpq (getl s l))) -> woken s f = false) /\
    (forall l, lkind_ (getl s l) = LPrio -> llocked (getl s l) = false ->
       pq_objs (lpq (getl s l)) <> [] ->
       exists f, In f (pq_objs (lpq (getl s l))) /\ fdone s f = true).
Proof.
  intros until acts. intros H s. destruct (static_reach prio_loop factor draws lks cds nev acts H) as [I W].
  fold s in I, W. split; [exact I|]. split; [intros l Hl; now apply mutex_of_inv|].
  split; [intros l; apply (iC1 I l)|]. split; [intros l f Ho; apply (iC2 I l f Ho)|exact W].
Qed.
Print Assumptions C13_static.

(* Non-vacuity: a reachable state with an owner and two queued contenders (suspended in
   `await fut` of acquire); a reachable state with a free lock and exactly one woken waiter
   that is no longer the heap head; and the run ends with everybody served. *)
Theorem C13_examples :
  (reachable stA /\ objs stA 0 = [3; 4] /\ lowner (getl stA 0) = Some 0 /\
   llocked (getl stA 0) = true /\ tholding (gett stA 0) = [0] /\
   tframes stA 1 = [InFut 3; InAcquireP 0 3 true] /\ tframes stA 2 = [InFut 4; InAcquireP 0 4 true]) /\
  (reachable stB /\ objs stB 0 = [6; 4; 3] /\ lowner (getl stB 0) = None /\
   map (woken stB) [6; 4; 3] = [false; false; true] /\
   map (fun f => fstate_ (getf stB f)) [6; 4; 3] = [FPending; FCancelled; FResult 1]) /\
  (reachable stC /\
   map (fun t => fstate_ (getf stC (tfut t))) (tasks stC) = [FResult 0; FResult 0; FCancelled; FResult 0] /\
   objs stC 0 = [] /\ lowner (getl stC 0) = None /\ llocked (getl stC 0) = false /\
   map (fun t => (tholding t, twaiting t)) (tasks stC) = [([], None); ([], None); ([], None); ([], None)]).
Proof. exact (conj two_contenders (conj hand_over_in_progress all_served)). Qed.
Print Assumptions C13_examples.

(* The code before the fix (_wake_up_first wakes the head whenever it is not done) breaks
   I5 and mutual exclusion: in the reachable state stB (W1 woken by release(); the more
   urgent W0 queued in front of it; W2 cancelled) the finally clause of W2 wakes the new
   head W0 as well; W1 takes the lock and W0 then fails `assert self._owning is None`
   (two owners under python -O).  The repaired finally clause wakes nobody. *)
Theorem C13_refuted_before_fix :
  reachable stB /\
  (In 6 (objs stB_old 0) /\ In 3 (objs stB_old 0) /\ woken stB_old 6 = true /\ woken stB_old 3 = true) /\
  ~ Inv stB_old /\
  snd (acquire_p_finish_old stB_old 1 0 3 true (RVal 0)) = RVal 1 /\
  snd (acquire_p_finish_old stB_old2 3 0 6 true (RVal 0)) = RExc EAssertion /\
  map (woken (fst (acquire_p_finish stB 2 0 4 true (RExc ECancelled)))) [6; 3] = [false; true].
Proof. exact refuted_before_fix. Qed.
Print Assumptions C13_refuted_before_fix.

(* ====================================================================================
   Second round (Sched/LockLive.v): the link between a queued waiter and its task, and -
   combined with the C09 partition invariant Inv09 (Sched/Partition*.v) - the ready-queue
   half of "no lost wake-up", quiescent cleanliness and FIFO progress on the list loop.

   New invariant LV, proved through all actions for all programs under run_ok alone:
     - converse of I2: every future queued on a PriorityLock belongs to an acquire frame
       `InAcquireP l f` stored in some task's suspended stack (or, inside a step, held by the
       running computation) - with Inv (I2): exactly one task, stack = InFut f :: InAcquireP l f ..;
     - a task whose _fut_waiter is f is suspended in `await f` (top frame InFut f).
   The waiter's task is identified through its FRAME, not through the model's `lwt` table:
   for an acquire started inside asynkit.eager() the model records the parent in `lwt`
   (asyncio.current_task() at that time) while the continuation task resumes the frame.

   Additional side conditions:
     - PartitionRun.actions_ok (C09): task_timeout exits use a block id of an earlier enter;
     - hypothesis "no external completion" on the state considered: a task whose future is
       done has no suspended frames.  The model lets user code call set_result / set_exception
       / Future.cancel on a TASK's own future (real asyncio.Task raises RuntimeError; C09 note,
       side condition 2), which leaves a "done" task that never resumes its frames.
   Vocabulary (Sched/PartTables.v): hcnt s t = number of ready-queue entries that are step /
   wake-up handles of task t (cancelled handles are never task handles, i_canc);
   ccnt s t g = number of wake-up callbacks of t on future g; bo s t = the PENDING future t
   waits on. *)
From Asynkit Require Import Sched.LockLive.
From Asynkit Require Sched.PartTables Sched.PartitionRun.
From RecordUpdate Require Import RecordUpdate.
Import RecordSetNotations.

(* converse of I2, and _fut_waiter vs. top frame: in every reachable state (both loops) *)
Theorem C13_waiter_link :
  forall prio_loop factor draws lks cds nev acts,
    run_ok (init_st prio_loop factor draws lks cds nev) acts ->
    let s := fold_left do_action acts (init_st prio_loop factor draws lks cds nev) in
    (forall l f, In f (pq_objs (lpq (getl s l))) ->
       exists t had rest, t < length (tasks s) /\
                          tframes s t = InFut f :: InAcquireP l f had :: rest) /\
    (forall t f, twaiter (gett s t) = Some f -> exists rest, tframes s t = InFut f :: rest).
Proof. exact waiter_link_reach. Qed.
Print Assumptions C13_waiter_link.

(* I3: in every reachable state (both loops) the task of every queued waiter (f on lock l) is
   not done and is either blocked on f (f pending, _fut_waiter = f, exactly one wake-up
   callback on f, no handle in the ready queue) or runnable with exactly one handle in the
   ready queue and no wake-up callback on any pending future (f done: woken or cancelled; or
   f still pending and the task thrown into / interrupted: _fut_waiter cleared) *)
Theorem C13_waiter_states :
  forall prio_loop factor draws lks cds nev acts,
    let s0 := init_st prio_loop factor draws lks cds nev in
    run_ok s0 acts -> PartitionRun.actions_ok s0 acts ->
    let s := fold_left do_action acts s0 in
    (forall t, tdone s t = true -> tframes s t = []) ->
    forall l f, In f (pq_objs (lpq (getl s l))) ->
    exists t had rest,
      t < length (tasks s) /\ tframes s t = InFut f :: InAcquireP l f had :: rest /\
      tdone s t = false /\
      ((fdone s f = false /\ twaiter (gett s t) = Some f /\
        PartTables.hcnt s t = 0 /\ PartTables.ccnt s t f = 1) \/
       (PartTables.bo s t = None /\ PartTables.hcnt s t = 1 /\
        forall g, fdone s g = false -> PartTables.ccnt s t g = 0)).
Proof. exact waiter_states_reach. Qed.
Print Assumptions C13_waiter_states.

(* I4 in full (no lost wake-up): in every reachable state (both loops) a FREE PriorityLock
   with waiters has a queued waiter whose future is done - woken with a result, or cancelled -
   and whose task is not done, is suspended in acquire()'s `await fut`, and has exactly one
   handle in the ready queue (and is not waiting on anything pending): it is scheduled to run,
   and its resumption takes the lock or passes the wake-up on in the finally clause
   (lstep_acquire_p_finish, WF4) *)
Theorem C13_wake_in_flight_full :
  forall prio_loop factor draws lks cds nev acts,
    let s0 := init_st prio_loop factor draws lks cds nev in
    run_ok s0 acts -> PartitionRun.actions_ok s0 acts ->
    let s := fold_left do_action acts s0 in
    (forall t, tdone s t = true -> tframes s t = []) ->
    forall l, lkind_ (getl s l) = LPrio -> llocked (getl s l) = false ->
      pq_objs (lpq (getl s l)) <> [] ->
    exists f t had rest,
      In f (pq_objs (lpq (getl s l))) /\ fdone s f = true /\
      (woken s f = true \/ fcancelled s f = true) /\
      t < length (tasks s) /\ tframes s t = InFut f :: InAcquireP l f had :: rest /\
      tdone s t = false /\ PartTables.hcnt s t = 1 /\ PartTables.bo s t = None /\
      (forall g, fdone s g = false -> PartTables.ccnt s t g = 0).
Proof. exact wake_in_flight_full_reach. Qed.
Print Assumptions C13_wake_in_flight_full.

(* quiescent cleanliness: in a reachable state (both loops) in which every task is done, no
   task's future was completed from outside, and no lock is owned by a finished task
   ("bracketed" programs: every release in finally position - hypothesis), every PriorityLock
   has no owner, is unlocked, has an empty waiter queue, nobody records it as held, and no
   acquire (or any other) frame is left anywhere *)
Theorem C13_quiescent_clean :
  forall prio_loop factor draws lks cds nev acts,
    run_ok (init_st prio_loop factor draws lks cds nev) acts ->
    let s := fold_left do_action acts (init_st prio_loop factor draws lks cds nev) in
    (forall t, t < length (tasks s) -> tdone s t = true) ->
    (forall t, tdone s t = true -> tframes s t = []) ->
    (forall l t, lowner (getl s l) = Some t -> tdone s t = false) ->
    forall l, l < length (locks s) -> lkind_ (getl s l) = LPrio ->
      lowner (getl s l) = None /\ llocked (getl s l) = false /\ pq_objs (lpq (getl s l)) = [] /\
      (forall t, ~ In l (tholding (gett s t))) /\
      (forall t fr, In fr (tframes s t) -> False).
Proof. exact quiescent_clean_reach. Qed.
Print Assumptions C13_quiescent_clean.

(* FIFO progress on the list loop.  [steps i s] = i times AStep; [fifo i s] = each of these i
   steps leaves the rest of the list queue in place and only appends at its tail (no
   call_pos / task_reinsert / task_throw removal among them).
   (a) a handle at position i of the queue is at the head after i such steps and the
       (i+1)-th AStep pops and runs it;
   (b) in a reachable state where a PriorityLock is free with waiters, a live handle of a
       waiter task (future done, task not done) sits at some position i < len(ready), hence
       runs within len(ready) steps *)
Theorem C13_progress_list :
  (forall s q i, ready s = RList q -> i < length q -> fifo i s ->
     exists rest, ready (steps i s) = RList (nth i q 0 :: rest) /\
       do_action (steps i s) AStep =
         (let s1 := (steps i s) <| ready := RList rest |> in
          if hcancelled (geth s1 (nth i q 0)) then s1
          else run_callback (hcb (geth s1 (nth i q 0))) s1)) /\
  (forall factor draws lks cds nev acts,
    let s0 := init_st false factor draws lks cds nev in
    run_ok s0 acts -> PartitionRun.actions_ok s0 acts ->
    let s := fold_left do_action acts s0 in
    (forall t, tdone s t = true -> tframes s t = []) ->
    forall l, lkind_ (getl s l) = LPrio -> llocked (getl s l) = false ->
      pq_objs (lpq (getl s l)) <> [] ->
    exists q f t had rest i,
      ready s = RList q /\
      In f (pq_objs (lpq (getl s l))) /\ fdone s f = true /\
      tframes s t = InFut f :: InAcquireP l f had :: rest /\ tdone s t = false /\
      i < length q /\ task_of_handle s (nth i q 0) = Some t /\
      hcancelled (geth s (nth i q 0)) = false /\
      (fifo i s -> exists rest', ready (steps i s) = RList (nth i q 0 :: rest') /\
         do_action (steps i s) AStep =
           (let s1 := (steps i s) <| ready := RList rest' |> in
            if hcancelled (geth s1 (nth i q 0)) then s1
            else run_callback (hcb (geth s1 (nth i q 0))) s1))).
Proof. split; [exact handle_runs_in_turn|exact progress_list_reach]. Qed.
Print Assumptions C13_progress_list.

(* non-vacuity on the run of C13_examples (list loop): in stB the lock is free and the woken
   waiter has exactly one handle; the queue is [W2's wake-up; W1's wake-up], the first step only
   pops, the second runs W1 to completion; in stC everything is clean *)
Theorem C13_second_round_examples :
  (exists f t had rest,
    In f (objs stB 0) /\ fdone stB f = true /\ (woken stB f = true \/ fcancelled stB f = true) /\
    t < length (tasks stB) /\ tframes stB t = InFut f :: InAcquireP 0 f had :: rest /\
    tdone stB t = false /\ PartTables.hcnt stB t = 1 /\ PartTables.bo stB t = None /\
    (forall g, fdone stB g = false -> PartTables.ccnt stB t g = 0)) /\
  (ready stB = RList [7; 5] /\ task_of_handle stB 5 = Some 1 /\ fifo 1 stB /\
   ready (steps 1 stB) = RList [5] /\ tdone (steps 2 stB) 1 = true) /\
  (lowner (getl stC 0) = None /\ llocked (getl stC 0) = false /\ pq_objs (lpq (getl stC 0)) = [] /\
   (forall t, ~ In 0 (tholding (gett stC t))) /\ (forall t fr, In fr (tframes stC t) -> False)).
Proof. exact (conj stB_wake_in_flight (conj stB_progress stC_quiescent)). Qed.
Print Assumptions C13_second_round_examples.
