(* C13 - PriorityLock: mutual exclusion and no lost wake-up under cancel/interrupt.
   Statements over the executable scheduler model (Sched/Model.v), for ALL user programs
   (arbitrary [coro] trees), ALL configurations (both loops, any number of locks, tasks,
   conditions, events) and ALL environment action sequences [acts] that satisfy the side
   condition [run_ok] (Sched/LockProofs.v), which is checked along the run itself:
     - no `OSetResult f`/`OSetExc f` (by user code or by the environment) names the future
       of a *current* PriorityLock waiter - user code cannot obtain that future in the
       real system; cancelling it (OFutCancel/OCancelAw/OCancel, task_throw, task_interrupt,
       timeouts) is allowed at every point;
     - the environment does not call PriorityLock.acquire from outside a task
       (`ADo (OAcquire _)`; the real code asserts current_task() is not None).
   Vocabulary (Sched/LockInv.v): [woken s f] = the future holds a result or an exception
   (done and not cancelled: the test of the repaired _wake_up_first);
   [pq_objs (lpq (getl s l))] = the futures of the waiters queued on lock l. *)
From Coq Require Import QArith.
From Asynkit Require Import Base.Prelude Queue.PQ Queue.PosPQ Queue.Exec Sched.Model Sched.Corr
  Sched.QFacts Sched.LockInv Sched.LockOps Sched.LockLib Sched.LockProofs Sched.LockStatic Sched.LockThms.
Open Scope nat_scope.

(* The inductive invariant (record [Inv], Sched/LockInv.v: I1 ownership bookkeeping,
   well-formed waiter queues, I5 at most one woken waiter and none while owned, lock-waiter
   futures are known to nobody else, handles/callbacks name existing tasks, suspended
   acquire frames are unique and their future is queued) holds in every reachable state. *)
Theorem C13_inv :
  forall (prio_loop : bool) (factor : Q) (draws : list Q) (lks : list lkind)
         (cds : list (ckind * nat)) (nev : nat) (acts : list action),
    run_ok (init_st prio_loop factor draws lks cds nev) acts ->
    Inv (fold_left do_action acts (init_st prio_loop factor draws lks cds nev)).
Proof. exact C13_inv_all. Qed.
Print Assumptions C13_inv.

(* Mutual exclusion, and locked() reflects it: in every reachable state, for every lock l,
   at most one task records l as held and it is the owner; a PriorityTask that owns l
   records it; for a PriorityLock, locked <-> it has an owner; nobody records l twice. *)
Theorem C13_mutex :
  forall prio_loop factor draws lks cds nev acts,
    run_ok (init_st prio_loop factor draws lks cds nev) acts ->
    let s := fold_left do_action acts (init_st prio_loop factor draws lks cds nev) in
    forall l, l < length (locks s) ->
      (forall t1 t2, In l (tholding (gett s t1)) -> In l (tholding (gett s t2)) -> t1 = t2) /\
      (forall t, In l (tholding (gett s t)) -> lowner (getl s l) = Some t) /\
      (forall t, lowner (getl s l) = Some t -> is_prio_task s t = true ->
                 In l (tholding (gett s t))) /\
      (lkind_ (getl s l) = LPrio ->
       (llocked (getl s l) = true <-> exists t, lowner (getl s l) = Some t)) /\
      (forall t, count_occ Nat.eq_dec (tholding (gett s t)) l <= 1).
Proof. intros. eapply mutex_reach; eauto. Qed.
Print Assumptions C13_mutex.

(* I5: at most one queued waiter of a lock has been woken with a result, and none while
   the lock is owned. *)
Theorem C13_at_most_one_woken :
  forall prio_loop factor draws lks cds nev acts,
    run_ok (init_st prio_loop factor draws lks cds nev) acts ->
    let s := fold_left do_action acts (init_st prio_loop factor draws lks cds nev) in
    forall l,
      (forall f1 f2, In f1 (pq_objs (lpq (getl s l))) -> In f2 (pq_objs (lpq (getl s l))) ->
         woken s f1 = true -> woken s f2 = true -> f1 = f2) /\
      (lowner (getl s l) <> None ->
       forall f, In f (pq_objs (lpq (getl s l))) -> woken s f = false).
Proof. intros. eapply one_woken_reach; eauto. Qed.
Print Assumptions C13_at_most_one_woken.

(* `assert self._owning is None` never fails for a woken waiter: whenever the code after
   `await fut` of PriorityLock.acquire is entered in a reachable state with a successful
   wake-up (input RVal) for a queued waiter whose future holds a result, _take_lock
   succeeds and acquire() returns True. *)
Theorem C13_take_lock_only_when_free :
  forall prio_loop factor draws lks cds nev acts,
    run_ok (init_st prio_loop factor draws lks cds nev) acts ->
    let s := fold_left do_action acts (init_st prio_loop factor draws lks cds nev) in
    forall l t f had v v',
      In f (pq_objs (lpq (getl s l))) -> fstate_ (getf s f) = FResult v' ->
      snd (acquire_p_finish s t l f had (RVal v)) = RVal 1 /\
      exists s', take_lock s l t = inl s'.
Proof. intros. eapply take_reach; eauto. Qed.
Print Assumptions C13_take_lock_only_when_free.

(* I4, no lost wake-up (the half about futures): in every reachable state a free
   PriorityLock with waiters has a waiter whose future is done - woken with a result (by
   C13_at_most_one_woken there is at most one such), or cancelled.  The task of a done
   future has been scheduled by Future.__schedule_callbacks / the cancel/interrupt that
   completed it, and its acquire() either takes the lock or, in its finally clause, calls
   _wake_up_first again (lstep_acquire_p_finish).  That the scheduled handle is eventually
   run is a property of the ready queue (C08/C10), not claimed here. *)
Theorem C13_wake_in_flight :
  forall prio_loop factor draws lks cds nev acts,
    run_ok (init_st prio_loop factor draws lks cds nev) acts ->
    let s := fold_left do_action acts (init_st prio_loop factor draws lks cds nev) in
    forall l, lkind_ (getl s l) = LPrio -> llocked (getl s l) = false ->
      pq_objs (lpq (getl s l)) <> [] ->
      exists f, In f (pq_objs (lpq (getl s l))) /\ fdone s f = true.
Proof. intros. eapply wake_in_flight_reach; eauto. Qed.
Print Assumptions C13_wake_in_flight.

(* A static class on which the side condition always holds: programs that never call
   set_result / set_exception on a future ([nosr]: no `Call (OSetResult _ _) _` /
   `Call (OSetExc _ _) _` anywhere in the tree, children included), spawned and driven by
   environment actions that do not either and do not acquire from outside a task
   ([act_static]).  Every harness script without OSetResult/OSetExc denotes such a program
   (in particular all C13 worker scripts over {acquire, release, sleep(0), wait event} and
   all environment sequences over {step, cancel, task_throw, task_interrupt, set event}). *)
Theorem C13_static_side_condition :
  (forall prio_loop factor draws lks cds nev acts,
     Forall act_static acts -> run_ok (init_st prio_loop factor draws lks cds nev) acts) /\
  (forall s : script, script_plain s -> nosr (denote_task s)) /\
  (forall how c, act_static (ASpawn how c) <-> nosr c) /\
  (forall op, act_static (ADo op) <->
     (match op with OSetResult _ _ | OSetExc _ _ => False | _ => True end) /\
     (match op with OAcquire _ => true | _ => false end) = false).
Proof.
  split; [exact run_ok_static_init|]. split; [exact denote_task_nosr|].
  split; [intros; reflexivity|intros; reflexivity].
Qed.
Print Assumptions C13_static_side_condition.

(* hence, unconditionally on that class: the invariant, mutual exclusion and the wake-up
   in flight *)
Theorem C13_static :
  forall prio_loop factor draws lks cds nev acts,
    Forall act_static acts ->
    let s := fold_left do_action acts (init_st prio_loop factor draws lks cds nev) in
    Inv s /\
    (forall l, l < length (locks s) ->
       (forall t1 t2, In l (tholding (gett s t1)) -> In l (tholding (gett s t2)) -> t1 = t2) /\
       (forall t, In l (tholding (gett s t)) -> lowner (getl s l) = Some t) /\
       (forall t, lowner (getl s l) = Some t -> is_prio_task s t = true -> In l (tholding (gett s t))) /\
       (lkind_ (getl s l) = LPrio ->
        (llocked (getl s l) = true <-> exists t, lowner (getl s l) = Some t)) /\
       (forall t, count_occ Nat.eq_dec (tholding (gett s t)) l <= 1)) /\
    (forall l f1 f2, In f1 (pq_objs (lpq (getl s l))) -> In f2 (pq_objs (lpq (getl s l))) ->
       woken s f1 = true -> woken s f2 = true -> f1 = f2) /\
    (forall l f, lowner (getl s l) <> None -> In f (pq_objs (lpq (getl s l))) -> woken s f = false) /\
    (forall l, lkind_ (getl s l) = LPrio -> llocked (getl s l) = false ->
       pq_objs (lpq (getl s l)) <> [] ->
       exists f, In f (pq_objs (lpq (getl s l))) /\ fdone s f = true).
Proof.
  intros until acts. intros H s. destruct (static_reach prio_loop factor draws lks cds nev acts H) as [I W].
  fold s in I, W. split; [exact I|]. split; [intros l Hl; now apply mutex_of_inv|].
  split; [intros l; apply (iC1 I l)|]. split; [intros l f Ho; apply (iC2 I l f Ho)|exact W].
Qed.
Print Assumptions C13_static.

(* Non-vacuity: a reachable state with an owner and two queued contenders (suspended in
   `await fut` of acquire); a reachable state with a free lock and exactly one woken waiter
   that is no longer the heap head; and the run ends with everybody served. *)
Theorem C13_examples :
  (reachable stA /\ objs stA 0 = [3; 4] /\ lowner (getl stA 0) = Some 0 /\
   llocked (getl stA 0) = true /\ tholding (gett stA 0) = [0] /\
   tframes stA 1 = [InFut 3; InAcquireP 0 3 true] /\ tframes stA 2 = [InFut 4; InAcquireP 0 4 true]) /\
  (reachable stB /\ objs stB 0 = [6; 4; 3] /\ lowner (getl stB 0) = None /\
   map (woken stB) [6; 4; 3] = [false; false; true] /\
   map (fun f => fstate_ (getf stB f)) [6; 4; 3] = [FPending; FCancelled; FResult 1]) /\
  (reachable stC /\
   map (fun t => fstate_ (getf stC (tfut t))) (tasks stC) = [FResult 0; FResult 0; FCancelled; FResult 0] /\
   objs stC 0 = [] /\ lowner (getl stC 0) = None /\ llocked (getl stC 0) = false /\
   map (fun t => (tholding t, twaiting t)) (tasks stC) = [([], None); ([], None); ([], None); ([], None)]).
Proof. exact (conj two_contenders (conj hand_over_in_progress all_served)). Qed.
Print Assumptions C13_examples.

(* The code before the fix (_wake_up_first wakes the head whenever it is not done) breaks
   I5 and mutual exclusion: in the reachable state stB (W1 woken by release(); the more
   urgent W0 queued in front of it; W2 cancelled) the finally clause of W2 wakes the new
   head W0 as well; W1 takes the lock and W0 then fails `assert self._owning is None`
   (two owners under python -O).  The repaired finally clause wakes nobody. *)
Theorem C13_refuted_before_fix :
  reachable stB /\
  (In 6 (objs stB_old 0) /\ In 3 (objs stB_old 0) /\ woken stB_old 6 = true /\ woken stB_old 3 = true) /\
  ~ Inv stB_old /\
  snd (acquire_p_finish_old stB_old 1 0 3 true (RVal 0)) = RVal 1 /\
  snd (acquire_p_finish_old stB_old2 3 0 6 true (RVal 0)) = RExc EAssertion /\
  map (woken (fst (acquire_p_finish stB 2 0 4 true (RExc ECancelled)))) [6; 3] = [false; true].
Proof. exact refuted_before_fix. Qed.
Print Assumptions C13_refuted_before_fix.

(* ====================================================================================
   Second round (Sched/LockLive.v): the link between a queued waiter and its task, and -
   combined with the C09 partition invariant Inv09 (Sched/Partition*.v) - the ready-queue
   half of "no lost wake-up", quiescent cleanliness and FIFO progress on the list loop.

   New invariant LV, proved through all actions for all programs under run_ok alone:
     - converse of I2: every future queued on a PriorityLock belongs to an acquire frame
       `InAcquireP l f` stored in some task's suspended stack (or, inside a step, held by the
       running computation) - with Inv (I2): exactly one task, stack = InFut f :: InAcquireP l f ..;
     - a task whose _fut_waiter is f is suspended in `await f` (top frame InFut f).
   The waiter's task is identified through its FRAME, not through the model's `lwt` table:
   for an acquire started inside asynkit.eager() the model records the parent in `lwt`
   (asyncio.current_task() at that time) while the continuation task resumes the frame.

   Additional side conditions:
     - PartitionRun.actions_ok (C09): task_timeout exits use a block id of an earlier enter;
     - hypothesis "no external completion" on the state considered: a task whose future is
       done has no suspended frames.  The model lets user code call set_result / set_exception
       / Future.cancel on a TASK's own future (real asyncio.Task raises RuntimeError; C09 note,
       side condition 2), which leaves a "done" task that never resumes its frames.
   Vocabulary (Sched/PartTables.v): hcnt s t = number of ready-queue entries that are step /
   wake-up handles of task t (cancelled handles are never task handles, i_canc);
   ccnt s t g = number of wake-up callbacks of t on future g; bo s t = the PENDING future t
   waits on. *)
From Asynkit Require Import Sched.LockLive.
From Asynkit Require Sched.PartTables Sched.PartitionRun.
From RecordUpdate Require Import RecordUpdate.
Import RecordSetNotations.

(* converse of I2, and _fut_waiter vs. top frame: in every reachable state (both loops) *)
Theorem C13_waiter_link :
  forall prio_loop factor draws lks cds nev acts,
    run_ok (init_st prio_loop factor draws lks cds nev) acts ->
    let s := fold_left do_action acts (init_st prio_loop factor draws lks cds nev) in
    (forall l f, In f (pq_objs (lpq (getl s l))) ->
       exists t had rest, t < length (tasks s) /\
                          tframes s t = InFut f :: InAcquireP l f had :: rest) /\
    (forall t f, twaiter (gett s t) = Some f -> exists rest, tframes s t = InFut f :: rest).
Proof. exact waiter_link_reach. Qed.
Print Assumptions C13_waiter_link.

(* I3: in every reachable state (both loops) the task of every queued waiter (f on lock l) is
   not done and is either blocked on f (f pending, _fut_waiter = f, exactly one wake-up
   callback on f, no handle in the ready queue) or runnable with exactly one handle in the
   ready queue and no wake-up callback on any pending future (f done: woken or cancelled; or
   f still pending and the task thrown into / interrupted: _fut_waiter cleared) *)
Theorem C13_waiter_states :
  forall prio_loop factor draws lks cds nev acts,
    let s0 := init_st prio_loop factor draws lks cds nev in
    run_ok s0 acts -> PartitionRun.actions_ok s0 acts ->
    let s := fold_left do_action acts s0 in
    (forall t, tdone s t = true -> tframes s t = []) ->
    forall l f, In f (pq_objs (lpq (getl s l))) ->
    exists t had rest,
      t < length (tasks s) /\ tframes s t = InFut f :: InAcquireP l f had :: rest /\
      tdone s t = false /\
      ((fdone s f = false /\ twaiter (gett s t) = Some f /\
        PartTables.hcnt s t = 0 /\ PartTables.ccnt s t f = 1) \/
       (PartTables.bo s t = None /\ PartTables.hcnt s t = 1 /\
        forall g, fdone s g = false -> PartTables.ccnt s t g = 0)).
Proof. exact waiter_states_reach. Qed.
Print Assumptions C13_waiter_states.

(* I4 in full (no lost wake-up): in every reachable state (both loops) a FREE PriorityLock
   with waiters has a queued waiter whose future is done - woken with a result, or cancelled -
   and whose task is not done, is suspended in acquire()'s `await fut`, and has exactly one
   handle in the ready queue (and is not waiting on anything pending): it is scheduled to run,
   and its resumption takes the lock or passes the wake-up on in the finally clause
   (lstep_acquire_p_finish, WF4) *)
Theorem C13_wake_in_flight_full :
  forall prio_loop factor draws lks cds nev acts,
    let s0 := init_st prio_loop factor draws lks cds nev in
    run_ok s0 acts -> PartitionRun.actions_ok s0 acts ->
    let s := fold_left do_action acts s0 in
    (forall t, tdone s t = true -> tframes s t = []) ->
    forall l, lkind_ (getl s l) = LPrio -> llocked (getl s l) = false ->
      pq_objs (lpq (getl s l)) <> [] ->
    exists f t had rest,
      In f (pq_objs (lpq (getl s l))) /\ fdone s f = true /\
      (woken s f = true \/ fcancelled s f = true) /\
      t < length (tasks s) /\ tframes s t = InFut f :: InAcquireP l f had :: rest /\
      tdone s t = false /\ PartTables.hcnt s t = 1 /\ PartTables.bo s t = None /\
      (forall g, fdone s g = false -> PartTables.ccnt s t g = 0).
Proof. exact wake_in_flight_full_reach. Qed.
Print Assumptions C13_wake_in_flight_full.

(* quiescent cleanliness: in a reachable state (both loops) in which every task is done, no
   task's future was completed from outside, and no lock is owned by a finished task
   ("bracketed" programs: every release in finally position - hypothesis), every PriorityLock
   has no owner, is unlocked, has an empty waiter queue, nobody records it as held, and no
   acquire (or any other) frame is left anywhere *)
Theorem C13_quiescent_clean :
  forall prio_loop factor draws lks cds nev acts,
    run_ok (init_st prio_loop factor draws lks cds nev) acts ->
    let s := fold_left do_action acts (init_st prio_loop factor draws lks cds nev) in
    (forall t, t < length (tasks s) -> tdone s t = true) ->
    (forall t, tdone s t = true -> tframes s t = []) ->
    (forall l t, lowner (getl s l) = Some t -> tdone s t = false) ->
    forall l, l < length (locks s) -> lkind_ (getl s l) = LPrio ->
      lowner (getl s l) = None /\ llocked (getl s l) = false /\ pq_objs (lpq (getl s l)) = [] /\
      (forall t, ~ In l (tholding (gett s t))) /\
      (forall t fr, In fr (tframes s t) -> False).
Proof. exact quiescent_clean_reach. Qed.
Print Assumptions C13_quiescent_clean.

(* FIFO progress on the list loop.  [steps i s] = i times AStep; [fifo i s] = each of these i
   steps leaves the rest of the list queue in place and only appends at its tail (no
   call_pos / task_reinsert / task_throw removal among them).
   (a) a handle at position i of the queue is at the head after i such steps and the
       (i+1)-th AStep pops and runs it;
   (b) in a reachable state where a PriorityLock is free with waiters, a live handle of a
       waiter task (future done, task not done) sits at some position i < len(ready), hence
       runs within len(ready) steps *)
Theorem C13_progress_list :
  (forall s q i, ready s = RList q -> i < length q -> fifo i s ->
     exists rest, ready (steps i s) = RList (nth i q 0 :: rest) /\
       do_action (steps i s) AStep =
         (let s1 := (steps i s) <| ready := RList rest |> in
          if hcancelled (geth s1 (nth i q 0)) then s1
          else run_callback (hcb (geth s1 (nth i q 0))) s1)) /\
  (forall factor draws lks cds nev acts,
    let s0 := init_st false factor draws lks cds nev in
    run_ok s0 acts -> PartitionRun.actions_ok s0 acts ->
    let s := fold_left do_action acts s0 in
    (forall t, tdone s t = true -> tframes s t = []) ->
    forall l, lkind_ (getl s l) = LPrio -> llocked (getl s l) = false ->
      pq_objs (lpq (getl s l)) <> [] ->
    exists q f t had rest i,
      ready s = RList q /\
      In f (pq_objs (lpq (getl s l))) /\ fdone s f = true /\
      tframes s t = InFut f :: InAcquireP l f had :: rest /\ tdone s t = false /\
      i < length q /\ task_of_handle s (nth i q 0) = Some t /\
      hcancelled (geth s (nth i q 0)) = false /\
      (fifo i s -> exists rest', ready (steps i s) = RList (nth i q 0 :: rest') /\
         do_action (steps i s) AStep =
           (let s1 := (steps i s) <| ready := RList rest' |> in
            if hcancelled (geth s1 (nth i q 0)) then s1
            else run_callback (hcb (geth s1 (nth i q 0))) s1))).
Proof. split; [exact handle_runs_in_turn|exact progress_list_reach]. Qed.
Print Assumptions C13_progress_list.

(* non-vacuity on the run of C13_examples (list loop): in stB the lock is free and the woken
   waiter has exactly one handle; the queue is [W2's wake-up; W1's wake-up], the first step only
   pops, the second runs W1 to completion; in stC everything is clean *)
Theorem C13_second_round_examples :
  (exists f t had rest,
    In f (objs stB 0) /\ fdone stB f = true /\ (woken stB f = true \/ fcancelled stB f = true) /\
    t < length (tasks stB) /\ tframes stB t = InFut f :: InAcquireP 0 f had :: rest /\
    tdone stB t = false /\ PartTables.hcnt stB t = 1 /\ PartTables.bo stB t = None /\
    (forall g, fdone stB g = false -> PartTables.ccnt stB t g = 0)) /\
  (ready stB = RList [7; 5] /\ task_of_handle stB 5 = Some 1 /\ fifo 1 stB /\
   ready (steps 1 stB) = RList [5] /\ tdone (steps 2 stB) 1 = true) /\
  (lowner (getl stC 0) = None /\ llocked (getl stC 0) = false /\ pq_objs (lpq (getl stC 0)) = [] /\
   (forall t, ~ In 0 (tholding (gett stC t))) /\ (forall t fr, In fr (tframes stC t) -> False)).
Proof. exact (conj stB_wake_in_flight (conj stB_progress stC_quiescent)). Qed.
Print Assumptions C13_second_round_examples.

(* ====================================================================================
   Third round (Sched/LockProgress.v): the liveness half on the FIFO loops - "if holders
   eventually release, every acquirer that is not cancelled eventually gets the lock".
   Setting: the list ready queue (`init_st false ..`: stock loop / scheduling loops), a
   reachable state [s], and from there a QUIET run: only AStep actions (no more cancels,
   throws, spawns from the environment), each of which
     - satisfies the C13 side condition [run_one_ok] (no set_result on a lock-waiter future),
     - executes no positional scheduling [run_one_np]: no OSleepInsert / OTaskSwitch /
       OTaskReinsert / OCallPos / OTaskThrow / OTaskInterrupt / OInterruptor call, no
       create_task_descend, no eager() start, no HReinsert callback, no task_timeout
       interruptor frame resumed (these take an entry out of the middle of the ready queue or
       insert one at a position; under this condition the queue is FIFO - derived, not assumed),
   and in every state passed no task future has been completed from outside
   ([no_external_completion], the model artefact of the second round).  [quiet n s] says this of
   the next n steps; [steps n s] = n AStep actions.  These are the property's own conditions
   ("after faults stop", FIFO loop); nothing is claimed for the priority loop.
   [inflight s l f t i]: waiter future f is queued on l and done, task t is suspended in
   acquire()'s `await f` (InFut f :: InAcquireP l f ..), and the handle at position i of the
   ready queue is t's. *)
From Asynkit Require Import Sched.LockProgress.

(* 1. FIFO.  A step that executes no positional scheduling pops the head of the list queue and
   only appends; hence along a run of such steps the handle at position i is popped by exactly
   the (i+1)-th step, which runs the callback the handle had at the start (the handle table
   only grows; cancellation only sets a flag) unless it was cancelled meanwhile. *)
Theorem C13_handle_runs_within :
  (forall s q, ready s = RList q -> run_one_np s ->
     exists app, ready (do_action s AStep) = RList (tl q ++ app)) /\
  (forall s q i, ready s = RList q -> i < length q -> nth i q 0 < length (handles s) -> run_np i s ->
     exists rest, ready (steps i s) = RList (nth i q 0 :: rest) /\
       do_action (steps i s) AStep =
         (let s1 := (steps i s) <| ready := RList rest |> in
          if hcancelled (geth s1 (nth i q 0)) then s1
          else run_callback (hcb (geth s (nth i q 0))) s1)).
Proof. split; [exact run_one_fifo|exact handle_runs_within]. Qed.
Print Assumptions C13_handle_runs_within.

(* 2a. A free lock with waiters is served.  In a reachable state where PriorityLock l is free
   with a non-empty waiter queue, some queued waiter f is in flight at a position
   i < len(ready); during a quiet run its entry stays queued for i steps, after i steps its
   task's handle is at the head, and the (i+1)-th step - the Task.__step of that waiter, see
   C13_waiter_step - removes the entry: within len(ready) steps the number of the entries that
   were queued strictly decreases. *)
Theorem C13_free_lock_is_taken :
  forall factor draws lks cds nev acts,
    let s0 := init_st false factor draws lks cds nev in
    run_ok s0 acts -> PartitionRun.actions_ok s0 acts ->
    let s := fold_left do_action acts s0 in
    quiet (rq_len (ready s)) s ->
    forall l, lkind_ (getl s l) = LPrio -> llocked (getl s l) = false ->
      pq_objs (lpq (getl s l)) <> [] ->
    exists f t i,
      inflight s l f t i /\ i < rq_len (ready s) /\
      (forall j, j <= i -> In f (pq_objs (lpq (getl (steps j s) l)))) /\
      inflight (steps i s) l f t 0 /\
      ~ In f (pq_objs (lpq (getl (steps (S i) s) l))).
Proof.
  intros factor draws lks cds nev acts s0 H1 H2 s Hq l Hk Hl Hne.
  apply (free_lock_taken s l (R_reach factor draws lks cds nev acts H1 H2) Hq Hk Hl Hne).
Qed.
Print Assumptions C13_free_lock_is_taken.

(* 2b. What that step does.  Task.__step of a task t suspended in acquire()'s `await f` (f done),
   in any state satisfying the invariants, is: bookkeeping [step_pre], the reply [rep] of
   `await f` [infut_reply], the code after it [acquire_p_finish] giving state s4 and reply r,
   then the rest of the task's code [step_post].  Always: f is no longer queued in s4.
   - rep is a value exactly when f holds a result and no exception is delivered (the task was
     not cancelled / thrown into meanwhile); then t TAKES THE LOCK: acquire() returns True,
     lowner = Some t, locked (C13_take_lock_only_when_free);
   - otherwise (cancelled or interrupted waiter) the exception propagates, the finally clause
     has removed the entry, owner and locked flag of the lock are as before, and if the lock
     is free and still has waiters one of them is done: the wake-up has been PASSED ON.
     (Since the repair of F16 the finally clause calls owning.propagate_priority when the lock
     stays locked by another task: queue KEYS of this or other locks may be re-keyed; owner,
     locked flag and the set of queued futures of every lock are not touched by that call.) *)
Theorem C13_waiter_step :
  forall t exc s l f had rest k,
    Inv s -> WF4 s -> t < length (tasks s) -> tdone s t = false -> fdone s f = true ->
    tcont_ (gett s t) = TSusp (InFut f :: InAcquireP l f had :: rest) k ->
    let s3 := fst (infut_reply (step_pre s t) f (step_inp s t exc)) in
    let rep := snd (infut_reply (step_pre s t) f (step_inp s t exc)) in
    let s4 := fst (acquire_p_finish s3 t l f had rep) in
    let r := snd (acquire_p_finish s3 t l f had rep) in
    step_task t exc s = step_post t rest k r s4 /\
    Inv s3 /\ locks s3 = locks s /\
    ~ In f (objs s4 l) /\
    (forall v, fstate_ (getf s f) = FResult v -> (exists v0, step_inp s t exc = RVal v0) -> rep = RVal v) /\
    (forall v, rep = RVal v ->
       fstate_ (getf s f) = FResult v /\ r = RVal 1 /\
       lowner (getl s4 l) = Some t /\ llocked (getl s4 l) = true) /\
    (forall e, rep = RExc e ->
       r = RExc e /\ lowner (getl s4 l) = lowner (getl s l) /\ llocked (getl s4 l) = llocked (getl s l) /\
       (llocked (getl s l) = false -> objs s4 l <> [] -> exists g, In g (objs s4 l) /\ fdone s4 g = true)).
Proof. exact step_detail. Qed.
Print Assumptions C13_waiter_step.

(* 2c. Iterating the measure.  If moreover no new waiter joins lock l during the run ([nonew]:
   the waiter set only shrinks - a fixed set of contenders) and the ready queue never holds more
   than M handles ([rbound]), then within (number of queued entries) * M quiet steps a state is
   reached in which the lock is owned (locked) or has no waiters. *)
Theorem C13_lock_eventually_owned_or_queue_empty :
  forall factor draws lks cds nev acts,
    let s0 := init_st false factor draws lks cds nev in
    run_ok s0 acts -> PartitionRun.actions_ok s0 acts ->
    let s := fold_left do_action acts s0 in
    forall l M, lkind_ (getl s l) = LPrio ->
    let B := length (pq_objs (lpq (getl s l))) * M in
    quiet B s ->
    (forall k, k < B -> incl (pq_objs (lpq (getl (steps (S k) s) l))) (pq_objs (lpq (getl (steps k s) l)))) ->
    (forall k, k <= B -> rq_len (ready (steps k s)) <= M) ->
    exists n, n <= B /\
      (llocked (getl (steps n s) l) = true \/ pq_objs (lpq (getl (steps n s) l)) = []).
Proof.
  intros factor draws lks cds nev acts s0 H1 H2 s l M Hk B Hq Hn Hb.
  apply (lock_eventually M l (length (objs s l)) s (le_n _)
           (R_reach factor draws lks cds nev acts H1 H2) Hk Hq Hn Hb).
Qed.
Print Assumptions C13_lock_eventually_owned_or_queue_empty.

(* 3. One round of "every acquirer is served": a waiter woken with the result (release() or a
   leaving waiter's finally clause called _wake_up_first) whose wake-up handle HWakeup t f sits at
   position i of the ready queue keeps its entry for i quiet steps and is served by exactly the
   (i+1)-th step - it becomes the owner before its code continues - unless its task is cancelled
   in the meantime (_must_cancel set at that moment; then C13_waiter_step's second case applies
   and the wake-up is passed on).  The induction over rounds ("holders eventually release", and
   the priority order deciding who is woken next) is NOT done. *)
Theorem C13_every_acquirer_served_one_round :
  forall factor draws lks cds nev acts,
    let s0 := init_st false factor draws lks cds nev in
    run_ok s0 acts -> PartitionRun.actions_ok s0 acts ->
    let s := fold_left do_action acts s0 in
    forall i l f t v,
    quiet (S i) s -> inflight s l f t i -> fstate_ (getf s f) = FResult v ->
    (forall q, ready s = RList q -> hcb (geth s (nth i q 0)) = HWakeup t f) ->
    tmustc (gett (steps i s) t) = false ->
    exists had rest k h q,
      ready (steps i s) = RList (h :: q) /\
      tcont_ (gett (steps i s) t) = TSusp (InFut f :: InAcquireP l f had :: rest) k /\
      (forall j, j <= i -> In f (objs (steps j s) l)) /\
      let s1 := step_pre ((steps i s) <| ready := RList q |>) t in
      let s4 := fst (acquire_p_finish s1 t l f had (RVal v)) in
      steps (S i) s = step_post t rest k (RVal 1) s4 /\
      lowner (getl s4 l) = Some t /\ llocked (getl s4 l) = true /\ ~ In f (objs s4 l).
Proof.
  intros factor draws lks cds nev acts s0 H1 H2 s i l f t v Hq Hfl Hs Hcb Hm.
  apply (woken_waiter_served i s l f t v (R_reach factor draws lks cds nev acts H1 H2) Hq Hfl Hs Hcb Hm).
Qed.
Print Assumptions C13_every_acquirer_served_one_round.

(* Example (vm_compute from init_st, list loop): holder H and three contenders W1 (priority 1),
   W2 (5), W3 (7); H releases and wakes the head W1, which is then cancelled before it runs.
   In [ex_s] the lock is free with queue [4;5;6] and W1's wake-up in flight at position 0.
   Step 1: W1's acquire() raises CancelledError, its finally clause removes entry 4 and wakes W2
   (lock still free: passed on).  Step 2: W2 owns the lock - within the bound 3 * 1.  Then W3;
   at the end everybody is served or cancelled and the lock is clean. *)
Theorem C13_third_round_example :
  llocked (getl ex_s 0) = false /\ objs ex_s 0 = [4; 5; 6] /\
  map (fun f => fstate_ (getf ex_s f)) [4; 5; 6] = [FResult 1; FPending; FPending] /\
  tmustc (gett ex_s 1) = true /\ ready ex_s = RList [6] /\ hcb (geth ex_s 6) = HWakeup 1 4 /\
  inflight ex_s 0 4 1 0 /\
  (exists f n, In f (objs ex_s 0) /\ 1 <= n <= rq_len (ready ex_s) /\ ~ In f (objs (steps n ex_s) 0)) /\
  objs (steps 1 ex_s) 0 = [5; 6] /\ llocked (getl (steps 1 ex_s) 0) = false /\
  fstate_ (getf (steps 1 ex_s) 5) = FResult 1 /\ fstate_ (getf (steps 1 ex_s) (tfut (gett ex_s 1))) = FCancelled /\
  (exists n, n <= 3 * 1 /\ (llocked (getl (steps n ex_s) 0) = true \/ objs (steps n ex_s) 0 = [])) /\
  lowner (getl (steps 2 ex_s) 0) = Some 2 /\
  lowner (getl (steps 4 ex_s) 0) = Some 3 /\
  map (fun t => fstate_ (getf (steps 6 ex_s) (tfut t))) (tasks (steps 6 ex_s)) =
    [FResult 0; FCancelled; FResult 0; FResult 0] /\
  objs (steps 6 ex_s) 0 = [] /\ llocked (getl (steps 6 ex_s) 0) = false.
Proof. exact ex_progress. Qed.
Print Assumptions C13_third_round_example.

(* ====================================================================================
   Fourth round (Sched/LockRounds.v, LockFifo.v, LockRoundsEx.v): the induction over rounds -
   "so if holders eventually release, every acquirer that is not cancelled eventually gets the
   lock" - on the list ready queue, in the quiet environment of the third round ([quiet n s]:
   the next n actions are AStep actions that execute no positional scheduling and satisfy the
   C13 side condition; [steps n s]).

   Fix a PriorityLock l and the waiter future fw of an acquirer w queued on it.  Vocabulary
   (LockRounds.v):
     before s l g f    : the heap entry of g is strictly before the entry of f in the order of
                         PriEntry.__lt__ (stored key, then arrival number; C12_entry_order);
     blocker s l fw g  : g <> fw and (before s l g fw, or g has been woken with a result): g
                         gets the lock before w can;
     nblk s l fw       : THE MEASURE - the number of queued entries that are blockers of fw;
     gain l fw s s'    : the number of blockers in s' that were not blockers in s, counted only
                         if fw is still queued and pending in s' ("w is overtaken");
     gains l fw n s    : the sum of the gains of the next n steps;
     bound K M m       : (m + 1) * (K + M) + M.
   Run-checked hypotheses (all stated on the states [steps k s] of the run, like [quiet]):
     - "holders eventually release" [releases_within K]: whenever l is locked in a state of the
       run it is unlocked in a state at most K steps later (K loop steps; if a holder is always
       runnable and releases within k of its own steps, K = k * M by C13_handle_runs_within);
     - the ready queue never holds more than M handles [rbound M] (third round);
     - [nocb]: no CANCELLED waiter queued BEHIND w - every queued entry whose future is done is
       fw itself or a blocker.  (Needed because the proved wake-up invariant I4 promises only
       SOME done waiter when the lock is free; a stronger invariant "a woken waiter, or the heap
       head, is done" was not proved.  Cancelled waiters AHEAD of w are covered: they are
       blockers, run within M steps and pass the wake-up on.)
   Conclusion: W'S TURN COMES at some step n < bound: fw stayed queued in the states 0..n, and
   in state n the head handle of the ready queue belongs to the task t suspended in acquire()'s
   `await fw` - the next step is the step of C13_waiter_step, which takes the lock iff w was
   woken with the result and no exception is delivered (C13_turn_is_served below). *)
From Asynkit Require Import Sched.LockRounds Sched.LockFifo Sched.LockRoundsEx.

(* 4a. Served unless overtaken.  If the measure plus all gains of the run is at most m (r
   entries ahead of w and at most A later overtakings: m = r + A), w's turn comes within
   (m + 1) * (K + M) + M steps.  Each round costs at most K steps (the holder releases) plus M
   steps (the waiter in flight runs) and removes a blocker; the last M: w's own handle. *)
Theorem C13_served_unless_overtaken :
  forall factor draws lks cds nev acts,
    let s0 := init_st false factor draws lks cds nev in
    run_ok s0 acts -> PartitionRun.actions_ok s0 acts ->
    let s := fold_left do_action acts s0 in
    forall K M l fw m,
    let B := bound K M m in
    lkind_ (getl s l) = LPrio -> In fw (pq_objs (lpq (getl s l))) ->
    quiet B s ->
    (forall k, k <= B -> rq_len (ready (steps k s)) <= M) ->
    (forall i, i <= B -> llocked (getl (steps i s) l) = true ->
       exists j, i < j <= i + K /\ llocked (getl (steps j s) l) = false) ->
    (forall k, k <= B -> forall g, In g (pq_objs (lpq (getl (steps k s) l))) ->
       fdone (steps k s) g = true -> g = fw \/ blocker (steps k s) l fw g = true) ->
    nblk s l fw + gains l fw B s <= m ->
    exists n t, n < B /\
      (forall j, j <= n -> In fw (pq_objs (lpq (getl (steps j s) l)))) /\
      In fw (pq_objs (lpq (getl (steps n s) l))) /\
      (exists had rest, tframes (steps n s) t = InFut fw :: InAcquireP l fw had :: rest) /\
      exists h q, ready (steps n s) = RList (h :: q) /\ task_of_handle (steps n s) h = Some t.
Proof.
  intros factor draws lks cds nev acts s0 H1 H2 s K M l fw m B Hk Hf Hq Hb Hrel Hcb Hm.
  exact (served_rounds K M l fw m s (R_reach factor draws lks cds nev acts H1 H2) Hk Hf Hq Hb Hrel Hcb Hm).
Qed.
Print Assumptions C13_served_unless_overtaken.

(* 4b. FIFO among equals: one step.  [fw < length futs]: w's future exists.  If in s and in
   s' = run_one s all stored keys of l are equal ([eqkeys]; in particular plain tasks: key 0),
   arrival numbers follow creation order ([arrival_ids]: fo a < fo b -> eseq a < eseq b; each
   acquire() creates its future and its entry together - C12_arrival_numbers; run-checked here,
   not derived), the holder of l is not itself suspended in an acquire() ([calmf], the side
   condition of C12_no_overtake_keys) and no entry is woken in the very step in which it arrives
   ([arrivals_pending]; run-checked, not derived), then the step has NO GAIN: a newcomer of equal
   priority queues BEHIND w (larger arrival number), and a waiter behind w is not woken while w
   keeps waiting (C12's no-overtake pass).  So newcomers do not delay w. *)
Theorem C13_served_in_arrival_order_equal_priorities :
  forall factor draws lks cds nev acts,
    let s0 := init_st false factor draws lks cds nev in
    run_ok s0 acts -> PartitionRun.actions_ok s0 acts ->
    let s := fold_left do_action acts s0 in
    forall l fw,
    run_one_ok s /\ run_one_np s -> fw < length (futs s) ->
    eqkeys s l -> arrival_ids s l -> NoOvertakeThms.calmf s l ->
    eqkeys (run_one s) l -> arrival_ids (run_one s) l -> arrivals_pending l s (run_one s) ->
    gain l fw s (run_one s) = 0.
Proof.
  intros factor draws lks cds nev acts s0 H1 H2 s l fw.
  exact (no_gain_equal s l fw (R_reach factor draws lks cds nev acts H1 H2)).
Qed.
Print Assumptions C13_served_in_arrival_order_equal_priorities.

(* 4c. C13_every_acquirer_served for equal priorities.  [fifo_run l B s]: the four conditions of
   4b hold in every state [steps k s], k <= B, of the run.  Then the gains are zero and an
   acquirer with at most r entries ahead of it (r >= nblk) has its turn within
   (r + 1) * (K + M) + M steps - unless nothing: if it is cancelled meanwhile its turn comes all
   the same and the step is the exception case of C13_waiter_step. *)
Theorem C13_every_acquirer_served :
  forall factor draws lks cds nev acts,
    let s0 := init_st false factor draws lks cds nev in
    run_ok s0 acts -> PartitionRun.actions_ok s0 acts ->
    let s := fold_left do_action acts s0 in
    forall K M l fw r,
    let B := bound K M r in
    lkind_ (getl s l) = LPrio -> In fw (pq_objs (lpq (getl s l))) ->
    quiet B s ->
    (forall k, k <= B -> rq_len (ready (steps k s)) <= M) ->
    (forall i, i <= B -> llocked (getl (steps i s) l) = true ->
       exists j, i < j <= i + K /\ llocked (getl (steps j s) l) = false) ->
    (forall k, k <= B -> forall g, In g (pq_objs (lpq (getl (steps k s) l))) ->
       fdone (steps k s) g = true -> g = fw \/ blocker (steps k s) l fw g = true) ->
    fifo_run l B s ->
    nblk s l fw <= r ->
    exists n t, n < B /\
      (forall j, j <= n -> In fw (pq_objs (lpq (getl (steps j s) l)))) /\
      In fw (pq_objs (lpq (getl (steps n s) l))) /\
      (exists had rest, tframes (steps n s) t = InFut fw :: InAcquireP l fw had :: rest) /\
      exists h q, ready (steps n s) = RList (h :: q) /\ task_of_handle (steps n s) h = Some t.
Proof.
  intros factor draws lks cds nev acts s0 H1 H2 s K M l fw r B Hk Hf Hq Hb Hrel Hcb Hff Hm.
  exact (served_equal K M l fw r s (R_reach factor draws lks cds nev acts H1 H2) Hk Hf Hq Hb Hrel Hcb Hff Hm).
Qed.
Print Assumptions C13_every_acquirer_served.

(* 4d. Where gains come from when priorities differ: a new blocker g of w after a step (w still
   queued and pending) is either a NEWCOMER (a fresh future: an arrival queued before w, i.e.
   more urgent) or an entry whose order relative to w was FLIPPED by the step (re-keying by
   priority inheritance or its undoing); an entry that stays behind w is never woken while w
   waits.  (That a newcomer's key is strictly smaller and that a flip changes a key - arrival
   numbers are kept - is C12_arrival_numbers / C12_key_tracks_eprio at the level of the queue
   operations; not carried through the step here.) *)
Theorem C13_overtaking_is_arrival_or_rekeying :
  forall factor draws lks cds nev acts,
    let s0 := init_st false factor draws lks cds nev in
    run_ok s0 acts -> PartitionRun.actions_ok s0 acts ->
    let s := fold_left do_action acts s0 in
    forall l fw g,
    run_one_ok s /\ run_one_np s -> NoOvertakeThms.calmf s l -> fw < length (futs s) ->
    In fw (pq_objs (lpq (getl (run_one s) l))) /\ fdone (run_one s) fw = false ->
    In g (blockers (run_one s) l fw) -> ~ In g (blockers s l fw) ->
    (~ In g (pq_objs (lpq (getl s l))) /\ length (futs s) <= g) \/
    (In g (pq_objs (lpq (getl s l))) /\ before s l g fw = false /\ before (run_one s) l g fw = true).
Proof.
  intros factor draws lks cds nev acts s0 H1 H2 s l fw g.
  exact (gain_char s l fw g (R_reach factor draws lks cds nev acts H1 H2)).
Qed.
Print Assumptions C13_overtaking_is_arrival_or_rekeying.

(* 4e. What the turn is: when w's turn has come, w was woken with the result, its wake-up handle
   is the head handle and its task was not cancelled meanwhile, the step makes its task the OWNER
   before its code continues (otherwise the exception case of C13_waiter_step: the entry leaves
   and the wake-up is passed on). *)
Theorem C13_turn_is_served :
  forall factor draws lks cds nev acts,
    let s0 := init_st false factor draws lks cds nev in
    run_ok s0 acts -> PartitionRun.actions_ok s0 acts ->
    let s := fold_left do_action acts s0 in
    (forall t, tdone s t = true -> tframes s t = []) ->
    forall l f t v h q had rest k,
    In f (pq_objs (lpq (getl s l))) ->
    ready s = RList (h :: q) -> task_of_handle s h = Some t -> hcb (geth s h) = HWakeup t f ->
    fstate_ (getf s f) = FResult v ->
    tcont_ (gett s t) = TSusp (InFut f :: InAcquireP l f had :: rest) k ->
    tmustc (gett s t) = false ->
    let s1 := step_pre (s <| ready := RList q |>) t in
    let s4 := fst (acquire_p_finish s1 t l f had (RVal v)) in
    run_one s = step_post t rest k (RVal 1) s4 /\
    lowner (getl s4 l) = Some t /\ llocked (getl s4 l) = true /\ ~ In f (objs s4 l).
Proof.
  intros factor draws lks cds nev acts s0 H1 H2 s Hx l f t v h q had rest k Hf Eq Hth Hcb Hs Hk Hm.
  assert (Ht : turn s l f t).
  { split; [exact Hf|]. split; [exists had, rest; unfold tframes; now rewrite Hk|]. exists h, q. auto. }
  exact (turn_served s l f t (R_reach factor draws lks cds nev acts H1 H2) Hx Ht v h q had rest k Eq Hcb Hs Hk Hm).
Qed.
Print Assumptions C13_turn_is_served.

(* 4f. Instance (vm_compute from init_st, list loop): holder H and three contenders W1, W2, W3 of
   EQUAL priority 5, W2 cancelled while queued.  fw = 6 (W3): two blockers [4; 5], no gains;
   C13_served_unless_overtaken (m = 2) and C13_every_acquirer_served (r = 2) with K = 1, M = 2
   give W3's turn within bound 1 2 2 = 11 steps; by computation the lock goes H, W1, (W2 passes),
   W3, and everybody ends served or cancelled. *)
Theorem C13_fourth_round_example :
  (lowner (getl f_s 0) = Some 0 /\ objs f_s 0 = [4; 5; 6] /\
   map (fun e => (epri e, eseq e)) (arr (lpq (getl f_s 0))) = [(5%Q, 0%Z); (5%Q, 1%Z); (5%Q, 2%Z)] /\
   map (fun f => fstate_ (getf f_s f)) [4; 5; 6] = [FPending; FCancelled; FPending] /\
   blockers f_s 0 6 = [4; 5] /\ gains 0 6 11 f_s = 0 /\
   (exists n t, n < bound 1 2 2 /\ (forall j, j <= n -> In 6 (objs (steps j f_s) 0)) /\
                turn (steps n f_s) 0 6 t) /\
   map (fun k => lowner (getl (steps k f_s) 0)) [0; 1; 2; 3; 4; 5; 6] =
     [Some 0; None; None; Some 1; None; Some 3; None] /\
   map (fun k => objs (steps k f_s) 0) [1; 2; 3; 4; 5] = [[4; 5; 6]; [4; 6]; [6]; [6]; []] /\
   map (fun t => fstate_ (getf (steps 7 f_s) (tfut t))) (tasks (steps 7 f_s)) =
     [FResult 0; FResult 0; FCancelled; FResult 0]) /\
  (fifo_run 0 11 f_s /\
   exists n t, n < bound 1 2 2 /\ (forall j, j <= n -> In 6 (objs (steps j f_s) 0)) /\
               turn (steps n f_s) 0 6 t).
Proof. exact (conj f_served (conj f_fifo f_served_equal)). Qed.
Print Assumptions C13_fourth_round_example.

(* 4g. The qualification is necessary: starvation by a stream of more urgent newcomers.  W
   (priority 10, future 2) is the only waiter behind the holder (no blocker); a generator task
   keeps spawning contenders of priority 0 that arrive while the lock is held.  Every hypothesis
   of C13_served_unless_overtaken holds for m = 0 on the first bound 8 3 0 = 14 steps except the
   budget (3 gains by then, 4 in all), and W is still queued and pending in every state up to step
   26 while the lock is handed to the four newcomers; when the stream ends W is served (step 27),
   as the theorem says for m = 4 (bound 58).  (This is the intended semantics of a priority lock.) *)
Theorem C13_starvation_by_stream :
  lowner (getl g_s 0) = Some 0 /\ objs g_s 0 = [2] /\ nblk g_s 0 2 = 0 /\
  R g_s /\ quiet (bound 8 3 0) g_s /\ rbound 3 (bound 8 3 0) g_s /\
  releases_within 8 0 (bound 8 3 0) g_s /\ nocb 0 2 (bound 8 3 0) g_s /\
  gains 0 2 (bound 8 3 0) g_s = 3 /\ gains 0 2 27 g_s = 4 /\
  forallb (fun k => existsb (Nat.eqb 2) (objs (steps k g_s) 0) && negb (fdone (steps k g_s) 2))
          (seq 0 27) = true /\
  map (fun k => lowner (getl (steps k g_s) 0)) [11; 18; 22; 25] = [Some 3; Some 4; Some 5; Some 6] /\
  (exists n t, n < bound 8 3 4 /\ (forall j, j <= n -> In 2 (objs (steps j g_s) 0)) /\
               turn (steps n g_s) 0 2 t) /\
  objs (steps 27 g_s) 0 = [2] /\ objs (steps 28 g_s) 0 = [].
Proof. exact g_starved. Qed.
Print Assumptions C13_starvation_by_stream.

(* ======================================================================== fifth round *)
(* Two of the run-checked side facts of C13_every_acquirer_served derived from the step itself
   (Sched/LockArrive.v: the relations of the C12 no-overtake pass strengthened, the pass replayed).
   Vocabulary: an entry e of lock l has key [epri e], arrival number [eseq e], future [fo e];
   [seqn q] is the arrival counter of the queue (pq_add numbers the new entry with it;
   reset_if_empty restarts it only on an empty array). *)
From Asynkit Require Sched.LockArrive.

(* 5a. The queue invariant: every arrival number is below the counter, and arrival numbers are
   ordered like the ids of the futures.  It holds in every state reached from an initial state by a
   run without asynkit.eager() starts ([run_ne], checked along the run like run_ok), whatever the
   loop kind, the priorities, cancellations, re-keying by priority inheritance. *)
Theorem C13_arrival_numbers_follow_creation_order_reachable :
  forall prio_loop factor draws lks cds nev acts l,
    let s0 := init_st prio_loop factor draws lks cds nev in
    run_ok s0 acts -> WaitProofs.run_ne s0 acts ->
    let s := fold_left do_action acts s0 in
    let q := lpq (getl s l) in
    (forall a, In a (arr q) -> (eseq a < seqn q)%Z) /\
    (forall a b, In a (arr q) -> In b (arr q) ->
       Z.to_nat (eobj a) < Z.to_nat (eobj b) -> (eseq a < eseq b)%Z).
Proof.
  intros prio_loop factor draws lks cds nev acts l s0 H1 H2.
  exact (LockArrive.AI_reachable l prio_loop factor draws lks cds nev acts H1 H2).
Qed.
Print Assumptions C13_arrival_numbers_follow_creation_order_reachable.

(* 5b. [arrival_ids] along a quiet run: if the queue invariant holds in the first state (one state:
   by 5a, or by the boolean LockArrive.AIb), then in every state of the run the arrival numbers of
   the entries of l are in the creation order of their futures - the hypothesis [arrival_ids] of
   C13_served_in_arrival_order_equal_priorities / fifo_run. *)
Theorem C13_arrival_ids_along_quiet_run :
  forall factor draws lks cds nev acts,
    let s0 := init_st false factor draws lks cds nev in
    run_ok s0 acts -> PartitionRun.actions_ok s0 acts ->
    let s := fold_left do_action acts s0 in
    forall l n,
    quiet n s ->
    (forall a, In a (arr (lpq (getl s l))) -> (eseq a < seqn (lpq (getl s l)))%Z) ->
    (forall a b, In a (arr (lpq (getl s l))) -> In b (arr (lpq (getl s l))) ->
       Z.to_nat (eobj a) < Z.to_nat (eobj b) -> (eseq a < eseq b)%Z) ->
    forall k, k <= n ->
    forall a b, In a (arr (lpq (getl (steps k s) l))) -> In b (arr (lpq (getl (steps k s) l))) ->
      Z.to_nat (eobj a) < Z.to_nat (eobj b) -> (eseq a < eseq b)%Z.
Proof.
  intros factor draws lks cds nev acts s0 H1 H2 s l n Hq A1 A2 k Hk.
  exact (LockArrive.arrival_ids_run l n s (R_reach factor draws lks cds nev acts H1 H2) Hq (conj A1 A2) k Hk).
Qed.
Print Assumptions C13_arrival_ids_along_quiet_run.

(* 5c. [arrivals_pending]: in one quiet step no entry of l is woken in the very step in which it
   arrives (acquire() returns a suspension right after enqueueing, and the rest of the step - 
   propagate_priority, the bookkeeping of Task.__step - wakes no queued future of l). *)
Theorem C13_arrival_not_woken_in_its_step :
  forall factor draws lks cds nev acts,
    let s0 := init_st false factor draws lks cds nev in
    run_ok s0 acts -> PartitionRun.actions_ok s0 acts ->
    let s := fold_left do_action acts s0 in
    forall l g,
    run_one_ok s /\ run_one_np s ->
    In g (pq_objs (lpq (getl (run_one s) l))) -> ~ In g (pq_objs (lpq (getl s l))) ->
    woken (run_one s) g = false.
Proof.
  intros factor draws lks cds nev acts s0 H1 H2 s l g [Hok Hnp].
  exact (LockArrive.step_arrivals_pending l s
           (LockRounds.R_inv s (R_reach factor draws lks cds nev acts H1 H2)) Hok
           (LockFifo.run_one_np_ne s Hnp) g).
Qed.
Print Assumptions C13_arrival_not_woken_in_its_step.

(* 5d. C13_every_acquirer_served for equal stored keys with those two facts discharged.  What
   remains of [fifo_run]: equal stored keys in the states of the run ([eqkeys], e.g. all key 0),
   the holder of l not suspended in an acquire() in the states before the last one ([calmf], C12's
   F16 side condition), and the queue invariant of 5a in the FIRST state only.  Unchanged:
   holders release within K loop steps, ready queue at most M handles, no cancelled waiter behind w. *)
Theorem C13_every_acquirer_served_equal_keys :
  forall factor draws lks cds nev acts,
    let s0 := init_st false factor draws lks cds nev in
    run_ok s0 acts -> PartitionRun.actions_ok s0 acts ->
    let s := fold_left do_action acts s0 in
    forall K M l fw r,
    let B := bound K M r in
    lkind_ (getl s l) = LPrio -> In fw (pq_objs (lpq (getl s l))) ->
    quiet B s ->
    (forall k, k <= B -> rq_len (ready (steps k s)) <= M) ->
    (forall i, i <= B -> llocked (getl (steps i s) l) = true ->
       exists j, i < j <= i + K /\ llocked (getl (steps j s) l) = false) ->
    (forall k, k <= B -> forall g, In g (pq_objs (lpq (getl (steps k s) l))) ->
       fdone (steps k s) g = true -> g = fw \/ blocker (steps k s) l fw g = true) ->
    (* the queue invariant in the first state *)
    (forall a, In a (arr (lpq (getl s l))) -> (eseq a < seqn (lpq (getl s l)))%Z) ->
    (forall a b, In a (arr (lpq (getl s l))) -> In b (arr (lpq (getl s l))) ->
       Z.to_nat (eobj a) < Z.to_nat (eobj b) -> (eseq a < eseq b)%Z) ->
    (* equal stored keys in every state of the run *)
    (forall k, k <= B -> forall a b, In a (arr (lpq (getl (steps k s) l))) ->
       In b (arr (lpq (getl (steps k s) l))) -> qltb (epri a) (epri b) = false) ->
    (* the holder of l is not suspended in an acquire() *)
    (forall k, k < B -> NoOvertakeThms.calmf (steps k s) l) ->
    nblk s l fw <= r ->
    exists n t, n < B /\
      (forall j, j <= n -> In fw (pq_objs (lpq (getl (steps j s) l)))) /\
      In fw (pq_objs (lpq (getl (steps n s) l))) /\
      (exists had rest, tframes (steps n s) t = InFut fw :: InAcquireP l fw had :: rest) /\
      exists h q, ready (steps n s) = RList (h :: q) /\ task_of_handle (steps n s) h = Some t.
Proof.
  intros factor draws lks cds nev acts s0 H1 H2 s K M l fw r B Hk Hf Hq Hb Hrel Hcb A1 A2 He Hc Hm.
  exact (LockArrive.served_equal_derived K M l fw r s (R_reach factor draws lks cds nev acts H1 H2)
           Hk Hf Hq Hb Hrel Hcb (conj A1 A2) He Hc Hm).
Qed.
Print Assumptions C13_every_acquirer_served_equal_keys.
