(* C13 - PriorityLock: mutual exclusion and no lost wake-up under cancel/interrupt.
   Statements over the executable scheduler model (Sched/Model.v), for ALL user programs
   (arbitrary [coro] trees), ALL configurations (both loops, any number of locks, tasks,
   conditions, events) and ALL environment action sequences [acts] that satisfy the side
   condition [run_ok] (Sched/LockProofs.v), which is checked along the run itself:
     - no `OSetResult f`/`OSetExc f` (by user code or by the environment) names the future
       of a *current* PriorityLock waiter - user code cannot obtain that future in the
       real system; cancelling it (OFutCancel/OCancelAw/OCancel, task_throw, task_interrupt,
       timeouts) is allowed at every point;
     - the environment does not call PriorityLock.acquire from outside a task
       (`ADo (OAcquire _)`; the real code asserts current_task() is not None).
   Vocabulary (Sched/LockInv.v): [woken s f] = the future holds a result or an exception
   (done and not cancelled: the test of the repaired _wake_up_first);
   [pq_objs (lpq (getl s l))] = the futures of the waiters queued on lock l. *)
From Coq Require Import QArith.
From Asynkit Require Import Base.Prelude Queue.PQ Queue.PosPQ Queue.Exec Sched.Model Sched.Corr
  Sched.QFacts Sched.LockInv Sched.LockOps Sched.LockLib Sched.LockProofs Sched.LockStatic Sched.LockThms.
Open Scope nat_scope.

(* The inductive invariant (record [Inv], Sched/LockInv.v: I1 ownership bookkeeping,
   well-formed waiter queues, I5 at most one woken waiter and none while owned, lock-waiter
   futures are known to nobody else, handles/callbacks name existing tasks, suspended
   acquire frames are unique and their future is queued) holds in every reachable state. *)
Theorem C13_inv :
  forall (prio_loop : bool) (factor : Q) (draws : list Q) (lks : list lkind)
         (cds : list (ckind * nat)) (nev : nat) (acts : list action),
    run_ok (init_st prio_loop factor draws lks cds nev) acts ->
    Inv (fold_left do_action acts (init_st prio_loop factor draws lks cds nev)).
Proof. exact C13_inv_all. Qed.
Print Assumptions C13_inv.

(* Mutual exclusion, and locked() reflects it: in every reachable state, for every lock l,
   at most one task records l as held and it is the owner; a PriorityTask that owns l
   records it; for a PriorityLock, locked <-> it has an owner; nobody records l twice. *)
Theorem C13_mutex :
  forall prio_loop factor draws lks cds nev acts,
    run_ok (init_st prio_loop factor draws lks cds nev) acts ->
    let s := fold_left do_action acts (init_st prio_loop factor draws lks cds nev) in
    forall l, l < length (locks s) ->
      (forall t1 t2, In l (tholding (gett s t1)) -> In l (tholding (gett s t2)) -> t1 = t2) /\
      (forall t, In l (tholding (gett s t)) -> lowner (getl s l) = Some t) /\
      (forall t, lowner (getl s l) = Some t -> is_prio_task s t = true ->
                 In l (tholding (gett s t))) /\
      (lkind_ (getl s l) = LPrio ->
       (llocked (getl s l) = true <-> exists t, lowner (getl s l) = Some t)) /\
      (forall t, count_occ Nat.eq_dec (tholding (gett s t)) l <= 1).
Proof. intros. eapply mutex_reach; eauto. Qed.
Print Assumptions C13_mutex.

(* I5: at most one queued waiter of a lock has been woken with a result, and none while
   the lock is owned. *)
Theorem C13_at_most_one_woken :
  forall prio_loop factor draws lks cds nev acts,
    run_ok (init_st prio_loop factor draws lks cds nev) acts ->
    let s := fold_left do_action acts (init_st prio_loop factor draws lks cds nev) in
    forall l,
      (forall f1 f2, In f1 (pq_objs (lpq (getl s l))) -> In f2 (pq_objs (lpq (getl s l))) ->
         woken s f1 = true -> woken s f2 = true -> f1 = f2) /\
      (lowner (getl s l) <> None ->
       forall f, In f (pq_objs (lpq (getl s l))) -> woken s f = false).
Proof. intros. eapply one_woken_reach; eauto. Qed.
Print Assumptions C13_at_most_one_woken.

(* `assert self._owning is None` never fails for a woken waiter: whenever the code after
   `await fut` of PriorityLock.acquire is entered in a reachable state with a successful
   wake-up (input RVal) for a queued waiter whose future holds a result, _take_lock
   succeeds and acquire() returns True. *)
Theorem C13_take_lock_only_when_free :
  forall prio_loop factor draws lks cds nev acts,
    run_ok (init_st prio_loop factor draws lks cds nev) acts ->
    let s := fold_left do_action acts (init_st prio_loop factor draws lks cds nev) in
    forall l t f had v v',
      In f (pq_objs (lpq (getl s l))) -> fstate_ (getf s f) = FResult v' ->
      snd (acquire_p_finish s t l f had (RVal v)) = RVal 1 /\
      exists s', take_lock s l t = inl s'.
Proof. intros. eapply take_reach; eauto. Qed.
Print Assumptions C13_take_lock_only_when_free.

(* I4, no lost wake-up (the half about futures): in every reachable state a free
   PriorityLock with waiters has a waiter whose future is done - woken with a result (by
   C13_at_most_one_woken there is at most one such), or cancelled.  The task of a done
   future has been scheduled by Future.__schedule_callbacks / the cancel/interrupt that
   completed it, and its acquire() either takes the lock or, in its finally clause, calls
   _wake_up_first again (lstep_acquire_p_finish).  That the scheduled handle is eventually
   run is a property of the ready queue (C08/C10), not claimed here. *)
Theorem C13_wake_in_flight :
  forall prio_loop factor draws lks cds nev acts,
    run_ok (init_st prio_loop factor draws lks cds nev) acts ->
    let s := fold_left do_action acts (init_st prio_loop factor draws lks cds nev) in
    forall l, lkind_ (getl s l) = LPrio -> llocked (getl s l) = false ->
      pq_objs (lpq (getl s l)) <> [] ->
      exists f, In f (pq_objs (lpq (getl s l))) /\ fdone s f = true.
Proof. intros. eapply wake_in_flight_reach; eauto. Qed.
Print Assumptions C13_wake_in_flight.

(* A static class on which the side condition always holds: programs that never call
   set_result / set_exception on a future ([nosr]: no `Call (OSetResult _ _) _` /
   `Call (OSetExc _ _) _` anywhere in the tree, children included), spawned and driven by
   environment actions that do not either and do not acquire from outside a task
   ([act_static]).  Every harness script without OSetResult/OSetExc denotes such a program
   (in particular all C13 worker scripts over {acquire, release, sleep(0), wait event} and
   all environment sequences over {step, cancel, task_throw, task_interrupt, set event}). *)
Theorem C13_static_side_condition :
  (forall prio_loop factor draws lks cds nev acts,
     Forall act_static acts -> run_ok (init_st prio_loop factor draws lks cds nev) acts) /\
  (forall s : script, script_plain s -> nosr (denote_task s)) /\
  (forall how c, act_static (ASpawn how c) <-> nosr c) /\
  (forall op, act_static (ADo op) <->
     (match op with OSetResult _ _ | OSetExc _ _ => False | _ => True end) /\
     (match op with OAcquire _ => true | _ => false end) = false).
Proof.
  split; [exact run_ok_static_init|]. split; [exact denote_task_nosr|].
  split; [intros; reflexivity|intros; reflexivity].
Qed.
Print Assumptions C13_static_side_condition.

(* hence, unconditionally on that class: the invariant, mutual exclusion and the wake-up
   in flight *)
Theorem C13_static :
  forall prio_loop factor draws lks cds nev acts,
    Forall act_static acts ->
    let s := fold_left do_action acts (init_st prio_loop factor draws lks cds nev) in
    Inv s /\
    (forall l, l < length (locks s) ->
       (forall t1 t2, In l (tholding (gett s t1)) -> In l (tholding (gett s t2)) -> t1 = t2) /\
       (forall t, In l (tholding (gett s t)) -> lowner (getl s l) = Some t) /\
       (forall t, lowner (getl s l) = Some t -> is_prio_task s t = true -> In l (tholding (gett s t))) /\
       (lkind_ (getl s l) = LPrio ->
        (llocked (getl s l) = true <-> exists t, lowner (getl s l) = Some t)) /\
       (forall t, count_occ Nat.eq_dec (tholding (gett s t)) l <= 1)) /\
    (forall l f1 f2, In f1 (pq_objs (lpq (getl s l))) -> In f2 (pq_objs (lpq (getl s l))) ->
       woken s f1 = true -> woken s f2 = true -> f1 = f2) /\
    (forall l f, lowner (getl s l) <> None -> In f (pq_objs (lpq (getl s l))) -> woken s f = false) /\
    (forall l, lkind_ (getl s l) = LPrio -> llocked (getl s l) = false ->
       pq_objs (lpq (getl s l)) <> [] ->
       exists f, In f (pq_objs (lpq (getl s l))) /\ fdone s f = true).
Proof.
  intros until acts. intros H s. destruct (static_reach prio_loop factor draws lks cds nev acts H) as [I W].
  fold s in I, W. split; [exact I|]. split; [intros l Hl; now apply mutex_of_inv|].
  split; [intros l; apply (iC1 I l)|]. split; [intros l f Ho; apply (iC2 I l f Ho)|exact W].
Qed.
Print Assumptions C13_static.

(* Non-vacuity: a reachable state with an owner and two queued contenders (suspended in
   `await fut` of acquire); a reachable state with a free lock and exactly one woken waiter
   that is no longer the heap head; and the run ends with everybody served. *)
Theorem C13_examples :
  (reachable stA /\ objs stA 0 = [3; 4] /\ lowner (getl stA 0) = Some 0 /\
   llocked (getl stA 0) = true /\ tholding (gett stA 0) = [0] /\
   tframes stA 1 = [InFut 3; InAcquireP 0 3 true] /\ tframes stA 2 = [InFut 4; InAcquireP 0 4 true]) /\
  (reachable stB /\ objs stB 0 = [6; 4; 3] /\ lowner (getl stB 0) = None /\
   map (woken stB) [6; 4; 3] = [false; false; true] /\
   map (fun f => fstate_ (getf stB f)) [6; 4; 3] = [FPending; FCancelled; FResult 1]) /\
  (reachable stC /\
   map (fun t => fstate_ (getf stC (tfut t))) (tasks stC) = [FResult 0; FResult 0; FCancelled; FResult 0] /\
   objs stC 0 = [] /\ lowner (getl stC 0) = None /\ llocked (getl stC 0) = false /\
   map (fun t => (tholding t, twaiting t)) (tasks stC) = [([], None); ([], None); ([], None); ([], None)]).
Proof. exact (conj two_contenders (conj hand_over_in_progress all_served)). Qed.
Print Assumptions C13_examples.

(* The code before the fix (_wake_up_first wakes the head whenever it is not done) breaks
   I5 and mutual exclusion: in the reachable state stB (W1 woken by release(); the more
   urgent W0 queued in front of it; W2 cancelled) the finally clause of W2 wakes the new
   head W0 as well; W1 takes the lock and W0 then fails `assert self._owning is None`
   (two owners under python -O).  The repaired finally clause wakes nobody. *)
Theorem C13_refuted_before_fix :
  reachable stB /\
  (In 6 (objs stB_old 0) /\ In 3 (objs stB_old 0) /\ woken stB_old 6 = true /\ woken stB_old 3 = true) /\
  ~ Inv stB_old /\
  snd (acquire_p_finish_old stB_old 1 0 3 true (RVal 0)) = RVal 1 /\
  snd (acquire_p_finish_old stB_old2 3 0 6 true (RVal 0)) = RExc EAssertion /\
  map (woken (fst (acquire_p_finish stB 2 0 4 true (RExc ECancelled)))) [6; 3] = [false; true].
Proof. exact refuted_before_fix. Qed.
Print Assumptions C13_refuted_before_fix.
