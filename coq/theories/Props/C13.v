From Asynkit Require Import Base.Prelude Sched.Model.
(* placeholder: the C13 theorems land in Sched/LockProofs.v *)
Theorem C13_take_lock_needs_free_lock :
  forall s l t s', take_lock s l t = inl s' -> lowner (getl s l) = None.
Proof. intros s l t s'. unfold take_lock. destruct (lowner (getl s l)); [discriminate|reflexivity]. Qed.
Print Assumptions C13_take_lock_needs_free_lock.
