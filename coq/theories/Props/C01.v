(* C01 - eager(): synchronous prefix, then exactly the outcome of a plain Task.
   Model-level content, over the scheduler model Sched/Model.v (current code, with the
   future-handshake-flag capture/re-arm repair).  Proofs: Sched/EagerProofs.v (+ Sched/FrameFacts.v).

   Vocabulary (Model.v / EagerProofs.v / ThrowProofs.v):
     exec t c s            user code c run inside task t's step from state s, up to its end
                           (ODone r) or its first suspension (OYield y frs k: it yielded y, its
                           library frames are frs, its own continuation is k)
     Spawn SEager child k  `aw = asynkit.eager(child)`; k receives the future id of aw
     eager_done_state s1 r s1 plus one more future, finished with r's outcome
     eager_cont_state s1 y frs kc
                           s1 with the captured future's handshake flag (fblock) cleared, plus the
                           continuation task (tcont_ = TEager y frs kc) with its pending future and
                           its first-step handle HStep tn None appended to the ready queue
     set_flag b s y        s with fblock of the future y set to b (nothing for a bare yield)
     running_state s t     the state in which t's code runs (_must_cancel, _fut_waiter cleared,
                           tcont_ = TRun, current = t)
     finish_step t s o     Task.__step's treatment of the coroutine's outcome o *)
From Coq Require Import QArith.
From RecordUpdate Require Import RecordUpdate.
From Asynkit Require Import Base.Prelude Sched.Model Sched.ThrowProofs Sched.EagerProofs.
Import RecordSetNotations.
Open Scope nat_scope.

(* eager(child) first runs child's whole prefix - up to its end or first suspension - inside
   the caller's own step: same task id t, `current` unchanged, the child's events appended
   to the log; only then does the caller continue (with the awaitable's future id) *)
Theorem C01_sync_prefix :
  forall t child k s,
  let s1 := fst (exec t child s) in
  exec t (Spawn SEager child k) s =
  (let '(s1, o) := exec t child s in
   match o with
   | ODone r => exec t (k (RVal (Z.of_nat (length (futs s1))))) (eager_done_state s1 r)
   | OYield y frs kc =>
       exec t (k (RVal (Z.of_nat (length (futs s1))))) (eager_cont_state s1 y frs kc)
   end) /\
  current s1 = current s /\ (exists l, log s1 = log s ++ l) /\
  length (tasks s) <= length (tasks s1).
Proof. exact eager_sync_prefix. Qed.
Print Assumptions C01_sync_prefix.

(* the child returned or raised (any exception, BaseException and CancelledError included)
   inside its prefix: exactly one new future, already finished with that outcome; no task,
   no handle, ready queue and every other table unchanged; the caller receives its id *)
Theorem C01_done_no_task :
  forall t child k s s1 r,
  exec t child s = (s1, ODone r) ->
  let f := length (futs s1) in
  let s2 := s1 <| futs := futs s1 ++ [mkFut (match r with RVal v => FResult v | RExc e => FExc e end)
                                            [] false None None] |> in
  exec t (Spawn SEager child k) s = exec t (k (RVal (Z.of_nat f))) s2 /\
  getf s2 f = mkFut (match r with RVal v => FResult v | RExc e => FExc e end) [] false None None /\
  fdone s2 f = true /\
  (forall g, g <> f -> getf s2 g = getf s1 g) /\
  tasks s2 = tasks s1 /\ ready s2 = ready s1 /\ handles s2 = handles s1 /\
  locks s2 = locks s1 /\ conds s2 = conds s1 /\ events s2 = events s1 /\ blocks s2 = blocks s1 /\
  timers s2 = timers s1 /\ now s2 = now s1 /\ current s2 = current s1 /\ log s2 = log s1 /\
  errors s2 = errors s1.
Proof.
  intros t child k s s1 r E.
  destruct (eager_done_no_task t child k s s1 r E) as (A & _ & B). split; [exact A|exact B].
Qed.
Print Assumptions C01_done_no_task.

(* the child suspended: exactly one task is appended (the continuation TEager y frs kc, a C task
   without waiter, not cancelled, owning a new pending future), exactly one handle (its first
   step) is appended to the handle table and to the ready queue, a captured future is left with
   its handshake flag CLEARED and otherwise untouched, nothing else changes; the caller receives
   the task's future id *)
Theorem C01_continuation :
  forall t child k s s1 y frs kc,
  exec t child s = (s1, OYield y frs kc) ->
  let tn := length (tasks s1) in
  let f := length (futs s1) in
  let s2 := eager_cont_state s1 y frs kc in
  exec t (Spawn SEager child k) s = exec t (k (RVal (Z.of_nat f))) s2 /\
  tasks s2 = tasks s1 ++ [mkTask KC None f (TEager y frs kc) None false [] None] /\
  gett s2 tn = mkTask KC None f (TEager y frs kc) None false [] None /\
  getf s2 f = mkFut FPending [] false (Some tn) None /\
  length (futs s2) = S (length (futs s1)) /\
  handles s2 = handles s1 ++ [mkH (HStep tn None) false] /\
  ready s2 = rq_append (ready s1) (length (handles s1)) 0%Q /\
  (forall g, y = YFut g -> fblock (getf s2 g) = false) /\
  (forall g, g < f -> getf s2 g = (if match y with YFut g' => Nat.eqb g g' | YNone => false end
                                   then getf s1 g <| fblock := false |> else getf s1 g)) /\
  locks s2 = locks s1 /\ conds s2 = conds s1 /\ events s2 = events s1 /\ blocks s2 = blocks s1 /\
  timers s2 = timers s1 /\ now s2 = now s1 /\ current s2 = current s1 /\ log s2 = log s1 /\
  errors s2 = errors s1.
Proof. exact eager_continuation. Qed.
Print Assumptions C01_continuation.

(* the continuation task's first step (not cancelled in between): nothing of the coroutine runs;
   the flag is re-armed and the captured yield goes through the very same finish_step that
   a plain task goes through when its body (or its resumed coroutine) yields; afterwards the task
   is an ordinary suspended task TSusp frs k, handled by the same model functions as any task *)
Theorem C01_first_step_equiv :
  (* eager continuation *)
  (forall s tn y frs k,
     tdone s tn = false -> tcont_ (gett s tn) = TEager y frs k -> tmustc (gett s tn) = false ->
     step_task tn None s =
       finish_step tn (set_flag true (running_state s tn) y) (OYield y frs k) <| current := None |> /\
     tcont_ (gett (step_task tn None s) tn) = TSusp frs k) /\
  (* plain task, first step: its body runs and the outcome goes to finish_step *)
  (forall s t c,
     tdone s t = false -> tcont_ (gett s t) = TNew c -> tmustc (gett s t) = false ->
     step_task t None s =
       (let '(s2, o) := exec t c (running_state s t) in finish_step t s2 o <| current := None |>)) /\
  (* any suspended task, any step *)
  (forall s t exc frs k,
     tdone s t = false -> tcont_ (gett s t) = TSusp frs k ->
     step_task t exc s =
       (let '(s2, o) := run_cont t frs k (input_reply (step_input s t exc)) (running_state s t) in
        finish_step t s2 o <| current := None |>)) /\
  (* the flag a plain task finds set when its coroutine yields a future is the one re-armed here *)
  (forall s f outer, fdone s f = false ->
     await_fut s f outer = (set_flag true s (YFut f), LSusp (YFut f) (InFut f :: outer))).
Proof.
  split; [|split; [|split]].
  - intros s tn y frs k Hd Hk Hm. split.
    + apply step_eager_first; assumption.
    + apply step_eager_first_cont with (y := y); assumption.
  - exact step_new_eq.
  - exact step_susp_eq.
  - intros s f outer Hd. unfold await_fut. rewrite Hd. reflexivity.
Qed.
Print Assumptions C01_first_step_equiv.

(* ------------------------------------------------------------------------------------------
   Whole runs: eager start = plain task, for coroutines whose behaviour is determined by what
   they await.  Proofs: Sched/FutMono.v (futures are write-once), Sched/EagerRunOth.v (what the
   code of other tasks leaves alone), Sched/EagerRun.v (the tracking invariant), Sched/EagerRunThm.v.

   Vocabulary (EagerRun.v):
     AD P c          c is a tree of Ret / Raise / log / `await` of a future f with P f / sleep(0),
                     branching arbitrarily on the replies (all try/except/finally shapes included)
     ref_run c val   the reference run: c run with every `await f` answered by val f - a pure
                     function (list of logged numbers, final reply); no loop, no task, no schedule
     agree P s val   every finished future f with P f holds exactly val f in s (result or
                     exception; a cancelled one is outside the domain)
     evlog tn n0 s   the log entries of s from position n0 on that carry task tn's tag
     calm_run tn s l run-checked: at every action tn's _must_cancel is clear, and once its future is
                     done the task is finished and is not stepped again
     task_outcome r  the state Task.__step gives the task's future for the coroutine's outcome r
     Inv09 / InvC    the partition invariant of C09 (holds in every reachable state, Inv09_run)  *)
From Asynkit Require Import Sched.PartTables Sched.PartitionRun Sched.TaskFrame Sched.FutMono
     Sched.EagerRunOth Sched.EagerRun Sched.EagerRunThm.

(* a future's state is written once: through every action of every run (and inside every step,
   FutMono.FM_exec / FM_step_task), for all programs, a future that is not pending keeps its
   state, every future keeps its owner, and a stored _cancelled_exc is a CancelledError *)
Theorem C01_futures_write_once :
  forall acts s, let s' := fold_left do_action acts s in
  length (futs s) <= length (futs s') /\
  forall f, f < length (futs s) ->
    fowner (getf s' f) = fowner (getf s f) /\
    (fstate_ (getf s f) <> FPending -> fstate_ (getf s' f) = fstate_ (getf s f)) /\
    (forall e, fcexc (getf s' f) = Some e -> is_cancel e = true \/ fcexc (getf s f) = Some e).
Proof.
  intros acts s s'. destruct (FM_actions acts s) as (A & B & _). split; [exact A|].
  intros f Hf. exact (B f Hf).
Qed.
Print Assumptions C01_futures_write_once.

(* what `await f` (the InFut frame) replies: resumed by send(None) it replies what the finished
   future holds - the value, the exception, or for a cancelled future its stored CancelledError
   once and a plain CancelledError afterwards; resumed by throw(e) (the wake-up of a failed or
   cancelled future, a cancel(), a task_throw) it replies e *)
Theorem C01_await_reply :
  forall t f inp s,
  frame_resume t (InFut f) inp s =
  match inp with
  | RExc e => (s, LDone (RExc e))
  | RVal _ =>
      match fstate_ (getf s f) with
      | FResult v => (s, LDone (RVal v))
      | FExc e => (s, LDone (RExc e))
      | FCancelled =>
          match fcexc (getf s f) with
          | Some e => (setf s f (getf s f <| fcexc := None |>), LDone (RExc e))
          | None => (s, LDone (RExc ECancelled))
          end
      | FPending => (s, LDone (RExc (ERuntime rt_await_not_used)))
      end
  end.
Proof.
  intros t f inp s. destruct inp as [v|e]; [|reflexivity]. cbn [frame_resume]. unfold fdone, fut_result.
  destruct (fstate_ (getf s f)); try reflexivity. destruct (fcexc (getf s f)); reflexivity.
Qed.
Print Assumptions C01_await_reply.

(* THE PLAIN START.  The body c is spawned as a C task (create_task, PriorityTask, ...) at any
   loop boundary of any run; then any actions.  If the run keeps tn calm and tn finishes, the
   events it logged and the state of its future are those of the reference run on the futures'
   values - whatever the other tasks, the loop kind and the schedule were *)
Theorem C01_plain_is_reference :
  forall qok, QSpec qok -> forall (P : nat -> Prop) s how c acts val,
  Inv09 qok s -> how <> SPy -> AD P c -> (forall f, P f -> f < length (futs s)) ->
  let tn := length (tasks s) in
  let s1 := do_action s (ASpawn how c) in
  let sf := fold_left do_action acts s1 in
  actions_ok s1 acts -> calm_run tn s1 acts -> agree P sf val ->
  tcont_ (gett sf tn) = TFin ->
  map snd (evlog tn (length (log s)) sf) = fst (ref_run c val) /\
  fstate_ (getf sf (tfut (gett sf tn))) = task_outcome (snd (ref_run c val)).
Proof. exact plain_run. Qed.
Print Assumptions C01_plain_is_reference.

(* THE EAGER START.  At any point of any run where a running task t executes `eager(c)` (state s
   inside t's step, any continuation k of the caller): [s1] is the state after the synchronous
   prefix, [s'] the state at the end of the caller's activation, then the caller's step ends and
   any actions follow.  Finished synchronously: the prefix events are the whole reference trace
   and the returned future holds the reference outcome.  Suspended: prefix events followed by
   the events the continuation task tn logs are the reference trace, and tn's future holds the
   reference outcome *)
Theorem C01_eager_equals_plain :
  forall qok, QSpec qok -> forall (P : nat -> Prop) s t c k acts val,
  InvC qok (Some t) s -> current s = Some t ->
  AD P c -> coro_ok (length (blocks s)) (Spawn SEager c k) ->
  (forall f, P f -> f < length (futs s)) ->
  forall s1 o1 s' o,
  exec t c s = (s1, o1) ->
  exec t (Spawn SEager c k) s = (s', o) ->
  let sb := finish_step t s' o <| current := None |> in
  let sf := fold_left do_action acts sb in
  let tn := length (tasks s1) in
  let pre := map snd (skipn (length (log s)) (log s1)) in
  let fid := length (futs s1) in
  actions_ok sb acts -> agree P sf val ->
  match o1 with
  | ODone _ =>
      pre = fst (ref_run c val) /\ fstate_ (getf sf fid) = reply_fstate (snd (ref_run c val))
  | OYield _ _ _ =>
      calm_run tn sb acts -> tcont_ (gett sf tn) = TFin ->
      pre ++ map snd (evlog tn (length (log s1)) sf) = fst (ref_run c val) /\
      fstate_ (getf sf (tfut (gett sf tn))) = task_outcome (snd (ref_run c val))
  end.
Proof. exact eager_run. Qed.
Print Assumptions C01_eager_equals_plain.

(* eager = plain: any eager run (suspending case) and any plain run of the same body - different
   parents, environments, loop kinds, schedules - that resolve the awaited futures to the same
   values [val] give the same events and the same state of the awaitable *)
Theorem C01_same_as_task :
  forall (P : nat -> Prop) c val,
  (* the eager run *)
  forall qok1, QSpec qok1 -> forall s t k acts s1 y frs kc s' o,
  InvC qok1 (Some t) s -> current s = Some t -> AD P c ->
  coro_ok (length (blocks s)) (Spawn SEager c k) -> (forall f, P f -> f < length (futs s)) ->
  exec t c s = (s1, OYield y frs kc) -> exec t (Spawn SEager c k) s = (s', o) ->
  let sb := finish_step t s' o <| current := None |> in
  let sf := fold_left do_action acts sb in
  let tn := length (tasks s1) in
  actions_ok sb acts -> agree P sf val -> calm_run tn sb acts -> tcont_ (gett sf tn) = TFin ->
  (* the plain run *)
  forall qok2, QSpec qok2 -> forall z how acts2,
  Inv09 qok2 z -> how <> SPy -> (forall f, P f -> f < length (futs z)) ->
  let tp := length (tasks z) in
  let z1 := do_action z (ASpawn how c) in
  let zf := fold_left do_action acts2 z1 in
  actions_ok z1 acts2 -> calm_run tp z1 acts2 -> agree P zf val -> tcont_ (gett zf tp) = TFin ->
  map snd (skipn (length (log s)) (log s1)) ++ map snd (evlog tn (length (log s1)) sf) =
    map snd (evlog tp (length (log z)) zf) /\
  fstate_ (getf sf (tfut (gett sf tn))) = fstate_ (getf zf (tfut (gett zf tp))).
Proof.
  intros P c val qok1 QS1 s t k acts s1 y frs kc s' o I Hc Hc0 Hok R1 E1 E sb sf tn Ha A Hq Fin
         qok2 QS2 z how acts2 Iz Hh R2 tp z1 zf Ha2 Hq2 A2 Fin2.
  destruct (eager_run qok1 QS1 P s t c k acts val I Hc Hc0 Hok R1 s1 _ s' o E1 E Ha A Hq Fin) as [T1 O1].
  destruct (plain_run qok2 QS2 P z how c acts2 val Iz Hh Hc0 R2 Ha2 Hq2 A2 Fin2) as [T2 O2].
  split.
  - transitivity (fst (ref_run c val)); [exact T1|symmetry; exact T2].
  - transitivity (task_outcome (snd (ref_run c val))); [exact O1|symmetry; exact O2].
Qed.
Print Assumptions C01_same_as_task.
