From Coq Require Import QArith.
From Asynkit Require Import Base.Prelude Sched.Model.
(* placeholder: the C01 theorems land in Sched/EagerProofs.v *)
Theorem C01_bind_ret : forall v f, bind (Ret v) f = f (RVal v).
Proof. reflexivity. Qed.
Print Assumptions C01_bind_ret.
