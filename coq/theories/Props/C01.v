(* C01 - eager(): synchronous prefix, then exactly the outcome of a plain Task.
   Model-level content, over the scheduler model Sched/Model.v (current code, with the
   future-handshake-flag capture/re-arm repair).  Proofs: Sched/EagerProofs.v (+ Sched/FrameFacts.v).

   Vocabulary (Model.v / EagerProofs.v / ThrowProofs.v):
     exec t c s            user code c run inside task t's step from state s, up to its end
                           (ODone r) or its first suspension (OYield y frs k: it yielded y, its
                           library frames are frs, its own continuation is k)
     Spawn SEager child k  `aw = asynkit.eager(child)`; k receives the future id of aw
     eager_done_state s1 r s1 plus one more future, finished with r's outcome
     eager_cont_state s1 y frs kc
                           s1 with the captured future's handshake flag (fblock) cleared, plus the
                           continuation task (tcont_ = TEager y frs kc) with its pending future and
                           its first-step handle HStep tn None appended to the ready queue
     set_flag b s y        s with fblock of the future y set to b (nothing for a bare yield)
     running_state s t     the state in which t's code runs (_must_cancel, _fut_waiter cleared,
                           tcont_ = TRun, current = t)
     finish_step t s o     Task.__step's treatment of the coroutine's outcome o *)
From Coq Require Import QArith.
From RecordUpdate Require Import RecordUpdate.
From Asynkit Require Import Base.Prelude Sched.Model Sched.ThrowProofs Sched.EagerProofs.
Import RecordSetNotations.
Open Scope nat_scope.

(* eager(child) first runs child's whole prefix - up to its end or first suspension - inside
   the caller's own step: same task id t, `current` unchanged, the child's events appended
   to the log; only then does the caller continue (with the awaitable's future id) *)
Theorem C01_sync_prefix :
  forall t child k s,
  let s1 := fst (exec t child s) in
  exec t (Spawn SEager child k) s =
  (let '(s1, o) := exec t child s in
   match o with
   | ODone r => exec t (k (RVal (Z.of_nat (length (futs s1))))) (eager_done_state s1 r)
   | OYield y frs kc =>
       exec t (k (RVal (Z.of_nat (length (futs s1))))) (eager_cont_state s1 y frs kc)
   end) /\
  current s1 = current s /\ (exists l, log s1 = log s ++ l) /\
  length (tasks s) <= length (tasks s1).
Proof. exact eager_sync_prefix. Qed.
Print Assumptions C01_sync_prefix.

(* the child returned or raised (any exception, BaseException and CancelledError included)
   inside its prefix: exactly one new future, already finished with that outcome; no task,
   no handle, ready queue and every other table unchanged; the caller receives its id *)
Theorem C01_done_no_task :
  forall t child k s s1 r,
  exec t child s = (s1, ODone r) ->
  let f := length (futs s1) in
  let s2 := s1 <| futs := futs s1 ++ [mkFut (match r with RVal v => FResult v | RExc e => FExc e end)
                                            [] false None None] |> in
  exec t (Spawn SEager child k) s = exec t (k (RVal (Z.of_nat f))) s2 /\
  getf s2 f = mkFut (match r with RVal v => FResult v | RExc e => FExc e end) [] false None None /\
  fdone s2 f = true /\
  (forall g, g <> f -> getf s2 g = getf s1 g) /\
  tasks s2 = tasks s1 /\ ready s2 = ready s1 /\ handles s2 = handles s1 /\
  locks s2 = locks s1 /\ conds s2 = conds s1 /\ events s2 = events s1 /\ blocks s2 = blocks s1 /\
  timers s2 = timers s1 /\ now s2 = now s1 /\ current s2 = current s1 /\ log s2 = log s1 /\
  errors s2 = errors s1.
Proof.
  intros t child k s s1 r E.
  destruct (eager_done_no_task t child k s s1 r E) as (A & _ & B). split; [exact A|exact B].
Qed.
Print Assumptions C01_done_no_task.

(* the child suspended: exactly one task is appended (the continuation TEager y frs kc, a C task
   without waiter, not cancelled, owning a new pending future), exactly one handle (its first
   step) is appended to the handle table and to the ready queue, a captured future is left with
   its handshake flag CLEARED and otherwise untouched, nothing else changes; the caller receives
   the task's future id *)
Theorem C01_continuation :
  forall t child k s s1 y frs kc,
  exec t child s = (s1, OYield y frs kc) ->
  let tn := length (tasks s1) in
  let f := length (futs s1) in
  let s2 := eager_cont_state s1 y frs kc in
  exec t (Spawn SEager child k) s = exec t (k (RVal (Z.of_nat f))) s2 /\
  tasks s2 = tasks s1 ++ [mkTask KC None f (TEager y frs kc) None false [] None] /\
  gett s2 tn = mkTask KC None f (TEager y frs kc) None false [] None /\
  getf s2 f = mkFut FPending [] false (Some tn) None /\
  length (futs s2) = S (length (futs s1)) /\
  handles s2 = handles s1 ++ [mkH (HStep tn None) false] /\
  ready s2 = rq_append (ready s1) (length (handles s1)) 0%Q /\
  (forall g, y = YFut g -> fblock (getf s2 g) = false) /\
  (forall g, g < f -> getf s2 g = (if match y with YFut g' => Nat.eqb g g' | YNone => false end
                                   then getf s1 g <| fblock := false |> else getf s1 g)) /\
  locks s2 = locks s1 /\ conds s2 = conds s1 /\ events s2 = events s1 /\ blocks s2 = blocks s1 /\
  timers s2 = timers s1 /\ now s2 = now s1 /\ current s2 = current s1 /\ log s2 = log s1 /\
  errors s2 = errors s1.
Proof. exact eager_continuation. Qed.
Print Assumptions C01_continuation.

(* the continuation task's first step (not cancelled in between): nothing of the coroutine runs;
   the flag is re-armed and the captured yield goes through the very same finish_step that
   a plain task goes through when its body (or its resumed coroutine) yields; afterwards the task
   is an ordinary suspended task TSusp frs k, handled by the same model functions as any task *)
Theorem C01_first_step_equiv :
  (* eager continuation *)
  (forall s tn y frs k,
     tdone s tn = false -> tcont_ (gett s tn) = TEager y frs k -> tmustc (gett s tn) = false ->
     step_task tn None s =
       finish_step tn (set_flag true (running_state s tn) y) (OYield y frs k) <| current := None |> /\
     tcont_ (gett (step_task tn None s) tn) = TSusp frs k) /\
  (* plain task, first step: its body runs and the outcome goes to finish_step *)
  (forall s t c,
     tdone s t = false -> tcont_ (gett s t) = TNew c -> tmustc (gett s t) = false ->
     step_task t None s =
       (let '(s2, o) := exec t c (running_state s t) in finish_step t s2 o <| current := None |>)) /\
  (* any suspended task, any step *)
  (forall s t exc frs k,
     tdone s t = false -> tcont_ (gett s t) = TSusp frs k ->
     step_task t exc s =
       (let '(s2, o) := run_cont t frs k (input_reply (step_input s t exc)) (running_state s t) in
        finish_step t s2 o <| current := None |>)) /\
  (* the flag a plain task finds set when its coroutine yields a future is the one re-armed here *)
  (forall s f outer, fdone s f = false ->
     await_fut s f outer = (set_flag true s (YFut f), LSusp (YFut f) (InFut f :: outer))).
Proof.
  split; [|split; [|split]].
  - intros s tn y frs k Hd Hk Hm. split.
    + apply step_eager_first; assumption.
    + apply step_eager_first_cont with (y := y); assumption.
  - exact step_new_eq.
  - exact step_susp_eq.
  - intros s f outer Hd. unfold await_fut. rewrite Hd. reflexivity.
Qed.
Print Assumptions C01_first_step_equiv.
