From Asynkit Require Import Base.Prelude Sched.Model.
(* placeholder: the C15 theorems land in Sched/ThrowProofs.v *)
Theorem C15_throw_done_refused :
  forall s t e, tdone s t = true -> task_throw s t e = (s, RExc (ERuntime rt_task_done)).
Proof. intros s t e H. unfold task_throw. rewrite H. reflexivity. Qed.
Print Assumptions C15_throw_done_refused.
