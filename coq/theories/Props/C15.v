(* C15 - interrupts reach their target exactly once, immediately, and only it:
   the part at the level of task_throw (Python tasks), over the scheduler model
   Sched/Model.v.  Proofs: Sched/ThrowProofs.v on top of the C09 invariant.

   Vocabulary (PartTables.v / ThrowProofs.v):
     InvC qok c s     Inv09 with running task c;  hcnt / ccnt / bo as in Props/C09.v
     strip_wakeup t x future x with t's wake-up callback filtered out of its callbacks
     delivered_exn    the exception Task.__step hands to the coroutine: e, unless a cancel()
                      is pending (_must_cancel), then e if e is a CancelledError else a fresh
                      CancelledError
     running_state    the state in which the task's code runs: _must_cancel and _fut_waiter
                      cleared, current task set *)
From Coq Require Import QArith Sorting.Permutation.
From RecordUpdate Require Import RecordUpdate.
From Asynkit Require Import Base.Prelude Queue.PosPQ Sched.Model Sched.PartTables Sched.PartitionProofs
     Sched.PartitionSteps Sched.PartitionRun Sched.PartitionFinal Sched.ThrowProofs Props.C09.
Import RecordSetNotations.
Open Scope nat_scope.

(* a refused task_throw (RuntimeError) changes nothing; and each refusal case is refused *)
Theorem C15_refusal_noop :
  (forall s t e s' x, task_throw s t e = (s', RExc x) -> s' = s) /\
  (forall s t e, tdone s t = true -> task_throw s t e = (s, RExc (ERuntime rt_task_done))) /\
  (forall s t e, tdone s t = false -> tkind_ (gett s t) = KC ->
                 task_throw s t e = (s, RExc (ERuntime rt_ctask))) /\
  (forall s t e, tdone s t = false -> tkind_ (gett s t) = KPy -> bo s t = None ->
                 (tmustc (gett s t) = true \/
                  exists f, twaiter (gett s t) = Some f /\ fcancelled s f = true) ->
                 task_throw s t e = (s, RExc (ERuntime rt_task_cancelled))) /\
  (forall s t e, tdone s t = false -> tkind_ (gett s t) = KPy -> bo s t = None ->
                 tmustc (gett s t) = false ->
                 (forall f, twaiter (gett s t) = Some f -> fcancelled s f = false) ->
                 rq_find (ready s) (task_key s t) true = None ->
                 task_throw s t e = (s, RExc (ERuntime rt_self))) /\
  (* the running task is always refused *)
  (forall qok, QSpec qok -> forall s t e, InvC qok (Some t) s ->
                 exists k, task_throw s t e = (s, RExc (ERuntime k))).
Proof.
  split; [exact throw_refused_unchanged|]. split; [exact throw_refuse_done|].
  split; [exact throw_refuse_ctask|]. split; [exact throw_refuse_cancelling|].
  split; [exact throw_refuse_self|]. exact throw_current_refused.
Qed.
Print Assumptions C15_refusal_noop.

(* an accepted task_throw: t becomes runnable with exactly one handle, the new
   HStep t (Some e); its waiter is cleared; the future it waited on keeps its state and
   its other callbacks; every other future, task and table is unchanged; Inv09 holds *)
Theorem C15_throw_effect :
  forall qok, QSpec qok -> forall c s t e s' v,
  InvC qok c s -> task_throw s t e = (s', RVal v) ->
  let hn := length (handles s) in
  InvC qok c s' /\ is_cur c t = false /\ tdone s' t = false /\
  hcnt s' t = 1 /\ bo s' t = None /\ twaiter (gett s' t) = None /\
  handles s' = handles s ++ [mkH (HStep t (Some e)) false] /\ In hn (rq_items (ready s')) /\
  (forall g, getf s' g = getf s g \/ (bo s t = Some g /\ getf s' g = strip_wakeup t (getf s g))) /\
  (forall g, fstate_ (getf s' g) = fstate_ (getf s g)) /\
  (forall t' g, t' <> t -> ccnt s' t' g = ccnt s t' g) /\
  (forall g, fdone s' g = false -> ccnt s' t g = 0) /\
  (forall t', t' <> t -> gett s' t' = gett s t') /\
  gett s' t = gett s t <| twaiter := None |> /\
  (forall t', t' <> t -> hcnt s' t' = hcnt s t') /\
  locks s' = locks s /\ conds s' = conds s /\ events s' = events s /\ blocks s' = blocks s /\
  timers s' = timers s /\ now s' = now s /\ current s' = current s /\ log s' = log s /\
  errors s' = errors s.
Proof. exact throw_effect. Qed.
Print Assumptions C15_throw_effect.

(* delivery: when that handle is run by run_one, the target's continuation is resumed
   with RExc (delivered_exn ...) at its suspension point (resume_stack over its library
   frames, then the user continuation); a task that never started is ended by it *)
Theorem C15_delivered :
  (forall s h r t e, rq_popleft (ready s) = Some (h, r) ->
                     geth s h = mkH (HStep t (Some e)) false ->
                     run_one s = step_task t (Some e) (s <| ready := r |>)) /\
  (forall s t e frs k, tdone s t = false -> tcont_ (gett s t) = TSusp frs k ->
     step_task t (Some e) s =
     (let '(s1, r) := resume_stack t frs (RExc (delivered_exn s t e)) (running_state s t) in
      let '(s2, o) := match r with
                      | LDone rep => exec t (k rep) s1
                      | LSusp y frs' => (s1, OYield y frs' k)
                      end in
      finish_step t s2 o <| current := None |>)) /\
  (forall s t e c0, tdone s t = false -> tcont_ (gett s t) = TNew c0 ->
     step_task t (Some e) s =
     finish_step t (running_state s t) (ODone (RExc (delivered_exn s t e))) <| current := None |>) /\
  (forall s t e, tmustc (gett s t) = false -> delivered_exn s t e = e) /\
  (forall s t e, tmustc (gett s t) = true ->
                 delivered_exn s t e = if is_cancel e then e else ECancelled).
Proof.
  split; [exact run_one_step|]. split; [exact step_throw_susp|]. split; [exact step_throw_new|].
  split; intros s t e H; unfold delivered_exn; rewrite H; reflexivity.
Qed.
Print Assumptions C15_delivered.

(* after an accepted throw t's wake-up callback is on no pending future (C15_throw_effect),
   hence completing any future later creates no handle for t: no second resumption *)
Theorem C15_no_second_resume :
  forall qok, QSpec qok -> forall c s t g x s' ok,
  InvC qok c s -> is_cur c t = false -> t < length (tasks s) -> tdone s t = false ->
  bo s t = None -> x <> FPending -> fut_finish s g x = (s', ok) -> hcnt s' t = hcnt s t.
Proof. exact no_second_resume. Qed.
Print Assumptions C15_no_second_resume.

(* ---- non-vacuity: throwing at the blocked task 0 of the C09 example state ---- *)
Example C15_example :
  let s := ex_state in
  let s' := fst (task_throw s 0 (EUser 1)) in
  snd (task_throw s 0 (EUser 1)) = RVal 0 /\
  InvC qok_list None s' /\
  bo s 0 = Some 1 /\ bo s' 0 = None /\ hcnt s' 0 = 1 /\
  fcbs (getf s 1) = [CbWakeup 0] /\ fcbs (getf s' 1) = [] /\
  (* a done task and a C task are refused *)
  task_throw s 1 (EUser 1) = (s, RExc (ERuntime rt_task_done)) /\
  task_throw s 2 (EUser 1) = (s, RExc (ERuntime rt_ctask)).
Proof.
  cbv zeta. split; [vm_compute; reflexivity|]. split.
  - destruct (task_throw ex_state 0 (EUser 1)) as [s' r] eqn:E.
    assert (Hr : r = RVal 0) by (apply (f_equal snd) in E; vm_compute in E; congruence).
    subst r. simpl.
    apply (C15_throw_effect qok_list QSpec_list None ex_state 0 (EUser 1) s' 0 (proj1 (proj1 C09_example)) E).
  - vm_compute. repeat split; reflexivity.
Qed.

(* ------------------------------------------------------------------------------------
   The priority loop: qok_pos (Props/C09.v) meets QSpec (C09_qspec_prio), so the theorems above
   hold with the PosPriorityQueue as ready queue (boost factor 0); Inv09 qok_pos holds in every
   reachable state of the priority loop by C09_inv_prio. *)
From Asynkit Require Import Sched.PrioQueueProofs.

(* the running task is always refused, on the priority loop *)
Theorem C15_current_refused_prio :
  forall s t e, InvC qok_pos (Some t) s -> exists k, task_throw s t e = (s, RExc (ERuntime k)).
Proof. exact (throw_current_refused qok_pos QSpec_pos). Qed.
Print Assumptions C15_current_refused_prio.

(* an accepted task_throw on the priority loop: exactly one handle for t, the new
   HStep t (Some e), queued in the PosPriorityQueue; everything else as on the list loop *)
Theorem C15_throw_effect_prio :
  forall c s t e s' v,
  InvC qok_pos c s -> task_throw s t e = (s', RVal v) ->
  let hn := length (handles s) in
  InvC qok_pos c s' /\ is_cur c t = false /\ tdone s' t = false /\
  hcnt s' t = 1 /\ bo s' t = None /\ twaiter (gett s' t) = None /\
  handles s' = handles s ++ [mkH (HStep t (Some e)) false] /\ In hn (rq_items (ready s')) /\
  (forall g, getf s' g = getf s g \/ (bo s t = Some g /\ getf s' g = strip_wakeup t (getf s g))) /\
  (forall g, fstate_ (getf s' g) = fstate_ (getf s g)) /\
  (forall t' g, t' <> t -> ccnt s' t' g = ccnt s t' g) /\
  (forall g, fdone s' g = false -> ccnt s' t g = 0) /\
  (forall t', t' <> t -> gett s' t' = gett s t') /\
  gett s' t = gett s t <| twaiter := None |> /\
  (forall t', t' <> t -> hcnt s' t' = hcnt s t') /\
  locks s' = locks s /\ conds s' = conds s /\ events s' = events s /\ blocks s' = blocks s /\
  timers s' = timers s /\ now s' = now s /\ current s' = current s /\ log s' = log s /\
  errors s' = errors s.
Proof. exact (throw_effect qok_pos QSpec_pos). Qed.
Print Assumptions C15_throw_effect_prio.

(* no second resumption on the priority loop *)
Theorem C15_no_second_resume_prio :
  forall c s t g x s' ok,
  InvC qok_pos c s -> is_cur c t = false -> t < length (tasks s) -> tdone s t = false ->
  bo s t = None -> x <> FPending -> fut_finish s g x = (s', ok) -> hcnt s' t = hcnt s t.
Proof. exact (no_second_resume qok_pos QSpec_pos). Qed.
Print Assumptions C15_no_second_resume_prio.

(* non-vacuity: throwing at the blocked task 0 of the priority-loop example state *)
Example C15_example_prio :
  let s := ex_state_prio in
  let s' := fst (task_throw s 0 (EUser 1)) in
  snd (task_throw s 0 (EUser 1)) = RVal 0 /\
  InvC qok_pos None s' /\ bo s 0 = Some 1 /\ bo s' 0 = None /\ hcnt s' 0 = 1 /\
  rq_items (ready s) = [3; 2] /\ rq_items (ready s') = [3; 4; 2].
Proof.
  cbv zeta. split; [vm_compute; reflexivity|]. split.
  - destruct (task_throw ex_state_prio 0 (EUser 1)) as [s' r] eqn:E.
    assert (Hr : r = RVal 0) by (apply (f_equal snd) in E; vm_compute in E; congruence).
    subst r. simpl.
    apply (C15_throw_effect_prio None ex_state_prio 0 (EUser 1) s' 0 (proj1 (proj1 C09_example_prio)) E).
  - vm_compute. repeat split; reflexivity.
Qed.

(* ... and with starvation boosting enabled (any boost factor and draws): qok_boost
   (Props/C09.v, C09_qspec_prio_boost / C09_inv_prio_boost) *)
From Asynkit Require Import Sched.PrioQueueBoost.

Theorem C15_current_refused_prio_boost :
  forall s t e, InvC qok_boost (Some t) s -> exists k, task_throw s t e = (s, RExc (ERuntime k)).
Proof. exact (throw_current_refused qok_boost QSpec_boost). Qed.
Print Assumptions C15_current_refused_prio_boost.

Theorem C15_throw_effect_prio_boost :
  forall c s t e s' v,
  InvC qok_boost c s -> task_throw s t e = (s', RVal v) ->
  InvC qok_boost c s' /\ is_cur c t = false /\ tdone s' t = false /\
  hcnt s' t = 1 /\ bo s' t = None /\ twaiter (gett s' t) = None /\
  handles s' = handles s ++ [mkH (HStep t (Some e)) false] /\
  In (length (handles s)) (rq_items (ready s')) /\
  (forall t', t' <> t -> hcnt s' t' = hcnt s t') /\
  (forall g, fdone s' g = false -> ccnt s' t g = 0).
Proof.
  intros c s t e s' v I E.
  pose proof (throw_effect qok_boost QSpec_boost c s t e s' v I E) as H. cbv zeta in H.
  destruct H as (H1 & H2 & H3 & H4 & H5 & H6 & H7 & H8 & _ & _ & _ & H12 & _ & _ & H15 & _).
  repeat (split; [assumption|]). assumption.
Qed.
Print Assumptions C15_throw_effect_prio_boost.

Theorem C15_no_second_resume_prio_boost :
  forall c s t g x s' ok,
  InvC qok_boost c s -> is_cur c t = false -> t < length (tasks s) -> tdone s t = false ->
  bo s t = None -> x <> FPending -> fut_finish s g x = (s', ok) -> hcnt s' t = hcnt s t.
Proof. exact (no_second_resume qok_boost QSpec_boost). Qed.
Print Assumptions C15_no_second_resume_prio_boost.
