(* C15 - interrupts reach their target exactly once, immediately, and only it:
   the part at the level of task_throw (Python tasks), over the scheduler model
   Sched/Model.v.  Proofs: Sched/ThrowProofs.v on top of the C09 invariant.

   Vocabulary (PartTables.v / ThrowProofs.v):
     InvC qok c s     Inv09 with running task c;  hcnt / ccnt / bo as in Props/C09.v
     strip_wakeup t x future x with t's wake-up callback filtered out of its callbacks
     delivered_exn    the exception Task.__step hands to the coroutine: e, unless a cancel()
                      is pending (_must_cancel), then e if e is a CancelledError else a fresh
                      CancelledError
     running_state    the state in which the task's code runs: _must_cancel and _fut_waiter
                      cleared, current task set *)
From Coq Require Import QArith Sorting.Permutation.
From RecordUpdate Require Import RecordUpdate.
From Asynkit Require Import Base.Prelude Queue.PosPQ Sched.Model Sched.PartTables Sched.PartitionProofs
     Sched.PartitionSteps Sched.PartitionRun Sched.PartitionFinal Sched.ThrowProofs Props.C09.
Import RecordSetNotations.
Open Scope nat_scope.

(* a refused task_throw (RuntimeError) changes nothing; and each refusal case is refused *)
Theorem C15_refusal_noop :
  (forall s t e s' x, task_throw s t e = (s', RExc x) -> s' = s) /\
  (forall s t e, tdone s t = true -> task_throw s t e = (s, RExc (ERuntime rt_task_done))) /\
  (forall s t e, tdone s t = false -> tkind_ (gett s t) = KC ->
                 task_throw s t e = (s, RExc (ERuntime rt_ctask))) /\
  (forall s t e, tdone s t = false -> tkind_ (gett s t) = KPy -> bo s t = None ->
                 (tmustc (gett s t) = true \/
                  exists f, twaiter (gett s t) = Some f /\ fcancelled s f = true) ->
                 task_throw s t e = (s, RExc (ERuntime rt_task_cancelled))) /\
  (forall s t e, tdone s t = false -> tkind_ (gett s t) = KPy -> bo s t = None ->
                 tmustc (gett s t) = false ->
                 (forall f, twaiter (gett s t) = Some f -> fcancelled s f = false) ->
                 rq_find (ready s) (task_key s t) true = None ->
                 task_throw s t e = (s, RExc (ERuntime rt_self))) /\
  (* the running task is always refused *)
  (forall qok, QSpec qok -> forall s t e, InvC qok (Some t) s ->
                 exists k, task_throw s t e = (s, RExc (ERuntime k))).
Proof.
  split; [exact throw_refused_unchanged|]. split; [exact throw_refuse_done|].
  split; [exact throw_refuse_ctask|]. split; [exact throw_refuse_cancelling|].
  split; [exact throw_refuse_self|]. exact throw_current_refused.
Qed.
Print Assumptions C15_refusal_noop.

(* an accepted task_throw: t becomes runnable with exactly one handle, the new
   HStep t (Some e); its waiter is cleared; the future it waited on keeps its state and
   its other callbacks; every other future, task and table is unchanged; Inv09 holds *)
Theorem C15_throw_effect :
  forall qok, QSpec qok -> forall c s t e s' v,
  InvC qok c s -> task_throw s t e = (s', RVal v) ->
  let hn := length (handles s) in
  InvC qok c s' /\ is_cur c t = false /\ tdone s' t = false /\
  hcnt s' t = 1 /\ bo s' t = None /\ twaiter (gett s' t) = None /\
  handles s' = handles s ++ [mkH (HStep t (Some e)) false] /\ In hn (rq_items (ready s')) /\
  (forall g, getf s' g = getf s g \/ (bo s t = Some g /\ getf s' g = strip_wakeup t (getf s g))) /\
  (forall g, fstate_ (getf s' g) = fstate_ (getf s g)) /\
  (forall t' g, t' <> t -> ccnt s' t' g = ccnt s t' g) /\
  (forall g, fdone s' g = false -> ccnt s' t g = 0) /\
  (forall t', t' <> t -> gett s' t' = gett s t') /\
  gett s' t = gett s t <| twaiter := None |> /\
  (forall t', t' <> t -> hcnt s' t' = hcnt s t') /\
  locks s' = locks s /\ conds s' = conds s /\ events s' = events s /\ blocks s' = blocks s /\
  timers s' = timers s /\ now s' = now s /\ current s' = current s /\ log s' = log s /\
  errors s' = errors s.
Proof. exact throw_effect. Qed.
Print Assumptions C15_throw_effect.

(* delivery: when that handle is run by run_one, the target's continuation is resumed
   with RExc (delivered_exn ...) at its suspension point (resume_stack over its library
   frames, then the user continuation); a task that never started is ended by it *)
Theorem C15_delivered :
  (forall s h r t e, rq_popleft (ready s) = Some (h, r) ->
                     geth s h = mkH (HStep t (Some e)) false ->
                     run_one s = step_task t (Some e) (s <| ready := r |>)) /\
  (forall s t e frs k, tdone s t = false -> tcont_ (gett s t) = TSusp frs k ->
     step_task t (Some e) s =
     (let '(s1, r) := resume_stack t frs (RExc (delivered_exn s t e)) (running_state s t) in
      let '(s2, o) := match r with
                      | LDone rep => exec t (k rep) s1
                      | LSusp y frs' => (s1, OYield y frs' k)
                      end in
      finish_step t s2 o <| current := None |>)) /\
  (forall s t e c0, tdone s t = false -> tcont_ (gett s t) = TNew c0 ->
     step_task t (Some e) s =
     finish_step t (running_state s t) (ODone (RExc (delivered_exn s t e))) <| current := None |>) /\
  (forall s t e, tmustc (gett s t) = false -> delivered_exn s t e = e) /\
  (forall s t e, tmustc (gett s t) = true ->
                 delivered_exn s t e = if is_cancel e then e else ECancelled).
Proof.
  split; [exact run_one_step|]. split; [exact step_throw_susp|]. split; [exact step_throw_new|].
  split; intros s t e H; unfold delivered_exn; rewrite H; reflexivity.
Qed.
Print Assumptions C15_delivered.

(* after an accepted throw t's wake-up callback is on no pending future (C15_throw_effect),
   hence completing any future later creates no handle for t: no second resumption *)
Theorem C15_no_second_resume :
  forall qok, QSpec qok -> forall c s t g x s' ok,
  InvC qok c s -> is_cur c t = false -> t < length (tasks s) -> tdone s t = false ->
  bo s t = None -> x <> FPending -> fut_finish s g x = (s', ok) -> hcnt s' t = hcnt s t.
Proof. exact no_second_resume. Qed.
Print Assumptions C15_no_second_resume.

(* ---- non-vacuity: throwing at the blocked task 0 of the C09 example state ---- *)
Example C15_example :
  let s := ex_state in
  let s' := fst (task_throw s 0 (EUser 1)) in
  snd (task_throw s 0 (EUser 1)) = RVal 0 /\
  InvC qok_list None s' /\
  bo s 0 = Some 1 /\ bo s' 0 = None /\ hcnt s' 0 = 1 /\
  fcbs (getf s 1) = [CbWakeup 0] /\ fcbs (getf s' 1) = [] /\
  (* a done task and a C task are refused *)
  task_throw s 1 (EUser 1) = (s, RExc (ERuntime rt_task_done)) /\
  task_throw s 2 (EUser 1) = (s, RExc (ERuntime rt_ctask)).
Proof.
  cbv zeta. split; [vm_compute; reflexivity|]. split.
  - destruct (task_throw ex_state 0 (EUser 1)) as [s' r] eqn:E.
    assert (Hr : r = RVal 0) by (apply (f_equal snd) in E; vm_compute in E; congruence).
    subst r. simpl.
    apply (C15_throw_effect qok_list QSpec_list None ex_state 0 (EUser 1) s' 0 (proj1 (proj1 C09_example)) E).
  - vm_compute. repeat split; reflexivity.
Qed.

(* ------------------------------------------------------------------------------------
   The priority loop: qok_pos (Props/C09.v) meets QSpec (C09_qspec_prio), so the theorems above
   hold with the PosPriorityQueue as ready queue (boost factor 0); Inv09 qok_pos holds in every
   reachable state of the priority loop by C09_inv_prio. *)
From Asynkit Require Import Sched.PrioQueueProofs.

(* the running task is always refused, on the priority loop *)
Theorem C15_current_refused_prio :
  forall s t e, InvC qok_pos (Some t) s -> exists k, task_throw s t e = (s, RExc (ERuntime k)).
Proof. exact (throw_current_refused qok_pos QSpec_pos). Qed.
Print Assumptions C15_current_refused_prio.

(* an accepted task_throw on the priority loop: exactly one handle for t, the new
   HStep t (Some e), queued in the PosPriorityQueue; everything else as on the list loop *)
Theorem C15_throw_effect_prio :
  forall c s t e s' v,
  InvC qok_pos c s -> task_throw s t e = (s', RVal v) ->
  let hn := length (handles s) in
  InvC qok_pos c s' /\ is_cur c t = false /\ tdone s' t = false /\
  hcnt s' t = 1 /\ bo s' t = None /\ twaiter (gett s' t) = None /\
  handles s' = handles s ++ [mkH (HStep t (Some e)) false] /\ In hn (rq_items (ready s')) /\
  (forall g, getf s' g = getf s g \/ (bo s t = Some g /\ getf s' g = strip_wakeup t (getf s g))) /\
  (forall g, fstate_ (getf s' g) = fstate_ (getf s g)) /\
  (forall t' g, t' <> t -> ccnt s' t' g = ccnt s t' g) /\
  (forall g, fdone s' g = false -> ccnt s' t g = 0) /\
  (forall t', t' <> t -> gett s' t' = gett s t') /\
  gett s' t = gett s t <| twaiter := None |> /\
  (forall t', t' <> t -> hcnt s' t' = hcnt s t') /\
  locks s' = locks s /\ conds s' = conds s /\ events s' = events s /\ blocks s' = blocks s /\
  timers s' = timers s /\ now s' = now s /\ current s' = current s /\ log s' = log s /\
  errors s' = errors s.
Proof. exact (throw_effect qok_pos QSpec_pos). Qed.
Print Assumptions C15_throw_effect_prio.

(* no second resumption on the priority loop *)
Theorem C15_no_second_resume_prio :
  forall c s t g x s' ok,
  InvC qok_pos c s -> is_cur c t = false -> t < length (tasks s) -> tdone s t = false ->
  bo s t = None -> x <> FPending -> fut_finish s g x = (s', ok) -> hcnt s' t = hcnt s t.
Proof. exact (no_second_resume qok_pos QSpec_pos). Qed.
Print Assumptions C15_no_second_resume_prio.

(* non-vacuity: throwing at the blocked task 0 of the priority-loop example state *)
Example C15_example_prio :
  let s := ex_state_prio in
  let s' := fst (task_throw s 0 (EUser 1)) in
  snd (task_throw s 0 (EUser 1)) = RVal 0 /\
  InvC qok_pos None s' /\ bo s 0 = Some 1 /\ bo s' 0 = None /\ hcnt s' 0 = 1 /\
  rq_items (ready s) = [3; 2] /\ rq_items (ready s') = [3; 4; 2].
Proof.
  cbv zeta. split; [vm_compute; reflexivity|]. split.
  - destruct (task_throw ex_state_prio 0 (EUser 1)) as [s' r] eqn:E.
    assert (Hr : r = RVal 0) by (apply (f_equal snd) in E; vm_compute in E; congruence).
    subst r. simpl.
    apply (C15_throw_effect_prio None ex_state_prio 0 (EUser 1) s' 0 (proj1 (proj1 C09_example_prio)) E).
  - vm_compute. repeat split; reflexivity.
Qed.

(* ... and with starvation boosting enabled (any boost factor and draws): qok_boost
   (Props/C09.v, C09_qspec_prio_boost / C09_inv_prio_boost) *)
From Asynkit Require Import Sched.PrioQueueBoost.

Theorem C15_current_refused_prio_boost :
  forall s t e, InvC qok_boost (Some t) s -> exists k, task_throw s t e = (s, RExc (ERuntime k)).
Proof. exact (throw_current_refused qok_boost QSpec_boost). Qed.
Print Assumptions C15_current_refused_prio_boost.

Theorem C15_throw_effect_prio_boost :
  forall c s t e s' v,
  InvC qok_boost c s -> task_throw s t e = (s', RVal v) ->
  InvC qok_boost c s' /\ is_cur c t = false /\ tdone s' t = false /\
  hcnt s' t = 1 /\ bo s' t = None /\ twaiter (gett s' t) = None /\
  handles s' = handles s ++ [mkH (HStep t (Some e)) false] /\
  In (length (handles s)) (rq_items (ready s')) /\
  (forall t', t' <> t -> hcnt s' t' = hcnt s t') /\
  (forall g, fdone s' g = false -> ccnt s' t g = 0).
Proof.
  intros c s t e s' v I E.
  pose proof (throw_effect qok_boost QSpec_boost c s t e s' v I E) as H. cbv zeta in H.
  destruct H as (H1 & H2 & H3 & H4 & H5 & H6 & H7 & H8 & _ & _ & _ & H12 & _ & _ & H15 & _).
  repeat (split; [assumption|]). assumption.
Qed.
Print Assumptions C15_throw_effect_prio_boost.

Theorem C15_no_second_resume_prio_boost :
  forall c s t g x s' ok,
  InvC qok_boost c s -> is_cur c t = false -> t < length (tasks s) -> tdone s t = false ->
  bo s t = None -> x <> FPending -> fut_finish s g x = (s', ok) -> hcnt s' t = hcnt s t.
Proof. exact (no_second_resume qok_boost QSpec_boost). Qed.
Print Assumptions C15_no_second_resume_prio_boost.

(* ====================================================================================
   Second part: `await task_interrupt(t', e)` runs the target NEXT; a later throw / cancel()
   supersedes; exactly one live handle; loop errors.  Proofs: Sched/InterruptNext.v,
   Sched/ErrorsFrame.v.

   Additional vocabulary:
     QNext qok   what "position 0 is the head of the run order" needs from the ready queue, on
                 top of QSpec:  rq_items (rq_insert_pos r 0 h) = h :: rq_items r ;  popleft
                 returns the head of rq_items ;  a handle appended after an insert at position 0
                 stays behind it.  Proved for the list queue (QNext_list) and for the
                 PosPriorityQueue with boosting off (QNext_pos).
     NDH s       no handle of a finished task is queued. *)
From Asynkit Require Import Sched.Corr Sched.InterruptNext Sched.ErrorsFrame.

(* a refused interrupt: task_interrupt raises the RuntimeError of task_throw, state unchanged;
   under the invariant there are exactly two outcomes - refused, or accepted and asleep *)
Theorem C15_interrupt_refused :
  (forall t t' e s s1 x, task_throw s t' e = (s1, RExc x) ->
     lib_call t (OTaskInterrupt t' e) s = (s, LDone (RExc x)) /\ s1 = s /\ exists k, x = ERuntime k) /\
  (forall qok, QSpec qok -> forall c s t t' e, InvC qok c s ->
     (exists k, task_throw s t' e = (s, RExc (ERuntime k)) /\
                lib_call t (OTaskInterrupt t' e) s = (s, LDone (RExc (ERuntime k)))) \/
     (exists s1 s', task_throw s t' e = (s1, RVal 0) /\
                    lib_call t (OTaskInterrupt t' e) s = (s', LSusp YNone [InSleep0]))).
Proof. split; [exact interrupt_refused|exact interrupt_dichotomy]. Qed.
Print Assumptions C15_interrupt_refused.

(* an accepted interrupt (the call suspends in its sleep(0)): the state s' differs from the
   result s1 of the throw (C15_throw_effect) only in the ready queue, where the target's new
   handle hn = HStep t' (Some e) - its only handle - now is the HEAD of the run order;
   popleft returns it, so the next run_one IS step_task t' (Some e): the target runs before any
   other task, and is not done (no InvalidStateError).  The interrupting task itself, when it is
   the running task, has no handle at all in s' *)
Theorem C15_interrupt_next :
  forall qok, QSpec qok -> QNext qok -> forall c s t t' e s',
  InvC qok c s -> lib_call t (OTaskInterrupt t' e) s = (s', LSusp YNone [InSleep0]) ->
  let hn := length (handles s) in
  exists s1 v r' r'',
    task_throw s t' e = (s1, RVal v) /\
    s' = s1 <| ready := rq_insert_pos r' 0 hn |> /\ qok r' /\
    Permutation (rq_items (ready s1)) (hn :: rq_items r') /\
    InvC qok c s' /\
    geth s' hn = mkH (HStep t' (Some e)) false /\
    rq_items (ready s') = hn :: rq_items r' /\
    (forall h, In h (rq_items r') -> task_key s' t' h = false) /\
    rq_popleft (ready s') = Some (hn, r'') /\ rq_items r'' = rq_items r' /\
    run_one s' = step_task t' (Some e) (s' <| ready := r'' |>) /\
    tdone s' t' = false /\ hcnt s' t' = 1 /\
    (c = Some t -> tdone s' t = false -> hcnt s' t = 0).
Proof. exact interrupt_next. Qed.
Print Assumptions C15_interrupt_next.

(* the whole step of the interrupting task t (it is the running task): its code calls
   `await task_interrupt(t', e)`, the call suspends, Task.__step re-schedules t with call_soon.
   In the state sf the loop sees next, the head of the run order is the target's handle hn with
   the exception; t's own handle HStep t None is the fresh one S hn, BEHIND it, and is t's only
   handle: t is resumed only after the target has been stepped *)
Theorem C15_interrupt_then_yield :
  forall qok, QSpec qok -> QNext qok -> forall s t t' e s' k,
  InvC qok (Some t) s -> tdone s t = false ->
  lib_call t (OTaskInterrupt t' e) s = (s', LSusp YNone [InSleep0]) ->
  exec t (Call (OTaskInterrupt t' e) k) s = (s', OYield YNone [InSleep0] k) /\
  let sf := finish_step t s' (OYield YNone [InSleep0] k) <| current := None |> in
  let hn := length (handles s) in
  t' <> t /\
  exists l r'',
    rq_items (ready sf) = hn :: l /\
    geth sf hn = mkH (HStep t' (Some e)) false /\
    geth sf (S hn) = mkH (HStep t None) false /\
    In (S hn) l /\
    (forall h, In h l -> task_key sf t' h = false) /\
    (forall h, In h l -> task_key sf t h = true -> h = S hn) /\
    tcont_ (gett sf t) = TSusp [InSleep0] k /\
    rq_popleft (ready sf) = Some (hn, r'') /\ rq_items r'' = l /\
    run_one sf = step_task t' (Some e) (sf <| ready := r'' |>).
Proof. exact interrupt_then_yield. Qed.
Print Assumptions C15_interrupt_then_yield.

(* both ready queues qualify *)
Theorem C15_interrupt_queues : QNext qok_list /\ QNext qok_pos.
Proof. split; [exact QNext_list|exact QNext_pos]. Qed.
Print Assumptions C15_interrupt_queues.

(* in particular on the stock / scheduling loops (list queue) and on the priority loop *)
Theorem C15_interrupt_next_list :
  forall c s t t' e s',
  InvC qok_list c s -> lib_call t (OTaskInterrupt t' e) s = (s', LSusp YNone [InSleep0]) ->
  let hn := length (handles s) in
  exists l', ready s' = RList (hn :: l') /\ geth s' hn = mkH (HStep t' (Some e)) false /\
             (forall h, In h l' -> task_key s' t' h = false) /\
             run_one s' = step_task t' (Some e) (s' <| ready := RList l' |>) /\ tdone s' t' = false.
Proof.
  intros c s t t' e s' I L hn.
  destruct (interrupt_next qok_list QSpec_list QNext_list c s t t' e s' I L)
    as (s1 & v & r' & r'' & _ & _ & _ & _ & I' & G & It & Z & Pp & _ & R & Hd & _).
  fold hn in G, It, Pp, R.
  pose proof (i_qok (i_wf I')) as Q. destruct (ready s') as [l0|p] eqn:Er; [|destruct Q].
  simpl in It. subst l0. exists (rq_items r'). simpl in Pp. inversion Pp; subst r''.
  split; [reflexivity|]. repeat (split; [assumption|]). assumption.
Qed.
Print Assumptions C15_interrupt_next_list.

Theorem C15_interrupt_next_prio :
  forall c s t t' e s',
  InvC qok_pos c s -> lib_call t (OTaskInterrupt t' e) s = (s', LSusp YNone [InSleep0]) ->
  let hn := length (handles s) in
  exists l' r'',
    rq_items (ready s') = hn :: l' /\ geth s' hn = mkH (HStep t' (Some e)) false /\
    (forall h, In h l' -> task_key s' t' h = false) /\
    rq_popleft (ready s') = Some (hn, r'') /\ rq_items r'' = l' /\
    run_one s' = step_task t' (Some e) (s' <| ready := r'' |>) /\ tdone s' t' = false.
Proof.
  intros c s t t' e s' I L hn.
  destruct (interrupt_next qok_pos QSpec_pos QNext_pos c s t t' e s' I L)
    as (s1 & v & r' & r'' & _ & _ & _ & _ & I' & G & It & Z & Pp & It' & R & Hd & _).
  exists (rq_items r'), r''. repeat (split; [assumption|]). assumption.
Qed.
Print Assumptions C15_interrupt_next_prio.

(* superseded.  (1) a second accepted throw REPLACES the pending handle: the handle h1 carrying e1
   is removed from the ready queue, the only live handle of t is the new h2 = HStep t (Some e2);
   nothing else changes.  (2) cancel() after an accepted throw only sets _must_cancel (t has no
   waiter any more): the handle stays, Task.__step will deliver e itself if it is a
   CancelledError and a fresh CancelledError otherwise (C15_delivered), and further throws are
   refused ("cannot interrupt a cancelled task") with the state unchanged *)
Theorem C15_superseded :
  forall qok, QSpec qok ->
  (forall c s t e1 e2 s1 s2 v1 v2,
     InvC qok c s -> task_throw s t e1 = (s1, RVal v1) -> task_throw s1 t e2 = (s2, RVal v2) ->
     let h1 := length (handles s) in
     let h2 := S h1 in
     InvC qok c s2 /\
     handles s2 = handles s ++ [mkH (HStep t (Some e1)) false; mkH (HStep t (Some e2)) false] /\
     geth s2 h1 = mkH (HStep t (Some e1)) false /\ geth s2 h2 = mkH (HStep t (Some e2)) false /\
     ~ In h1 (rq_items (ready s2)) /\ In h2 (rq_items (ready s2)) /\
     hcnt s2 t = 1 /\
     (forall h, In h (rq_items (ready s2)) -> task_key s2 t h = true -> h = h2) /\
     (forall g, getf s2 g = getf s1 g) /\ (forall t', gett s2 t' = gett s1 t') /\
     (forall t', t' <> t -> hcnt s2 t' = hcnt s1 t') /\
     locks s2 = locks s1 /\ conds s2 = conds s1 /\ events s2 = events s1 /\ blocks s2 = blocks s1 /\
     timers s2 = timers s1 /\ now s2 = now s1 /\ current s2 = current s1 /\ log s2 = log s1 /\
     errors s2 = errors s1) /\
  (forall c s t e s1 v,
     InvC qok c s -> task_throw s t e = (s1, RVal v) ->
     let s2 := sett s1 t (gett s1 t <| tmustc := true |>) in
     cancel_task s1 t = (s2, true) /\ InvC qok c s2 /\
     ready s2 = ready s1 /\ handles s2 = handles s1 /\ futs s2 = futs s1 /\
     hcnt s2 t = 1 /\ tdone s2 t = false /\
     geth s2 (length (handles s)) = mkH (HStep t (Some e)) false /\
     gett s2 t = gett s1 t <| tmustc := true |> /\
     (forall t', t' <> t -> gett s2 t' = gett s1 t') /\
     (forall e', delivered_exn s2 t e' = if is_cancel e' then e' else ECancelled) /\
     (forall e', task_throw s2 t e' = (s2, RExc (ERuntime rt_task_cancelled)))).
Proof. intros qok QS. split; [exact (throw_supersedes qok QS)|exact (cancel_after_throw qok QS)]. Qed.
Print Assumptions C15_superseded.

(* exactly once.  Invariant form: in every state reachable (from an Inv09 state, by any actions
   whatsoever: steps of other tasks, timers, completion of the future the target used to wait
   on, further throws, cancels, spawns) a task that is not done and not blocked has exactly ONE
   handle in the ready queue and its wake-up callback is on no pending future - so nothing can
   resume it a second time.  In particular after an accepted throw, whose handle is that one. *)
Theorem C15_delivered_once :
  forall qok, QSpec qok ->
  (forall acts s t, Inv09 qok s -> actions_ok s acts ->
     let s' := fold_left do_action acts s in
     Inv09 qok s' /\
     (t < length (tasks s') -> tdone s' t = false -> bo s' t = None ->
      hcnt s' t = 1 /\ forall g, fdone s' g = false -> ccnt s' t g = 0)) /\
  (forall s t e s1 v acts,
     Inv09 qok s -> task_throw s t e = (s1, RVal v) -> actions_ok s1 acts ->
     let s' := fold_left do_action acts s1 in
     Inv09 qok s1 /\ hcnt s1 t = 1 /\ geth s1 (length (handles s)) = mkH (HStep t (Some e)) false /\
     Inv09 qok s' /\ t < length (tasks s') /\
     (tdone s' t = false -> bo s' t = None ->
      hcnt s' t = 1 /\ forall g, fdone s' g = false -> ccnt s' t g = 0)).
Proof. intros qok QS. split; [exact (one_handle_while_runnable qok QS)|exact (delivered_once qok QS)]. Qed.
Print Assumptions C15_delivered_once.

(* loop errors.  (1)-(4): the model's error list is written in exactly two places - Task.__step of
   a task that is already done (InvalidStateError) and a _task_reinsert callback whose task is
   not queued (ValueError); library calls, library frames, user code of any shape, the end of a
   step and every non-step action never touch it.  (5) if no handle of a finished task is queued
   (NDH) a loop step never raises InvalidStateError.  (6),(7) task_throw and task_interrupt
   preserve NDH and the error list, whatever their outcome.  (8) the step that delivers an
   accepted interrupt adds no error.  (9) NDH is needed: Inv09 alone leaves finished tasks
   unconstrained because the model lets code complete a task's own future (witness) *)
Theorem C15_loop_errors :
  (forall t op s s' r, lib_call t op s = (s', r) -> errors s' = errors s) /\
  (forall t c s s' o, exec t c s = (s', o) -> errors s' = errors s) /\
  (forall t exc s, errors (step_task t exc s) =
                   if tdone s t then errors s ++ [LEInvalidState] else errors s) /\
  (forall c s, errors (run_callback c s) =
     match c with
     | HStep t _ | HWakeup t _ => if tdone s t then errors s ++ [LEInvalidState] else errors s
     | HReinsert t p => match rq_find (ready s) (task_key s t) true with
                        | Some _ => errors s | None => errors s ++ [LEValue] end
     | _ => errors s
     end) /\
  (forall s a, a <> AStep -> errors (do_action s a) = errors s) /\
  (forall qok, QSpec qok -> forall s, qok (ready s) -> NDH s ->
     errors (run_one s) = errors s \/
     (errors (run_one s) = errors s ++ [LEValue] /\
      exists h r t p, rq_popleft (ready s) = Some (h, r) /\ geth s h = mkH (HReinsert t p) false /\
                      rq_find r (task_key s t) true = None)) /\
  (forall qok, QSpec qok -> forall c s t e s1 r,
     InvC qok c s -> NDH s -> task_throw s t e = (s1, r) -> NDH s1 /\ errors s1 = errors s) /\
  (forall qok, QSpec qok -> forall c s t t' e s' r,
     InvC qok c s -> NDH s -> lib_call t (OTaskInterrupt t' e) s = (s', r) ->
     NDH s' /\ errors s' = errors s) /\
  (forall qok, QSpec qok -> QNext qok -> forall c s t t' e s',
     InvC qok c s -> lib_call t (OTaskInterrupt t' e) s = (s', LSusp YNone [InSleep0]) ->
     errors s' = errors s /\ errors (run_one s') = errors s) /\
  (let s := fold_left do_action [ASpawn SPlain (Ret 0); ADo (OSetResult 0 1)]
                      (init_st false 0 [] [] [] 0) in
   Inv09 qok_list s /\ ~ NDH s /\ errors (run_one s) = [LEInvalidState]).
Proof.
  split; [intros t op s s' r E; exact (Er_lib_call s t op s s' r E (Er_refl s))|].
  split; [intros t c s s' o E; exact (Er_exec s t c s s' o E (Er_refl s))|].
  split; [exact step_task_errors|]. split; [exact run_callback_errors|]. split; [exact action_errors|].
  split; [exact run_one_no_invalid_state|]. split; [exact throw_keeps_ndh|].
  split; [exact interrupt_keeps_ndh|]. split; [exact interrupt_delivery_no_error|].
  exact inv09_not_enough.
Qed.
Print Assumptions C15_loop_errors.

(* non-vacuity: interrupting the blocked Python task 0 of the C09 example state (task 2 is
   runnable with its handle queued): accepted, task 0's new handle (3) is put in FRONT of task
   2's handle (2); and a whole run on the list loop: worker 0 waits on a future, worker 1 is a
   bystander that is ready, worker 2 interrupts worker 0 - the interrupted task logs first
   (955 = EUser 5 caught, then 1), then the bystander (7), then the interrupter (2) *)
Example C15_example_interrupt :
  (let s := ex_state in
   let s' := fst (lib_call 3 (OTaskInterrupt 0 (EUser 1)) s) in
   InvC qok_list None s /\
   snd (lib_call 3 (OTaskInterrupt 0 (EUser 1)) s) = LSusp YNone [InSleep0] /\
   rq_items (ready s) = [2] /\ rq_items (ready s') = [3; 2] /\
   geth s' 3 = mkH (HStep 0 (Some (EUser 1))) false /\ errors (run_one s') = []) /\
  (let prog0 := STry (SDo (OAwaitFut 0) SEnd) CBase (SLogExc SEnd) SEnd (SDo (OLog 1) SEnd) in
   let prog1 := SDo OSleep0 (SDo (OLog 7) SEnd) in
   let prog2 := SDo (OTaskInterrupt 0 (EUser 5)) (SDo (OLog 2) SEnd) in
   let acts := [XDo ONewFut; XSpawn SPy prog0; XSpawn SPlain prog1; XSpawn SPlain prog2;
                XStep; XStep; XStep] in
   let s3 := fold_left do_action (map act acts) (init_st false 0 [] [] [] 0) in
   let s6 := fold_left do_action [AStep; AStep; AStep] s3 in
   (* after the interrupter's step: target's handle first, bystander, interrupter last *)
   map (fun h => hcb (geth s3 h)) (rq_items (ready s3)) =
     [HStep 0 (Some (EUser 5)); HStep 1 None; HStep 2 None] /\
   log s6 = [(1, 955%Z); (1, 1%Z); (2, 7%Z); (3, 2%Z)] /\ errors s6 = [] /\
   fstate_ (getf s6 0) = FPending).
Proof.
  split.
  - cbv zeta. split; [exact (proj1 (proj1 C09_example))|]. vm_compute. repeat split; reflexivity.
  - vm_compute. repeat split; reflexivity.
Qed.

(* exactly once, until the target's step (Sched/TaskFrame.v: below Task.__step, in other tasks'
   steps and in the loop's callbacks a task's entry keeps kind, future and continuation, and its
   _fut_waiter is only ever cleared).
     not_stepping t s a   action a in state s does not step t: it is not a loop step, or the handle
                          the loop step pops is cancelled or is not a step/wake-up handle of t
     not_stepped t s acts every action of the sequence, in the state it acts on
   Between an accepted throw and the target's next step - over every such sequence, hence at
   every moment - the target has no waiter, is not blocked, keeps its continuation (the suspension
   point where the exception will be raised) and, as long as nobody completes the task's own
   future behind its back, has exactly ONE handle queued and no wake-up callback on any pending
   future *)
From Asynkit Require Import Sched.TaskFrame.
Theorem C15_delivered_once_until_stepped :
  forall qok, QSpec qok -> forall s t e s1 v acts,
  Inv09 qok s -> task_throw s t e = (s1, RVal v) -> actions_ok s1 acts -> not_stepped t s1 acts ->
  let s' := fold_left do_action acts s1 in
  Inv09 qok s' /\ t < length (tasks s') /\
  twaiter (gett s' t) = None /\ bo s' t = None /\
  tcont_ (gett s' t) = tcont_ (gett s t) /\ tkind_ (gett s' t) = KPy /\
  tfut (gett s' t) = tfut (gett s t) /\
  (tdone s' t = false -> hcnt s' t = 1 /\ forall g, fdone s' g = false -> ccnt s' t g = 0).
Proof. exact delivered_once_until_stepped. Qed.
Print Assumptions C15_delivered_once_until_stepped.

(* the frame fact itself: an action that does not step t leaves t's kind, future and continuation
   alone and keeps or clears its waiter *)
Theorem C15_task_frame :
  forall t s a, not_stepping t s a ->
  length (tasks s) <= length (tasks (do_action s a)) /\
  (t < length (tasks s) ->
   tkind_ (gett (do_action s a) t) = tkind_ (gett s t) /\ tfut (gett (do_action s a) t) = tfut (gett s t) /\
   tcont_ (gett (do_action s a) t) = tcont_ (gett s t) /\
   (twaiter (gett (do_action s a) t) = twaiter (gett s t) \/ twaiter (gett (do_action s a) t) = None)).
Proof. exact Tf_action. Qed.
Print Assumptions C15_task_frame.

(* non-vacuity: throw at the blocked task 0 of the C09 example state, then - without stepping it -
   task 2's step, completion of the future task 0 used to wait on, and cancel(): still exactly one
   handle of task 0, the one carrying the exception, now with _must_cancel set *)
Example C15_example_once :
  let s1 := fst (task_throw ex_state 0 (EUser 1)) in
  let acts := [AStep; ADo (OSetResult 1 5); ADo (OCancel 0)] in
  let s' := fold_left do_action acts s1 in
  snd (task_throw ex_state 0 (EUser 1)) = RVal 0 /\ actions_ok s1 acts /\ not_stepped 0 s1 acts /\
  tdone s' 0 = false /\ hcnt s' 0 = 1 /\ rq_items (ready s') = [3] /\
  geth s' 3 = mkH (HStep 0 (Some (EUser 1))) false /\ tmustc (gett s' 0) = true /\
  fstate_ (getf s' 1) = FResult 5 /\ errors s' = [].
Proof.
  cbv zeta. split; [vm_compute; reflexivity|].
  split; [cbn [actions_ok action_ok op_ok]; exact (conj I (conj I (conj I I)))|]. split.
  - cbn [not_stepped not_stepping]. split; [|exact (conj I (conj I I))].
    intros h r P Hc. vm_compute in P. inversion P; subst. vm_compute. discriminate.
  - vm_compute. repeat split; reflexivity.
Qed.

(* ------------------------------------------------------------------------------------
   Loop errors on REACHABLE states: the hypothesis NDH of C15_loop_errors is discharged
   (Sched/Inert*.v; vocabulary and the invariant XI in Props/C09.v, C09_finished_tasks_inert).
   nec s0 acts = no ADo operation and no library call of any step of the run resolves, fails or
   cancels-as-a-future the future that belongs to a task (run-checked; implied by the syntactic
   condition Forall act_nf acts).  For any ready queue with QSpec and any start state satisfying
   Inv09 and XI with an empty error list - the initial state of each of the three loop models
   does (second conjunct) - in the state s reached by any actions_ok + nec run:
   (1) the loop has never recorded InvalidStateError; (2) the next loop step adds no error, or the
   ValueError of a _task_reinsert callback whose task is not queued; (3),(4) task_throw and
   `await task_interrupt` never change the error list and never queue a handle of a finished task,
   whatever their outcome; (5) (queues with QNext) the step delivering an accepted interrupt adds
   no error.  (6) the same for throws / interrupts issued inside a step (any state with InvC c
   and XI c). *)
From Asynkit Require Import Sched.InterruptNext Sched.PrioQueueProofs Sched.PrioQueueBoost
     Sched.InertBase Sched.InertLib Sched.InertRun Sched.InertStatic Sched.InertThms.

Theorem C15_loop_errors_reachable :
  (forall qok, QSpec qok -> forall s0 acts,
     Inv09 qok s0 -> XI None s0 -> errors s0 = [] -> actions_ok s0 acts -> nec s0 acts ->
     let s := fold_left do_action acts s0 in
     ~ In LEInvalidState (errors s) /\
     (errors (run_one s) = errors s \/
      (errors (run_one s) = errors s ++ [LEValue] /\
       exists h r t p, rq_popleft (ready s) = Some (h, r) /\ geth s h = mkH (HReinsert t p) false /\
                       rq_find r (task_key s t) true = None)) /\
     (forall t e s1 r, task_throw s t e = (s1, r) -> errors s1 = errors s /\ NDH s1) /\
     (forall t t' e s' r, lib_call t (OTaskInterrupt t' e) s = (s', r) ->
                          errors s' = errors s /\ NDH s') /\
     (QNext qok -> forall t t' e s',
        lib_call t (OTaskInterrupt t' e) s = (s', LSusp YNone [InSleep0]) ->
        errors s' = errors s /\ errors (run_one s') = errors s)) /\
  ((forall factor draws lks cds nev, let s0 := init_st false factor draws lks cds nev in
      Inv09 qok_list s0 /\ XI None s0 /\ errors s0 = []) /\
   (forall draws lks cds nev, let s0 := init_st true 0 draws lks cds nev in
      Inv09 qok_pos s0 /\ XI None s0 /\ errors s0 = []) /\
   (forall factor draws lks cds nev, let s0 := init_st true factor draws lks cds nev in
      Inv09 qok_boost s0 /\ XI None s0 /\ errors s0 = [])) /\
  (forall qok, QSpec qok -> forall c s, InvC qok c s -> XI c s ->
     (forall t e s1 r, task_throw s t e = (s1, r) ->
        InvC qok c s1 /\ XI c s1 /\ NDH s1 /\ errors s1 = errors s) /\
     (forall t t' e s' r, lib_call t (OTaskInterrupt t' e) s = (s', r) ->
        InvC qok c s' /\ XI c s' /\ NDH s' /\ errors s' = errors s)) /\
  (forall prio factor draws lks cds nev acts,
     Forall act_nf acts -> nec (init_st prio factor draws lks cds nev) acts).
Proof.
  split; [exact loop_errors_reach|]. split; [exact inert_init|]. split; [|exact nec_static_init].
  intros qok QS c s I X. split.
  - intros t e s1 r E. exact (inert_throw qok QS c s t e s1 r I X E).
  - intros t t' e s' r E. exact (inert_interrupt qok QS c s t t' e s' r I X E).
Qed.
Print Assumptions C15_loop_errors_reachable.

(* non-vacuity: the run of C09_example_inert satisfies the hypotheses on the list loop (nec by
   computation: a task completes a plain future with set_result); no error is recorded *)
Example C15_example_reachable :
  actions_ok ix_s0 ix_acts /\ nec ix_s0 ix_acts /\ ~ In LEInvalidState (errors ix_state) /\
  errors ix_state = [] /\ QNext qok_list /\ QNext qok_pos.
Proof.
  split; [exact ix_actions_ok|]. split; [exact ix_nec|].
  split; [|split; [vm_compute; reflexivity|split; [exact QNext_list|exact QNext_pos]]].
  apply (inert_reach_list 0 [] [] [] 0 ix_acts ix_actions_ok ix_nec).
Qed.

(* ---------------------------------------------------------------------------------------------
   Fourth round: "runs next" on the priority loop with starvation boosting ENABLED
   (Sched/InterruptNextW.v, Sched/InterruptNextBoost.v).

   Additional vocabulary:
     cls_ok e          the queue entry e is positional with boost 0 (class 0) or regular (class 1)
     qok_boostc r      r is a PosPriorityQueue whose array satisfies the PriorityQueue invariant
                       (qok_boost: heap layout, distinct sequence numbers) AND every entry is cls_ok
     QNextW qok        QNext with the first clause weakened: after rq_insert_pos r 0 h the handle h is
                       the head of the run order and the REST is a permutation of the old run order
                       (QNext: the old order itself); the other two clauses are those of QNext *)
From Asynkit Require Import Queue.PQ Queue.PosProofs Queue.Exec Sched.PartitionRun Sched.InterruptNextW Sched.InterruptNextBoost.

(* C15_QNext_boost.  QNext itself is FALSE for the boosted queue (for qok_boost and for qok_boostc):
   every insert - also the insert at position 0 - may run the maintenance pass, which boosts
   straggling regular entries, so the rest of the run order can change (witness bx_r0: run order
   [2; 1] becomes [99; 1; 2]).  What "position 0 is the head of the run order" needs holds for
   every boost factor and all draws: qok_boostc is a QSpec instance (hence part of C09's invariant
   in every reachable state of the boosted loop), and it satisfies QNextW: the entry inserted at
   position 0 is class 0 with a base below every queued positional entry, maintenance never
   touches class 0 and never changes a class, so it is the strict minimum before and after any
   maintenance pass - popleft returns it, and a later call_soon entry (class 1) stays behind it *)
Theorem C15_QNext_boost :
  QSpec qok_boostc /\ QNextW qok_boostc /\
  (forall qok, QNext qok -> QNextW qok) /\
  (~ QNext qok_boostc /\ ~ QNext qok_boost) /\
  (rq_items bx_r0 = [2; 1] /\ rq_items (rq_insert_pos bx_r0 0 99) = [99; 1; 2] /\ qok_boostc bx_r0) /\
  (forall r, qok_boostc r <->
     exists p, r = RPos p /\ PQProofs.Inv HPV (pq_ p) /\ Forall cls_ok (arr (pq_ p))) /\
  (forall factor draws lks cds nev l,
     let s0 := init_st true factor draws lks cds nev in
     actions_ok s0 l -> Inv09 qok_boostc (fold_left do_action l s0)).
Proof.
  split; [exact QSpec_boostc|]. split; [exact QNextW_boostc|]. split; [exact QNext_QNextW|].
  split; [exact QNext_boost_strict_false|].
  split; [destruct bx_orders; split; [assumption|split; [assumption|exact bx_r0_ok]]|].
  split; [|exact Inv09_prio_boostc].
  intros [l|p]; simpl; split.
  - intros [].
  - intros (p & E & _). discriminate.
  - intros [A B]. exists p. auto.
  - intros (p0 & E & A & B). inversion E; subst. auto.
Qed.
Print Assumptions C15_QNext_boost.

(* C15_interrupt_next_any_queue: C15_interrupt_next for every ready queue with QSpec + QNextW (all
   three: list, priority, boosted priority).  The only difference to C15_interrupt_next: the run
   order behind the target's new handle is l, a permutation of rq_items r' *)
Theorem C15_interrupt_next_any_queue :
  forall qok, QSpec qok -> QNextW qok -> forall c s t t' e s',
  InvC qok c s -> lib_call t (OTaskInterrupt t' e) s = (s', LSusp YNone [InSleep0]) ->
  let hn := length (handles s) in
  exists s1 v r' r'' l,
    task_throw s t' e = (s1, RVal v) /\
    s' = s1 <| ready := rq_insert_pos r' 0 hn |> /\ qok r' /\
    Permutation (rq_items (ready s1)) (hn :: rq_items r') /\
    InvC qok c s' /\
    geth s' hn = mkH (HStep t' (Some e)) false /\
    rq_items (ready s') = hn :: l /\ Permutation l (rq_items r') /\
    (forall h, In h l -> task_key s' t' h = false) /\
    rq_popleft (ready s') = Some (hn, r'') /\ rq_items r'' = l /\
    run_one s' = step_task t' (Some e) (s' <| ready := r'' |>) /\
    tdone s' t' = false /\ hcnt s' t' = 1 /\
    (c = Some t -> tdone s' t = false -> hcnt s' t = 0).
Proof. exact interrupt_nextW. Qed.
Print Assumptions C15_interrupt_next_any_queue.

(* C15_interrupt_next_prio_boost: the statement of C15_interrupt_next_prio, on the priority loop
   with boosting enabled (any factor, any draws): after an accepted `await task_interrupt(t', e)`
   the target's new handle hn = HStep t' (Some e) is the head of the run order, no other queued
   handle belongs to t', popleft returns hn, and the next loop step is the target's step with e *)
Theorem C15_interrupt_next_prio_boost :
  forall c s t t' e s',
  InvC qok_boostc c s -> lib_call t (OTaskInterrupt t' e) s = (s', LSusp YNone [InSleep0]) ->
  let hn := length (handles s) in
  exists l' r'',
    rq_items (ready s') = hn :: l' /\ geth s' hn = mkH (HStep t' (Some e)) false /\
    (forall h, In h l' -> task_key s' t' h = false) /\
    rq_popleft (ready s') = Some (hn, r'') /\ rq_items r'' = l' /\
    run_one s' = step_task t' (Some e) (s' <| ready := r'' |>) /\ tdone s' t' = false /\
    InvC qok_boostc c s'.
Proof.
  intros c s t t' e s' I L hn.
  destruct (interrupt_nextW qok_boostc QSpec_boostc QNextW_boostc c s t t' e s' I L)
    as (s1 & v & r' & r'' & l & _ & _ & _ & _ & I' & G & It & _ & Z & Pp & It' & R & Hd & _).
  exists l, r''. repeat (split; [assumption|]). assumption.
Qed.
Print Assumptions C15_interrupt_next_prio_boost.

(* non-vacuity on the boosted loop (factor 2): two Python tasks queued, run order [0; 1]; the
   hypotheses of C15_interrupt_next_prio_boost hold for an interrupt of task 1; its new handle 2
   is put in front of task 0's, and the next loop step delivers the exception to task 1 while
   task 0 has not run *)
Example C15_example_interrupt_boost :
  actions_ok bi_s0 bi_acts /\ InvC qok_boostc None bi_s /\
  let s' := fst (lib_call 0 (OTaskInterrupt 1 (EUser 1)) bi_s) in
  lib_call 0 (OTaskInterrupt 1 (EUser 1)) bi_s = (s', LSusp YNone [InSleep0]) /\
  rq_items (ready bi_s) = [0; 1] /\ rq_items (ready s') = [2; 0] /\
  geth s' 2 = mkH (HStep 1 (Some (EUser 1))) false /\
  map fstate_ (futs (run_one s')) = [FPending; FExc (EUser 1)].
Proof. exact bi_example. Qed.
Print Assumptions C15_example_interrupt_boost.

(* C15_interrupt_then_yield_any_queue: C15_interrupt_then_yield (identical statement) for every
   ready queue with QSpec + QNextW - in particular the boosted priority loop (QNextW_boostc): after
   the whole step of the interrupting task t the head of the run order is the target's handle with
   the exception, t's own fresh handle is behind it and is t's only handle, and run_one is the
   target's step.  Second clause: the loop step delivering an accepted interrupt adds no error *)
Theorem C15_interrupt_then_yield_any_queue :
  forall qok, QSpec qok -> QNextW qok ->
  (forall s t t' e s' k,
     InvC qok (Some t) s -> tdone s t = false ->
     lib_call t (OTaskInterrupt t' e) s = (s', LSusp YNone [InSleep0]) ->
     exec t (Call (OTaskInterrupt t' e) k) s = (s', OYield YNone [InSleep0] k) /\
     let sf := finish_step t s' (OYield YNone [InSleep0] k) <| current := None |> in
     let hn := length (handles s) in
     t' <> t /\
     exists l r'',
       rq_items (ready sf) = hn :: l /\
       geth sf hn = mkH (HStep t' (Some e)) false /\
       geth sf (S hn) = mkH (HStep t None) false /\
       In (S hn) l /\
       (forall h, In h l -> task_key sf t' h = false) /\
       (forall h, In h l -> task_key sf t h = true -> h = S hn) /\
       tcont_ (gett sf t) = TSusp [InSleep0] k /\
       rq_popleft (ready sf) = Some (hn, r'') /\ rq_items r'' = l /\
       run_one sf = step_task t' (Some e) (sf <| ready := r'' |>)) /\
  (forall c s t t' e s',
     InvC qok c s -> lib_call t (OTaskInterrupt t' e) s = (s', LSusp YNone [InSleep0]) ->
     errors s' = errors s /\ errors (run_one s') = errors s).
Proof.
  intros qok QS QN. split; [exact (interrupt_then_yieldW qok QS QN)|exact (interrupt_delivery_no_errorW qok QS QN)].
Qed.
Print Assumptions C15_interrupt_then_yield_any_queue.
