(* C14 - Conditions: lock held on every exit from wait(), ordered notify, none lost.

   Statements over the executable scheduler model (Sched/Model.v), universally quantified
   over states, tasks, conditions, frame stacks and inputs.  Proofs: Sched/CondView.v,
   CondProofs.v, CondNotify.v, CondThms.v; instances on reachable states: Sched/CondExamples.v.

   Vocabulary (Sched/CondProofs.v).  A task suspended inside `cond.wait()` of condition c
   (lock l) has one of the stacks [wait_stack c l frs]:
       [InFut f; InCondWaitP c f]   [InFut f; InCondWaitI c f]            inside `await fut`
       [InFut f; InAcquireP l f had; R]   [InFut f; InAcquireA l f; R]    inside the `await lock.acquire()`
         of the re-acquire retry loop, R = InReleasedP c err body (PriorityCondition, _released.__aexit__)
         or InReacquireI c err body (InterruptCondition); err = the last CancelledError caught
         by the loop, body = how the `await fut` block ended (RVal 1 or the exception).
   [stack_wf s t l frs]: the acquire frame is the one of the lock's kind, and a PriorityTask
   suspended in PriorityLock.acquire registered itself with set_waiting_on (had = true).
   [wait_input s l frs inp], the inputs considered:
     - RVal _ when the awaited future holds a result (what Task.__wakeup sends); for a
       PriorityLock waiter additionally `lowner (getl s l) = None` - C13: a woken waiter
       finds the lock without owner ([C14_preconditions_from_C13] derives it);
     - RExc e for ANY e while inside `await fut` (the `finally` re-acquires whatever happens);
     - RExc e with is_cancel e = true (CancelledError, any InterruptException, TimeoutInterrupt)
       while inside the retry loop.  A non-CancelledError exception thrown into the retry loop
       leaves wait() WITHOUT the lock (Sched/CondExamples.v, non_cancel_exit_without_lock).
   [pending_exc frs]: the exception remembered by the retry frame (err, else an exceptional body);
   [last_exc frs inp]: the current input if it is an exception, else [pending_exc frs].
   Preconditions on the state, both instances of facts established elsewhere:
     - l is a lock and, if it is a PriorityLock, "free => no owner" (I1 of the C13 invariant);
     - at the `await fut` point a PriorityTask is not already waiting on a lock
       (`with _waiting_on` asserts it; true unless the coroutine was started eagerly by a
       PriorityTask that was itself blocked - then the real code fails the same assertion). *)
From Coq Require Import QArith Sorting.Permutation.
From Asynkit Require Import Base.Prelude Queue.PQ Queue.Order Queue.PosPQ Queue.Exec Sched.Model
  Sched.QFacts Sched.LockInv Sched.CondView Sched.CondProofs Sched.CondNotify Sched.CondThms.
Open Scope nat_scope.

(* kept from the first round: the `except BaseException: self._notify(1); raise` clause
   re-raises the exception it caught *)
Theorem C14_after_p_keeps_exception :
  forall s c e, snd (cond_p_after s c (RExc e)) = RExc e.
Proof. reflexivity. Qed.
Print Assumptions C14_after_p_keeps_exception.

(* One resumption of a task suspended inside wait(), at any of the suspension points, with
   any of the inputs above, in any state:
   (a) it suspends again, (again) inside the retry loop, on a fresh future, and NO lock changed
       kind, locked flag or owner - so the same theorem applies to the next input; or
   (b) wait() is left and the condition's lock is locked; for a PriorityLock its owner is the
       caller t; every other lock is untouched.  For an asyncio.Lock (no owner field): the lock
       was free when this very resumption began, unless the task was woken as the lock's own
       waiter ([woken_a], where asyncio sets _locked = True itself). *)
Theorem C14_lock_on_exit :
  forall (s : st) (t c : nat) (frs : list frame) (inp : reply) (s' : st) (r : lres),
    let l := clock (getc s c) in
    wait_stack c l frs -> stack_wf s t l frs ->
    (l < length (locks s) /\
     (lkind_ (getl s l) = LPrio -> llocked (getl s l) = false -> lowner (getl s l) = None)) ->
    (at_wait_point frs = true -> lkind_ (getl s l) = LPrio ->
     is_prio_task s t = true -> twaiting (gett s t) = None) ->
    wait_input s l frs inp ->
    resume_stack t frs inp s = (s', r) ->
    match r with
    | LSusp y frs' =>
        (exists f' rest, y = YFut f' /\ frs' = InFut f' :: rest) /\
        wait_stack c l frs' /\ stack_wf s' t l frs' /\ at_wait_point frs' = false /\
        is_pcond frs' = is_pcond frs /\
        (forall l0, lkind_ (getl s' l0) = lkind_ (getl s l0) /\
                    llocked (getl s' l0) = llocked (getl s l0) /\
                    lowner (getl s' l0) = lowner (getl s l0)) /\
        clock (getc s' c) = l /\ l < length (locks s') /\
        is_prio_task s' t = is_prio_task s t
    | LDone rep =>
        llocked (getl s' l) = true /\
        (lkind_ (getl s' l) = LPrio -> lowner (getl s' l) = Some t) /\
        (lkind_ (getl s l) = LPlain -> llocked (getl s l) = false \/ woken_a frs inp) /\
        (forall l0, l0 <> l ->
                    lkind_ (getl s' l0) = lkind_ (getl s l0) /\
                    llocked (getl s' l0) = llocked (getl s l0) /\
                    lowner (getl s' l0) = lowner (getl s l0))
    end.
Proof. exact lock_on_exit_full. Qed.
Print Assumptions C14_lock_on_exit.

(* The exception that leaves wait() is the last one delivered inside it: in case (b) the reply
   is `RExc e` for the current input if that is an exception, else for the exception remembered
   by the retry frame - never a fresh CancelledError - and `RVal 1` (True) if there was none;
   in case (a) the new frame remembers exactly that exception. *)
Theorem C14_exception_identity :
  forall (s : st) (t c : nat) (frs : list frame) (inp : reply) (s' : st) (r : lres),
    let l := clock (getc s c) in
    wait_stack c l frs -> stack_wf s t l frs ->
    (l < length (locks s) /\
     (lkind_ (getl s l) = LPrio -> llocked (getl s l) = false -> lowner (getl s l) = None)) ->
    (at_wait_point frs = true -> lkind_ (getl s l) = LPrio ->
     is_prio_task s t = true -> twaiting (gett s t) = None) ->
    wait_input s l frs inp ->
    resume_stack t frs inp s = (s', r) ->
    match r with
    | LSusp y frs' => pending_exc frs' = last_exc frs inp
    | LDone rep => rep = match last_exc frs inp with Some e => RExc e | None => RVal 1 end
    end.
Proof. exact exception_identity_full. Qed.
Print Assumptions C14_exception_identity.

(* Any number of faults.  [wait_run t c l s frs inps s' rep] (Sched/CondThms.v): the task is
   resumed in s with the first input; whenever it suspends again, ANY state may come next
   (other tasks and the loop run) provided the preconditions above hold there for the new
   stack and the next input; the last resumption leaves wait() in s' with reply rep.
   Then the lock is held by the caller in s', and rep is the last exception of the whole
   input sequence (else the one already remembered by the initial stack, else True). *)
Theorem C14_lock_on_exit_any_number_of_faults :
  forall t c l s frs inps s' rep,
    wait_run t c l s frs inps s' rep ->
    llocked (getl s' l) = true /\
    (lkind_ (getl s' l) = LPrio -> lowner (getl s' l) = Some t) /\
    rep = match fold_left (fun acc inp => match inp with RExc e => Some e | RVal _ => acc end)
                          inps (pending_exc frs)
          with Some e => RExc e | None => RVal 1 end.
Proof. exact wait_run_exit_full. Qed.
Print Assumptions C14_lock_on_exit_any_number_of_faults.

(* The preconditions hold at every step of a suspended task in a state satisfying the C13
   invariant [Inv] (all reachable states, C13_inv): [step_entry s t] is the state in which
   Task.__step resumes the stack; exc is the exception it throws (None: send the result). *)
Theorem C14_preconditions_from_C13 :
  forall (s : st) (t c : nat) (frs : list frame) (k : reply -> coro) (exc : option exn),
    Inv s -> tcont_ (gett s t) = TSusp frs k ->
    let l := clock (getc s c) in
    wait_stack c l frs -> stack_wf s t l frs -> l < length (locks s) ->
    (at_wait_point frs = true -> lkind_ (getl s l) = LPrio ->
     is_prio_task s t = true -> twaiting (gett s t) = None) ->
    match exc with
    | None => exists f rest v, frs = InFut f :: rest /\ fstate_ (getf s f) = FResult v
    | Some e => is_cancel e = true \/ at_wait_point frs = true
    end ->
    let se := step_entry s t in
    let l' := clock (getc se c) in
    let inp := match exc with None => RVal 0 | Some e => RExc e end in
    wait_stack c l' frs /\ stack_wf se t l' frs /\
    (l' < length (locks se) /\
     (lkind_ (getl se l') = LPrio -> llocked (getl se l') = false -> lowner (getl se l') = None)) /\
    (at_wait_point frs = true -> lkind_ (getl se l') = LPrio ->
     is_prio_task se t = true -> twaiting (gett se t) = None) /\
    wait_input se l' frs inp.
Proof. exact wait_pre_of_inv. Qed.
Print Assumptions C14_preconditions_from_C13.

(* PriorityCondition.notify(n) / _notify(n).  The waiters in notification order are the stable
   sort of the heap by (priority at wait start, arrival number) - [sorted]: no later entry is
   smaller in the entry order of PriEntry.__lt__.  Given a well-formed waiter heap ([qwf]: heap
   invariant of C17, distinct arrival numbers, distinct futures) whose futures exist:
   exactly the first n not-yet-done futures of that order get the result True, every other
   future is untouched, and the heap keeps its content (a permutation, still a heap, same
   sorted view); no other condition, no lock and no task changes. *)
Theorem C14_notify_order :
  forall (s : st) (c n : nat),
    qwf (cpq (getc s c)) ->
    (forall f, In f (pq_objs (cpq (getc s c))) -> f < length (futs s)) ->
    let s' := notify_p s c n in
    let order := pq_objs (pq_sort HQ (cpq (getc s c))) in
    let W := firstn n (filter (fun f => negb (fdone s f)) order) in
    sorted (plt HQ) (arr (pq_sort HQ (cpq (getc s c)))) /\
    Permutation order (pq_objs (cpq (getc s c))) /\
    (forall f, In f W -> fstate_ (getf s' f) = FResult 1) /\
    (forall f, ~ In f W -> getf s' f = getf s f) /\
    qwf (cpq (getc s' c)) /\
    Permutation (arr (cpq (getc s' c))) (arr (cpq (getc s c))) /\
    pq_sort HQ (cpq (getc s' c)) = pq_sort HQ (cpq (getc s c)) /\
    (forall c', c' <> c -> getc s' c' = getc s c') /\
    locks s' = locks s /\ tasks s' = tasks s.
Proof. exact notify_order_full. Qed.
Print Assumptions C14_notify_order.

(* InterruptCondition inherits asyncio.Condition.notify: the same over the deque, in arrival order *)
Theorem C14_notify_order_interrupt_condition :
  forall (s : st) (c n : nat),
    NoDup (cdq (getc s c)) -> (forall f, In f (cdq (getc s c)) -> f < length (futs s)) ->
    let s' := notify_i s c n in
    let W := firstn n (filter (fun f => negb (fdone s f)) (cdq (getc s c))) in
    (forall f, In f W -> fstate_ (getf s' f) = FResult 0) /\
    (forall f, ~ In f W -> getf s' f = getf s f) /\
    conds s' = conds s /\ locks s' = locks s /\ tasks s' = tasks s.
Proof. exact notify_order_i_full. Qed.
Print Assumptions C14_notify_order_interrupt_condition.

(* PriorityCondition: every exceptional exit from wait() - in particular of a waiter whose
   future already holds the notification - goes through a state s1 in which the lock has been
   re-acquired by the caller and then runs `_notify(1)` (the final state IS notify_p s1 c 1);
   the leaving waiter is no longer queued there while every other waiter still is; and
   _notify(1) gives the result to the (priority, arrival)-first pending waiter if there is
   one, else changes no future.  So a notification consumed by a waiter that then leaves
   exceptionally is handed to another waiter or finds none. *)
Theorem C14_not_lost :
  forall (s : st) (t c : nat) (frs : list frame) (inp : reply) (s' : st) (e : exn),
    let l := clock (getc s c) in
    wait_stack c l frs -> stack_wf s t l frs ->
    (l < length (locks s) /\
     (lkind_ (getl s l) = LPrio -> llocked (getl s l) = false -> lowner (getl s l) = None)) ->
    (at_wait_point frs = true -> lkind_ (getl s l) = LPrio ->
     is_prio_task s t = true -> twaiting (gett s t) = None) ->
    wait_input s l frs inp ->
    is_pcond frs = true ->
    qwf (cpq (getc s c)) -> (forall f, In f (pq_objs (cpq (getc s c))) -> f < length (futs s)) ->
    resume_stack t frs inp s = (s', LDone (RExc e)) ->
    exists s1,
      (llocked (getl s1 l) = true /\ (lkind_ (getl s1 l) = LPrio -> lowner (getl s1 l) = Some t)) /\
      s' = notify_p s1 c 1 /\
      (forall f, frs = [InFut f; InCondWaitP c f] -> c < length (conds s) ->
                 In f (pq_objs (cpq (getc s c))) -> ~ In f (pq_objs (pq_sort HQ (cpq (getc s1 c))))) /\
      (forall g, In g (pq_objs (pq_sort HQ (cpq (getc s1 c)))) -> In g (pq_objs (cpq (getc s c)))) /\
      (forall g, In g (pq_objs (cpq (getc s c))) -> frs <> [InFut g; InCondWaitP c g] ->
                 In g (pq_objs (pq_sort HQ (cpq (getc s1 c))))) /\
      match filter (fun f => negb (fdone s1 f)) (pq_objs (pq_sort HQ (cpq (getc s1 c)))) with
      | f :: _ => fstate_ (getf s' f) = FResult 1 /\ (forall g, g <> f -> getf s' g = getf s1 g)
      | [] => forall g, getf s' g = getf s1 g
      end.
Proof. exact not_lost_full. Qed.
Print Assumptions C14_not_lost.

(* Entering wait(): whenever `cond.wait()` suspends at all, it is at the `await fut` point of the
   family above (PriorityCondition or InterruptCondition according to the condition's kind),
   so the theorems cover every suspension of wait() from the first one on. *)
Theorem C14_wait_entry :
  forall (t c : nat) (s s' : st) (y : yielded) (frs : list frame),
    lib_call t (OCondWait c) s = (s', LSusp y frs) ->
    exists f, y = YFut f /\
              frs = [InFut f; wait_frame (match ckind_ (getc s c) with CPrio => true | CIntr => false end) c f] /\
              at_wait_point frs = true /\ (forall l, wait_stack c l frs).
Proof. exact cond_wait_entry. Qed.
Print Assumptions C14_wait_entry.

(* ------------------------------------------------------------------------------------------
   Appended: hypotheses discharged from reachability (invariant [WInv] of Sched/WaitInv.v ...
   WaitProofs.v, corollaries in Sched/WaitThms.v).  [reachable s] (Sched/LockThms.v): s is
   reached from an initial state by an action list satisfying run_ok; [reachable_ne s]
   (Sched/WaitProofs.v): additionally no eager start ([Spawn SEager]) is executed along the run. *)
From Asynkit Require Import Sched.Corr Sched.LockProofs Sched.LockThms Sched.WaitInv Sched.WaitProofs Sched.WaitThms.

(* In every reachable state the waiter heap of every PriorityCondition is well formed (heap
   invariant, distinct futures) and its futures exist: C14_notify_order without hypotheses. *)
Theorem C14_notify_order_reachable :
  forall (s : st) (c n : nat), reachable s ->
    let s' := notify_p s c n in
    let order := pq_objs (pq_sort HQ (cpq (getc s c))) in
    let W := firstn n (filter (fun f => negb (fdone s f)) order) in
    sorted (plt HQ) (arr (pq_sort HQ (cpq (getc s c)))) /\
    Permutation order (pq_objs (cpq (getc s c))) /\
    (forall f, In f W -> fstate_ (getf s' f) = FResult 1) /\
    (forall f, ~ In f W -> getf s' f = getf s f) /\
    qwf (cpq (getc s' c)) /\
    Permutation (arr (cpq (getc s' c))) (arr (cpq (getc s c))) /\
    pq_sort HQ (cpq (getc s' c)) = pq_sort HQ (cpq (getc s c)) /\
    (forall c', c' <> c -> getc s' c' = getc s c') /\
    locks s' = locks s /\ tasks s' = tasks s.
Proof. exact notify_order_reach. Qed.
Print Assumptions C14_notify_order_reachable.

Theorem C14_notify_order_interrupt_condition_reachable :
  forall (s : st) (c n : nat), reachable s ->
    let s' := notify_i s c n in
    let W := firstn n (filter (fun f => negb (fdone s f)) (cdq (getc s c))) in
    (forall f, In f W -> fstate_ (getf s' f) = FResult 0) /\
    (forall f, ~ In f W -> getf s' f = getf s f) /\
    conds s' = conds s /\ locks s' = locks s /\ tasks s' = tasks s.
Proof. exact notify_order_i_reach. Qed.
Print Assumptions C14_notify_order_interrupt_condition_reachable.

(* The queues of the conditions in reachable states: well-formed heap / duplicate-free deque of
   existing plain futures that are not waiter futures of any PriorityLock; a condition with a
   waiter has an existing lock. *)
Theorem C14_condition_queues_reachable :
  forall s c, reachable s ->
    qwf (cpq (getc s c)) /\ NoDup (cdq (getc s c)) /\
    (forall f, In f (pq_objs (cpq (getc s c))) \/ In f (cdq (getc s c)) ->
       f < length (futs s) /\ fowner (getf s f) = None /\ ~ lockfut s f /\
       clock (getc s c) < length (locks s)).
Proof. exact reach_cond_queues. Qed.
Print Assumptions C14_condition_queues_reachable.

(* Lock held on every exit, from reachability alone.  s: any state reachable without eager
   starts; t: a task suspended (TSusp) with a stack of the wait() family for condition c;
   Task.__step resumes it in [step_entry s t] with the awaited future's result (exc = None, the
   future holds a result) or throws exc (a CancelledError subclass while in the retry loop,
   anything while in `await fut`).  All state preconditions of C14_lock_on_exit are discharged
   from the invariants: the C13 invariant (lock soundness, a woken waiter finds the lock
   without owner), stack_wf, the existence of the condition's lock, and that a PriorityTask at
   the `await fut` point is not registered as waiting (false with eager starts).  What remains
   are the assumptions on the input only.  The reply is the last exception delivered. *)
Theorem C14_lock_on_exit_reachable :
  forall (s : st) (t c : nat) (frs : list frame) (k : reply -> coro) (exc : option exn) (s' : st) (r : lres),
    reachable_ne s -> tcont_ (gett s t) = TSusp frs k ->
    let l := clock (getc s c) in
    wait_stack c l frs ->
    match exc with
    | None => exists f rest v, frs = InFut f :: rest /\ fstate_ (getf s f) = FResult v
    | Some e => is_cancel e = true \/ at_wait_point frs = true
    end ->
    let se := step_entry s t in
    resume_stack t frs (match exc with None => RVal 0 | Some e => RExc e end) se = (s', r) ->
    match r with
    | LSusp y frs' =>
        (exists f' rest, y = YFut f' /\ frs' = InFut f' :: rest) /\
        wait_stack c l frs' /\ stack_wf s' t l frs' /\ at_wait_point frs' = false /\
        is_pcond frs' = is_pcond frs /\
        (forall l0, lkind_ (getl s' l0) = lkind_ (getl s l0) /\
                    llocked (getl s' l0) = llocked (getl s l0) /\
                    lowner (getl s' l0) = lowner (getl s l0)) /\
        clock (getc s' c) = l /\ l < length (locks s') /\
        is_prio_task s' t = is_prio_task s t
    | LDone rep =>
        llocked (getl s' l) = true /\
        (lkind_ (getl s' l) = LPrio -> lowner (getl s' l) = Some t) /\
        (forall l0, l0 <> l ->
                    lkind_ (getl s' l0) = lkind_ (getl s l0) /\
                    llocked (getl s' l0) = llocked (getl s l0) /\
                    lowner (getl s' l0) = lowner (getl s l0)) /\
        rep = match last_exc frs (match exc with None => RVal 0 | Some e => RExc e end) with
              | Some e => RExc e | None => RVal 1 end
    end.
Proof. exact lock_on_exit_reach. Qed.
Print Assumptions C14_lock_on_exit_reachable.
