From Coq Require Import QArith.
From Asynkit Require Import Base.Prelude Sched.Model.
(* placeholder: the C14 theorems land in Sched/CondProofs.v *)
Theorem C14_after_p_keeps_exception :
  forall s c e, snd (cond_p_after s c (RExc e)) = RExc e.
Proof. reflexivity. Qed.
Print Assumptions C14_after_p_keeps_exception.
