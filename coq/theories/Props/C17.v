From Asynkit Require Import Base.Prelude Queue.PQ.
(* placeholder until PQProofs lands *)
Theorem C17_placeholder : forall P (q : pq P), pq_clear q = pq_empty.
Proof. reflexivity. Qed.
Print Assumptions C17_placeholder.
