(* C17 - Priority containers are faithful to their reference models.
   Final statements; the proofs are in Queue/{Order,Heap,PQProofs,...}.v.
   Conventions: [H : heapimpl P] bundles the priority order [plt H] (Python's
   bare `<` on priorities) and the three heapq primitives; [StrictWeak (plt H)]
   says `<` is a strict weak order; [HeapSpec H] is heapq's documented contract
   (Queue/Heap.v).  [pq_sort H q] (list.sort() of the array) is the abstraction:
   the unique sorted permutation of the heap array. *)
From Coq Require Import Sorting.Sorted Sorting.Permutation.
From Coq Require Import QArith.
From Asynkit Require Import Base.Prelude Queue.PQ Queue.Order Queue.Heap Queue.ListFacts
  Queue.PQProofs Queue.SortImpl Queue.HeapqModel Queue.Exec Queue.HeapqProofs
  Queue.PosPQ Queue.PosProofs Queue.PosInsert.
Local Close Scope Q_scope.

(* PriEntry.__lt__, built from a bare `<`, is a strict total order on entries
   with pairwise distinct sequence numbers (and a strict weak order on all
   entries: its complement is transitive). *)
Theorem C17_entry_order :
  forall (P : Type) (lt : P -> P -> bool), StrictWeak lt ->
    (forall a, entry_lt lt a a = false) /\
    (forall a b c, entry_lt lt a b = true -> entry_lt lt b c = true -> entry_lt lt a c = true) /\
    (forall a b c, entry_lt lt b a = false -> entry_lt lt c b = false -> entry_lt lt c a = false) /\
    (forall a b, eseq a <> eseq b -> entry_lt lt a b = true \/ entry_lt lt b a = true).
Proof.
  intros P lt SW.
  exact (conj (elt_irrefl SW) (conj (elt_trans SW) (conj (ele_trans SW) (elt_total SW)))).
Qed.
Print Assumptions C17_entry_order.

(* what the invariant says *)
Theorem C17_pq_inv_meaning :
  forall (P : Type) (H : heapimpl P) (q : pq P),
    Inv H q <->
    is_heap (entry_lt (plt H)) (arr q) /\          (* forall i>0: not (a[i] < a[(i-1)/2]) *)
    NoDup (map eseq (arr q)) /\                     (* sequence numbers unique *)
    Forall (fun e => (eseq e < seqn q)%Z) (arr q) /\ (* and below _sequence *)
    (0 <= seqn q)%Z.
Proof. exact (@Inv_unfold). Qed.
Print Assumptions C17_pq_inv_meaning.

Theorem C17_heap_facts :
  forall (P : Type) (lt : P -> P -> bool), StrictWeak lt ->
    (* element 0 of a heap is minimal *)
    (forall a l, is_heap (entry_lt lt) (a :: l) -> Forall (fun x => entry_lt lt x a = false) l) /\
    (* a sorted list is a heap *)
    (forall l, StronglySorted (fun a b => entry_lt lt b a = false) l -> is_heap (entry_lt lt) l) /\
    (* the `lp >= lq` restore of ordereditems *)
    (forall p a, StronglySorted (fun x y => entry_lt lt y x = false) p ->
                 (forall x y, In x p -> In y a -> entry_lt lt y x = false) ->
                 length a <= length p + 1 -> is_heap (entry_lt lt) (p ++ a)).
Proof.
  intros P lt SW.
  exact (conj (eheap_min_cons SW) (conj (esorted_is_heap SW) (emerge_restore_heap SW))).
Qed.
Print Assumptions C17_heap_facts.

(* the invariant holds initially and is preserved by every operation,
   including an ordered iteration closed after any number of items *)
Theorem C17_pq_inv :
  forall (P : Type) (H : heapimpl P), StrictWeak (plt H) -> HeapSpec H ->
    Inv H pq_empty /\
    forall q, Inv H q ->
      (forall p o, Inv H (pq_add H q p o)) /\
      (forall l, Inv H (pq_extend H q l)) /\
      (forall e q', pq_popentry H q = Some (e, q') -> Inv H q') /\
      (forall o p q', pq_remove H q o = Some (p, q') -> Inv H q') /\
      (forall key rm e q', pq_find H q key rm = Some (e, q') -> Inv H q') /\
      (forall key np o q', pq_reschedule H q key np = Some (o, q') -> Inv H q') /\
      Inv H (pq_refresh H q) /\ Inv H (pq_sort H q) /\ Inv H (pq_clear q) /\
      (forall n ys q', pq_ordered_take H q n = (ys, q') -> Inv H q') /\
      (forall ys q', pq_ordered_all H q = (ys, q') -> Inv H q').
Proof.
  intros P H SW HS. exact (conj (Inv_empty H) (all_ops_inv H SW HS)).
Qed.
Print Assumptions C17_pq_inv.

(* every operation agrees with the sorted-list reference model (Queue/PQProofs.v,
   ref_*: add = stable insert with the next sequence number, pop/peek = head,
   remove/find = delete the entry of that object, reschedule = delete and
   re-insert with the old sequence number, ordered iteration = prefix of the
   list, list unchanged), provided objects are pairwise distinct and a search
   key selects at most one entry *)
Theorem C17_pq_refines_ops :
  forall (P : Type) (H : heapimpl P), StrictWeak (plt H) -> HeapSpec H ->
    forall q, Inv H q -> NoDup (map eobj (arr q)) ->
      (forall p o, pq_sort H (pq_add H q p o) = ref_add H (pq_sort H q) p o) /\
      (forall l, pq_sort H (pq_extend H q l) = ref_extend H (pq_sort H q) l) /\
      lift_abs H (pq_popentry H q) = ref_popentry (pq_sort H q) /\
      pq_peek q = pq_peek (pq_sort H q) /\
      (forall o, lift_abs H (pq_remove H q o) = ref_remove (pq_sort H q) o) /\
      (forall key rm, KeyUniq key (arr q) ->
         lift_abs H (pq_find H q key rm) = ref_find (pq_sort H q) key rm) /\
      (forall key np, KeyUniq key (arr q) ->
         lift_abs H (pq_reschedule H q key np) = ref_reschedule H (pq_sort H q) key np) /\
      (forall n, fst (pq_ordered_take H q n) = firstn n (arr (pq_sort H q)) /\
                 pq_sort H (snd (pq_ordered_take H q n)) = pq_sort H q) /\
      length (arr q) = length (arr (pq_sort H q)) /\
      (forall o, mem_obj o (arr q) = mem_obj o (arr (pq_sort H q))).
Proof. exact (@all_ops_refine). Qed.
Print Assumptions C17_pq_refines_ops.

(* whole histories: from any state satisfying the invariant (in particular the
   empty queue), for every operation list whose adds use fresh objects and whose
   keys are unambiguous (stated on the reference model only), the implementation
   model returns exactly the reference model's results, ends in a state whose
   abstraction is the reference model's state, and the invariant still holds *)
Theorem C17_pq_refines :
  forall (P : Type) (H : heapimpl P), StrictWeak (plt H) -> HeapSpec H ->
    forall (ops : list (op P)) (q : pq P),
      Inv H q -> NoDup (map eobj (arr q)) -> ok_run H (pq_sort H q) ops ->
      ref_run H (pq_sort H q) ops
        = (fst (run H q ops), pq_sort H (snd (run H q ops))) /\
      Inv H (snd (run H q ops)) /\ NoDup (map eobj (arr (snd (run H q ops)))).
Proof. intros P H SW HS ops. exact (run_refines H SW HS ops). Qed.
Print Assumptions C17_pq_refines.

Theorem C17_pq_refines_from_empty :
  forall (P : Type) (H : heapimpl P), StrictWeak (plt H) -> HeapSpec H ->
    forall ops : list (op P), ok_run H pq_empty ops ->
      ref_run H pq_empty ops
        = (fst (run H pq_empty ops), pq_sort H (snd (run H pq_empty ops))) /\
      Inv H (snd (run H pq_empty ops)).
Proof. intros P H SW HS ops. exact (run_refines_empty H SW HS ops). Qed.
Print Assumptions C17_pq_refines_from_empty.

(* pop order: popping everything returns a permutation of the content which is
   strictly ascending for PriEntry.__lt__, i.e. by priority, then by sequence
   number (= arrival, see C17_add_position) *)
Theorem C17_pop_order :
  forall (P : Type) (H : heapimpl P), StrictWeak (plt H) -> HeapSpec H ->
    forall q, Inv H q ->
      let out := drain H (length (arr q)) q in
      Permutation out (arr q) /\
      StronglySorted (fun a b => entry_lt (plt H) a b = true) out.
Proof. exact (@drain_order). Qed.
Print Assumptions C17_pop_order.

(* add places the new item, in pop order, after every item whose priority is
   not above its own (FIFO among equals) and before every item of strictly
   greater priority; all other items keep their relative order *)
Theorem C17_add_position :
  forall (P : Type) (H : heapimpl P), StrictWeak (plt H) -> HeapSpec H ->
    forall q p o, Inv H q ->
      exists l1 l2,
        arr (pq_sort H q) = l1 ++ l2 /\
        arr (pq_sort H (pq_add H q p o)) = l1 ++ mkE p (seqn q) o :: l2 /\
        Forall (fun x => plt H p (epri x) = false) l1 /\
        Forall (fun x => plt H p (epri x) = true) l2.
Proof. exact (@add_position). Qed.
Print Assumptions C17_add_position.

(* nothing is lost or duplicated *)
Theorem C17_nothing_lost :
  forall (P : Type) (H : heapimpl P), StrictWeak (plt H) -> HeapSpec H ->
    forall q, Inv H q ->
      (forall p o, Permutation (arr (pq_add H q p o)) (mkE p (seqn q) o :: arr q)) /\
      (forall l, Permutation (arr (pq_extend H q l))
                             (arr q ++ snd (extend_entries (seqn q) l))) /\
      (forall e q', pq_popentry H q = Some (e, q') -> Permutation (arr q) (e :: arr q')) /\
      (forall o p q', pq_remove H q o = Some (p, q') ->
         exists e, eobj e = o /\ epri e = p /\ Permutation (arr q) (e :: arr q')) /\
      (forall key e q', pq_find H q key true = Some (e, q') ->
         key (eobj e) = true /\ Permutation (arr q) (e :: arr q')) /\
      (forall key np o q', pq_reschedule H q key np = Some (o, q') ->
         key o = true /\ exists e r, eobj e = o /\ Permutation (arr q) (e :: r) /\
           (q' = q \/ Permutation (arr q') (mkE np (eseq e) o :: r))) /\
      Permutation (arr (pq_refresh H q)) (arr q) /\
      Permutation (arr (pq_sort H q)) (arr q) /\
      (forall n, Permutation (arr (snd (pq_ordered_take H q n))) (arr q)).
Proof. exact (@all_ops_perm). Qed.
Print Assumptions C17_nothing_lost.

(* observation (refresh, sort, full / partial / abandoned ordered iteration,
   find without removal) does not change the abstract state; by C17_pq_refines
   the results of all later operations are functions of that state only *)
Theorem C17_observation :
  forall (P : Type) (H : heapimpl P), StrictWeak (plt H) -> HeapSpec H ->
    forall q, Inv H q ->
      pq_sort H (pq_refresh H q) = pq_sort H q /\
      pq_sort H (pq_sort H q) = pq_sort H q /\
      (forall n, pq_sort H (snd (pq_ordered_take H q n)) = pq_sort H q) /\
      pq_sort H (snd (pq_ordered_all H q)) = pq_sort H q /\
      (forall key, match pq_find H q key false with
                   | Some (_, q') => q' = q | None => True end).
Proof. exact (@observation_abs). Qed.
Print Assumptions C17_observation.

(* ---- heapq itself: the transcription of CPython's heapq used for execution
   (and compared with the real heapq on every check run) meets HeapSpec, so for
   the executable instances no hypothesis about heapq remains ---- *)
Theorem C17_heapq_model_meets_spec :
  forall (P : Type) (lt : P -> P -> bool) (d : P),
    StrictWeak lt -> HeapSpec (mk_heapimpl lt d).
Proof. exact (@heapq_model_spec). Qed.
Print Assumptions C17_heapq_model_meets_spec.

(* closed instance: integer priorities, CPython's heapq algorithm *)
Theorem C17_pq_refines_HZ :
  forall ops : list (op Z), ok_run HZ pq_empty ops ->
    ref_run HZ pq_empty ops
      = (fst (run HZ pq_empty ops), pq_sort HZ (snd (run HZ pq_empty ops))) /\
    Inv HZ (snd (run HZ pq_empty ops)).
Proof. exact (run_refines_empty HZ Zltb_strict_weak HZ_spec). Qed.
Print Assumptions C17_pq_refines_HZ.

(* ---- PosPriorityQueue, boosting disabled (priority_boost_factor = 0) ---- *)

(* PriorityValue.__lt__ is a strict weak order *)
Theorem C17_pv_lt_strict_weak : StrictWeak pv_lt.
Proof. exact pv_lt_strict_weak. Qed.
Print Assumptions C17_pv_lt_strict_weak.

(* PInv s := PriorityQueue invariant of the wrapped queue, boosting off, and every
   entry is positional (class 0, no boost) or regular (class 1).  It holds
   initially and every operation preserves it. *)
Theorem C17_pos_inv :
  forall (H : heapimpl pv), plt H = pv_lt -> HeapSpec H ->
    (forall ds, PInv H (pos_empty 0%Q ds)) /\
    forall s, PInv H s ->
      (Inv H (pq_ s) /\ Qeq_bool (factor s) 0 = true) /\
      (forall o p, PInv H (pos_append_pri H s o p)) /\
      (forall o s', pos_popleft H s = Some (o, s') -> PInv H s') /\
      (forall k o, PInv H (pos_insert H s k o)) /\
      (forall o s', pos_remove H s o = Some s' -> PInv H s') /\
      (forall key rm o s', pos_find H s key rm = Some (o, s') -> PInv H s') /\
      (forall key np o s', pos_reschedule H s key np = Some (o, s') -> PInv H s') /\
      (forall getp, PInv H (pos_reschedule_all H s getp)) /\
      PInv H (pos_clear s) /\ PInv H (snd (pos_iter H s)).
Proof.
  intros H Hplt HS. split; [exact (PInv_empty H)|]. intros s Hp.
  split; [destruct Hp as (Hi & Hf & _); exact (conj Hi Hf)|].
  split; [intros; apply append_pri_inv; auto|].
  split; [intros o s'; apply popleft_inv; auto|].
  split; [intros; apply insert_inv; auto|].
  split; [intros o s'; apply remove_inv_pos; auto|].
  split; [intros key rm o s'; apply find_inv_pos; auto|].
  split; [intros key np o s'; apply reschedule_inv_pos; auto|].
  split; [intros; apply reschedule_all_inv; auto|].
  split; [apply clear_inv_pos; auto | apply iter_inv_pos; auto].
Qed.
Print Assumptions C17_pos_inv.

(* popping everything yields a permutation of the content in which the class never
   decreases: every positional (class 0) entry pops before every regular (class 1)
   one; within a class the order is by priority(), then sequence (C17_pop_order) *)
Theorem C17_pos_class_order :
  forall (H : heapimpl pv), plt H = pv_lt -> HeapSpec H ->
    forall s, PInv H s ->
      let out := drain H (length (arr (pq_ s))) (pq_ s) in
      Permutation out (arr (pq_ s)) /\
      forall l1 a l2 b l3, out = l1 ++ a :: l2 ++ b :: l3 ->
        (pclass (epri a) <= pclass (epri b))%Z.
Proof. exact pos_class_order. Qed.
Print Assumptions C17_pos_class_order.

(* reschedule_all (repaired: sorts first).  Let l be the pop order before.  The
   i-th entry of l comes back with its re-computed priority value, sequence
   number i and the same object.  Objects are neither lost nor duplicated, and
   for i < j the i-th still pops before the j-th unless the new priority of the
   j-th is strictly below that of the i-th: in particular equal-priority entries
   keep their order, and so do positional entries (second part). *)
Theorem C17_pos_reschedule_all :
  forall (H : heapimpl pv), plt H = pv_lt -> HeapSpec H ->
    forall s getp, PInv H s ->
      let l := stable_sort H (arr (pq_ s)) in
      let out := stable_sort H (arr (pq_ (pos_reschedule_all H s getp))) in
      let new i := mkE (fst (repri getp (nth i l (edflt H)))) (Z.of_nat i)
                       (eobj (nth i l (edflt H))) in
      Permutation (map (@eobj pv) out) (map (@eobj pv) (arr (pq_ s))) /\
      (forall i j, i < j -> j < length l ->
         pv_lt (epri (new j)) (epri (new i)) = false ->
         exists l1 l2 l3, out = l1 ++ new i :: l2 ++ new j :: l3) /\
      (forall i j, i < j -> j < length l ->
         pclass (epri (nth i l (edflt H))) = 0%Z -> pclass (epri (nth j l (edflt H))) = 0%Z ->
         exists l1 l2 l3, out = l1 ++ new i :: l2 ++ new j :: l3).
Proof.
  intros H Hplt HS s getp Hp l out new.
  destruct (reschedule_all_order H Hplt HS s getp Hp) as [H1 H2].
  split; [exact H1|]. split; [exact H2|].
  intros i j Hij Hj Hci Hcj.
  exact (reschedule_all_positional H Hplt HS s getp i j Hp Hij Hj Hci Hcj).
Qed.
Print Assumptions C17_pos_reschedule_all.

(* insert(position, obj): with L the pop order before, the pop order afterwards is
   the first min(position, len) objects of L, then the new object, then the rest
   of L - also when the queue runs empty while promoting (position > len) *)
Theorem C17_pos_insert_position :
  forall (H : heapimpl pv), plt H = pv_lt -> HeapSpec H ->
    forall s k o, PInv H s ->
      let L := stable_sort H (arr (pq_ s)) in
      map (@eobj pv) (stable_sort H (arr (pq_ (pos_insert H s k o))))
      = map (@eobj pv) (firstn k L) ++ o :: map (@eobj pv) (skipn k L).
Proof. exact insert_position. Qed.
Print Assumptions C17_pos_insert_position.

(* closed instance used by the correspondence check *)
Theorem C17_pos_inv_HPV :
  forall s, PInv HPV s -> forall k o getp,
    PInv HPV (pos_insert HPV s k o) /\ PInv HPV (pos_reschedule_all HPV s getp).
Proof.
  intros s Hp k o getp. split.
  - exact (insert_inv HPV eq_refl (heapq_model_spec pv_lt pv_dflt pv_lt_strict_weak) s k o Hp).
  - exact (reschedule_all_inv HPV eq_refl (heapq_model_spec pv_lt pv_dflt pv_lt_strict_weak) s getp Hp).
Qed.
Print Assumptions C17_pos_inv_HPV.

(* ---- the hypotheses are satisfiable ---- *)
Example C17_strict_weak_Z : StrictWeak Z.ltb.
Proof. exact Zltb_strict_weak. Qed.

Example C17_heapspec_satisfiable : HeapSpec (sort_impl Z.ltb 0%Z).
Proof. exact (sort_impl_spec Z.ltb 0%Z Zltb_strict_weak). Qed.

(* a concrete non-trivial queue (built by the executable heapq model) satisfies Inv *)
Example C17_inv_example :
  let q := (pq_add HZ (pq_add HZ (pq_add HZ (pq_add HZ pq_empty 1 10) 0 11) 1 12) (-1) 13)%Z in
  arr q = [mkE (-1) 3 13; mkE 0 1 11; mkE 1 2 12; mkE 1 0 10]%Z /\ Inv HZ q.
Proof.
  split; [vm_compute; reflexivity|].
  split; [|split; [|split]].
  - apply (is_heap_nth _ _ (edflt HZ)). vm_compute.
    intros i Hi. assert (Hc : i = 1 \/ i = 2 \/ i = 3) by lia. destruct Hc as [E|[E|E]]; subst i; reflexivity.
  - vm_compute. repeat constructor; simpl; intuition discriminate.
  - vm_compute. repeat constructor.
  - vm_compute. discriminate.
Qed.

(* ======================================================================== *)
(* PosPriorityQueue, boosting disabled: HISTORY-LEVEL refinement to the list  *)
(* model "positional prefix ++ regular entries by (priority, arrival)".       *)
(* Proofs in Queue/PosRefine.v (on top of Queue/PosList.v).                   *)
(* ======================================================================== *)
From Asynkit Require Import Base.Obs Queue.PosList Queue.PQCorr Queue.PosRefine.

(* The abstract model (Queue/PosRefine.v):
     rpos = { rposl : list Z            objects scheduled at a position, in order
              rreg  : list rent         regular entries (robj, rpri, rarr), kept
                                        ascending for rlt = (priority, arrival)
              rnext : Z }               next arrival number
     run_order r = rposl r ++ map robj (rreg r)
   with operations r_append, r_insert, r_popleft, r_remove, r_find, r_resched,
   r_resched_all, r_clear; rstep/rrun execute a [posop] history on it and
   pstep/prun execute the same history on the implementation model (pstep HPV is
   PQCorr.pos_step with results as a data type, see C17_pos_prun_is_checked_run).

   What the abstract operations do to the run order (for a model state without
   duplicates): nothing is lost or duplicated and untouched items keep their
   relative order.  reschedule(o, p) of a regular entry re-inserts it by
   (p, ITS OLD ARRIVAL NUMBER) - the implementation keeps the old sequence
   number - so among entries of priority p it goes where its original arrival
   puts it, not to the end; a positional entry is not moved. *)
Theorem C17_pos_model_ops : forall r : rpos, NoDup (run_order r) ->
  (* append(o, p): o is added, everything else keeps its order *)
  (forall o p, ~ In o (run_order r) ->
     Permutation (run_order (r_append r o p)) (o :: run_order r) /\
     remove_first (Z.eqb o) (run_order (r_append r o p)) = run_order r) /\
  (* insert(k, o): list insert at min(k, len) *)
  (forall k o, run_order (r_insert r k o)
               = firstn k (run_order r) ++ o :: skipn k (run_order r)) /\
  (* popleft: the head *)
  (forall o r', r_popleft r = Some (o, r') -> run_order r = o :: run_order r') /\
  (r_popleft r = None -> run_order r = []) /\
  (* remove(o) / find(o, remove=True): delete o *)
  (forall o r', r_remove r o = Some r' ->
     run_order r' = remove_first (Z.eqb o) (run_order r)) /\
  (forall o, r_remove r o = None -> ~ In o (run_order r)) /\
  (* reschedule(o, p): only o moves *)
  (forall o p o' r', r_resched r o p = Some (o', r') ->
     o' = o /\ Permutation (run_order r') (run_order r) /\
     remove_first (Z.eqb o) (run_order r') = remove_first (Z.eqb o) (run_order r)) /\
  (* reschedule_all: positional prefix untouched, regular entries permuted
     (re-sorted by the new priorities, stably w.r.t. the old run order) *)
  (forall getp, rposl (r_resched_all r getp) = rposl r /\
     Permutation (run_order (r_resched_all r getp)) (run_order r)) /\
  run_order (r_clear r) = [].
Proof. exact r_contents. Qed.
Print Assumptions C17_pos_model_ops.

(* the order of the abstract regular part: rlt a b = true  iff  priority of a is
   smaller, or equal with a smaller arrival number *)
Theorem C17_pos_model_order : forall a b : rent,
  rlt a b = true <-> (rpri a < rpri b)%Q \/ ((rpri a == rpri b)%Q /\ (rarr a < rarr b)%Z).
Proof. exact rlt_spec. Qed.
Print Assumptions C17_pos_model_order.

(* The simulation relation, spelled out: the queue invariant PInv; the model has
   no duplicates; the key-sorted entry list plist H p (= the pop order, Queue/
   PosList.v) is Pz ++ G where Pz are class-0 entries whose objects are rposl r
   and G are class-1 entries matching rreg r one by one (same object, priority()
   == model priority, no boost), with sequence numbers ordered like the model's
   arrival numbers (they are not equal: the implementation resets and re-assigns
   sequence numbers); model arrivals are below rnext. *)
Theorem C17_pos_R_meaning : forall (H : heapimpl pv) (p : pos) (r : rpos),
  R H p r <->
  PInv H p /\ NoDup (run_order r) /\
  exists Pz G, plist H p = Pz ++ G /\
    Forall (fun e => pclass (epri e) = 0%Z) Pz /\ map (@eobj pv) Pz = rposl r /\
    Forall2 (fun e x => pclass (epri e) = 1%Z /\ eobj e = robj x /\
                        (pv_priority (epri e) == rpri x)%Q /\ (boost (epri e) == 0)%Q)
            G (rreg r) /\
    (forall e x g y, In (e, x) (combine G (rreg r)) -> In (g, y) (combine G (rreg r)) ->
       (eseq e <? eseq g)%Z = (rarr x <? rarr y)%Z) /\
    Forall (fun x => (rarr x < rnext r)%Z) (rreg r).
Proof. intros. reflexivity. Qed.
Print Assumptions C17_pos_R_meaning.

(* ... hence: the objects in pop order are the model's run order, the array holds
   exactly the model's objects, each once, and the model's regular part is
   strictly ascending for (priority, arrival) *)
Theorem C17_pos_R_facts : forall (H : heapimpl pv), plt H = pv_lt -> HeapSpec H ->
  forall p r, R H p r ->
    map (@eobj pv) (plist H p) = run_order r /\
    Permutation (map (@eobj pv) (arr (pq_ p))) (run_order r) /\ NoDup (run_order r) /\
    length (arr (pq_ p)) = length (run_order r) /\
    StronglySorted (fun a b => rlt a b = true) (rreg r).
Proof.
  intros H Hplt HS p r HR. split; [exact (R_objs H p r HR)|].
  destruct (R_contents H p r HR) as (H1 & H2 & H3).
  repeat (split; [assumption|]). exact (R_rsorted H Hplt p r HR).
Qed.
Print Assumptions C17_pos_R_facts.

(* THE REFINEMENT, one operation: results are equal and R is preserved.  The
   only obligation (on the model side): an appended / inserted object is not
   already queued. *)
Theorem C17_pos_refines_step :
  forall (H : heapimpl pv), plt H = pv_lt -> HeapSpec H ->
    forall p r op, R H p r ->
      match op with
      | QAppend o _ | QAppendPri o _ | QInsert _ o => ~ In o (run_order r)
      | _ => True
      end ->
      fst (pstep H p op) = fst (rstep r op) /\ R H (snd (pstep H p op)) (snd (rstep r op)).
Proof. exact step_refines. Qed.
Print Assumptions C17_pos_refines_step.

(* THE REFINEMENT, whole histories (append, append_pri, insert, popleft, remove,
   find with/without removal, reschedule, reschedule_all, clear, iteration,
   len; any heap implementation meeting heapq's contract): from R-related states,
   for every operation list whose appended/inserted objects are fresh on the
   model ([rok_run]), the implementation model returns exactly the list model's
   results and ends R-related to the model's final state. *)
Theorem C17_pos_refines :
  forall (H : heapimpl pv), plt H = pv_lt -> HeapSpec H ->
    forall (ops : list posop) (p : pos) (r : rpos),
      R H p r -> rok_run r ops ->
      fst (prun H p ops) = fst (rrun r ops) /\
      R H (snd (prun H p ops)) (snd (rrun r ops)).
Proof. exact pos_run_refines. Qed.
Print Assumptions C17_pos_refines.

(* ... from the empty queue (boost factor 0, any draw stream), closed instance
   for the executed heap (CPython's heapq algorithm): no hypothesis besides
   freshness of added objects *)
Theorem C17_pos_refines_from_empty :
  forall (draws : list Q) (ops : list posop), rok_run r_empty ops ->
    fst (prun HPV (pos_empty 0%Q draws) ops) = fst (rrun r_empty ops) /\
    R HPV (snd (prun HPV (pos_empty 0%Q draws) ops)) (snd (rrun r_empty ops)).
Proof.
  intros ds ops.
  exact (pos_run_refines_empty HPV eq_refl (heapq_model_spec pv_lt pv_dflt pv_lt_strict_weak) ds ops).
Qed.
Print Assumptions C17_pos_refines_from_empty.

Theorem C17_pos_refines_from_empty_any_heap :
  forall (H : heapimpl pv), plt H = pv_lt -> HeapSpec H ->
    forall (draws : list Q) (ops : list posop), rok_run r_empty ops ->
      fst (prun H (pos_empty 0%Q draws) ops) = fst (rrun r_empty ops) /\
      R H (snd (prun H (pos_empty 0%Q draws) ops)) (snd (rrun r_empty ops)).
Proof. exact pos_run_refines_empty. Qed.
Print Assumptions C17_pos_refines_from_empty_any_heap.

(* [prun HPV] is the run that the correspondence check compares with the real
   class: PQCorr.pos_run_from prints, for every step, the result of pstep (as an
   observation) and the complete state *)
Theorem C17_pos_prun_is_checked_run : forall ops s,
  Forall2 (fun ob x => exists st, ob = OL [pres_obs x; st])
          (pos_run_from s ops) (fst (prun HPV s ops)).
Proof. exact prun_is_corr_run. Qed.
Print Assumptions C17_pos_prun_is_checked_run.

(* pop order: popping everything returns exactly the model's run order
   (positional prefix, then regular entries by (priority, arrival)) and leaves
   the queue empty *)
Theorem C17_pos_drain_order :
  forall (H : heapimpl pv), plt H = pv_lt -> HeapSpec H ->
    forall p r, R H p r ->
      let n := length (run_order r) in
      fst (prun H p (repeat QPopleft n)) = map PObj (run_order r) /\
      arr (pq_ (snd (prun H p (repeat QPopleft n)))) = [].
Proof. exact pos_drain_order. Qed.
Print Assumptions C17_pos_drain_order.

(* observation (iteration, len, find without removal) leaves the model state
   unchanged; by C17_pos_refines all later results are functions of it *)
Theorem C17_pos_observation : forall r : rpos,
  snd (rstep r QIter) = r /\ snd (rstep r QLen) = r /\
  forall o, snd (rstep r (QFind o false)) = r.
Proof. exact rstep_observation. Qed.
Print Assumptions C17_pos_observation.

(* the hypothesis is satisfiable by a non-trivial history (ties, insert beyond
   the length, reschedule of regular entries, reschedule_all, removal) *)
Example C17_pos_refines_example :
  rok_run r_empty ex_hist /\
  fst (prun HPV (pos_empty 0%Q []) ex_hist)
  = [PUnit; PUnit; PUnit; PUnit; PUnit; PObj 3; PObj 1; PUnit; PUnit;
     PList [4; 6; 2; 5; 1; 3]; PObj 4; PUnit; PObj 2; PObj 1; PUnit; PLen 4;
     PList [6; 5; 1; 9]]%Z.
Proof.
  split; [exact ex_hist_ok|].
  rewrite (proj1 (C17_pos_refines_from_empty [] ex_hist ex_hist_ok)). exact ex_hist_results.
Qed.
