(* C07 - Monitor out-of-band channel: exactly once, in order, both directions.

   Vocabulary (Coro/Monitor.v, Coro/MonitorSpec.v):
   * a body is an [mtree]: Ret / Raise / Eff / TSusp y k (a real suspension: the awaited
     future or token y) / TOob m d k (`r = await m.oob(d)`); [emb t : coro] is what the body
     really does at an oob node: read Monitor.state (cell m of the store), raise "Monitor
     not active" or write -1 and yield d.  [no_lost t]: no oob() whose yield is swallowed
     by a close() of the frame that issued it (the designed-error carve-out).
   * [call_run m s o cl] / [call_resume m cl s k i]: the model of one call
     cl in {aawait v, athrow e, aclose, start, try_await v sentinel} on the coroutine object
     o through monitor m in store s, up to its end [MEnd o' r] (r = RVal v | RExc e;
     out-of-band data is RExc (OOBData d)) or to a real suspension [MSusp y k] that is
     yielded outward, and of the driver's answer i to such a suspension.  The relay decides
     "out-of-band or real" by looking at the flag (state = -1), as monitor.py does.
   * [call_k m o cl kont]: the same call as the tree of the CALLER's code
     (`r = await m.<cl>(o)` followed by kont o' r), used for nested monitors.
   * [msession m s o h]: a whole driver history h = list of (call, inputs given at the
     real suspensions the call meets); per step: the body's events, what came out, the store.
   * [tsession]: the reference: the same history run on the mtree itself, where an
     out-of-band datum is, by definition, what a TOob node of m yields, and a real suspension
     is what any other node yields. *)
From Asynkit Require Import Base.Prelude Coro.Tree Coro.Native Coro.Monitor Coro.MonitorSpec
  Coro.MonitorProofs.
Open Scope Z_scope.

(* For every body, store and driver history, what the driver observes through the real
   mechanism (state flag) is what the explicit oob nodes prescribe: each oob node reached
   ends exactly one call with OOBData d, in program order; every real suspension is
   yielded outward as itself and never as OOBData; the body's Ret / Raise ends the final
   call; the stores (Monitor.state) agree after every step. *)
Theorem C07_exactly_once_in_order : forall m t s h,
  no_lost t -> msession m s (New (emb t)) h = tsession m s (TNew t) h.
Proof. exact msession_tsession. Qed.
Print Assumptions C07_exactly_once_in_order.

(* Both directions: when the body reaches an oob node of the driving monitor the call ends
   with OOBData d and the object left behind is that node's continuation k; the value of
   the next aawait(v') is what that oob() returns (k (Send v')), the exception of athrow(e)
   is raised from it (k (Throw e)). *)
Theorem C07_answers : forall m s t evs s1 d k,
  mstate s m = 0 -> trun (setcell s m 1) t = (evs, s1, TsOob m d k) ->
  tcall_run m s (TNew t) (CAwait VNone) =
    (evs, setcell (setcell s1 m 1) m 0, GEnd (TAt k) (RExc (OOBData d)))
  /\ (forall v', tfirst_call (TAt k) (call_input (CAwait v')) = inl (k (Send v')))
  /\ (forall e, tfirst_call (TAt k) (call_input (CThrow e)) = inl (k (Throw e))).
Proof. exact oob_then_answer. Qed.
Print Assumptions C07_answers.

(* The tree of a caller that awaits a Monitor call runs exactly as call_run / call_resume
   say (all bodies, all continuations of the caller, all stores); [bound_resume true] =
   call_resume, except that a GeneratorExit thrown into the caller from outside at a real
   suspension always comes back as GeneratorExit (or the error of the close), never as a
   return value (PEP 380: the caller's own await re-raises it). *)
Theorem C07_caller_tree : forall m o cl s kont,
  run s (call_k m o cl kont) = run_of_call m cl kont (call_run m s o cl)
  /\ forall k i, run s (call_cont m cl k kont i)
                 = run_of_call m cl kont (bound_resume true m cl s k i).
Proof. intros; split; [apply call_k_run | intros; apply call_cont_run]. Qed.
Print Assumptions C07_caller_tree.

(* After every call that returns or raises -- also when the relay is closed at a real
   suspension -- state = 0 (ANY coroutine body, not only [emb t]); a call made while
   state <> 0 gets RuntimeError("Monitor cannot be re-entered") and leaves the store, the
   driven object and (no events) the use in progress untouched. *)
Theorem C07_idle_after : forall m s o cl,
  (forall evs s' o' r, mstate s m = 0 ->
     call_run m s o cl = (evs, s', MEnd o' r) -> mstate s' m = 0)
  /\ (forall k i evs s' o' r, call_resume m cl s k i = (evs, s', MEnd o' r) -> mstate s' m = 0)
  /\ (forall k, exists evs s' o' r,
        resume_run m s k (Throw GeneratorExit) = (evs, s', MEnd o' r) /\ mstate s' m = 0)
  /\ (mstate s m <> 0 -> skips cl o = false ->
        call_run m s o cl = ([], s, MEnd o (RExc (RuntimeError RtMonitorReentered)))
        /\ forall kont, run s (call_k m o cl kont)
                        = run s (kont o (RExc (RuntimeError RtMonitorReentered)))).
Proof.
  intros m s o cl. repeat split.
  - intros; eapply call_run_idle; eauto.
  - intros; eapply call_resume_idle; eauto.
  - intros; apply resume_run_close_ends.
  - apply call_run_reentered; assumption.
  - intros; apply call_k_reentered; assumption.
Qed.
Print Assumptions C07_idle_after.

(* Monitors A (outer) and B (inner), both active, a body under B's relay under A's relay:
   an oob of A passes through B untouched (B stays active, the answer will be forwarded to
   the oob through B's relay) and ends A's call with OOBData d; an oob of B is consumed by B
   (A only sees what B's driver does next); a real suspension passes through both. *)
Theorem C07_nested : forall A B fa fb s kontB kcB, A <> B -> mstate s B = 1 ->
  (forall d k, mstate s A = 1 ->
     relay_run A fa s (relay_k B fb (emb (TOob A d k)) kontB kcB) =
     ([], setcell (setcell (setcell s A (-1)) A 1) A 0,
      MEnd (Suspended (relay_cont B (kemb k) kontB kcB)) (RExc (OOBData d))))
  /\ (forall d k,
     relay_run A fa s (relay_k B fb (emb (TOob B d k)) kontB kcB) =
     relay_run A fa (setcell (setcell (setcell s B (-1)) B 1) B 0)
               (kontB (Suspended (kemb k)) (RExc (OOBData d))))
  /\ (forall y k, mstate s A = 1 ->
     relay_run A fa s (relay_k B fb (emb (TSusp y k)) kontB kcB) =
     ([], s, MSusp y (relay_cont B (kemb k) kontB kcB)))
  /\ (forall k i, i <> Throw GeneratorExit ->
     relay_cont B (kemb k) kontB kcB i = relay_k B false (emb (k i)) kontB kcB).
Proof.
  intros A B fa fb s kontB kcB Hne HB. repeat split; intros.
  - apply nested_outer_oob; assumption.
  - apply nested_inner_oob; assumption.
  - apply nested_real; assumption.
  - apply relay_cont_forward; assumption.
Qed.
Print Assumptions C07_nested.

(* start / try_await / aclose are aawait / athrow with the result mapped: start returns the
   datum of the OOBData and turns a plain return into RuntimeError; try_await replaces
   OOBData by the sentinel; aclose does nothing on a finished coroutine, otherwise throws
   GeneratorExit, absorbs GeneratorExit / a return, and reports an oob() issued while
   closing as RuntimeError; the same mapping applies when the call ends after real
   suspensions. *)
Theorem C07_helpers : forall m s o,
  call_run m s o CStart =
    map_stop (fun x => match x with
                       | RExc (OOBData d) => RVal d
                       | RVal _ => RExc (RuntimeError (RtOther 99))
                       | _ => x end) (call_run m s o (CAwait VNone))
  /\ (forall v sen, call_run m s o (CTry v sen) =
        map_stop (fun x => match x with RExc (OOBData _) => RVal sen | _ => x end)
                 (call_run m s o (CAwait v)))
  /\ call_run m s Finished CClose = ([], s, MEnd Finished (RVal VNone))
  /\ (o <> Finished -> call_run m s o CClose =
        map_stop (fun x => match x with
                           | RExc GeneratorExit | RVal _ => RVal VNone
                           | RExc (OOBData _) => RExc (RuntimeError RtIgnoredGenExit)
                           | _ => x end) (call_run m s o (CThrow GeneratorExit)))
  /\ (forall cl k i, call_resume m cl s k i = map_stop (post cl) (resume_run m s k i)).
Proof.
  intros m s o. destruct (helpers_first m s o) as (H1 & H2 & H3 & H4).
  split; [exact H1|]. split; [exact H2|]. split; [exact H3|]. split; [exact H4|].
  intros; apply helpers_resume.
Qed.
Print Assumptions C07_helpers.
