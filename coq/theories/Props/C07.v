From Asynkit Require Import Base.Prelude Coro.Tree Coro.Native Coro.Monitor Coro.MonitorProofs.
