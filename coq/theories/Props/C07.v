(* C07 - Monitor out-of-band channel: exactly once, in order, both directions.

   Vocabulary (Coro/Monitor.v, Coro/MonitorSpec.v):
   * a body is an [mtree]: Ret / Raise / Eff / TSusp y k (a real suspension: the awaited
     future or token y) / TOob m d k (`r = await m.oob(d)`); [emb t : coro] is what the body
     really does at an oob node: read Monitor.state (cell m of the store), raise "Monitor
     not active" or write -1 and yield d.  [no_lost t]: no oob() whose yield is swallowed
     by a close() of the frame that issued it (the designed-error carve-out).
   * [call_run m s o cl] / [call_resume m cl s k i]: the model of one call
     cl in {aawait v, athrow e, aclose, start, try_await v sentinel} on the coroutine object
     o through monitor m in store s, up to its end [MEnd o' r] (r = RVal v | RExc e;
     out-of-band data is RExc (OOBData d)) or to a real suspension [MSusp y k] that is
     yielded outward, and of the driver's answer i to such a suspension.  The relay decides
     "out-of-band or real" by looking at the flag (state = -1), as monitor.py does.
   * [call_k m o cl kont]: the same call as the tree of the CALLER's code
     (`r = await m.<cl>(o)` followed by kont o' r), used for nested monitors.
   * [msession m s o h]: a whole driver history h = list of (call, inputs given at the
     real suspensions the call meets); per step: the body's events, what came out, the store.
   * [tsession]: the reference: the same history run on the mtree itself, where an
     out-of-band datum is, by definition, what a TOob node of m yields, and a real suspension
     is what any other node yields. *)
From Asynkit Require Import Base.Prelude Coro.Tree Coro.Native Coro.Monitor Coro.MonitorSpec
  Coro.MonitorProofs.
Open Scope Z_scope.

(* For every body, store and driver history, what the driver observes through the real
   mechanism (state flag) is what the explicit oob nodes prescribe: each oob node reached
   ends exactly one call with OOBData d, in program order; every real suspension is
   yielded outward as itself and never as OOBData; the body's Ret / Raise ends the final
   call; the stores (Monitor.state) agree after every step. *)
Theorem C07_exactly_once_in_order : forall m t s h,
  no_lost t -> msession m s (New (emb t)) h = tsession m s (TNew t) h.
Proof. exact msession_tsession. Qed.
Print Assumptions C07_exactly_once_in_order.

(* Both directions: when the body reaches an oob node of the driving monitor the call ends
   with OOBData d and the object left behind is that node's continuation k; the value of
   the next aawait(v') is what that oob() returns (k (Send v')), the exception of athrow(e)
   is raised from it (k (Throw e)). *)
Theorem C07_answers : forall m s t evs s1 d k,
  mstate s m = 0 -> trun (setcell s m 1) t = (evs, s1, TsOob m d k) ->
  tcall_run m s (TNew t) (CAwait VNone) =
    (evs, setcell (setcell s1 m 1) m 0, GEnd (TAt k) (RExc (OOBData d)))
  /\ (forall v', tfirst_call (TAt k) (call_input (CAwait v')) = inl (k (Send v')))
  /\ (forall e, tfirst_call (TAt k) (call_input (CThrow e)) = inl (k (Throw e))).
Proof. exact oob_then_answer. Qed.
Print Assumptions C07_answers.

(* The tree of a caller that awaits a Monitor call runs exactly as call_run / call_resume
   say (all bodies, all continuations of the caller, all stores); [bound_resume true] =
   call_resume, except that a GeneratorExit thrown into the caller from outside at a real
   suspension always comes back as GeneratorExit (or the error of the close), never as a
   return value (PEP 380: the caller's own await re-raises it). *)
Theorem C07_caller_tree : forall m o cl s kont,
  run s (call_k m o cl kont) = run_of_call m cl kont (call_run m s o cl)
  /\ forall k i, run s (call_cont m cl k kont i)
                 = run_of_call m cl kont (bound_resume true m cl s k i).
Proof. intros; split; [apply call_k_run | intros; apply call_cont_run]. Qed.
Print Assumptions C07_caller_tree.

(* After every call that returns or raises -- also when the relay is closed at a real
   suspension -- state = 0 (ANY coroutine body, not only [emb t]); a call made while
   state <> 0 gets RuntimeError("Monitor cannot be re-entered") and leaves the store, the
   driven object and (no events) the use in progress untouched. *)
Theorem C07_idle_after : forall m s o cl,
  (forall evs s' o' r, mstate s m = 0 ->
     call_run m s o cl = (evs, s', MEnd o' r) -> mstate s' m = 0)
  /\ (forall k i evs s' o' r, call_resume m cl s k i = (evs, s', MEnd o' r) -> mstate s' m = 0)
  /\ (forall k, exists evs s' o' r,
        resume_run m s k (Throw GeneratorExit) = (evs, s', MEnd o' r) /\ mstate s' m = 0)
  /\ (mstate s m <> 0 -> skips cl o = false ->
        call_run m s o cl = ([], s, MEnd o (RExc (RuntimeError RtMonitorReentered)))
        /\ forall kont, run s (call_k m o cl kont)
                        = run s (kont o (RExc (RuntimeError RtMonitorReentered)))).
Proof.
  intros m s o cl. repeat split.
  - intros; eapply call_run_idle; eauto.
  - intros; eapply call_resume_idle; eauto.
  - intros; apply resume_run_close_ends.
  - apply call_run_reentered; assumption.
  - intros; apply call_k_reentered; assumption.
Qed.
Print Assumptions C07_idle_after.

(* Monitors A (outer) and B (inner), both active, a body under B's relay under A's relay:
   an oob of A passes through B untouched (B stays active, the answer will be forwarded to
   the oob through B's relay) and ends A's call with OOBData d; an oob of B is consumed by B
   (A only sees what B's driver does next); a real suspension passes through both. *)
Theorem C07_nested : forall A B fa fb s kontB kcB, A <> B -> mstate s B = 1 ->
  (forall d k, mstate s A = 1 ->
     relay_run A fa s (relay_k B fb (emb (TOob A d k)) kontB kcB) =
     ([], setcell (setcell (setcell s A (-1)) A 1) A 0,
      MEnd (Suspended (relay_cont B (kemb k) kontB kcB)) (RExc (OOBData d))))
  /\ (forall d k,
     relay_run A fa s (relay_k B fb (emb (TOob B d k)) kontB kcB) =
     relay_run A fa (setcell (setcell (setcell s B (-1)) B 1) B 0)
               (kontB (Suspended (kemb k)) (RExc (OOBData d))))
  /\ (forall y k, mstate s A = 1 ->
     relay_run A fa s (relay_k B fb (emb (TSusp y k)) kontB kcB) =
     ([], s, MSusp y (relay_cont B (kemb k) kontB kcB)))
  /\ (forall k i, i <> Throw GeneratorExit ->
     relay_cont B (kemb k) kontB kcB i = relay_k B false (emb (k i)) kontB kcB).
Proof.
  intros A B fa fb s kontB kcB Hne HB. repeat split; intros.
  - apply nested_outer_oob; assumption.
  - apply nested_inner_oob; assumption.
  - apply nested_real; assumption.
  - apply relay_cont_forward; assumption.
Qed.
Print Assumptions C07_nested.

(* start / try_await / aclose are aawait / athrow with the result mapped: start returns the
   datum of the OOBData and turns a plain return into RuntimeError; try_await replaces
   OOBData by the sentinel; aclose does nothing on a finished coroutine, otherwise throws
   GeneratorExit, absorbs GeneratorExit / a return, and reports an oob() issued while
   closing as RuntimeError; the same mapping applies when the call ends after real
   suspensions. *)
Theorem C07_helpers : forall m s o,
  call_run m s o CStart =
    map_stop (fun x => match x with
                       | RExc (OOBData d) => RVal d
                       | RVal _ => RExc (RuntimeError (RtOther 99))
                       | _ => x end) (call_run m s o (CAwait VNone))
  /\ (forall v sen, call_run m s o (CTry v sen) =
        map_stop (fun x => match x with RExc (OOBData _) => RVal sen | _ => x end)
                 (call_run m s o (CAwait v)))
  /\ call_run m s Finished CClose = ([], s, MEnd Finished (RVal VNone))
  /\ (o <> Finished -> call_run m s o CClose =
        map_stop (fun x => match x with
                           | RExc GeneratorExit | RVal _ => RVal VNone
                           | RExc (OOBData _) => RExc (RuntimeError RtIgnoredGenExit)
                           | _ => x end) (call_run m s o (CThrow GeneratorExit)))
  /\ (forall cl k i, call_resume m cl s k i = map_stop (post cl) (resume_run m s k i)).
Proof.
  intros m s o. destruct (helpers_first m s o) as (H1 & H2 & H3 & H4).
  split; [exact H1|]. split; [exact H2|]. split; [exact H3|]. split; [exact H4|].
  intros; apply helpers_resume.
Qed.
Print Assumptions C07_helpers.

(* ===================================================================================
   Nested monitors as ONE history (Coro/MonitorNested.v, Coro/MonitorNestedProofs.v).

   Configuration: the driver makes calls on the outer monitor M1 (number m1) to drive
   coroutine A; A drives ONE sub-coroutine B through inner monitors.
   * B is any [mtree] (real suspensions, `await M.oob(d)` for every monitor M -- M1, the
     inner one, third ones --, effects; nested calls and handlers are folded into the tree
     by tawait_ / MonitorCorr.tdenote) with [no_lost b] (C07's carve-out) and [gx_ok m1 b]:
     B never answers a GeneratorExit with `await M1.oob(..)` as its next suspension (when the
     GeneratorExit comes from the inner relay's B.close() this is "oob() while being
     closed": the yield is swallowed and M1.state stays -1; ex_gx_confuses shows that the
     hypothesis is necessary).
   * A is any [aprog]: a well-founded tree over {return, raise, log, own real suspension
     [ASusp], own `await M.oob(d)` [AOob], `r = await M.<cl>(B)` [ACall m cl k] with a
     continuation k for EVERY result: k (RVal v), k (RExc e), k (RExc (OOBData d))};
     [adenote a o] is its code (call_k of Monitor.v at every ACall); the handler loop
     "answer every datum d of M2 with f d and continue" is [aloop m2 f n v] (n times
     unrolled); the script coroutines of the correspondence stream `nest` are
     [of_items items] (script_as_aprog).
   * [nsession m1 s (NNew a (TNew b)) h]: the REFERENCE: a two-level interpreter of the pair
     (a, b) that never inspects a flag to classify a yielded value: a datum belongs to the
     monitor named in its oob node and is delivered to the innermost enclosing relay of that
     monitor -- [irelay]: an oob node of B for the monitor A is calling through ends A's call
     with OOBData d and B stays at the node; any other oob node of B and every real suspension
     of B leave A suspended inside its call ([KIn m cl ka kb]) and go outward; [nrelay]: at M1
     an oob node of m1 (B's or A's) ends the driver's call with OOBData d, everything else is
     yielded to the driver.  Inputs go to the node that is suspended ([nresume]: kb i), the
     next call's input to the node the previous call stopped at (tfirst_call (TAt kb)), results
     and exceptions of B to A's continuation of that call, those of A to the driver's call. *)
From Asynkit Require Import Coro.MonitorNested Coro.MonitorNestedProofs.

(* For EVERY body of B, EVERY program of A, every store and EVERY driver history on M1, the
   two-monitor run of the model (out-of-band data recognised by the state flags, as
   monitor.py does) IS the reference run: per step the same events of A and B, the same
   outcome at the M1 driver, the same store (all Monitor.state cells).  Hence each
   M1.oob(d) of B surfaces exactly once, in program order, as OOBData d at the M1 driver,
   having passed the inner relay untouched; each oob of the inner monitor surfaces exactly
   once at A (k (RExc (OOBData d))) and never at the driver; real suspensions reach the driver
   in order; answers return to the oob that asked. *)
Theorem C07_nested_history : forall m1 a b s h, no_lost b -> gx_ok m1 b ->
  msession m1 s (New (adenote a (New (emb b)))) h = nsession m1 s (NNew a (TNew b)) h.
Proof. exact nested_history. Qed.
Print Assumptions C07_nested_history.

(* The same for the coroutines the correspondence check runs against asynkit (stream `nest`:
   MonitorCorr.node_tree (NMid items (NBody p)) = script_k items (New (emb (tbody p)))):
   script_k items is bisimilar to the aprog [of_items items], and sessions do not
   distinguish bisimilar coroutine objects. *)
Theorem C07_nested_history_scripts : forall m1 items b s h, no_lost b -> gx_ok m1 b ->
  (forall o, eqv (script_k items o) (adenote (of_items items) o))
  /\ msession m1 s (New (script_k items (New (emb b)))) h
     = nsession m1 s (NNew (of_items items) (TNew b)) h.
Proof.
  intros; split; [intro; apply script_as_aprog | apply nested_history_script; assumption].
Qed.
Print Assumptions C07_nested_history_scripts.

(* Idle after every call, for both monitors (m2 <> m1 any inner monitor):
     InvO s o := nobj_good m1 s o /\ mstate s m2 = (if A is suspended inside a call through m2 then 1 else 0)
     InvK s k := the same for a continuation k of A, with nk_good
     idle_post s' st := match st with
                        | GEnd o' _ => mstate s' m1 = 0 /\ InvO s' o'     (the driver's call is over)
                        | GSusp _ k => mstate s' m1 = 1 /\ InvK s' k      (suspended at a real suspension)
                        end
   i.e. after every aawait/athrow that returns or raises M1 is idle, and M2 is idle unless A is
   still suspended inside M2.<call>(B) (then it is active, never -1); the postcondition of a
   step is the precondition of the next one and holds initially, so this is true after every
   step of every history (by the history theorem the model's stores are these stores). *)
Theorem C07_nested_idle : forall m1 m2, m2 <> m1 ->
  (forall a b s, no_lost b -> gx_ok m1 b -> mstate s m2 = 0 -> InvO m1 m2 s (NNew a (TNew b)))
  /\ (forall s cl o, InvO m1 m2 s o -> mstate s m1 = 0 ->
        let '(_, s', st) := ncall_run m1 s o cl in idle_post m1 m2 s' st)
  /\ (forall s cl k i, InvK m1 m2 s k -> mstate s m1 = 1 ->
        let '(_, s', st) := ncall_resume m1 cl s k i in idle_post m1 m2 s' st).
Proof.
  intros m1 m2 Hne. split; [|split].
  - intros; apply nested_idle_init; assumption.
  - intros s cl o. apply (proj1 (nested_idle_step m1 m2 Hne s cl)).
  - intros s cl k i. apply (proj2 (nested_idle_step m1 m2 Hne s cl)).
Qed.
Print Assumptions C07_nested_idle.

(* Re-entrant use while nested.  [reentered] = RExc (RuntimeError "Monitor cannot be
   re-entered").  While M1 is in use (state <> 0) a call `r = await M1.<cl>(o)` -- on any
   coroutine object o, any of the five calls -- issued by A's code (under M1's relay), or by
   B's code TWO levels down (under M2's relay under M1's relay), and while M2 is in use a call
   through M2 issued by B, is the statement `r = reentered`: no event, the same store (both
   uses in progress keep their state), the same object o, and the relays go on with the
   caller's continuation [kont o reentered] exactly as if that had been written there.  Inside
   the history theorem the same is [nrun_reentered] (an ACall through a monitor in use, in
   particular through M1, which is active whenever A runs). *)
Theorem C07_nested_reentrancy : forall m1 m2 fa fb s o cl kont kontB kcB, skips cl o = false ->
  (mstate s m1 <> 0 ->
     relay_run m1 fa s (call_k m1 o cl kont) = relay_run m1 fa s (kont o reentered)
     /\ relay_run m1 fa s (relay_k m2 fb (call_k m1 o cl kont) kontB kcB)
        = relay_run m1 fa s (relay_k m2 fb (kont o reentered) kontB kcB))
  /\ (mstate s m2 <> 0 ->
     relay_run m1 fa s (relay_k m2 fb (call_k m2 o cl kont) kontB kcB)
     = relay_run m1 fa s (relay_k m2 fb (kont o reentered) kontB kcB))
  /\ (forall m k bo, mstate s m <> 0 -> tskips cl bo = false ->
     nrun s (ACall m cl k) bo = nrun s (k reentered) bo).
Proof.
  intros m1 m2 fa fb s o cl kont kontB kcB Hs.
  destruct (nested_reentrancy m1 m2 fa fb s o cl kont kontB kcB Hs) as [H1 H2].
  split; [exact H1|]. split; [exact H2|]. intros; apply nrun_reentered; assumption.
Qed.
Print Assumptions C07_nested_reentrancy.

(* B = [a = oob2 1; b = suspend 11; c = oob1 2 (exceptions caught); return oob2 3], A = the
   handler loop answering d with d + 100 (logging EUser 2 d), M1 = 1, M2 = 2, driver history
   [aawait(None) answering the suspension with 31; athrow(E 5)].  Per step: what surfaced at
   the M1 driver, M1.state, M2.state; then the log of A and B. *)
Example C07_nested_example :
  no_lost exB /\ gx_ok 1 exB
  /\ surfaced 1 2 (msession 1 [] (New (adenote exA (New (emb exB)))) exH)
     = [ [(OYield (VInt 11), 1, 1); (ORaise (OOBData (VInt 2)), 0, 1)];
         [(OReturn (VInt 103), 0, 0)] ]
  /\ logged (msession 1 [] (New (adenote exA (New (emb exB)))) exH)
     = [EUser 2 (VInt 1); ERecv (VInt 101); ERecv (VInt 31); ECaught (E 5); EUser 2 (VInt 3)].
Proof.
  split; [exact (proj1 ex_good)|]. split; [exact (proj2 ex_good)|].
  split; vm_compute; reflexivity.
Qed.
Print Assumptions C07_nested_example.
