(* C06 - GeneratorObject iterators behave like native async generators.

   A generator body is a tree [c : coro] (Coro/Tree.v).  `yield d` -- for
   asynkit `await g.ayield(d)`, i.e. Monitor.oob(d) -- is the marked suspension
   [yield_ d kr ke] = Eff (EUser 0 d) (Susp d ..); every other [Susp] is a real
   suspension (an await that yields to the event loop).
     [ag_hstep]  one step of a consumer history on CPython 3.12.1's async
                 generator object (Coro/AsyncGen.v: ag_running_async, ag_closed,
                 the asend/athrow/aclose awaitables, PEP 479/525 conversions,
                 the 3.12.1 ag_running quirk),
     [go_hstep]  the same step on asynkit's GeneratorObjectIterator over Monitor
                 over the body coroutine (Coro/GenObj.v).
   A history is a list of  HStart (CSend v | CThrow e | CClose)  (a consumer
   creates asend(v) / athrow(e) / aclose() and starts it with send(None), also
   while another awaitable is suspended) and  HResume (Send v | Throw e)  (the
   suspended awaitable is resumed).  Both models are compared with the real
   objects on every run of ./check C06.

   Domain: [oob_free c] -- the body never raises asynkit's own OOBData;
   [ok_history h] -- exceptions passed to athrow() are not StopIteration /
   StopAsyncIteration / OOBData, a suspended awaitable is not resumed with a
   direct throw(GeneratorExit) (await never does that) nor with OOBData.
   Examples ex_throw_genexit_differs / ex_athrow_stopiteration_differs
   (GenObjProofs.v) show that the excluded inputs are real differences.

   Not in the model: asyncgen hooks (sys.set_asyncgen_hooks) / finalizers /
   __del__ -- they depend on garbage collection.  Not proved: C06_aiter_sync
   (composition with C05). *)
From Asynkit Require Import Base.Prelude Base.Obs Coro.Tree Coro.Native Coro.TreeProofs
  Coro.AsyncGen Coro.GenObj Coro.GenObjSim Coro.GenObjProofs Coro.GenObjNested.

(* For EVERY body tree of the domain, every store and EVERY consumer history:
   step by step the two objects produce the same body events and the same
   result -- value yielded to the loop / value returned / exception type and
   cause type ([same_result], [abs_outcome]) -- and, as long as the native
   object has not been left in a stop state, also the same ag_running flag,
   frame state (created / suspended / gone) and "an awaitable is left
   suspended" ([same_obs]).  Stop states ([ag_stop]): aclose() reported
   "ignored GeneratorExit" (the native generator is marked closed with a live
   frame), or the 3.12.1 quirk left ag_running set on a generator whose frame
   is gone; the result of the step that enters such a state is still equal. *)
Theorem C06_equiv : forall (c : coro) (s : store) (h : list hop),
  oob_free c -> ok_history h ->
  (fix agree (sa : agen * option pend) (sg : gobj * option pend) (h : list hop) : Prop :=
     match h with
     | [] => True
     | op :: t =>
         let '(oa, sa') := ag_hstep sa op in
         let '(og, sg') := go_hstep sg op in
         (ho_events oa = ho_events og /\
          option_map abs_outcome (ho_out oa) = option_map abs_outcome (ho_out og)) /\
         (ag_stop oa (fst sa') = false ->
          ((ho_events oa = ho_events og /\
            option_map abs_outcome (ho_out oa) = option_map abs_outcome (ho_out og)) /\
           ho_running oa = ho_running og /\ ho_fstate oa = ho_fstate og /\
           ho_pending oa = ho_pending og) /\
          agree sa' sg' t)
     end) (ag_new c s, None) (go_new c s, None) h.
Proof. exact genobj_equiv. Qed.
Print Assumptions C06_equiv.

(* The same as equality of whole traces, for histories on which the native
   object never reaches a stop state. *)
Theorem C06_equiv_traces : forall (c : coro) (s : store) (h : list hop),
  oob_free c -> ok_history h -> never_stops (ag_new c s, None) h = true ->
  Forall2 same_obs (ag_trace (ag_new c s, None) h) (go_trace (go_new c s, None) h).
Proof. exact genobj_equiv_traces. Qed.
Print Assumptions C06_equiv_traces.

(* One step from related states (the simulation itself): [proj a p] is the
   GeneratorObjectIterator that corresponds to the native generator a with the
   suspended awaitable p; [inv] the invariant of reachable native states. *)
Theorem C06_step : forall a p op, inv a p -> ok_hop op = true ->
  let '(oa, sa') := ag_hstep (a, p) op in
  let '(og, sg') := go_hstep (proj a p, p) op in
  same_result oa og /\
  (ag_stop oa (fst sa') = false ->
   same_obs oa og /\ sg' = (proj (fst sa') (snd sa'), snd sa') /\ inv (fst sa') (snd sa')).
Proof. exact step_sim. Qed.
Print Assumptions C06_step.

(* A second consumer that starts any call while the generator is running (the
   first consumer's awaitable is suspended) gets RuntimeError "already running"
   from both objects, which are left unchanged. *)
Theorem C06_second_consumer : forall a g c,
  ag_run a = true -> frame_done (ag_fr a) = false -> go_run g = true ->
  ag_start a c = mkastep [] (ORaise (RuntimeError RtAgenRunning)) a None /\
  go_start g c = mkgstep [] (ORaise (RuntimeError RtAgenRunning)) g None.
Proof. exact second_consumer. Qed.
Print Assumptions C06_second_consumer.

(* ayield from any depth of nested native awaits equals a top-level yield:
   `r = await g.ayield(d)` issued under n pass-through coroutine frames, with
   the code after it [kr] and the handlers around it [ke], IS the yield node of
   `r = yield d`, and its continuation is bisimilar to the flat one
   ([resume_with kr ke]: kr v on send(v), ke e on throw(e)) for every input
   except a thrown StopIteration (converted by oob()'s generator frame). *)
Theorem C06_nested_ayield : forall (n : nat) (d : val) (kr : val -> coro) (ke : exn -> coro),
  exists k1, await_ KCoro (ayield_frames n d) kr ke = Eff (EUser 0 d) (Susp d k1) /\
             forall i, (forall v, i <> Throw (StopIteration v)) -> eqv (k1 i) (resume_with kr ke i).
Proof. exact nested_ayield. Qed.
Print Assumptions C06_nested_ayield.

(* ... and for a whole body: [deepen n c] replaces EVERY `r = yield d` of the body
   c by `r = await g.ayield(d)` issued under n coroutine frames; the result is
   bisimilar to c for every consumer that never throws StopIteration ([eqvn]:
   as [eqv], with the continuations of suspensions compared on all inputs but
   Throw (StopIteration _)).  Tree level; that [eqvn] bodies give equal
   GeneratorObject traces is checked by the `genobj` stream, not proved. *)
Theorem C06_nested_ayield_all : forall (n : nat) (c : coro), eqvn (deepen n c) c.
Proof. exact deepen_eqvn. Qed.
Print Assumptions C06_nested_ayield_all.
