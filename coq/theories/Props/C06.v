(* C06 - placeholder while the model is being validated *)
From Asynkit Require Import Base.Prelude Coro.Tree Coro.AsyncGen Coro.GenObj Coro.GenObjProofs.
