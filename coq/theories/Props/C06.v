(* C06 - GeneratorObject iterators behave like native async generators.

   A generator body is a tree [c : coro] (Coro/Tree.v).  `yield d` -- for
   asynkit `await g.ayield(d)`, i.e. Monitor.oob(d) -- is the marked suspension
   [yield_ d kr ke] = Eff (EUser 0 d) (Susp d ..); every other [Susp] is a real
   suspension (an await that yields to the event loop).
     [ag_hstep]  one step of a consumer history on CPython 3.12.1's async
                 generator object (Coro/AsyncGen.v: ag_running_async, ag_closed,
                 the asend/athrow/aclose awaitables, PEP 479/525 conversions,
                 the 3.12.1 ag_running quirk),
     [go_hstep]  the same step on asynkit's GeneratorObjectIterator over Monitor
                 over the body coroutine (Coro/GenObj.v).
   A history is a list of  HStart (CSend v | CThrow e | CClose)  (a consumer
   creates asend(v) / athrow(e) / aclose() and starts it with send(None), also
   while another awaitable is suspended) and  HResume (Send v | Throw e)  (the
   suspended awaitable is resumed).  Both models are compared with the real
   objects on every run of ./check C06.

   Domain: [oob_free c] -- the body never raises asynkit's own OOBData;
   [ok_history h] -- exceptions passed to athrow() are not StopIteration /
   StopAsyncIteration / OOBData, a suspended awaitable is not resumed with a
   direct throw(GeneratorExit) (await never does that) nor with OOBData.
   Examples ex_throw_genexit_differs / ex_athrow_stopiteration_differs
   (GenObjProofs.v) show that the excluded inputs are real differences.

   Not in the model: asyncgen hooks (sys.set_asyncgen_hooks) / finalizers /
   __del__ -- they depend on garbage collection.  Not proved: C06_aiter_sync
   (composition with C05). *)
From Asynkit Require Import Base.Prelude Base.Obs Coro.Tree Coro.Native Coro.TreeProofs
  Coro.AsyncGen Coro.GenObj Coro.GenObjSim Coro.GenObjProofs Coro.GenObjNested.

(* For EVERY body tree of the domain, every store and EVERY consumer history:
   step by step the two objects produce the same body events and the same
   result -- value yielded to the loop / value returned / exception type and
   cause type ([same_result], [abs_outcome]) -- and, as long as the native
   object has not been left in a stop state, also the same ag_running flag,
   frame state (created / suspended / gone) and "an awaitable is left
   suspended" ([same_obs]).  Stop states ([ag_stop]): aclose() reported
   "ignored GeneratorExit" (the native generator is marked closed with a live
   frame), or the 3.12.1 quirk left ag_running set on a generator whose frame
   is gone; the result of the step that enters such a state is still equal. *)
Theorem C06_equiv : forall (c : coro) (s : store) (h : list hop),
  oob_free c -> ok_history h ->
  (fix agree (sa : agen * option pend) (sg : gobj * option pend) (h : list hop) : Prop :=
     match h with
     | [] => True
     | op :: t =>
         let '(oa, sa') := ag_hstep sa op in
         let '(og, sg') := go_hstep sg op in
         (ho_events oa = ho_events og /\
          option_map abs_outcome (ho_out oa) = option_map abs_outcome (ho_out og)) /\
         (ag_stop oa (fst sa') = false ->
          ((ho_events oa = ho_events og /\
            option_map abs_outcome (ho_out oa) = option_map abs_outcome (ho_out og)) /\
           ho_running oa = ho_running og /\ ho_fstate oa = ho_fstate og /\
           ho_pending oa = ho_pending og) /\
          agree sa' sg' t)
     end) (ag_new c s, None) (go_new c s, None) h.
Proof. exact genobj_equiv. Qed.
Print Assumptions C06_equiv.

(* The same as equality of whole traces, for histories on which the native
   object never reaches a stop state. *)
Theorem C06_equiv_traces : forall (c : coro) (s : store) (h : list hop),
  oob_free c -> ok_history h -> never_stops (ag_new c s, None) h = true ->
  Forall2 same_obs (ag_trace (ag_new c s, None) h) (go_trace (go_new c s, None) h).
Proof. exact genobj_equiv_traces. Qed.
Print Assumptions C06_equiv_traces.

(* One step from related states (the simulation itself): [proj a p] is the
   GeneratorObjectIterator that corresponds to the native generator a with the
   suspended awaitable p; [inv] the invariant of reachable native states. *)
Theorem C06_step : forall a p op, inv a p -> ok_hop op = true ->
  let '(oa, sa') := ag_hstep (a, p) op in
  let '(og, sg') := go_hstep (proj a p, p) op in
  same_result oa og /\
  (ag_stop oa (fst sa') = false ->
   same_obs oa og /\ sg' = (proj (fst sa') (snd sa'), snd sa') /\ inv (fst sa') (snd sa')).
Proof. exact step_sim. Qed.
Print Assumptions C06_step.

(* A second consumer that starts any call while the generator is running (the
   first consumer's awaitable is suspended) gets RuntimeError "already running"
   from both objects, which are left unchanged. *)
Theorem C06_second_consumer : forall a g c,
  ag_run a = true -> frame_done (ag_fr a) = false -> go_run g = true ->
  ag_start a c = mkastep [] (ORaise (RuntimeError RtAgenRunning)) a None /\
  go_start g c = mkgstep [] (ORaise (RuntimeError RtAgenRunning)) g None.
Proof. exact second_consumer. Qed.
Print Assumptions C06_second_consumer.

(* ayield from any depth of nested native awaits equals a top-level yield:
   `r = await g.ayield(d)` issued under n pass-through coroutine frames, with
   the code after it [kr] and the handlers around it [ke], IS the yield node of
   `r = yield d`, and its continuation is bisimilar to the flat one
   ([resume_with kr ke]: kr v on send(v), ke e on throw(e)) for every input
   except a thrown StopIteration (converted by oob()'s generator frame). *)
Theorem C06_nested_ayield : forall (n : nat) (d : val) (kr : val -> coro) (ke : exn -> coro),
  exists k1, await_ KCoro (ayield_frames n d) kr ke = Eff (EUser 0 d) (Susp d k1) /\
             forall i, (forall v, i <> Throw (StopIteration v)) -> eqv (k1 i) (resume_with kr ke i).
Proof. exact nested_ayield. Qed.
Print Assumptions C06_nested_ayield.

(* ... and for a whole body: [deepen n c] replaces EVERY `r = yield d` of the body
   c by `r = await g.ayield(d)` issued under n coroutine frames; the result is
   bisimilar to c for every consumer that never throws StopIteration ([eqvn]:
   as [eqv], with the continuations of suspensions compared on all inputs but
   Throw (StopIteration _)).  Tree level; that [eqvn] bodies give equal
   GeneratorObject traces is checked by the `genobj` stream, not proved. *)
Theorem C06_nested_ayield_all : forall (n : nat) (c : coro), eqvn (deepen n c) c.
Proof. exact deepen_eqvn. Qed.
Print Assumptions C06_nested_ayield_all.

(* ------------------------------------------------------------------------
   "... and the same holds when iterated synchronously with aiter_sync."

   [aiter_ag fixd w (ag_new c s, None) take] / [aiter_go fixd w (go_new c s, None) take]
   (Coro/AiterGen.v): asynkit's aiter_sync -- C05's await_sync(helper()) loop --
   over the native async generator with body c, resp. over GeneratorObject()(c):
   ONE driver, written over the history step function ([ag_hstep] / [go_hstep]):
   it starts __anext__() ([HStart (CSend VNone)]), and if that yields to the
   absent loop it throws SynchronousAbort into the suspended awaitable
   ([HResume (Throw SynchronousAbort)]) -- a particular consumer history, chosen
   step by step from the outcomes, so C06_step is the bridge.  The consumer takes
   at most [take] values.  Result: [ii_events] the body's events interleaved with
   [item v] for every value handed out, [ii_end] (AEnd normal end / ARaise what
   await_sync raised / ATaken), [ii_state] the iterator object afterwards,
   [ii_world] the futures, [ii_ignored] = some __anext__() swallowed the abort
   and suspended again (outside the domain of property C05).

   For EVERY body tree c that never raises asynkit's OOBData, every store, future
   world and [take]:
   * inside C05's domain ([ii_ignored] = false on the native run; then also on
     the other): the two iterations hand out the same values in the same order
     between the same body events (handlers, finally blocks) -- [ii_events] are
     EQUAL --, end the same way ([abs_end]: exhaustion / consumer stopped / the
     same exception by type and cause type, resp. SynchronousError of the same
     variant with a cause of the same type, raised at the same point), leave
     the futures alike, and leave the iterators in corresponding states ([proj]:
     same ag_running, same frame state, same store; nothing suspended);
   * outside (the body swallowed the abort and suspended again; then
     helper.close() is issued, the one operation that is not a step of a C06
     history): everything up to that point is equal and both have
     SynchronousError chained to "coroutine ignored SynchronousAbort" pending;
     CPython 3.12's asend.close() does not resume the generator (left suspended,
     ag_running set), while asynkit's chain of coroutines closes the body:
     [go_closep] on the corresponding GeneratorObjectIterator -- its events are
     appended, and if it raises, that exception replaces the SynchronousError.
     Example ex_aiter_ignored (AiterGenProofs.v) shows this is a real difference. *)
From Asynkit Require Import Coro.AwaitSync Coro.AiterGen Coro.AiterGenProofs.

Theorem C06_aiter_sync : forall (c : coro) (s : store) (fixd : bool) (w : fworld) (take : nat),
  oob_free c ->
  let ra := aiter_ag fixd w (ag_new c s, None) take in
  let rg := aiter_go fixd w (go_new c s, None) take in
  ii_world ra = ii_world rg /\ ii_ignored ra = ii_ignored rg /\
  if ii_ignored ra then
    let '(evc, ce, stc) := go_closep (proj (fst (ii_state ra)) (Some PSend), Some PSend) in
    ii_end ra = ARaise (SySyncError false (Some rt_ignored_abort)) /\
    snd (ii_state ra) = None /\
    ii_events rg = ii_events ra ++ evc /\
    ii_end rg = match ce with
                | None => ii_end ra
                | Some e => if is_sai e then AEnd else ARaise (SyCloseRaised e)
                end /\
    ii_state rg = stc
  else
    ii_events ra = ii_events rg /\ abs_end (ii_end ra) = abs_end (ii_end rg) /\
    snd (ii_state ra) = None /\ ii_state rg = (proj (fst (ii_state ra)) None, None) /\
    inv (fst (ii_state ra)) None.
Proof. exact genobj_aiter_sync. Qed.
Print Assumptions C06_aiter_sync.

(* One await_sync(helper()) from ANY pair of corresponding states (the step the
   induction over [take] uses): [inv a None] = reachable native state with
   nothing suspended, [proj a None] the corresponding GeneratorObjectIterator. *)
Theorem C06_await_sync_step : forall fixd w a, inv a None ->
  let ra := await_sync_ag fixd w (a, None) in
  let rg := await_sync_go fixd w (proj a None, None) in
  si_world ra = si_world rg /\ si_ignored ra = si_ignored rg /\
  if si_ignored ra then
    let '(evc, ce, stc) := go_closep (proj (fst (si_state ra)) (Some PSend), Some PSend) in
    si_out ra = SySyncError false (Some rt_ignored_abort) /\
    snd (si_state ra) = None /\
    si_events rg = si_events ra ++ evc /\
    si_out rg = match ce with None => si_out ra | Some e => SyCloseRaised e end /\
    si_state rg = stc
  else
    si_events ra = si_events rg /\ abs_sync (si_out ra) = abs_sync (si_out rg) /\
    snd (si_state ra) = None /\ si_state rg = (proj (fst (si_state ra)) None, None) /\
    inv (fst (si_state ra)) None.
Proof. exact await_sync_sim. Qed.
Print Assumptions C06_await_sync_step.

(* ------------------------------------------------------------------------
   Trace-level lifting of nested ayield (C06_nested_ayield / _all are per node
   resp. tree level).  [deepen n c] = the body c with EVERY `r = yield d`
   replaced by `r = await g.ayield(d)` issued under n pass-through coroutine
   frames.  A history "throws no StopIteration" ([nsi_history]): no
   athrow(StopIteration(..)) and no throw(StopIteration(..)) into a suspended
   awaitable (the one input that oob()'s generator frame converts, see
   ex_nested_stopiter_differs in GenObjNestedTraces.v). *)
From Asynkit Require Import Coro.GenObjNestedTraces.

(* For EVERY body, depth, store and EVERY consumer history that throws no
   StopIteration, GeneratorObject()(deepen n c) and GeneratorObject()(c) produce
   the SAME trace: step by step the same body events, the same exact outcome
   (yielded / returned value, exception incl. message kind), ag_running,
   coroutine state and "awaitable left suspended" (equality of [hobs] lists). *)
Theorem C06_nested_ayield_traces : forall (n : nat) (c : coro) (s : store) (h : list hop),
  forallb (fun op => match op with
                     | HStart (CThrow (StopIteration _)) | HResume (Throw (StopIteration _)) => false
                     | _ => true
                     end) h = true ->
  go_trace (go_new (deepen n c) s, None) h = go_trace (go_new c s, None) h.
Proof. exact nested_ayield_traces_spelled. Qed.
Print Assumptions C06_nested_ayield_traces.

(* The general fact behind it: two bodies that are bisimilar for every consumer
   that never throws StopIteration ([eqvn]) give equal GeneratorObject traces. *)
Theorem C06_eqvn_traces : forall (c c' : coro) (s : store) (h : list hop),
  eqvn c c' -> nsi_history h ->
  go_trace (go_new c s, None) h = go_trace (go_new c' s, None) h.
Proof. exact eqvn_go_traces. Qed.
Print Assumptions C06_eqvn_traces.

(* Composition with C06_equiv_traces: the GeneratorObject whose body ayields from
   depth n against the NATIVE async generator whose body yields -- whole traces,
   for every body / history of C06's domain on which the native object reaches
   no stop state.  ([ok_history] already excludes athrow(StopIteration).) *)
Theorem C06_nested_ayield_native : forall (n : nat) (c : coro) (s : store) (h : list hop),
  oob_free c -> ok_history h -> nsi_history h ->
  never_stops (ag_new c s, None) h = true ->
  Forall2 same_obs (ag_trace (ag_new c s, None) h) (go_trace (go_new (deepen n c) s, None) h).
Proof. exact nested_ayield_native. Qed.
Print Assumptions C06_nested_ayield_native.
