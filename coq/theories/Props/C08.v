(* C08 - Ready-queue operations follow list semantics on every supported loop.
   Statements only; the proofs are in Queue/DequeProofs.v and Sched/ListLoopProofs.v.
   Models: Queue/Deque.v (collections.deque, tools.deque_pop, default.queue_find /
   queue_remove / call_pos, transcribed), Sched/ListLoop.v (the scheduling
   operations of scheduling.py over a queue interface with two instances: the
   deque of the stock / SchedulingMixin loops and the PosPriorityQueue model). *)
From Coq Require Import Permutation.
From Asynkit Require Import Base.Prelude Base.Obs Queue.Deque Queue.DequeProofs
     Sched.ListLoop Sched.ListLoopProofs Sched.ExactlyOnce Sched.PosIso.
Open Scope Z_scope.

(* tools.deque_pop (as coded: head branch rotate/popleft/rotate, tail branch
   rotate/pop/rotate) is list.pop: for EVERY deque and EVERY integer position,
   with p = pos + len for negative pos: when 0 <= p < len the deque splits as
   a ++ x :: b with |a| = p, x is returned and exactly x is removed; otherwise
   IndexError and the deque is unchanged. *)
Theorem C08_deque_pop : forall (A : Type) (d : list A) (pos : Z),
  let p := if pos <? 0 then pos + Z.of_nat (length d) else pos in
  (0 <= p < Z.of_nat (length d) ->
     exists a x b, d = a ++ x :: b /\ Z.of_nat (length a) = p /\ deque_pop d pos = Ok x (a ++ b))
  /\ (~ (0 <= p < Z.of_nat (length d)) -> deque_pop d pos = Raise IndexError d).
Proof.
  intros A d pos p. split.
  - apply (@deque_pop_in_range A d pos).
  - apply (@deque_pop_out_of_range A d pos).
Qed.
Print Assumptions C08_deque_pop.

(* default.queue_find(key, remove): finds the LAST entry satisfying key, removes
   exactly it when asked to, all other entries keep their order; nothing found =
   None and the deque is unchanged; it never raises. *)
Theorem C08_queue_find : forall (d : list Z) (key : Z -> bool) (rm : bool),
  ((forall x, In x d -> key x = false) /\ queue_find Z.eqb d key rm = Ok None d)
  \/ (exists a h b, d = a ++ h :: b /\ key h = true /\ (forall x, In x b -> key x = false)
        /\ queue_find Z.eqb d key rm = Ok (Some h) (if rm then a ++ b else d)).
Proof. exact (queue_find_spec Z.eqb Z.eqb_refl). Qed.
Print Assumptions C08_queue_find.

(* default.queue_remove(handle): removes the last occurrence of the identical
   handle; ValueError and an unchanged deque when it is not there. *)
Theorem C08_queue_remove : forall (d : list Z) (h : Z),
  (~ In h d /\ queue_remove Z.eqb d h = Raise ValueError d)
  \/ (exists a b, d = a ++ h :: b /\ ~ In h b /\ queue_remove Z.eqb d h = Ok tt (a ++ b)).
Proof. exact (queue_remove_spec Z.eqb Z.eqb_refl Zeqb_eq'). Qed.
Print Assumptions C08_queue_remove.

(* default.call_pos(pos, h) (call_soon = append, pop from the right,
   deque.insert(pos)): h ends up after exactly min(pos, len) earlier entries, the
   other entries keep their relative order, the multiset grows by exactly h. *)
Theorem C08_call_pos : forall (d : list Z) (pos : nat) (h : Z),
  exists a b, d = a ++ b /\ length a = Nat.min pos (length d)
              /\ call_pos Z.eqb d (Z.of_nat pos) h = Ok h (a ++ h :: b)
              /\ Permutation (h :: d) (a ++ h :: b).
Proof.
  intros d pos h. destruct (call_pos_split Z.eqb Z.eqb_refl Zeqb_eq' d pos h) as (a & b & E & L & C).
  exists a, b. repeat split; auto. subst d. apply Permutation_middle.
Qed.
Print Assumptions C08_call_pos.

(* The scheduling primitives on the list ready queue, in any loop state s:
   insertion after exactly min(pos,len) earlier entries; the relative order of all
   other entries is unchanged; the multiset changes by exactly the moved entry; a
   task without a queued handle -> ValueError (false) and the state is EQUAL. *)
Theorem C08_ops_list : forall s : @ListLoop.st (list Z),
  (forall k, rq (fst (call_soon ListQ s k)) = rq s ++ [snd (call_soon ListQ s k)])
  /\ (forall p k, exists a b h, h = snd (call_pos_ ListQ s p k) /\
        rq s = a ++ b /\ length a = Nat.min p (length (rq s)) /\
        rq (fst (call_pos_ ListQ s p k)) = a ++ h :: b /\
        Permutation (h :: rq s) (rq (fst (call_pos_ ListQ s p k))))
  /\ (forall t p a h b,
        rq s = a ++ h :: b -> task_key s t h = true -> (forall x, In x b -> task_key s t x = false) ->
        exists c d, a ++ b = c ++ d /\ length c = Nat.min p (length (a ++ b)) /\
          task_reinsert ListQ s t p = (set_rq s (c ++ h :: d), true) /\
          Permutation (rq s) (c ++ h :: d))
  /\ (forall t p, (forall x, In x (rq s) -> task_key s t x = false) ->
        task_reinsert ListQ s t p = (s, false))
  /\ (forall t rm a h b,
        rq s = a ++ h :: b -> task_key s t h = true -> (forall x, In x b -> task_key s t x = false) ->
        qi_find ListQ (rq s) (task_key s t) rm = (Some h, if rm then a ++ b else rq s))
  /\ (forall t rm, (forall x, In x (rq s) -> task_key s t x = false) ->
        qi_find ListQ (rq s) (task_key s t) rm = (None, rq s))
  /\ (forall a h b, rq s = a ++ h :: b -> ~ In h b -> qi_remove ListQ (rq s) h = (true, a ++ b))
  /\ (forall h, ~ In h (rq s) -> qi_remove ListQ (rq s) h = (false, rq s))
  /\ (forall h, qi_append ListQ (rq s) h = rq s ++ [h]).
Proof. exact ops_list. Qed.
Print Assumptions C08_ops_list.

(* `await task_switch(t, insert_pos=ip)` executed by task A while t's last queued
   handle is ht (queue a ++ ht :: b, n handles created so far).
   ip = None: afterwards the queue is ht :: a ++ b ++ [A's new step handle].
   ip = Some p: the positional callback (handle n) runs first; after it A's step
   handle (n+1) sits after exactly min(p, len) of the entries ht :: a ++ b, and for
   p >= 1 the head of the queue - the next handle executed - is t's. *)
Theorem C08_task_switch :
  forall (s : @ListLoop.st (list Z)) (A t : nat) (ip : option nat) (k : list op) a ht b,
  (t < length (ts s))%nat ->
  rq s = a ++ ht :: b -> task_key s t ht = true -> (forall x, In x b -> task_key s t x = false) ->
  let s1 := exec_ops ListQ A (OSwitch t ip :: k) s in
  let n := length (hs s) in
  match ip with
  | None => rq s1 = ht :: a ++ b ++ [Z.of_nat n] /\ nth_error (hs s1) n = Some (HStep A)
  | Some p =>
      exists s2 c d,
        run_one ListQ s1 = Some (Z.of_nat n, s2) /\
        nth_error (hs s1) n = Some (HReins A p) /\
        nth_error (hs s2) (S n) = Some (HStep A) /\
        ht :: a ++ b = c ++ d /\ length c = Nat.min p (S (length (a ++ b))) /\
        rq s2 = c ++ Z.of_nat (S n) :: d /\
        ((1 <= p)%nat -> exists d', rq s2 = ht :: d')
  end.
Proof. exact task_switch_spec. Qed.
Print Assumptions C08_task_switch.

(* `await create_task_descend(script i)` by task A with ready queue q: the next
   handles executed are the positional callback (hr), then the new task N's first
   step (hN), after which A's resumption (hA) is at the head of the queue - nothing
   in between - provided N's script only appends to the queue (no positional
   scheduling in its first step). *)
Theorem C08_descend : forall (s : @ListLoop.st (list Z)) (A i : nat) (k : list op),
  (i < length (prog s))%nat -> (A < length (ts s))%nat ->
  forallb append_only (nth i (prog s) []) = true ->
  let N := length (ts s) in
  let n := length (hs s) in
  let hN := Z.of_nat n in
  let hr := Z.of_nat (S n) in
  let hA := Z.of_nat (S (S n)) in
  let s1 := exec_ops ListQ A (ODescend i :: k) s in
  rq s1 = hr :: hN :: rq s ++ [hA] /\
  exists s2 s3 app,
    run_one ListQ s1 = Some (hr, s2) /\ rq s2 = hN :: hA :: rq s /\
    nth_error (hs s2) n = Some (HStep N) /\
    nth_error (hs s2) (S (S n)) = Some (HStep A) /\
    nth_error (ts s2) A = Some (mkT k false) /\
    run_one ListQ s2 = Some (hN, s3) /\
    rq s3 = hA :: rq s ++ app.
Proof. exact descend_spec. Qed.
Print Assumptions C08_descend.

(* Exactly once.  [run_trace fuel s] runs up to fuel handles from s and returns the
   handles executed, in order, and the final state.  From any initial state (any
   scripts, any number of events, any main tasks), for a run of ANY length: the
   executed handles are pairwise distinct (no handle runs twice); no handle is in
   the queue or the held slot twice; an executed handle is never queued or held
   again; every queued/held handle is an allocated id.  (Handles enter the queue
   only as fresh ids, C08_ops_list; otherwise they only move between the queue and
   the held slot as the same id: removed and re-inserted as the same handle.) *)
Theorem C08_exactly_once : forall scripts nev mains fuel,
  let '(tr, sf) := run_trace fuel (init ListQ scripts nev mains) in
  NoDup tr /\ NoDup (rq sf ++ held_list sf) /\
  (forall h, In h tr -> ~ In h (rq sf ++ held_list sf)) /\
  (forall h, In h (rq sf ++ held_list sf) -> 0 <= h < Z.of_nat (length (hs sf))).
Proof. exact exactly_once. Qed.
Print Assumptions C08_exactly_once.

(* PARTIAL: with equal priorities PosQ (PosPriorityQueue model) and ListQ agree on
   results, length and run order - on every operation sequence of length <= 4 over
   the 17-letter alphabet of Sched/PosIso.v (88741 sequences, evaluated in the
   kernel).  The unbounded statement is PosIso.posq_iso_statement (not proved). *)
Theorem C08_posq_iso_bounded : forallb same_run (all_seqs 4 0) = true.
Proof. exact posq_iso_bounded. Qed.
Print Assumptions C08_posq_iso_bounded.

(* The unbounded statement (Sched/PosIsoProofs.v): for EVERY operation sequence over
   append / popleft / find(h, remove?) / remove(h) / insert_pos(p, h) / call_pos(p, h) / items
   in which a handle enters the queue as a new object (wf_from: the h of an append, insert_pos
   or call_pos has not been used before), the PosPriorityQueue model driven with equal
   priorities (PosQ: priority 0 for every handle, boost factor 0) and the list queue (ListQ:
   the deque operations of the stock / scheduling loops) produce the same result, the same
   length and the same run order after every operation.  The invariant behind it (RZ): the run
   order of the priority queue = the list, regular entries all have priority 0 (so the arrival
   sequence decides), positional inserts re-sequence consistently, no object is queued twice. *)
From Asynkit Require Import Sched.PosIsoProofs.
Theorem C08_posq_iso : forall ops : list qop, wf_from [] ops -> same_run ops = true.
Proof. exact posq_iso. Qed.
Print Assumptions C08_posq_iso.

(* the same, state by state: related queues stay related and answer alike *)
Theorem C08_posq_iso_step : forall p l o,
  RZ p l -> fresh_ok l o ->
  exists r p' l', qstep PosQ p o = (r, p') /\ qstep ListQ l o = (r, l') /\ RZ p' l' /\
    qi_len PosQ p' = qi_len ListQ l' /\ qi_order PosQ p' = qi_order ListQ l'.
Proof.
  intros p l o HR Hf. destruct (qstep_iso p l o HR Hf) as (r & p' & l' & E1 & E2 & HR' & _).
  exists r, p', l'. split; [exact E1|]. split; [exact E2|]. split; [exact HR'|].
  split; [apply RZ_len | apply RZ_order]; exact HR'.
Qed.
Print Assumptions C08_posq_iso_step.
