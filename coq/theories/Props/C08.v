(* C08 - Ready-queue operations follow list semantics on every supported loop.
   Statements only; the proofs are in Queue/DequeProofs.v and Sched/ListLoopProofs.v.
   Models: Queue/Deque.v (collections.deque, tools.deque_pop, default.queue_find /
   queue_remove / call_pos, transcribed), Sched/ListLoop.v (the scheduling
   operations of scheduling.py over a queue interface with two instances: the
   deque of the stock / SchedulingMixin loops and the PosPriorityQueue model). *)
From Coq Require Import Permutation.
From Asynkit Require Import Base.Prelude Base.Obs Queue.Deque Queue.DequeProofs
     Sched.ListLoop Sched.ListLoopProofs Sched.ExactlyOnce Sched.PosIso.
Open Scope Z_scope.

(* tools.deque_pop (as coded: head branch rotate/popleft/rotate, tail branch
   rotate/pop/rotate) is list.pop: for EVERY deque and EVERY integer position,
   with p = pos + len for negative pos: when 0 <= p < len the deque splits as
   a ++ x :: b with |a| = p, x is returned and exactly x is removed; otherwise
   IndexError and the deque is unchanged. *)
Theorem C08_deque_pop : forall (A : Type) (d : list A) (pos : Z),
  let p := if pos <? 0 then pos + Z.of_nat (length d) else pos in
  (0 <= p < Z.of_nat (length d) ->
     exists a x b, d = a ++ x :: b /\ Z.of_nat (length a) = p /\ deque_pop d pos = Ok x (a ++ b))
  /\ (~ (0 <= p < Z.of_nat (length d)) -> deque_pop d pos = Raise IndexError d).
Proof.
  intros A d pos p. split.
  - apply (@deque_pop_in_range A d pos).
  - apply (@deque_pop_out_of_range A d pos).
Qed.
Print Assumptions C08_deque_pop.

(* default.queue_find(key, remove): finds the LAST entry satisfying key, removes
   exactly it when asked to, all other entries keep their order; nothing found =
   None and the deque is unchanged; it never raises. *)
Theorem C08_queue_find : forall (d : list Z) (key : Z -> bool) (rm : bool),
  ((forall x, In x d -> key x = false) /\ queue_find Z.eqb d key rm = Ok None d)
  \/ (exists a h b, d = a ++ h :: b /\ key h = true /\ (forall x, In x b -> key x = false)
        /\ queue_find Z.eqb d key rm = Ok (Some h) (if rm then a ++ b else d)).
Proof. exact (queue_find_spec Z.eqb Z.eqb_refl). Qed.
Print Assumptions C08_queue_find.

(* default.queue_remove(handle): removes the last occurrence of the identical
   handle; ValueError and an unchanged deque when it is not there. *)
Theorem C08_queue_remove : forall (d : list Z) (h : Z),
  (~ In h d /\ queue_remove Z.eqb d h = Raise ValueError d)
  \/ (exists a b, d = a ++ h :: b /\ ~ In h b /\ queue_remove Z.eqb d h = Ok tt (a ++ b)).
Proof. exact (queue_remove_spec Z.eqb Z.eqb_refl Zeqb_eq'). Qed.
Print Assumptions C08_queue_remove.

(* default.call_pos(pos, h) (call_soon = append, pop from the right,
   deque.insert(pos)): h ends up after exactly min(pos, len) earlier entries, the
   other entries keep their relative order, the multiset grows by exactly h. *)
Theorem C08_call_pos : forall (d : list Z) (pos : nat) (h : Z),
  exists a b, d = a ++ b /\ length a = Nat.min pos (length d)
              /\ call_pos Z.eqb d (Z.of_nat pos) h = Ok h (a ++ h :: b)
              /\ Permutation (h :: d) (a ++ h :: b).
Proof.
  intros d pos h. destruct (call_pos_split Z.eqb Z.eqb_refl Zeqb_eq' d pos h) as (a & b & E & L & C).
  exists a, b. repeat split; auto. subst d. apply Permutation_middle.
Qed.
Print Assumptions C08_call_pos.

(* The scheduling primitives on the list ready queue, in any loop state s:
   insertion after exactly min(pos,len) earlier entries; the relative order of all
   other entries is unchanged; the multiset changes by exactly the moved entry; a
   task without a queued handle -> ValueError (false) and the state is EQUAL. *)
Theorem C08_ops_list : forall s : @ListLoop.st (list Z),
  (forall k, rq (fst (call_soon ListQ s k)) = rq s ++ [snd (call_soon ListQ s k)])
  /\ (forall p k, exists a b h, h = snd (call_pos_ ListQ s p k) /\
        rq s = a ++ b /\ length a = Nat.min p (length (rq s)) /\
        rq (fst (call_pos_ ListQ s p k)) = a ++ h :: b /\
        Permutation (h :: rq s) (rq (fst (call_pos_ ListQ s p k))))
  /\ (forall t p a h b,
        rq s = a ++ h :: b -> task_key s t h = true -> (forall x, In x b -> task_key s t x = false) ->
        exists c d, a ++ b = c ++ d /\ length c = Nat.min p (length (a ++ b)) /\
          task_reinsert ListQ s t p = (set_rq s (c ++ h :: d), true) /\
          Permutation (rq s) (c ++ h :: d))
  /\ (forall t p, (forall x, In x (rq s) -> task_key s t x = false) ->
        task_reinsert ListQ s t p = (s, false))
  /\ (forall t rm a h b,
        rq s = a ++ h :: b -> task_key s t h = true -> (forall x, In x b -> task_key s t x = false) ->
        qi_find ListQ (rq s) (task_key s t) rm = (Some h, if rm then a ++ b else rq s))
  /\ (forall t rm, (forall x, In x (rq s) -> task_key s t x = false) ->
        qi_find ListQ (rq s) (task_key s t) rm = (None, rq s))
  /\ (forall a h b, rq s = a ++ h :: b -> ~ In h b -> qi_remove ListQ (rq s) h = (true, a ++ b))
  /\ (forall h, ~ In h (rq s) -> qi_remove ListQ (rq s) h = (false, rq s))
  /\ (forall h, qi_append ListQ (rq s) h = rq s ++ [h]).
Proof. exact ops_list. Qed.
Print Assumptions C08_ops_list.

(* `await task_switch(t, insert_pos=ip)` executed by task A while t's last queued
   handle is ht (queue a ++ ht :: b, n handles created so far).
   ip = None: afterwards the queue is ht :: a ++ b ++ [A's new step handle].
   ip = Some p: the positional callback (handle n) runs first; after it A's step
   handle (n+1) sits after exactly min(p, len) of the entries ht :: a ++ b, and for
   p >= 1 the head of the queue - the next handle executed - is t's. *)
Theorem C08_task_switch :
  forall (s : @ListLoop.st (list Z)) (A t : nat) (ip : option nat) (k : list op) a ht b,
  (t < length (ts s))%nat ->
  rq s = a ++ ht :: b -> task_key s t ht = true -> (forall x, In x b -> task_key s t x = false) ->
  let s1 := exec_ops ListQ A (OSwitch t ip :: k) s in
  let n := length (hs s) in
  match ip with
  | None => rq s1 = ht :: a ++ b ++ [Z.of_nat n] /\ nth_error (hs s1) n = Some (HStep A)
  | Some p =>
      exists s2 c d,
        run_one ListQ s1 = Some (Z.of_nat n, s2) /\
        nth_error (hs s1) n = Some (HReins A p) /\
        nth_error (hs s2) (S n) = Some (HStep A) /\
        ht :: a ++ b = c ++ d /\ length c = Nat.min p (S (length (a ++ b))) /\
        rq s2 = c ++ Z.of_nat (S n) :: d /\
        ((1 <= p)%nat -> exists d', rq s2 = ht :: d')
  end.
Proof. exact task_switch_spec. Qed.
Print Assumptions C08_task_switch.

(* `await create_task_descend(script i)` by task A with ready queue q: the next
   handles executed are the positional callback (hr), then the new task N's first
   step (hN), after which A's resumption (hA) is at the head of the queue - nothing
   in between - provided N's script only appends to the queue (no positional
   scheduling in its first step). *)
Theorem C08_descend : forall (s : @ListLoop.st (list Z)) (A i : nat) (k : list op),
  (i < length (prog s))%nat -> (A < length (ts s))%nat ->
  forallb append_only (nth i (prog s) []) = true ->
  let N := length (ts s) in
  let n := length (hs s) in
  let hN := Z.of_nat n in
  let hr := Z.of_nat (S n) in
  let hA := Z.of_nat (S (S n)) in
  let s1 := exec_ops ListQ A (ODescend i :: k) s in
  rq s1 = hr :: hN :: rq s ++ [hA] /\
  exists s2 s3 app,
    run_one ListQ s1 = Some (hr, s2) /\ rq s2 = hN :: hA :: rq s /\
    nth_error (hs s2) n = Some (HStep N) /\
    nth_error (hs s2) (S (S n)) = Some (HStep A) /\
    nth_error (ts s2) A = Some (mkT k false) /\
    run_one ListQ s2 = Some (hN, s3) /\
    rq s3 = hA :: rq s ++ app.
Proof. exact descend_spec. Qed.
Print Assumptions C08_descend.

(* Exactly once.  [run_trace fuel s] runs up to fuel handles from s and returns the
   handles executed, in order, and the final state.  From any initial state (any
   scripts, any number of events, any main tasks), for a run of ANY length: the
   executed handles are pairwise distinct (no handle runs twice); no handle is in
   the queue or the held slot twice; an executed handle is never queued or held
   again; every queued/held handle is an allocated id.  (Handles enter the queue
   only as fresh ids, C08_ops_list; otherwise they only move between the queue and
   the held slot as the same id: removed and re-inserted as the same handle.) *)
Theorem C08_exactly_once : forall scripts nev mains fuel,
  let '(tr, sf) := run_trace fuel (init ListQ scripts nev mains) in
  NoDup tr /\ NoDup (rq sf ++ held_list sf) /\
  (forall h, In h tr -> ~ In h (rq sf ++ held_list sf)) /\
  (forall h, In h (rq sf ++ held_list sf) -> 0 <= h < Z.of_nat (length (hs sf))).
Proof. exact exactly_once. Qed.
Print Assumptions C08_exactly_once.

(* PARTIAL: with equal priorities PosQ (PosPriorityQueue model) and ListQ agree on
   results, length and run order - on every operation sequence of length <= 4 over
   the 17-letter alphabet of Sched/PosIso.v (88741 sequences, evaluated in the
   kernel).  The unbounded statement is PosIso.posq_iso_statement (not proved). *)
Theorem C08_posq_iso_bounded : forallb same_run (all_seqs 4 0) = true.
Proof. exact posq_iso_bounded. Qed.
Print Assumptions C08_posq_iso_bounded.

(* The unbounded statement (Sched/PosIsoProofs.v): for EVERY operation sequence over
   append / popleft / find(h, remove?) / remove(h) / insert_pos(p, h) / call_pos(p, h) / items
   in which a handle enters the queue as a new object (wf_from: the h of an append, insert_pos
   or call_pos has not been used before), the PosPriorityQueue model driven with equal
   priorities (PosQ: priority 0 for every handle, boost factor 0) and the list queue (ListQ:
   the deque operations of the stock / scheduling loops) produce the same result, the same
   length and the same run order after every operation.  The invariant behind it (RZ): the run
   order of the priority queue = the list, regular entries all have priority 0 (so the arrival
   sequence decides), positional inserts re-sequence consistently, no object is queued twice. *)
From Asynkit Require Import Sched.PosIsoProofs.
Theorem C08_posq_iso : forall ops : list qop, wf_from [] ops -> same_run ops = true.
Proof. exact posq_iso. Qed.
Print Assumptions C08_posq_iso.

(* the same, state by state: related queues stay related and answer alike *)
Theorem C08_posq_iso_step : forall p l o,
  RZ p l -> fresh_ok l o ->
  exists r p' l', qstep PosQ p o = (r, p') /\ qstep ListQ l o = (r, l') /\ RZ p' l' /\
    qi_len PosQ p' = qi_len ListQ l' /\ qi_order PosQ p' = qi_order ListQ l'.
Proof.
  intros p l o HR Hf. destruct (qstep_iso p l o HR Hf) as (r & p' & l' & E1 & E2 & HR' & _).
  exists r, p', l'. split; [exact E1|]. split; [exact E2|]. split; [exact HR'|].
  split; [apply RZ_len | apply RZ_order]; exact HR'.
Qed.
Print Assumptions C08_posq_iso_step.

(* ===================================================================================
   LIVENESS half of "every scheduled callback and task step runs exactly once", on the list
   ready queue of the scheduler model Sched/Model.v (stock / SchedulingMixin loops), for a
   running loop (AStep-only continuations).  Proofs: Sched/QueuePosition.v (lists),
   Sched/Liveness08.v, Sched/Liveness08Ops.v, Sched/Liveness08Ex.v.
   NOTE: from here on the names st, run_one, call_pos, task_reinsert ... are those of
   Sched/Model.v (they shadow Sched/ListLoop.v) and the default scope is nat.

   ahead s h   = number of handles strictly before (the first occurrence of) h in
                 rq_items (ready s)  (= the queue length when h is not queued);
   queued s h  = In h (rq_items (ready s)). *)
From Coq Require Import QArith.
From RecordUpdate Require Import RecordUpdate.
From Asynkit Require Import Sched.Model Sched.Corr Sched.LockLive Sched.LockProgress
  Sched.QueuePosition Sched.Liveness08 Sched.Liveness08Ops Sched.Liveness08Ex.
Import RecordSetNotations.
Open Scope nat_scope.

(* h at the head: the step pops it and - unless it is cancelled, then it is popped and
   skipped - runs its callback on the rest of the queue *)
Theorem C08_position_head : forall (s : st) (h : nat) (rest : list nat),
  ready s = RList (h :: rest) ->
  do_action s AStep =
    (let s1 := s <| ready := RList rest |> in
     if hcancelled (geth s h) then s1 else run_callback (hcb (geth s h)) s1).
Proof. exact head_step. Qed.
Print Assumptions C08_position_head.

(* ANY single AStep, h not at the head, queue duplicate-free before and after (hypotheses; the
   duplicate-freedom of the ready queue of Sched/Model.v is not proved here - C08_exactly_once
   proves it for the ListLoop model): exact balance of the position measure.  With
     before q h    = the entries strictly before h in q,
     newfront r q' h  = number of entries of (before q' h) that are not in (before r h)
                        (inserted positionally in front of h, or moved there),
     gonefront r q' h = number of entries of (before r h) that are not in (before q' h)
                        (removed from in front of h, or moved behind it),
   ahead after + gonefront + 1 = ahead before + newfront.  In particular with nothing removed
   in front, [ahead] decreases by exactly one or increases by newfront - 1.  If h is no longer
   queued afterwards (an operation targeted it) the equation still holds with
   ahead after = the new queue length. *)
Theorem C08_position_measure : forall (s : st) (x : nat) (r : list nat) (h : nat),
  ready s = RList (x :: r) -> x <> h ->
  let s' := do_action s AStep in
  NoDup r -> NoDup (rq_items (ready s')) ->
  ahead s' h + gonefront r (rq_items (ready s')) h + 1 = ahead s h + newfront r (rq_items (ready s')) h.
Proof. exact step_balance. Qed.
Print Assumptions C08_position_measure.

(* a step that executes no positional scheduling operation (LockProgress.run_one_np: no
   call_pos / sleep_insert / task_switch / task_reinsert / task_throw / task_interrupt /
   timeout interruptor / descend / eager start): h stays queued and [ahead] decreases by
   exactly one.  No duplicate-freedom needed. *)
Theorem C08_position_np : forall (s : st) (q : list nat) (h : nat),
  ready s = RList q -> queued s h -> 0 < ahead s h -> run_one_np s ->
  queued (do_action s AStep) h /\ ahead (do_action s AStep) h + 1 = ahead s h.
Proof. exact step_np_ahead. Qed.
Print Assumptions C08_position_np.

(* what each positional operation does to a queued h (list queue q, h an already allocated
   handle, i = index of the LAST handle of the target task t'):
   call_pos(p): +1 exactly when p <= ahead;  sleep_insert: +1 (its callback goes to position 0);
   task_switch(t', insert_pos): t' to the front (+1, -1 if it was ahead of h already) and, with
   an insert_pos, the caller's re-insertion callback in front of that (+1); when h IS the handle
   of t' it becomes the head (second, behind the callback);
   task_reinsert(t', p) (also the re-insertion callback): -1 if the moved handle was ahead, +1 if
   p <= the resulting index; h itself moved: after min p (len-1) entries;
   task_throw(t', e): refused (state unchanged) / t' blocked (append only) / t' runnable: its
   handle is REMOVED (h: -1 if it was ahead; h itself: no longer queued) and a fresh one appended;
   cancelling a handle does not touch the queue (the entry is popped and skipped at the head). *)
Theorem C08_position_ops : forall (s : st) (q : list nat) (h : nat),
  ready s = RList q -> queued s h -> h <> length (handles s) ->
  (forall t p n, let s' := fst (lib_call t (OCallPos p n) s) in
     queued s' h /\ ahead s' h = ahead s h + (if p <=? ahead s h then 1 else 0)) /\
  (forall t p, let s' := fst (lib_call t (OSleepInsert p) s) in
     queued s' h /\ ahead s' h = ahead s h + 1) /\
  (forall t t' p i, find_last (task_key s t') q = Some i ->
     let s' := fst (lib_call t (OTaskSwitch t' p) s) in
     let k := match p with None => 0 | Some _ => 1 end in
     (i <> ahead s h -> nth i q 0 <> h ->
        queued s' h /\ ahead s' h = ahead s h - (if i <? ahead s h then 1 else 0) + 1 + k) /\
     (i = ahead s h -> NoDup q -> queued s' h /\ ahead s' h = k)) /\
  (forall t t' p i, find_last (task_key s t') q = Some i ->
     let s' := fst (lib_call t (OTaskReinsert t' p) s) in
     (i <> ahead s h -> nth i q 0 <> h ->
        let a := ahead s h - (if i <? ahead s h then 1 else 0) in
        queued s' h /\ ahead s' h = a + (if p <=? a then 1 else 0)) /\
     (i = ahead s h -> NoDup q -> queued s' h /\ ahead s' h = Nat.min p (length q - 1))) /\
  (forall t' p p', find_last (task_key s t') q = None ->
     forall t, lib_call t (OTaskSwitch t' p) s = (s, LDone (RExc EValue)) /\
               lib_call t (OTaskReinsert t' p') s = (s, LDone (RExc EValue))) /\
  (forall t' e s' r, task_throw s t' e = (s', r) ->
     s' = s \/
     (ready s' = RList (q ++ [length (handles s)]) /\ queued s' h /\ ahead s' h = ahead s h) \/
     (exists i, find_last (task_key s t') q = Some i /\
        ready s' = RList (remove_nth q i ++ [length (handles s)]) /\
        (i <> ahead s h -> queued s' h /\ ahead s' h = ahead s h - (if i <? ahead s h then 1 else 0)) /\
        (i = ahead s h -> NoDup q -> nth i q 0 = h /\ ~ queued s' h))) /\
  (forall g, ready (cancel_handle s g) = ready s /\ ahead (cancel_handle s g) h = ahead s h).
Proof.
  intros s q h E Hq Hf.
  split. { intros t p n. exact (call_pos_op_ahead s q t p n h E Hq Hf). }
  split. { intros t p s'. destruct (sleep_insert_ahead s q t p h E Hq Hf) as (_ & A & B). split; assumption. }
  split. { intros t t' p i F. exact (task_switch_ahead s q t t' p i h E F Hq Hf). }
  split. { intros t t' p i F. exact (task_reinsert_op_ahead s q t t' p i h E F Hq). }
  split. { intros t' p p' F t. split; [exact (task_switch_none s q t t' p E F)|].
           cbn [lib_call]. now rewrite (task_reinsert_none s q t' p' E F). }
  split.
  { intros t' e s' r T. destruct (task_throw_ahead s q t' e s' r h E Hq T) as [A|[A|(i & F & R & A & B)]]; auto.
    right. right. exists i. split; [exact F|]. split; [exact R|]. split; [exact A|].
    intros Hi N. now apply B. }
  intros g. destruct (cancel_handle_ahead s h g) as (A & B & _). split; assumption.
Qed.
Print Assumptions C08_position_ops.

(* EVENTUALLY.  Hypotheses about the next n AStep actions from s (all three are Fixpoints over
   the run s, do_action s AStep, ...; Sched/Liveness08.v):
     listq n s      the ready queue is a list queue in each of the states;
     kept n s h     no step takes h out of the queue while it waits behind the head
                    (h is not targeted by task_switch / task_reinsert / task_throw /
                    task_interrupt / a timeout - a MOVE of h that leaves it queued is allowed
                    and accounted for by pushes);
     pushes n s h <= K   where pushes sums, over the steps at which h waits behind the head,
                    pushed = ahead after + 1 - ahead before (truncated at 0): how many more
                    entries are in front of h than the pop alone would leave; by
                    C08_position_measure this is at most the number of entries inserted in
                    front of h (pushed_le_newfront), and it is 0 for a step without positional
                    operations (pushed_np).
   Then, if n >= ahead s h + K: for some j <= ahead s h + K, h waits in the queue during the
   first j steps, is the head after them, and step j+1 <= ahead s h + K + 1 pops it and -
   unless it has been cancelled - runs its callback. *)
Theorem C08_runs_eventually : forall (n : nat) (s : st) (h K : nat),
  listq n s -> kept n s h -> pushes n s h <= K -> queued s h -> ahead s h + K <= n ->
  exists j rest, j <= ahead s h + K /\
    (forall i, i < j -> queued (steps i s) h /\ 0 < ahead (steps i s) h) /\
    ready (steps j s) = RList (h :: rest) /\
    do_action (steps j s) AStep =
      (let s1 := steps j s <| ready := RList rest |> in
       if hcancelled (geth (steps j s) h) then s1 else run_callback (hcb (geth (steps j s) h)) s1).
Proof. exact runs_eventually. Qed.
Print Assumptions C08_runs_eventually.

(* the hypotheses of C08_runs_eventually hold with K = 0 for runs without positional operations *)
Theorem C08_runs_eventually_np : forall (n : nat) (s : st) (q : list nat) (h : nat),
  ready s = RList q -> run_np n s -> pushes n s h = 0 /\ kept n s h /\ listq n s.
Proof. exact np_pushes. Qed.
Print Assumptions C08_runs_eventually_np.

(* ... and with a duplicate-free queue [pushed] is bounded by the entries that appeared in front *)
Theorem C08_pushed_le_inserted : forall (s : st) (x : nat) (r : list nat) (h : nat),
  ready s = RList (x :: r) -> NoDup (x :: r) -> NoDup (rq_items (ready (do_action s AStep))) ->
  pushed s h <= newfront r (rq_items (ready (do_action s AStep))) h.
Proof. exact pushed_le_newfront. Qed.
Print Assumptions C08_pushed_le_inserted.

(* no positional operation during the first ahead s h steps (run_np): EXACTLY step
   ahead s h + 1 pops h and runs the callback it had at the start (from
   C13_handle_runs_within) *)
Theorem C08_runs_exactly_np : forall (s : st) (q : list nat) (h : nat),
  ready s = RList q -> queued s h -> h < length (handles s) -> run_np (ahead s h) s ->
  exists rest, ready (steps (ahead s h) s) = RList (h :: rest) /\
    do_action (steps (ahead s h) s) AStep =
      (let s1 := steps (ahead s h) s <| ready := RList rest |> in
       if hcancelled (geth s1 h) then s1 else run_callback (hcb (geth s h)) s1).
Proof. exact runs_exactly. Qed.
Print Assumptions C08_runs_exactly_np.

(* the bound is attained: three tasks; task 0 runs task_switch(task 1, insert_pos=5); handle 2
   (task 2's first step) has two entries ahead; one entry (the re-insertion callback) is pushed
   in front of it (K = 1); it is the head after exactly 2 + 1 steps, not before, and step
   2 + 1 + 1 runs it *)
Theorem C08_runs_eventually_example :
  ahead x_s 2 = 2 /\ pushes 3 x_s 2 = 1 /\ listq 3 x_s /\ kept 3 x_s 2 /\ queued x_s 2 /\
  (forall j, j < 3 -> hd 0 (rq_items (ready (steps j x_s))) <> 2) /\
  ready (steps 3 x_s) = RList [2; 4; 5] /\
  hcancelled (geth (steps 3 x_s) 2) = false /\ hcb (geth (steps 3 x_s) 2) = HStep 2 None /\
  ~ queued (steps 4 x_s) 2.
Proof.
  destruct x_ahead as (A & B & _). destruct x_attained as (C & D & E & F & G).
  split; [exact A|]. split; [exact B|]. split; [exact x_listq|]. split; [exact x_kept|].
  split; [exact x_queued|]. split; [exact C|]. split; [exact D|]. split; [exact E|].
  split; [exact F|exact G].
Qed.
Print Assumptions C08_runs_eventually_example.

(* The same on the ListLoop model (the model of C08_exactly_once; names qualified because
   Sched/Model.v shadows them here), where the run invariant J makes the statements unconditional
   and the safety half is available.  Handles are the integers 0, 1, ...; aheadL s h = number of
   entries strictly before h in ListLoop.rq s; nextL s = the state after running one handle.
   (a) one handle from ANY state satisfying J (every reachable state of every program, J_init +
       run_one_ext): the head x is popped, is not queued afterwards, J is kept, and every other
       handle h obeys the exact balance - no duplicate-freedom hypothesis. *)
From Asynkit Require Import Sched.Liveness08List.
Theorem C08_list_position_measure : forall (s : ListLoop.st) (x : Z) (s' : ListLoop.st),
  ExactlyOnce.J s -> ListLoop.run_one ListQ s = Some (x, s') ->
  exists r, ListLoop.rq s = x :: r /\ ExactlyOnce.J s' /\ ~ In x (ListLoop.rq s') /\
    forall h, h <> x -> (0 <= h)%Z ->
      aheadL s' h + gonefront (map Z.to_nat r) (map Z.to_nat (ListLoop.rq s')) (Z.to_nat h) + 1 =
      aheadL s h + newfront (map Z.to_nat r) (map Z.to_nat (ListLoop.rq s')) (Z.to_nat h).
Proof. exact list_step_balance. Qed.
Print Assumptions C08_list_position_measure.

(* (b) RUNS EXACTLY ONCE: if during the next n handles no step takes h out of the queue while it
   waits (keptL) and at most K entries are pushed in front of it (pushesL, as above), n >= ahead + K,
   then in EVERY run of more than aheadL s h + K handles from s the handle h is executed at an
   index <= aheadL s h + K and occurs exactly once in the sequence of executed handles. *)
Theorem C08_list_runs_exactly_once : forall (n : nat) (s : ListLoop.st) (h : Z) (K : nat),
  ExactlyOnce.J s -> (0 <= h)%Z -> keptL n s h -> pushesL n s h <= K -> In h (ListLoop.rq s) ->
  aheadL s h + K <= n ->
  forall fuel, aheadL s h + K < fuel ->
    count_occ Z.eq_dec (fst (ExactlyOnce.run_trace fuel s)) h = 1 /\
    exists j, j <= aheadL s h + K /\ nth_error (fst (ExactlyOnce.run_trace fuel s)) j = Some h.
Proof. exact list_runs_exactly_once. Qed.
Print Assumptions C08_list_runs_exactly_once.

(* instance: task_switch(task 1, insert_pos=5) pushes one entry in front of handle 2 (ahead 2,
   K = 1): executed at index 3 of the run, once *)
Theorem C08_list_runs_example :
  ExactlyOnce.J l_s /\ aheadL l_s 2 = 2 /\ pushesL 3 l_s 2 = 1 /\ keptL 3 l_s 2 /\
  In 2%Z (ListLoop.rq l_s) /\
  fst (ExactlyOnce.run_trace 8 l_s) = [0; 3; 1; 2; 4; 5; 6]%Z /\
  count_occ Z.eq_dec (fst (ExactlyOnce.run_trace 8 l_s)) 2%Z = 1.
Proof. exact list_runs_example. Qed.
Print Assumptions C08_list_runs_example.
