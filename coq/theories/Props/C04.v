(* C04 - A coroutine given a Context runs every one of its steps inside it.

   Bodies are trees [c : coro] (Coro/Tree.v) with ContextVar reads [Get x k] and
   writes [Set_ x v c].  Coro/Context.v models contextvars (a context is a finite
   map, [lookup] / [update]; `context.run` swaps the supplied context in for one
   resumption and keeps what was written) and transcribes CoroStart (_start,
   __await__, athrow, aclose, as_coroutine, throw, close), coro_await and
   coro_eager with `context.run` exactly where the code has it: [repaired] =
   the code after fixes/F3-context.patch, [original] = before.  The interpreter
   records every read and write it evaluates ([st_log], in order: [ARead x v] =
   "x was read as v", [AWrite x v]) whatever context it was evaluated against;
   a run is a list of steps (one per operation applied from outside), each with
   the caller's context [st_cur] and the supplied context [st_sup] after it.
   [replay x log] = x updated by the writes of log in order;
   [reads_latest x log] = every read in log returned the latest earlier write
   of log to that variable, or x's value if there is none.
   [nomark c]: the body does not contain the two events reserved for the
   `context.run` markers (no generated body does).
   The model is tied to asynkit by the correspondence check (harness/props/c04.py). *)
From Asynkit Require Import Base.Prelude Coro.Tree Coro.Native Coro.Prog Coro.Relay Coro.Context
  Coro.ContextProofs Coro.ContextProgProofs.

(* With a context x supplied (context=x; for eager x = the private copy of the
   caller's context), for EVERY body and EVERY sequence of operations --
   cs.throw(e, tries), cs.close(), and the awaitables __await__ / athrow(e) /
   aclose() / as_coroutine() driven by any send / throw / close sequence:
   after every step the caller's context is what it was, the supplied context is
   x plus all writes of the body so far, and every read of the body returned the
   body's latest write (or x's value). *)
Theorem C04_isolated : forall (c : coro) (caller : ctx), nomark c ->
  (forall a x ps, supplied a caller = Some x ->
     let steps := run_corostart repaired a caller c ps in
     Forall (fun s => st_cur s = caller) steps /\
     reads_latest x (concat (map st_log steps)) /\
     (forall d, steps <> [] -> st_sup (last steps d) = Some (replay x (concat (map st_log steps)))) /\
     steps_iso caller x steps) /\
  (forall a x ops, supplied a caller = Some x ->
     let steps := run_coro_await repaired a caller c ops in
     Forall (fun s => st_cur s = caller) steps /\
     reads_latest x (concat (map st_log steps)) /\
     (forall d, steps <> [] -> st_sup (last steps d) = Some (replay x (concat (map st_log steps)))) /\
     steps_iso caller x steps) /\
  (forall ops,
     let steps := run_eager repaired caller c ops in
     Forall (fun s => st_cur s = caller) steps /\
     reads_latest caller (concat (map st_log steps)) /\
     (forall d, steps <> [] -> st_sup (last steps d) = Some (replay caller (concat (map st_log steps)))) /\
     steps_iso caller caller steps).
Proof. exact isolated_all. Qed.
Print Assumptions C04_isolated.

(* [steps_iso caller x steps], used above, says the same after EVERY step:
     steps_iso cu x []       = True
     steps_iso cu x (s :: t) = st_cur s = cu /\ st_sup s = Some (replay x (st_log s)) /\
                               reads_latest x (st_log s) /\ steps_iso cu (replay x (st_log s)) t *)

(* With context=None, coro_await(c) (and CoroStart(c) followed by its __await__)
   driven by any send / throw / close sequence in the caller's context gives, step
   by step, the events, outcomes and caller's context that CPython's native
   `await c` gives ([hide]/[visible] only drop the reserved marker events). *)
Theorem C04_shared_when_none : forall vt c caller ops,
  map seen (c_drive_stop KCoro (New (coro_await_ctx vt false c)) (mkcstate caller None false) ops) =
  map hide (drive_stop_s KCoro (New (native_await c)) caller ops).
Proof. exact shared_when_none. Qed.
Print Assumptions C04_shared_when_none.

Theorem C04_shared_when_none_CoroStart : forall vt c caller ops,
  map seen (c_drive_stop KGen (New (cs_start c (cs_await_of vt false))) (mkcstate caller None false) ops) =
  map hide (drive_stop_s KGen (New (native_await c)) caller ops).
Proof. exact shared_when_none_corostart. Qed.
Print Assumptions C04_shared_when_none_CoroStart.

(* Finding F3: the code before the repair violates the property on each path
   (witnesses evaluated by vm_compute): cs.close(), cs.throw(), the GeneratorExit
   branch of __await__, and an EMPTY Context() (falsy) given to coro_await or
   produced by copy_context() in eager(). *)
Theorem C04_refuted_before_fix :
  (exists c x caller, nomark c /\
     ~ steps_iso caller x (run_corostart original (CGiven x) caller c [PClose])) /\
  (exists c x caller, nomark c /\
     ~ steps_iso caller x (run_corostart original (CGiven x) caller c [PThrow (E 1) 1])) /\
  (exists c x caller, nomark c /\
     ~ steps_iso caller x (run_corostart original (CGiven x) caller c
                                         [PAwaitable MAwait [DThrow GeneratorExit]])) /\
  (exists c caller, nomark c /\
     ~ steps_iso caller [] (run_coro_await original (CGiven []) caller c [])) /\
  (exists c, nomark c /\ ~ steps_iso [] [] (run_eager original [] c [])).
Proof.
  repeat split.
  - exact refuted_close.
  - exact refuted_sync_throw.
  - exact refuted_await_genexit.
  - exact refuted_empty_context.
  - exact refuted_eager_from_empty.
Qed.
Print Assumptions C04_refuted_before_fix.

(* The side condition [nomark] holds for every body the correspondence check
   generates (the syntax of Coro/Prog.v: log, await, call, try/except/finally,
   return, raise, ContextVar set / get). *)
Theorem C04_generated_bodies_in_scope : forall p, nomark (body_of p).
Proof. exact nomark_body_of. Qed.
Print Assumptions C04_generated_bodies_in_scope.
