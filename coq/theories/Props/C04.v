(* C04 - placeholder while the check is being built *)
From Asynkit Require Import Base.Prelude Coro.Tree Coro.Context.
Theorem C04_placeholder : truthy [] = false.
Proof. reflexivity. Qed.
Print Assumptions C04_placeholder.
