(* C05 - await_sync completes non-suspending async code and never strands a coroutine.

   A coroutine body is a tree [c : coro] (Coro/Tree.v): what it does until it
   returns, raises or suspends ([run s c] = events, ContextVar store, stop),
   and how it goes on after whatever is sent or thrown in at a suspension.
   [await_sync fixd w s c] (Coro/AwaitSync.v) is asynkit's await_sync applied
   to a new coroutine with body c, in a context with store s and with the
   asyncio futures in state w ([fworld]: per future done / number of
   callbacks / the handshake flag _asyncio_future_blocking).  [fixd = true] is
   the code repaired by fixes/F1-future-blocking-flag.patch, [false] the code
   before.  A body suspended at [Susp (VFut f) k] is inside Future.__await__ of
   f, which set f's flag just before yielding.  References are CPython's own
   protocol: [co_send] / [co_throw] / [co_close] on coroutine objects (Tree.v),
   [native_await] (Native.v), and the tree of a native `async for`.
   The models are tied to the code by the correspondence check (./check C05). *)
From Asynkit Require Import Base.Prelude Coro.Tree Coro.Native Coro.TreeProofs Coro.AwaitSync
  Coro.AwaitSyncProofs.

(* If the coroutine completes without suspending, await_sync returns its value /
   raises its exception, logs exactly the events of the native run
   (coro.send(None)), leaves the same ContextVars, the coroutine is finished and
   no future is touched.  Holds for the old and the repaired code. *)
Theorem C05_sync_complete : forall fixd w s c,
  no_susp (snd (run s c)) ->
  let n := co_send KCoro (New c) s VNone in
  let r := await_sync fixd w s c in
  sr_events r = r_events n /\ sr_store r = r_store n /\
  sr_obj r = Finished /\ r_obj n = Finished /\
  sr_world r = w /\
  match r_out n with
  | OReturn v => sr_out r = SyValue v
  | ORaise e => sr_out r = SyRaise e
  | OYield _ => False
  end.
Proof. exact sync_complete. Qed.
Print Assumptions C05_sync_complete.

(* ... however deeply it is awaited by other non-suspending coroutines:
   [nest d c] = d levels of `async def f(): return await <inner>` around c. *)
Theorem C05_sync_complete_nested : forall d fixd w s c,
  no_susp (snd (run s c)) ->
  await_sync fixd w s (nest d c) = await_sync fixd w s c.
Proof. exact sync_complete_nested. Qed.
Print Assumptions C05_sync_complete_nested.

(* If the coroutine suspends (at k, having yielded y) and - the property's
   domain - does not swallow the abort and suspend again: SynchronousError is
   raised; it is chained to exactly what coro.throw(SynchronousAbort()) raises
   at that suspension (or is the "(caught BaseException)" variant without a
   cause when the body returns); every event of that throw - handlers and
   finally blocks on the way out - is in the log after the events of the start;
   and the coroutine is finished. *)
Theorem C05_blocking : forall fixd w s c ev0 s0 y k,
  run s c = (ev0, s0, SSusp y k) ->
  abort_terminates s0 k ->
  let t := co_throw KCoro (Suspended k) s0 SynchronousAbort in
  let r := await_sync fixd w s c in
  sr_events r = ev0 ++ r_events t /\ sr_store r = r_store t /\
  sr_obj r = Finished /\ r_obj t = Finished /\
  match r_out t with
  | ORaise e => sr_out r = SySyncError false (Some e)
  | OReturn _ => sr_out r = SySyncError true None
  | OYield _ => False
  end.
Proof. exact blocking. Qed.
Print Assumptions C05_blocking.

(* Outside the domain (the body swallows the abort and suspends again at k2):
   the pending SynchronousError is chained to RuntimeError("coroutine ignored
   SynchronousAbort"), then close() is CPython's coro.close(): its events are
   logged, and if it raises - a third suspension gives "coroutine ignored
   GeneratorExit" and leaves the coroutine suspended - that exception replaces
   the SynchronousError. *)
Theorem C05_blocking_outside_domain : forall fixd w s c ev0 s0 y k ev1 s1 y2 k2,
  run s c = (ev0, s0, SSusp y k) ->
  run s0 (k (Throw SynchronousAbort)) = (ev1, s1, SSusp y2 k2) ->
  let cl := co_close KCoro (Suspended k2) s1 in
  let r := await_sync fixd w s c in
  sr_events r = ev0 ++ ev1 ++ r_events cl /\ sr_store r = r_store cl /\
  sr_obj r = r_obj cl /\
  sr_out r = match r_out cl with
             | ORaise e => SyCloseRaised e
             | _ => SySyncError false (Some rt_ignored_abort)
             end.
Proof. exact blocking_outside_domain. Qed.
Print Assumptions C05_blocking_outside_domain.

(* Repaired code: the object the coroutine was suspended on is left untouched.
   If no Task step is in progress when await_sync is called (the flag of the
   future is clear), every future is afterwards exactly as before: pending or
   not, same callbacks, flag clear. *)
Theorem C05_object_untouched : forall w s c ev0 s0 y k,
  run s c = (ev0, s0, SSusp y k) ->
  abort_terminates s0 k ->
  (forall f, y = VFut f -> f_flag (w f) = false) ->
  forall g, sr_world (await_sync true w s c) g = w g.
Proof. exact object_untouched. Qed.
Print Assumptions C05_object_untouched.

(* ... so an ordinary Task which awaits that future later is accepted by
   Future.__await__ and registered on it exactly as if await_sync had never run *)
Theorem C05_object_awaitable_later : forall w s c ev0 s0 f k,
  run s c = (ev0, s0, SSusp (VFut f) k) ->
  abort_terminates s0 k ->
  f_flag (w f) = false ->
  let w' := sr_world (await_sync true w s c) in
  awaitable_later w' f = true /\
  forall g, fst (task_await_step w' f) g = fst (task_await_step w f) g.
Proof. exact object_awaitable_later. Qed.
Print Assumptions C05_object_awaitable_later.

(* ... and the same for the second object, when the body swallowed the abort,
   suspended again and then gave in to close() *)
Theorem C05_object_untouched_second : forall w s c ev0 s0 y k ev1 s1 y2 k2,
  run s c = (ev0, s0, SSusp y k) ->
  run s0 (k (Throw SynchronousAbort)) = (ev1, s1, SSusp y2 k2) ->
  no_susp (snd (run s1 (k2 (Throw GeneratorExit)))) ->
  (forall f, f_flag (w f) = false) ->
  forall g, sr_world (await_sync true w s c) g = w g.
Proof. exact object_untouched_second. Qed.
Print Assumptions C05_object_untouched_second.

(* Finding F1 - the code before the repair violates "left untouched": for the
   body `await f` on a pending future f with its flag clear, after await_sync
   the flag is set although f is still pending, and Future.__await__ refuses the
   next awaiter with RuntimeError("await wasn't used with future"). *)
Theorem C05_refuted_before_fix : exists (c : coro) (f : Z) (k : input -> coro),
  run [] c = ([], [], SSusp (VFut f) k) /\ abort_terminates [] k /\
  f_flag (world0 f) = false /\
  let w' := sr_world (await_sync false world0 [] c) in
  f_flag (w' f) = true /\ f_done (w' f) = false /\
  awaitable_later w' f = false /\
  snd (task_await_step w' f) = Some rt_await_no_future.
Proof. exact refuted_before_fix. Qed.
Print Assumptions C05_refuted_before_fix.

(* aiter_sync over an iterable whose successive __anext__() coroutines have the
   bodies [anexts] (StopAsyncIteration when the list is used up): whenever the
   native loop `async for x in it: <record x>` runs to its end without
   suspending, aiter_sync hands out the same values interleaved with the same
   events ([item v] marks a value), leaves the same ContextVars, touches no
   future, and ends as the native loop does: normally at StopAsyncIteration, or
   with the exception an __anext__ raised. *)
Theorem C05_aiter : forall fixd anexts w s evs s' st take,
  run s (async_for anexts) = (evs, s', st) ->
  no_susp st ->
  (length anexts < take)%nat ->
  let r := aiter_sync fixd w s anexts take in
  ai_events r = evs /\ ai_store r = s' /\ ai_world r = w /\
  ai_end r = match st with
             | SRaise e => ARaise (SyRaise e)
             | _ => AEnd
             end.
Proof. exact aiter_native. Qed.
Print Assumptions C05_aiter.

(* an __anext__() which does not complete synchronously: what await_sync raises
   for it (C05_blocking) leaves the generator, nothing else happens *)
Theorem C05_aiter_blocking : forall fixd w s c rest take,
  (match sr_out (await_sync fixd w s (helper c)) with
   | SyValue _ | SyRaise StopAsyncIteration | SyCloseRaised StopAsyncIteration => False
   | _ => True
   end) ->
  let r0 := await_sync fixd w s (helper c) in
  let r := aiter_sync fixd w s (c :: rest) (S take) in
  ai_end r = ARaise (sr_out r0) /\ ai_events r = sr_events r0 /\ ai_obj r = sr_obj r0.
Proof. exact aiter_blocking. Qed.
Print Assumptions C05_aiter_blocking.

(* The repair at its source (shared with C01): whatever a CoroStart captures
   when it starts a coroutine, no future is left with its flag set ... *)
Theorem C05_capture_flag_invariant : forall w s c,
  (forall f, f_flag (w f) = false) ->
  let '(_, _, _, _, w') := csf_start true w s c in
  forall g, w' g = w g.
Proof. exact capture_flag_invariant. Qed.
Print Assumptions C05_capture_flag_invariant.

(* ... and the Task which later drives `await cs` receives the captured future
   with the flag set again, as Future.__await__ yielded it. *)
Theorem C05_rearm_for_task : forall w s c evs s' y k b w',
  (forall f, f_flag (w f) = false) ->
  csf_start true w s c = (evs, s', SSusp y k, b, w') ->
  snd (task_receive (csf_first_yield w' y b) y) = None.
Proof. exact rearm_for_task. Qed.
Print Assumptions C05_rearm_for_task.

(* ------------------------------------------------------------------------
   aiter_sync over a NATIVE ASYNC GENERATOR OBJECT -- CPython 3.12.1's object of
   Coro/AsyncGen.v (frame, ag_running_async, ag_closed; validated against
   CPython by ./check C06) -- not only over the abstract iterable of C05_aiter.

   [aiter_ag fixd w (a, None) take] (Coro/AiterGen.v) is aiter_sync over the
   generator object a, no awaitable of it being suspended; the consumer takes at
   most [take] values.  await_sync(helper()) with `helper = return await
   ai.__anext__()` STARTS the call __anext__() ([HStart (CSend VNone)], a step of
   a consumer history of AsyncGen.v); if that yields to the (absent) loop it
   RESUMES the suspended awaitable with throw(SynchronousAbort())
   ([HResume (Throw SynchronousAbort)]); if the body swallows the abort and
   suspends again, helper.close() calls asend.close(), which on CPython 3.12
   only marks the awaitable closed.  aiter_sync never calls aclose().
     [ag_trace (a, None) (nexts n)]  what n successive __anext__() calls driven by
                                     hand show (events, outcome, ... per call),
     [ag_after ..]                   the object after them,
     [is_value o]                    the call returned a value (StopIteration(d)),
     [items tr]                      the events of a trace with [item d] after
                                     each call that returned d.
   Result: [ii_events] body events interleaved with [item v] per value handed
   out, [ii_end] (AEnd / ARaise what await_sync raised / ATaken), [ii_state] the
   generator object and its suspended awaitable afterwards, [ii_world] the
   futures, [ii_ignored] "the body swallowed the abort and suspended again". *)
From Asynkit Require Import Base.Obs Coro.AsyncGen Coro.GenObj Coro.AiterGen Coro.AiterGenProofs.

(* A generator (not running) whose first n __anext__() calls return values
   without suspending and whose next one raises e: aiter_sync hands out exactly
   those n values in order, each after the body events of its call, then the
   events of the last call; it ends normally when e is StopAsyncIteration (the
   body returned / the generator was exhausted) and otherwise propagates e
   unchanged; no future is touched; the generator object is left as the n+1
   calls by hand leave it: not running, nothing suspended, frame gone. *)
Theorem C05_aiter_asyncgen : forall fixd w a n take,
  ag_run a = false ->
  let tr := ag_trace (a, None) (nexts n) in
  Forall is_value tr ->
  let '(o, st') := ag_hstep (ag_after (a, None) (nexts n)) (HStart (CSend VNone)) in
  forall e, ho_out o = Some (ORaise e) ->
  let r := aiter_ag fixd w (a, None) (n + S take)%nat in
  ii_events r = items tr ++ ho_events o /\
  ii_end r = (if is_sai e then AEnd else ARaise (SyRaise e)) /\
  ii_world r = w /\ ii_ignored r = false /\
  ii_state r = st' /\ snd st' = None /\ ag_run (fst st') = false /\ ag_fr (fst st') = FDone.
Proof. exact aiter_ag_complete. Qed.
Print Assumptions C05_aiter_asyncgen.

(* The consumer stops after n values: it got exactly those; the generator is left
   suspended at its n-th yield, not running -- and NOT closed. *)
Theorem C05_aiter_asyncgen_taken : forall fixd w a n,
  ag_run a = false ->
  let tr := ag_trace (a, None) (nexts n) in
  Forall is_value tr ->
  let r := aiter_ag fixd w (a, None) n in
  ii_events r = items tr /\ ii_end r = ATaken /\ ii_world r = w /\ ii_ignored r = false /\
  ii_state r = ag_after (a, None) (nexts n) /\
  snd (ii_state r) = None /\ ag_run (fst (ii_state r)) = false.
Proof. exact aiter_ag_taken. Qed.
Print Assumptions C05_aiter_asyncgen_taken.

(* After n values the next __anext__() suspends (the body awaits something that
   yields y to the loop).  The n values have been handed out; SynchronousAbort
   is thrown into the suspended __anext__() awaitable, i.e. into the body at its
   suspension point (o1 = that step of the history); all events of both steps
   are logged; then
   - the body lets an exception e out (the abort itself, or what its handlers /
     finally blocks made of it; PEP 479/525 applied at the generator's frame):
     SynchronousError chained to e; the awaitable has ended, the generator's
     frame is gone, it is not running;
   - the body catches the abort and yields a value: SynchronousError "(caught
     BaseException)" without cause; the value is dropped; the generator is left
     suspended at that yield, not running -- and not closed;
   - (outside the property's domain) the body catches the abort and suspends
     again: SynchronousError chained to RuntimeError("coroutine ignored
     SynchronousAbort"); helper.close() closes the asend awaitable, which does
     not resume the generator: it is left SUSPENDED INSIDE THE AWAIT WITH
     ag_running_async SET and no awaitable that could resume it ([ii_ignored]).
   The object the body was suspended on is handled as in C05_object_untouched:
   [capture fixd (arm w y) y] is the world after Future.__await__ set y's flag
   and (repaired code) CoroStart cleared it again. *)
Theorem C05_aiter_asyncgen_blocking : forall fixd w a n take,
  ag_run a = false ->
  let tr := ag_trace (a, None) (nexts n) in
  Forall is_value tr ->
  let '(o0, st0) := ag_hstep (ag_after (a, None) (nexts n)) (HStart (CSend VNone)) in
  forall y, ho_out o0 = Some (OYield y) ->
  let '(o1, st1) := ag_hstep st0 (HResume (Throw SynchronousAbort)) in
  let r := aiter_ag fixd w (a, None) (n + S take)%nat in
  let w1 := fst (capture fixd (arm w y) y) in
  ii_events r = items tr ++ ho_events o0 ++ ho_events o1 /\
  match ho_out o1 with
  | Some (ORaise e) =>
      ii_end r = ARaise (SySyncError false (Some e)) /\ ii_world r = w1 /\ ii_ignored r = false /\
      ii_state r = st1 /\ snd st1 = None /\ ag_run (fst st1) = false /\ ag_fr (fst st1) = FDone
  | Some (OReturn _) =>
      ii_end r = ARaise (SySyncError true None) /\ ii_world r = w1 /\ ii_ignored r = false /\
      ii_state r = st1 /\ snd st1 = None /\ ag_run (fst st1) = false /\
      exists k, ag_fr (fst st1) = FSusp k
  | Some (OYield y2) =>
      ii_end r = ARaise (SySyncError false (Some rt_ignored_abort)) /\
      ii_world r = fst (capture fixd (arm w1 y2) y2) /\ ii_ignored r = true /\
      ii_state r = (fst st1, None) /\ ag_run (fst st1) = true /\
      exists k, ag_fr (fst st1) = FSusp k
  | None => False
  end.
Proof. exact aiter_ag_blocking. Qed.
Print Assumptions C05_aiter_asyncgen_blocking.

(* The driver over the generator OBJECT is not a second model of await_sync: one
   await_sync(helper()) over a generator that is not running IS C05's own
   [await_sync] (the function of the theorems above, validated by ./check C05)
   applied to the tree of helper() awaiting the generator's asend object --
   [anext_tree a] runs the generator's frame up to its next `yield` and converts
   the end of the body (return -> StopAsyncIteration, PEP 479/525),
   [helper_asend] is AwaitSync.v's `await` of an asend object -- : same events,
   same outcome (value / exception / SynchronousError and its cause / what
   close() raised), same ContextVars, same futures; the helper coroutine is
   finished in every case. *)
Theorem C05_await_sync_asyncgen_tree : forall fixd w a,
  ag_run a = false ->
  let r := await_sync_ag fixd w (a, None) in
  let t := await_sync fixd w (ag_st a) (helper_asend (anext_tree a)) in
  si_events r = sr_events t /\ si_out r = sr_out t /\ ag_st (fst (si_state r)) = sr_store t /\
  si_world r = sr_world t /\ sr_obj t = Finished.
Proof. exact await_sync_ag_tree. Qed.
Print Assumptions C05_await_sync_asyncgen_tree.
