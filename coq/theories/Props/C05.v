(* C05 - await_sync completes non-suspending async code and never strands a coroutine. *)
From Asynkit Require Import Base.Prelude Coro.Tree Coro.Native Coro.TreeProofs Coro.AwaitSync
  Coro.AwaitSyncProofs.

Theorem C05_sync_value : forall fixd w s c evs s' v,
  run s c = (evs, s', SRet v) ->
  await_sync fixd w s c = mksync evs (SyValue v) Finished s' w.
Proof. exact await_sync_value. Qed.
Print Assumptions C05_sync_value.
