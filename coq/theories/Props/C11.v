From Coq Require Import QArith.
From Asynkit Require Import Base.Prelude Queue.PosPQ Sched.Model.
(* placeholder: the C11 theorems land in Sched/InheritProofs.v *)
Theorem C11_eprio_fuel0 : forall s t, eprio 0 s t = match tprio (gett s t) with Some p => p | None => 0%Q end.
Proof. reflexivity. Qed.
Print Assumptions C11_eprio_fuel0.
