(* C11 - Priority inheritance bounds priority inversion.
   Statements over the executable scheduler model (Sched/Model.v).  Vocabulary
   (Sched/InheritEprio.v):
     own s t          = the task's own priority() (0 for a plain task);
     waiters_of s t   = the tasks queued (lock_waiter_tasks: waiter entries mapped through
                        the lock's future->task table) on the locks in t's _holding_locks;
     waits_on s w t   = w is queued on a lock held by t;  waits_tr = its transitive closure;
     wprio s w        = what waiter w contributes: effective_priority s w for a PriorityTask,
                        0 for a plain task;
     min_of x vals    = x is an element of vals and x <= every element of vals;
     ranked s         = the wait-for graph is acyclic with chains no longer than the
                        recursion budget of effective_priority():
                        exists rank, (waits_on s w t -> rank w < rank t) /\ rank t <= efuel s.
   [effective_priority s t] is the model of PriorityTask.effective_priority(): the
   fuel-bounded recursion [eprio (efuel s) s t]. *)
From Coq Require Import QArith Sorting.Permutation.
From Asynkit Require Import Base.Prelude Queue.PQ Queue.PosPQ Queue.Exec Sched.Model Sched.QFacts
  Sched.LockInv Sched.LockThms Sched.InheritEprio Sched.InheritHandover Sched.InheritKeys
  Sched.InheritFalls Sched.InheritExamples Sched.InheritThms.
Open Scope nat_scope.

(* One unfolding of the recursion, in every state (no hypothesis): the result is a least
   element of the task's own priority and the contributions of the tasks waiting for locks
   it holds, computed with one unit of fuel less. *)
Theorem C11_eprio_unfold :
  forall fuel s t,
    min_of (eprio (S fuel) s t)
           (own s t :: map (fun w => match tprio (gett s w) with
                                     | Some _ => eprio fuel s w | None => 0%Q end)
                           (waiters_of s t)).
Proof. exact eprio_step. Qed.
Print Assumptions C11_eprio_unfold.

(* On an acyclic graph the budget suffices: any larger fuel gives the same value. *)
Theorem C11_fuel_independent :
  forall s fuel t, ranked s -> efuel s <= fuel -> eprio fuel s t = effective_priority s t.
Proof. exact C11_fuel_independent_thm. Qed.
Print Assumptions C11_fuel_independent.

(* ... and effective_priority satisfies the fixpoint equation
   eprio t = min (own t) (min over w waiting on locks held by t of wprio w). *)
Theorem C11_eprio_fixpoint :
  forall s t, ranked s ->
    min_of (effective_priority s t) (own s t :: map (wprio s) (waiters_of s t)).
Proof. exact C11_fixpoint_thm. Qed.
Print Assumptions C11_eprio_fixpoint.

(* Closed form, in every reachable state with an acyclic wait-for graph: the effective
   priority of t is the LEAST own priority among t and all tasks transitively waiting for
   locks held by t - it is below each of them, and it is attained by one of them. *)
Theorem C11_eprio_closed_form :
  forall s t, reachable s -> ranked s ->
    (effective_priority s t <= own s t)%Q /\
    (forall w, waits_tr s w t -> (effective_priority s t <= own s w)%Q) /\
    (exists u, (u = t \/ waits_tr s u t) /\ effective_priority s t = own s u).
Proof. exact C11_closed_form_reach. Qed.
Print Assumptions C11_eprio_closed_form.

(* While w is queued on lock l owned by the PriorityTask h, h is at least as urgent as w,
   and so is every task x up the holder chain (h waits for a lock of x, transitively). *)
Theorem C11_holder_at_least_as_urgent :
  forall s l w h, reachable s -> ranked s ->
    In w (lock_waiter_tasks (getl s l)) -> lowner (getl s l) = Some h ->
    is_prio_task s h = true ->
    (effective_priority s h <= effective_priority s w)%Q /\
    (forall x, waits_tr s h x -> (effective_priority s x <= effective_priority s w)%Q).
Proof. exact C11_holder_reach. Qed.
Print Assumptions C11_holder_at_least_as_urgent.

(* It falls back when the holder releases: after a successful release() of l by the
   PriorityTask t the graph is still acyclic, l has left t's held locks, and t's effective
   priority is least among its own priority and the waiters of the locks it still holds. *)
Theorem C11_falls_back_release :
  forall s t l, ranked s -> llocked (getl s l) = true -> lowner (getl s l) = Some t ->
    is_prio_task s t = true -> t < length (tasks s) ->
    let s' := fst (release_p s t l) in
    ranked s' /\
    tholding (gett s' t) = filter (fun x => negb (Nat.eqb x l)) (tholding (gett s t)) /\
    min_of (effective_priority s' t)
           (own s t :: map (wprio s')
                           (flat_map (fun l' => lock_waiter_tasks (getl s l'))
                                     (filter (fun x => negb (Nat.eqb x l)) (tholding (gett s t))))).
Proof. exact falls_back_release. Qed.
Print Assumptions C11_falls_back_release.

(* ... and when a waiter stops waiting (the `finally` of acquire(): _waiters.remove(entry),
   [leave_lk] = the lock with the entry of future f and its table row removed): the graph
   stays acyclic, the waiter list of l loses exactly the task of f, the other locks are
   untouched, and every effective priority is given by the fixpoint equation over the
   remaining waiters. *)
Theorem C11_falls_back_waiter_leaves :
  forall s l f p q', ranked s -> qwf (lpq (getl s l)) ->
    pq_remove HQ (lpq (getl s l)) (Z.of_nat f) = Some (p, q') ->
    let s' := setl s l (leave_lk (getl s l) f q') in
    ranked s' /\
    Permutation (lock_waiter_tasks (getl s l))
                (task_of_fut (getl s l) f :: lock_waiter_tasks (getl s' l)) /\
    (forall l', l' <> l -> getl s' l' = getl s l') /\
    (forall h, min_of (effective_priority s' h) (own s h :: map (wprio s') (waiters_of s' h))).
Proof. exact falls_back_leave. Qed.
Print Assumptions C11_falls_back_waiter_leaves.

(* Non-vacuity: a reachable state (list loop, two PriorityLocks; H = task 0 holds lock 0;
   W1 = task 1 holds lock 1 and is queued on lock 0 with W2 = task 2; the late X = task 3,
   priority -5, is queued on lock 1) whose graph is acyclic; H and W1 have inherited -5. *)
Theorem C11_example :
  reachable istA /\ ranked istA /\
  map (own istA) [0; 1; 2; 3] = [0%Q; 5%Q; 3%Q; (-5)%Q] /\
  map (fun t => Qred (effective_priority istA t)) [0; 1; 2; 3] = [(-5)%Q; (-5)%Q; 3%Q; (-5)%Q] /\
  (* after H's release its effective priority is its own again *)
  reachable istR /\ Qred (effective_priority istR 0) = 0%Q.
Proof. exact C11_example_thm. Qed.
Print Assumptions C11_example.

(* ------------------------------------------------------------------------------------------
   Appended: the bookkeeping of the wait-for graph is consistent in every reachable state
   (Sched/WaitInv.v, WaitOps.v, WaitLib.v, WaitProofs.v: a second invariant [WInv] proved
   through every action jointly with the C13 invariant; Sched/WaitThms.v: corollaries).
   [lwt (getl s l)] is lock l's table of rows (waiter future, task); [tframes s t] the stack of
   library frames of the suspended task t; [InAcquireP l f had] the frame of
   PriorityLock.acquire suspended in `await fut`.  [reachable_ne s]: s is reached by a run
   that satisfies run_ok and in which no eager start ([Spawn SEager], asynkit.eager: the
   coroutine's first part runs under the identity of the creating task) is executed
   ([run_ne], checked along the run like run_ok).
   - ownership (C13): a held lock's owner is the holder; a PriorityTask owner records it;
   - each lock's rows are exactly its queued futures, once each, and name existing tasks;
   - a PriorityTask with a row in l has _waiting_on = l and no other row anywhere;
   - every row has exactly one suspended acquire frame (had = the row's task is a PriorityTask);
   - without eager starts: for a PriorityTask, _waiting_on = l IFF it has a row in l, and the
     task of every row is itself suspended (TSusp) inside acquire() of that lock on that future,
     which is still queued.
   With eager starts the converse fails (a PriorityTask parent keeps _waiting_on after the
   continuation task has left the queue: the real code does the same).  "The task is not done"
   is NOT an invariant of the model: user code can complete a task's future with
   OSetResult / OFutCancel while the task is suspended. *)
From Asynkit Require Import Sched.WaitInv Sched.WaitProofs Sched.WaitThms.

Theorem C11_graph_consistent :
  forall s, reachable s ->
    (forall l t, l < length (locks s) -> In l (tholding (gett s t)) -> lowner (getl s l) = Some t) /\
    (forall l t, lowner (getl s l) = Some t -> is_prio_task s t = true -> In l (tholding (gett s t))) /\
    (forall l, NoDup (map fst (lwt (getl s l))) /\
               Permutation (map fst (lwt (getl s l))) (pq_objs (lpq (getl s l))) /\
               (forall f t, In (f, t) (lwt (getl s l)) -> t < length (tasks s))) /\
    (forall l f t, In (f, t) (lwt (getl s l)) -> is_prio_task s t = true ->
       twaiting (gett s t) = Some l /\
       (forall l' f', In (f', t) (lwt (getl s l')) -> l' = l /\ f' = f)) /\
    (forall l f u, In (f, u) (lwt (getl s l)) ->
       exists t had, In (InAcquireP l f had) (tframes s t) /\ had = is_prio_task s u /\
                     (is_prio_task s t = true -> u = t)) /\
    (reachable_ne s ->
       (forall t l, is_prio_task s t = true ->
          (twaiting (gett s t) = Some l <-> exists f, In (f, t) (lwt (getl s l)))) /\
       (forall l f t, In (f, t) (lwt (getl s l)) ->
          exists frs k, tcont_ (gett s t) = TSusp frs k /\
                        In (InAcquireP l f (is_prio_task s t)) frs /\
                        In f (pq_objs (lpq (getl s l))))).
Proof. exact graph_consistent_full. Qed.
Print Assumptions C11_graph_consistent.
