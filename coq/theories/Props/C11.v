(* C11 - Priority inheritance bounds priority inversion.
   Statements over the executable scheduler model (Sched/Model.v).  Vocabulary
   (Sched/InheritEprio.v):
     own s t          = the task's own priority() (0 for a plain task);
     waiters_of s t   = the tasks queued (lock_waiter_tasks: waiter entries mapped through
                        the lock's future->task table) on the locks in t's _holding_locks;
     waits_on s w t   = w is queued on a lock held by t;  waits_tr = its transitive closure;
     wprio s w        = what waiter w contributes: effective_priority s w for a PriorityTask,
                        0 for a plain task;
     min_of x vals    = x is an element of vals and x <= every element of vals;
     ranked s         = the wait-for graph is acyclic with chains no longer than the
                        recursion budget of effective_priority():
                        exists rank, (waits_on s w t -> rank w < rank t) /\ rank t <= efuel s.
   [effective_priority s t] is the model of PriorityTask.effective_priority(): the
   fuel-bounded recursion [eprio (efuel s) s t]. *)
From Coq Require Import QArith Sorting.Permutation.
From Asynkit Require Import Base.Prelude Queue.PQ Queue.PosPQ Queue.Exec Sched.Model Sched.QFacts
  Sched.LockInv Sched.LockThms Sched.InheritEprio Sched.InheritHandover Sched.InheritKeys
  Sched.InheritFalls Sched.InheritExamples Sched.InheritThms.
Open Scope nat_scope.

(* One unfolding of the recursion, in every state (no hypothesis): the result is a least
   element of the task's own priority and the contributions of the tasks waiting for locks
   it holds, computed with one unit of fuel less. *)
Theorem C11_eprio_unfold :
  forall fuel s t,
    min_of (eprio (S fuel) s t)
           (own s t :: map (fun w => match tprio (gett s w) with
                                     | Some _ => eprio fuel s w | None => 0%Q end)
                           (waiters_of s t)).
Proof. exact eprio_step. Qed.
Print Assumptions C11_eprio_unfold.

(* On an acyclic graph the budget suffices: any larger fuel gives the same value. *)
Theorem C11_fuel_independent :
  forall s fuel t, ranked s -> efuel s <= fuel -> eprio fuel s t = effective_priority s t.
Proof. exact C11_fuel_independent_thm. Qed.
Print Assumptions C11_fuel_independent.

(* ... and effective_priority satisfies the fixpoint equation
   eprio t = min (own t) (min over w waiting on locks held by t of wprio w). *)
Theorem C11_eprio_fixpoint :
  forall s t, ranked s ->
    min_of (effective_priority s t) (own s t :: map (wprio s) (waiters_of s t)).
Proof. exact C11_fixpoint_thm. Qed.
Print Assumptions C11_eprio_fixpoint.

(* Closed form, in every reachable state with an acyclic wait-for graph: the effective
   priority of t is the LEAST own priority among t and all tasks transitively waiting for
   locks held by t - it is below each of them, and it is attained by one of them. *)
Theorem C11_eprio_closed_form :
  forall s t, reachable s -> ranked s ->
    (effective_priority s t <= own s t)%Q /\
    (forall w, waits_tr s w t -> (effective_priority s t <= own s w)%Q) /\
    (exists u, (u = t \/ waits_tr s u t) /\ effective_priority s t = own s u).
Proof. exact C11_closed_form_reach. Qed.
Print Assumptions C11_eprio_closed_form.

(* While w is queued on lock l owned by the PriorityTask h, h is at least as urgent as w,
   and so is every task x up the holder chain (h waits for a lock of x, transitively). *)
Theorem C11_holder_at_least_as_urgent :
  forall s l w h, reachable s -> ranked s ->
    In w (lock_waiter_tasks (getl s l)) -> lowner (getl s l) = Some h ->
    is_prio_task s h = true ->
    (effective_priority s h <= effective_priority s w)%Q /\
    (forall x, waits_tr s h x -> (effective_priority s x <= effective_priority s w)%Q).
Proof. exact C11_holder_reach. Qed.
Print Assumptions C11_holder_at_least_as_urgent.

(* It falls back when the holder releases: after a successful release() of l by the
   PriorityTask t the graph is still acyclic, l has left t's held locks, and t's effective
   priority is least among its own priority and the waiters of the locks it still holds. *)
Theorem C11_falls_back_release :
  forall s t l, ranked s -> llocked (getl s l) = true -> lowner (getl s l) = Some t ->
    is_prio_task s t = true -> t < length (tasks s) ->
    let s' := fst (release_p s t l) in
    ranked s' /\
    tholding (gett s' t) = filter (fun x => negb (Nat.eqb x l)) (tholding (gett s t)) /\
    min_of (effective_priority s' t)
           (own s t :: map (wprio s')
                           (flat_map (fun l' => lock_waiter_tasks (getl s l'))
                                     (filter (fun x => negb (Nat.eqb x l)) (tholding (gett s t))))).
Proof. exact falls_back_release. Qed.
Print Assumptions C11_falls_back_release.

(* ... and when a waiter stops waiting (the `finally` of acquire(): _waiters.remove(entry),
   [leave_lk] = the lock with the entry of future f and its table row removed): the graph
   stays acyclic, the waiter list of l loses exactly the task of f, the other locks are
   untouched, and every effective priority is given by the fixpoint equation over the
   remaining waiters. *)
Theorem C11_falls_back_waiter_leaves :
  forall s l f p q', ranked s -> qwf (lpq (getl s l)) ->
    pq_remove HQ (lpq (getl s l)) (Z.of_nat f) = Some (p, q') ->
    let s' := setl s l (leave_lk (getl s l) f q') in
    ranked s' /\
    Permutation (lock_waiter_tasks (getl s l))
                (task_of_fut (getl s l) f :: lock_waiter_tasks (getl s' l)) /\
    (forall l', l' <> l -> getl s' l' = getl s l') /\
    (forall h, min_of (effective_priority s' h) (own s h :: map (wprio s') (waiters_of s' h))).
Proof. exact falls_back_leave. Qed.
Print Assumptions C11_falls_back_waiter_leaves.

(* Non-vacuity: a reachable state (list loop, two PriorityLocks; H = task 0 holds lock 0;
   W1 = task 1 holds lock 1 and is queued on lock 0 with W2 = task 2; the late X = task 3,
   priority -5, is queued on lock 1) whose graph is acyclic; H and W1 have inherited -5. *)
Theorem C11_example :
  reachable istA /\ ranked istA /\
  map (own istA) [0; 1; 2; 3] = [0%Q; 5%Q; 3%Q; (-5)%Q] /\
  map (fun t => Qred (effective_priority istA t)) [0; 1; 2; 3] = [(-5)%Q; (-5)%Q; 3%Q; (-5)%Q] /\
  (* after H's release its effective priority is its own again *)
  reachable istR /\ Qred (effective_priority istR 0) = 0%Q.
Proof. exact C11_example_thm. Qed.
Print Assumptions C11_example.

(* ------------------------------------------------------------------------------------------
   Appended: the bookkeeping of the wait-for graph is consistent in every reachable state
   (Sched/WaitInv.v, WaitOps.v, WaitLib.v, WaitProofs.v: a second invariant [WInv] proved
   through every action jointly with the C13 invariant; Sched/WaitThms.v: corollaries).
   [lwt (getl s l)] is lock l's table of rows (waiter future, task); [tframes s t] the stack of
   library frames of the suspended task t; [InAcquireP l f had] the frame of
   PriorityLock.acquire suspended in `await fut`.  [reachable_ne s]: s is reached by a run
   that satisfies run_ok and in which no eager start ([Spawn SEager], asynkit.eager: the
   coroutine's first part runs under the identity of the creating task) is executed
   ([run_ne], checked along the run like run_ok).
   - ownership (C13): a held lock's owner is the holder; a PriorityTask owner records it;
   - each lock's rows are exactly its queued futures, once each, and name existing tasks;
   - a PriorityTask with a row in l has _waiting_on = l and no other row anywhere;
   - every row has exactly one suspended acquire frame (had = the row's task is a PriorityTask);
   - without eager starts: for a PriorityTask, _waiting_on = l IFF it has a row in l, and the
     task of every row is itself suspended (TSusp) inside acquire() of that lock on that future,
     which is still queued.
   With eager starts the converse fails (a PriorityTask parent keeps _waiting_on after the
   continuation task has left the queue: the real code does the same).  "The task is not done"
   is NOT an invariant of the model: user code can complete a task's future with
   OSetResult / OFutCancel while the task is suspended. *)
From Asynkit Require Import Sched.WaitInv Sched.WaitProofs Sched.WaitThms.

Theorem C11_graph_consistent :
  forall s, reachable s ->
    (forall l t, l < length (locks s) -> In l (tholding (gett s t)) -> lowner (getl s l) = Some t) /\
    (forall l t, lowner (getl s l) = Some t -> is_prio_task s t = true -> In l (tholding (gett s t))) /\
    (forall l, NoDup (map fst (lwt (getl s l))) /\
               Permutation (map fst (lwt (getl s l))) (pq_objs (lpq (getl s l))) /\
               (forall f t, In (f, t) (lwt (getl s l)) -> t < length (tasks s))) /\
    (forall l f t, In (f, t) (lwt (getl s l)) -> is_prio_task s t = true ->
       twaiting (gett s t) = Some l /\
       (forall l' f', In (f', t) (lwt (getl s l')) -> l' = l /\ f' = f)) /\
    (forall l f u, In (f, u) (lwt (getl s l)) ->
       exists t had, In (InAcquireP l f had) (tframes s t) /\ had = is_prio_task s u /\
                     (is_prio_task s t = true -> u = t)) /\
    (reachable_ne s ->
       (forall t l, is_prio_task s t = true ->
          (twaiting (gett s t) = Some l <-> exists f, In (f, t) (lwt (getl s l)))) /\
       (forall l f t, In (f, t) (lwt (getl s l)) ->
          exists frs k, tcont_ (gett s t) = TSusp frs k /\
                        In (InAcquireP l f (is_prio_task s t)) frs /\
                        In f (pq_objs (lpq (getl s l))))).
Proof. exact graph_consistent_full. Qed.
Print Assumptions C11_graph_consistent.

(* ------------------------------------------------------------------------------------------
   Appended: the hypothesis [ranked] discharged on the property's OWN domain - programs whose
   tasks acquire the PriorityLocks IN A FIXED ORDER (Sched/OrderInv.v, OrderPass.v, OrderThms.v,
   OrderExample.v).

   Side condition [run_ord s0 acts], checked along the run like [run_ok] / [run_ne]
   (Sched/OrderPass.v mirrors exec / resume_stack / step_task / run_one):
     whenever a task t starts PriorityLock.acquire() on lock l - [lib_call t (OAcquire l)], or
     the re-acquisition of a condition's lock when a frame of wait() is resumed - then
       holds_below s t l :=  lkind_ (getl s l) = LPrio ->
                             forall l0, In l0 (tholding (gett s t)) -> l0 < l,
     i.e. the locks in its _holding_locks all have a smaller index.  (Programs built from nested
     sections `await l.acquire(); try: ... finally: l.release()` over an increasing sequence of
     lock indices - harness/props/c11.py: sect / nest - satisfy it; shown for instances by
     computation, [C11_ordered_example]; a syntactic proof is not mechanised.)
   [reachable_ord s]: s is reached from an initial state (any loop kind, lock/condition/event
   tables) by an action list satisfying run_ok, run_ne and run_ord.
   [ordf s] is the invariant that the pass maintains:
     a task suspended inside acquire() of lock l' holds only locks with index < l'. *)
From Asynkit Require Import Sched.LockProofs Sched.OrderInv Sched.OrderPass Sched.OrderThms
  Sched.OrderExample.

(* The invariant, for every run (statement fully unfolded), in three readings: by frames, by
   the waiter tables, and for the holder of a lock: a PriorityTask that holds l and is itself
   queued is queued on a lock of LARGER index (so there is no waits-for cycle through l). *)
Theorem C11_fixed_order_invariant :
  forall prio_loop factor draws lks cds nev acts,
    let s0 := init_st prio_loop factor draws lks cds nev in
    run_ok s0 acts -> run_ne s0 acts -> run_ord s0 acts ->
    let s := fold_left do_action acts s0 in
    (forall u l' f had l, In (InAcquireP l' f had) (tframes s u) ->
                          In l (tholding (gett s u)) -> l < l') /\
    (forall l' f u l, In (f, u) (lwt (getl s l')) -> In l (tholding (gett s u)) -> l < l') /\
    (forall l o l0 f, lowner (getl s l) = Some o -> is_prio_task s o = true ->
                      In (f, o) (lwt (getl s l0)) -> l < l0).
Proof.
  intros p fa dr lks cds nev acts s0 Hok Hne Ho s.
  assert (R : reachable_ord s) by (exists p, fa, dr, lks, cds, nev, acts; auto).
  pose proof (reachable_inv s (reachable_ord_reachable s R)) as I.
  pose proof (reachable_ne_WInv s (reachable_ord_ne s R)) as W.
  pose proof (reachable_ord_ordf s R) as O.
  split; [exact O|]. split.
  - intros l' f u l. now apply queued_holds_below.
  - intros l o l0 f. now apply holder_waits_larger.
Qed.
Print Assumptions C11_fixed_order_invariant.

(* Every state of such a run has an acyclic wait-for graph whose chains fit the recursion
   budget of effective_priority(): the rank of a task is (index of the lock it waits for) + 1,
   |locks| + 1 for a PriorityTask that does not wait, 0 for a plain task. *)
Theorem C11_ranked_reachable :
  forall s, reachable_ord s ->
    exists rank : nat -> nat,
      (forall w t, waits_on s w t -> rank w < rank t) /\
      (forall t, rank t <= S (length (locks s))) /\ (forall t, rank t <= efuel s).
Proof.
  intros s R.
  pose proof (reachable_inv s (reachable_ord_reachable s R)) as I.
  pose proof (reachable_ne_WInv s (reachable_ord_ne s R)) as W.
  pose proof (reachable_ord_ordf s R) as O.
  exists (lrank s). split; [now apply lrank_dec|]. split; [apply lrank_bound|].
  intros t. pose proof (lrank_bound s t). unfold efuel. lia.
Qed.
Print Assumptions C11_ranked_reachable.

Theorem C11_ranked_reachable_ranked : forall s, reachable_ord s -> ranked s.
Proof. exact ranked_reachable. Qed.
Print Assumptions C11_ranked_reachable_ranked.

(* The C11 theorems without the hypothesis [ranked]. *)
Theorem C11_holder_at_least_as_urgent_reachable :
  forall s l w h, reachable_ord s ->
    In w (lock_waiter_tasks (getl s l)) -> lowner (getl s l) = Some h ->
    is_prio_task s h = true ->
    (effective_priority s h <= effective_priority s w)%Q /\
    (forall x, waits_tr s h x -> (effective_priority s x <= effective_priority s w)%Q).
Proof. exact holder_reach_ord. Qed.
Print Assumptions C11_holder_at_least_as_urgent_reachable.

Theorem C11_eprio_closed_form_reachable :
  forall s t, reachable_ord s ->
    (effective_priority s t <= own s t)%Q /\
    (forall w, waits_tr s w t -> (effective_priority s t <= own s w)%Q) /\
    (exists u, (u = t \/ waits_tr s u t) /\ effective_priority s t = own s u).
Proof. exact closed_form_reach_ord. Qed.
Print Assumptions C11_eprio_closed_form_reachable.

Theorem C11_eprio_fixpoint_reachable :
  forall s t, reachable_ord s ->
    min_of (effective_priority s t) (own s t :: map (wprio s) (waiters_of s t)).
Proof. exact fixpoint_reach_ord. Qed.
Print Assumptions C11_eprio_fixpoint_reachable.

(* The fuel fact: on this domain |locks| + 1 levels of recursion already give the value of
   effective_priority() (whose budget is |tasks| + |locks| + 1), and so does any larger budget. *)
Theorem C11_fuel_suffices_reachable :
  forall s fuel t, reachable_ord s -> S (length (locks s)) <= fuel ->
    eprio fuel s t = effective_priority s t.
Proof. exact fuel_reach_ord. Qed.
Print Assumptions C11_fuel_suffices_reachable.

(* Non-vacuity: three PriorityTasks, two locks, nested sections (C = task 0, priority 7, holds
   lock 1; A = task 1, priority 4, holds lock 0 and is queued on lock 1 inside that section;
   B = task 2, priority -2, arrives last and is queued on lock 0: chain B -> A -> C).  The run
   satisfies run_ok, run_ne, run_ord to its end; in the state [est] all three effective
   priorities are -2 and A's entry in lock 1 has been re-keyed to -2. *)
Theorem C11_ordered_example :
  run_ok (init_st false 0%Q [] [LPrio; LPrio] [] 0) eall /\
  run_ne (init_st false 0%Q [] [LPrio; LPrio] [] 0) eall /\
  run_ord (init_st false 0%Q [] [LPrio; LPrio] [] 0) eall /\
  reachable_ord est /\ ranked est /\
  tholding (gett est 1) = [0] /\ lwt (getl est 1) = [(2, 1)] /\ lowner (getl est 1) = Some 0 /\
  lwt (getl est 0) = [(4, 2)] /\ lowner (getl est 0) = Some 1 /\
  map (fun t => Qred (effective_priority est t)) [0; 1; 2] = [(-2)%Q; (-2)%Q; (-2)%Q] /\
  arr (lpq (getl est 1)) = [mkE (-2)%Q 0 2].
Proof.
  destruct est_facts as (A & B & C & D & E & F & G & _).
  exact (conj erun_ok (conj erun_ne (conj erun_ord (conj est_reachable_ord (conj est_ranked
         (conj A (conj B (conj C (conj D (conj E (conj F G))))))))))).
Qed.
Print Assumptions C11_ordered_example.
