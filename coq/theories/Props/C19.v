(* C19 - Starvation boosting is prompt, history-independent and safe.
   Statements only; proofs are in Queue/BoostProofs.v.  The model
   (Queue/PosPQ.v) is that of the code repaired by fixes/F11-boost.patch; the
   unrepaired boosting code is kept in Queue/BoostOld.v for the witnesses of
   C19_refuted_before_fix.

   Vocabulary (all defined in Queue/PosPQ.v, Queue/PQCorr.v, Queue/BoostProofs.v):
     pos_exec s ops      the state after the operations ops (any of append,
                         append_pri, insert, popleft, remove, find, reschedule,
                         reschedule_all, clear, iteration, len), as executed by
                         the correspondence run [pos_run] (heap = heapq model HPV)
     plen s              len(queue)
     pairs H s l         the sustained load: for every (obj, priority) of l one
                         round  popleft(); append_pri(obj, priority)
     pairs_ap H s l      the same with rounds  append_pri(obj, priority); popleft()
     pre_maint H s1 o p  the state on which update_counters(True) decides while
                         append_pri(o, p) runs in s1 (entry added, n_inserted
                         incremented); do_maintenance is applied to this state
     due s               the test  min(n_inserted, n_removed) >
                                   max(10, len) + last_maintenance
     maintenance_in_round H s x   the popleft of round x succeeds in s and the
                         test is true in its append_pri, i.e. (lemma
                         C19_due_means_maintenance) do_maintenance runs there
     prio e              PriorityValue.priority() = base + boost
     regular e           priority_class <> 0                                  *)
From Coq Require Import QArith Permutation.
From Asynkit Require Import Base.Prelude Base.Obs Queue.PQ Queue.PosPQ Queue.Exec Queue.PQCorr
     Queue.BoostOld Queue.BoostProofs.
Local Open Scope Z_scope.

(* In every reachable state 0 <= last_maintenance <= min(n_inserted, n_removed). *)
Theorem C19_counter_inv : forall (f : Q) (draws : list Q) (history : list posop),
  let s := pos_exec (pos_empty f draws) history in
  0 <= last_maint s /\ last_maint s <= Z.min (n_ins s) (n_rem s).
Proof. intros f ds ops. rewrite pos_exec_gexec. apply counter_inv. Qed.
Print Assumptions C19_counter_inv.

(* the same for every heap implementation *)
Theorem C19_counter_inv_any_heap : forall (H : heapimpl pv) f draws history,
  let s := gexec H (pos_empty f draws) history in
  0 <= last_maint s /\ last_maint s <= Z.min (n_ins s) (n_rem s).
Proof. exact counter_inv. Qed.
Print Assumptions C19_counter_inv_any_heap.

(* when the test is true, append_pri is: do_maintenance, then
   last_maintenance := min(n_inserted, n_removed) *)
Theorem C19_due_means_maintenance : forall (H : heapimpl pv) s o p,
  due (pre_maint H s o p) = true ->
  pos_append_pri H s o p =
  set_lm (do_maintenance H (pre_maint H s o p)) (Z.min (n_ins s + 1) (n_rem s)).
Proof. exact append_runs_maintenance. Qed.
Print Assumptions C19_due_means_maintenance.

(* Promptness: after ANY history, with L >= 2 entries queued and the length kept
   constant by popleft/append_pri rounds of arbitrary new entries,
   (a) do_maintenance runs in one of the first max(10,L)+1 rounds, and
   (b) it runs in a round number L+1 .. L+max(10,L)+1, and in that run every
       entry that was already queued at the start (inserted_at <= n_inserted
       then) passes the straggler test  inserted_at < n_inserted - len.
   Both bounds depend on L only, not on the history. *)
Theorem C19_prompt : forall (f : Q) (draws : list Q) (history : list posop)
                            (load : list (Z * Q)),
  let s := pos_exec (pos_empty f draws) history in
  let L := plen s in
  2 <= L ->
  (Z.max 10 L + 1 <= Z.of_nat (length load) ->
   exists l1 x l2, load = l1 ++ x :: l2 /\
     Z.of_nat (length l1) <= Z.max 10 L /\
     maintenance_in_round HPV (pairs HPV s l1) x)
  /\
  (L + Z.max 10 L + 1 <= Z.of_nat (length load) ->
   exists l1 x l2, load = l1 ++ x :: l2 /\
     L <= Z.of_nat (length l1) <= L + Z.max 10 L /\
     maintenance_in_round HPV (pairs HPV s l1) x /\
     forall o s1, pos_popleft HPV (pairs HPV s l1) = Some (o, s1) ->
       let sm := pre_maint HPV s1 (fst x) (snd x) in
       plen sm = L /\
       forall e, In e (arr (pq_ sm)) -> ins_at (epri e) <= n_ins s ->
                 (ins_at (epri e) <? n_ins sm - plen sm) = true).
Proof.
  intros f ds hist load s L HL.
  assert (Hc : cinv s).
  { unfold s. rewrite pos_exec_gexec. apply gexec_cinv. unfold cinv; simpl; lia. }
  split; intros Hlen.
  - apply (prompt_maintenance HPV heap_len_HPV s load Hc HL Hlen).
  - apply (prompt HPV heap_len_HPV s load Hc HL Hlen).
Qed.
Print Assumptions C19_prompt.

(* the same from any state satisfying the counter invariant, for every heap
   implementation whose primitives change the length as expected *)
Theorem C19_prompt_any_heap : forall (H : heapimpl pv), heap_len H ->
  forall s load, cinv s -> 2 <= plen s ->
  plen s + Z.max 10 (plen s) + 1 <= Z.of_nat (length load) ->
  exists l1 x l2, load = l1 ++ x :: l2 /\
    plen s <= Z.of_nat (length l1) <= plen s + Z.max 10 (plen s) /\
    maintenance_in_round H (pairs H s l1) x /\
    forall o s1, pos_popleft H (pairs H s l1) = Some (o, s1) ->
      let sm := pre_maint H s1 (fst x) (snd x) in
      plen sm = plen s /\
      forall e, In e (arr (pq_ sm)) -> ins_at (epri e) <= n_ins s ->
                (ins_at (epri e) <? n_ins sm - plen sm) = true.
Proof. exact prompt. Qed.
Print Assumptions C19_prompt_any_heap.

(* The other order of a round (append_pri first, then popleft) needs only L >= 1:
   after ANY history maintenance runs in one of the first max(10,L+1)+2 rounds,
   and in every round after more than L rounds each entry queued since the start
   passes the straggler test. *)
Theorem C19_prompt_append_first : forall (f : Q) (draws : list Q) (history : list posop)
                                         (load : list (Z * Q)),
  let s := pos_exec (pos_empty f draws) history in
  let L := plen s in
  1 <= L ->
  (Z.max 10 (L + 1) + 2 <= Z.of_nat (length load) ->
   exists l1 x l2, load = l1 ++ x :: l2 /\
     Z.of_nat (length l1) <= Z.max 10 (L + 1) + 1 /\
     due (pre_maint HPV (pairs_ap HPV s l1) (fst x) (snd x)) = true)
  /\
  (forall l1 x, L < Z.of_nat (length l1) ->
     let sm := pre_maint HPV (pairs_ap HPV s l1) (fst x) (snd x) in
     plen sm = L + 1 /\
     forall e, In e (arr (pq_ sm)) -> ins_at (epri e) <= n_ins s ->
               (ins_at (epri e) <? n_ins sm - plen sm) = true).
Proof.
  intros f ds hist load s L HL.
  assert (Hc : cinv s).
  { unfold s. rewrite pos_exec_gexec. apply gexec_cinv. unfold cinv; simpl; lia. }
  split.
  - intros Hlen. apply (prompt_ap HPV heap_len_HPV s load Hc HL Hlen).
  - intros l1 x Hl. apply (prompt_ap_straggler HPV heap_len_HPV s l1 x Hc HL Hl).
Qed.
Print Assumptions C19_prompt_append_first.

(* Safety of one maintenance run (any heap implementation, any state, factor > 0,
   every remaining draw < 1): either nothing changes, or - with m the priority
   of the most urgent REGULAR entry - the new array is the old one (re-heapified
   when something was boosted) in which every entry is either untouched or is a
   regular straggler with priority() p > m whose boost was lowered
   (boost' < boost: only more urgent) with  m - (factor-1)(p-m) < base + boost';
   object, sequence number, base priority, inserted_at and class never change. *)
Theorem C19_boost_safe : forall (H : heapimpl pv) (s : pos),
  (0 < factor s)%Q -> Forall (fun d => d < 1)%Q (draws s) ->
  let s' := do_maintenance H s in
  s' = s \/
  exists (m : Q) (a' : list (entry pv)),
    ((exists e, In e (arr (pq_ s)) /\ regular e /\ (prio e == m)%Q) /\
     (forall e, In e (arr (pq_ s)) -> regular e -> (m <= prio e)%Q)) /\
    Forall2 (fun e e' =>
       e' = e \/
       (regular e /\ ins_at (epri e) < n_ins s - plen s /\ (m < prio e)%Q /\
        eobj e' = eobj e /\ eseq e' = eseq e /\
        base (epri e') = base (epri e) /\ ins_at (epri e') = ins_at (epri e) /\
        pclass (epri e') = pclass (epri e) /\
        (boost (epri e') < boost (epri e))%Q /\
        (m - (factor s - 1) * (prio e - m) < prio e')%Q))
      (arr (pq_ s)) a' /\
    (arr (pq_ s') = a' \/ arr (pq_ s') = heapify H a').
Proof. exact boost_safe. Qed.
Print Assumptions C19_boost_safe.

(* ... counters, sequence counter and factor are untouched, *)
Theorem C19_boost_safe_frame : forall (H : heapimpl pv) (s : pos),
  last_maint (do_maintenance H s) = last_maint s /\
  n_ins (do_maintenance H s) = n_ins s /\ n_rem (do_maintenance H s) = n_rem s /\
  factor (do_maintenance H s) = factor s /\
  seqn (pq_ (do_maintenance H s)) = seqn (pq_ s).
Proof. exact do_maintenance_frame. Qed.
Print Assumptions C19_boost_safe_frame.

(* ... nothing is lost, duplicated or renumbered when heapify permutes, *)
Theorem C19_boost_safe_contents : forall (H : heapimpl pv) (s : pos),
  (forall a, Permutation (heapify H a) a) ->
  (0 < factor s)%Q -> Forall (fun d => d < 1)%Q (draws s) ->
  Permutation
    (map (fun e => (eobj e, eseq e, base (epri e), ins_at (epri e), pclass (epri e)))
         (arr (pq_ (do_maintenance H s))))
    (map (fun e => (eobj e, eseq e, base (epri e), ins_at (epri e), pclass (epri e)))
         (arr (pq_ s))).
Proof. exact boost_safe_contents. Qed.
Print Assumptions C19_boost_safe_contents.

(* ... and whatever the boosts, a positional entry (class 0) compares before a
   regular one (class 1): PriorityValue.__lt__ looks at the class first. *)
Theorem C19_positional_first : forall a b : pv,
  pclass a < pclass b -> pv_lt a b = true /\ pv_lt b a = false.
Proof. exact class_dominates. Qed.
Print Assumptions C19_positional_first.

(* A considered entry IS boosted: with factor > 0, positive draws and enough of
   them, every regular straggler strictly less urgent than m gets a strictly
   lower boost from boost_stragglers. *)
Theorem C19_considered_is_boosted : forall a limit (m f : Q) ds,
  (0 < f)%Q -> Forall (fun d => 0 < d)%Q ds -> (length a <= length ds)%nat ->
  Forall2 (fun e e' => regular e -> ins_at (epri e) < limit -> (m < prio e)%Q ->
                       (boost (epri e') < boost (epri e))%Q)
          a (fst (fst (boost_loop a limit m f ds))).
Proof. exact boost_loop_complete. Qed.
Print Assumptions C19_considered_is_boosted.

(* deterministic core of "so it eventually runs": a draw r with r * factor >= 1
   takes the boosted entry to the most urgent regular priority or beyond *)
Theorem C19_boost_reaches_min : forall m p f r : Q,
  (m < p)%Q -> (1 <= r * f)%Q -> (p + r * ((m - p) * f) <= m)%Q.
Proof. exact boost_reaches_min. Qed.
Print Assumptions C19_boost_reaches_min.

(* The unrepaired code (Queue/BoostOld.v, heap = heapq model) violated all three
   parts; every witness is a concrete history replayed by computation:
   (i)  after a busy period of 120 rounds and a drain, last_maintenance = 110
        while both counters are 0, and with 3 entries queued (bound 11 rounds)
        100 further rounds pass without a maintenance run: the straggler
        (object 7, priority 10) is never boosted;
   (ii) with a positional entry at the head, the most urgent regular entry
        (object 1, priority 5) is boosted by -15/4 and object 2 (priority 7)
        to 7/4 < 5 - (3/2-1)(7-5) = 4;
   (iii) an entry boosted from 10 to 17/8 is put back to 71/8 by the next run. *)
Theorem C19_refuted_before_fix :
  (let s := old_exec (3#2) [1#2] hist_i in
   last_maint s = 110 /\ Z.min (n_ins s) (n_rem s) = 0 /\ plen s = 3 /\
   let s' := fold_left old_step (rounds 100 5 0%Q) s in
   last_maint s' = last_maint s /\
   summary s' = [(5, 1, 0%Q, 0%Q); (7, 1, 10%Q, 0%Q); (5, 1, 0%Q, 0%Q)])
  /\
  (let s := old_exec (3#2) [1#2; 1#2; 1#2] hist_ii in
   summary s = [(1, 1, 5%Q, 0%Q); (2, 1, 7%Q, 0%Q)] /\
   summary (old_step s (OI0 4)) =
     [(4, 0, 0%Q, 0%Q); (2, 1, 7%Q, (-21#4)%Q); (1, 1, 5%Q, (-15#4)%Q)])
  /\
  (summary (old_exec 1 [7#8; 1#8; 1#8] (hist_iii 22))
     = [(3, 1, 1%Q, 0%Q); (1, 1, 10%Q, (-63#8)%Q)] /\
   summary (old_exec 1 [7#8; 1#8; 1#8] (hist_iii 23))
     = [(3, 1, 1%Q, 0%Q); (1, 1, 10%Q, (-9#8)%Q)]).
Proof.
  split; [|split].
  - exact refuted_prompt.
  - exact refuted_min_positional.
  - exact refuted_only_more_urgent.
Qed.
Print Assumptions C19_refuted_before_fix.

(* ======================================================================== *)
(* Complements (proofs in Queue/BoostMore.v)                                  *)
(* ======================================================================== *)
From Asynkit Require Import Queue.Heap Queue.BoostMore.

(* (a) C19_boost_safe_contents for the executed heap, with NO hypothesis (not
   even on the factor or the draws): one maintenance run never changes the
   multiset of (object, sequence number, base priority, inserted_at, class);
   CPython's heapify algorithm (HeapqModel) is proved to permute. *)
Theorem C19_boost_safe_contents_HPV : forall s : pos,
  Permutation
    (map (fun e => (eobj e, eseq e, base (epri e), ins_at (epri e), pclass (epri e)))
         (arr (pq_ (do_maintenance HPV s))))
    (map (fun e => (eobj e, eseq e, base (epri e), ins_at (epri e), pclass (epri e)))
         (arr (pq_ s))).
Proof. exact maintenance_contents_HPV. Qed.
Print Assumptions C19_boost_safe_contents_HPV.

(* ... and for every heap implementation whose heapify permutes *)
Theorem C19_boost_safe_contents_any_heap : forall (H : heapimpl pv),
  (forall a, Permutation (heapify H a) a) -> forall s : pos,
  Permutation
    (map (fun e => (eobj e, eseq e, base (epri e), ins_at (epri e), pclass (epri e)))
         (arr (pq_ (do_maintenance H s))))
    (map (fun e => (eobj e, eseq e, base (epri e), ins_at (epri e), pclass (epri e)))
         (arr (pq_ s))).
Proof. exact maintenance_contents. Qed.
Print Assumptions C19_boost_safe_contents_any_heap.

(* (b) In every reachable state (any boost factor, any draws, any history of
   any operations) every queued entry has inserted_at <= n_inserted. *)
Theorem C19_ins_at_inv : forall (f : Q) (draws : list Q) (history : list posop),
  let s := pos_exec (pos_empty f draws) history in
  Forall (fun e => ins_at (epri e) <= n_ins s) (arr (pq_ s)).
Proof.
  intros f ds ops. rewrite pos_exec_gexec. exact (ins_at_inv HPV HPV_heapspec f ds ops).
Qed.
Print Assumptions C19_ins_at_inv.

Theorem C19_ins_at_inv_any_heap : forall (H : heapimpl pv), HeapSpec H ->
  forall f draws history,
  let s := gexec H (pos_empty f draws) history in
  Forall (fun e => ins_at (epri e) <= n_ins s) (arr (pq_ s)).
Proof. exact ins_at_inv. Qed.
Print Assumptions C19_ins_at_inv_any_heap.

(* inserted_at of a queued object only changes by append / append_pri / insert /
   reschedule: after any other operation (popleft, remove, find, reschedule_all,
   clear, iteration, len) every entry is an entry of the state before with the
   same object and the same inserted_at *)
Theorem C19_ins_at_frame : forall (H : heapimpl pv), HeapSpec H -> forall s op,
  match op with
  | QAppend _ _ | QAppendPri _ _ | QInsert _ _ | QResched _ _ => True
  | _ => forall e', In e' (arr (pq_ (gstep H s op))) ->
                    exists e, In e (arr (pq_ s)) /\
                              eobj e' = eobj e /\ ins_at (epri e') = ins_at (epri e)
  end.
Proof. exact ins_at_frame. Qed.
Print Assumptions C19_ins_at_frame.

(* C19_prompt (b) without the explicit hypothesis on inserted_at: after ANY
   history from the empty queue, with L >= 2 entries queued and the length kept
   constant by popleft/append_pri rounds of arbitrary new entries, maintenance
   runs in a round number L+1 .. L+max(10,L)+1, and in that run EVERY ENTRY OF
   THE START STATE that is still queued - recognised by (object, sequence
   number, base priority, inserted_at, class), the part of an entry that
   maintenance never changes (C19_boost_safe_contents) - passes the straggler
   test  inserted_at < n_inserted - len. *)
Theorem C19_prompt_closed : forall (f : Q) (draws : list Q) (history : list posop)
                                   (load : list (Z * Q)),
  let s := pos_exec (pos_empty f draws) history in
  let L := plen s in
  2 <= L ->
  L + Z.max 10 L + 1 <= Z.of_nat (length load) ->
  exists l1 x l2, load = l1 ++ x :: l2 /\
    L <= Z.of_nat (length l1) <= L + Z.max 10 L /\
    maintenance_in_round HPV (pairs HPV s l1) x /\
    forall o s1, pos_popleft HPV (pairs HPV s l1) = Some (o, s1) ->
      let sm := pre_maint HPV s1 (fst x) (snd x) in
      plen sm = L /\
      forall e, In e (arr (pq_ sm)) ->
        In (eobj e, eseq e, base (epri e), ins_at (epri e), pclass (epri e))
           (map (fun e0 => (eobj e0, eseq e0, base (epri e0), ins_at (epri e0), pclass (epri e0)))
                (arr (pq_ s))) ->
        (ins_at (epri e) <? n_ins sm - plen sm) = true.
Proof. exact prompt_closed. Qed.
Print Assumptions C19_prompt_closed.

(* (c) "so it eventually runs", deterministically.
   boost_step m f r p   = priority() after one maintenance run in which the most
                          urgent regular priority is m: p + r (m - p) f for a
                          considered entry (p > m) with its draw r, else p
   boost_many m f rs p  = ... after successive runs with draws rs, same m
   shrink rho f         = max(0, 1 - rho f)
   qpow x k             = x^k
   One run of the model does boost_step on every entry it considers: *)
Theorem C19_maintenance_shrinks : forall (H : heapimpl pv),
  (forall a, Permutation (heapify H a) a) ->
  forall (s : pos) (rho : Q) (e : entry pv) (m : Q),
  (0 < factor s)%Q -> (0 < rho)%Q -> Forall (fun d => rho <= d)%Q (draws s) ->
  (length (arr (pq_ s)) <= length (draws s))%nat ->
  In e (arr (pq_ s)) -> regular e -> ins_at (epri e) < n_ins s - plen s ->
  (* m is the priority of the most urgent regular entry *)
  ((exists e0, In e0 (arr (pq_ s)) /\ regular e0 /\ (prio e0 == m)%Q) /\
   (forall e0, In e0 (arr (pq_ s)) -> regular e0 -> (m <= prio e0)%Q)) ->
  (m < prio e)%Q ->
  exists e', In e' (arr (pq_ (do_maintenance H s))) /\
    (eobj e', eseq e', base (epri e'), ins_at (epri e'), pclass (epri e'))
    = (eobj e, eseq e, base (epri e), ins_at (epri e), pclass (epri e)) /\
    (prio e' - m <= shrink rho (factor s) * (prio e - m))%Q /\ (prio e' <= prio e)%Q.
Proof. exact maintenance_shrinks. Qed.
Print Assumptions C19_maintenance_shrinks.

(* The deterministic bound: with factor f > 0 and every draw >= rho > 0, after k
   maintenance runs that consider the entry (same m in each) its priority() is
   at most  m + max(0, 1 - rho f)^k (p - m), and never above p.  Hence
   - if rho f >= 1, ONE run brings it to <= m (it then precedes the stream
     entries of priority m that arrive later: older sequence number);
   - any threshold t > m (e.g. the priority of less urgent stream entries) is
     passed after the k with (1 - rho f)^k (p - m) <= t - m;
   - but m itself is never reached while every draw has r f < 1, so "within k
     runs priority() <= m" holds iff some draw has r f >= 1 (last clause). *)
Theorem C19_eventually_runs_deterministic : forall (m f rho : Q) (rs : list Q) (p : Q),
  (0 < f)%Q -> (0 < rho)%Q -> Forall (fun r => rho <= r)%Q rs -> (m < p)%Q ->
  (boost_many m f rs p - m <= qpow (shrink rho f) (length rs) * (p - m))%Q /\
  (boost_many m f rs p <= p)%Q /\
  (shrink rho f < 1)%Q /\
  (1 <= rho * f -> rs <> [] -> boost_many m f rs p <= m)%Q /\
  (forall t, qpow (shrink rho f) (length rs) * (p - m) <= t - m -> boost_many m f rs p <= t)%Q.
Proof.
  intros m f rho rs p Hf Hrho Hall Hp.
  destruct (boost_many_bound m f rho rs p Hf Hrho Hall Hp) as [B1 B2].
  split; [exact B1|]. split; [exact B2|]. split; [exact (shrink_lt_1 rho f Hrho Hf)|]. split.
  - intros H1 Hne. destruct rs as [|r rs]; [congruence|].
    exact (boost_one_run_suffices m f rho r rs p Hf Hrho H1 Hall Hp).
  - intros t Ht. exact (boost_passes_threshold m f rho rs p t Hf Hrho Hall Hp Ht).
Qed.
Print Assumptions C19_eventually_runs_deterministic.

Theorem C19_eventually_runs_needs_big_draw : forall (m f : Q) (rs : list Q) (p : Q),
  (0 < f)%Q -> (m < p)%Q ->
  (Forall (fun r => 0 <= r /\ r * f < 1)%Q rs -> (m < boost_many m f rs p)%Q) /\
  (forall rs1 r rs2, rs = rs1 ++ r :: rs2 -> Forall (fun r => 0 <= r)%Q rs ->
     (1 <= r * f)%Q -> (boost_many m f rs p <= m)%Q).
Proof.
  intros m f rs p Hf Hp. split.
  - intros Hall. exact (boost_never_reaches m f rs p Hf Hall Hp).
  - intros rs1 r rs2 -> Hall Hr. exact (boost_reaches_with_big_draw m f rs1 r rs2 p Hf Hall Hr).
Qed.
Print Assumptions C19_eventually_runs_needs_big_draw.

(* ======================================================================== *)
(* Whole histories (proofs in Queue/BoostHist.v)                              *)
(* ======================================================================== *)
(* Additional vocabulary (Queue/BoostHist.v):
     round_ops load        the operation history  popleft(); append_pri(o1,p1);
                           popleft(); append_pri(o2,p2); ...  of a load
     ident e               (object, sequence number, base priority, inserted_at,
                           class): everything of an entry but its boost
     popped_in H s e load  some popleft of the load, started in s, returns e
                           (an entry e1 with ident e1 = ident e)
     pair_pa H s x         the state after the round x = (o,p) started in s
     window L              L + max(10,L) + 1 rounds, i.e. 2(L + max(10,L) + 1)
                           <= 4L + 22 queue operations
     shrink rho f          max(0, 1 - rho f);   qpow x k = x^k
   The prior history is ARBITRARY (any operations, any number of drains to
   empty, any boost factor and draws): it is summarised by the invariant
   SInv = heap layout + distinct sequence numbers + C19_counter_inv +
   C19_ins_at_inv, which holds in every reachable state WITH boosting enabled
   (reachable_SInv; maintenance re-heapifies iff it boosted something).       *)
From Asynkit Require Import Queue.BoostHist.

(* the sustained load IS an operation history: two operations per round *)
Theorem C19_rounds_are_operations : forall f ds history (load : list (Z * Q)),
  let s := pos_exec (pos_empty f ds) history in
  2 <= plen s ->
  pairs HPV s load = pos_exec s (round_ops load) /\
  length (round_ops load) = (2 * length load)%nat.
Proof.
  intros f ds history load s HL. split; [|apply round_ops_length].
  apply pairs_pos_exec; [apply reachable_SInv | exact HL].
Qed.
Print Assumptions C19_rounds_are_operations.

(* Sustained-load history.  After an ARBITRARY prior history the queue holds
   L >= 2 entries, among them the regular entry e (the straggler).  The load
   keeps the length at L: every popleft is followed by an append_pri of a new
   entry (of any priority - the more urgent the stream, the longer e waits).
   Factor > 0, every remaining draw >= rho > 0, L draws available per round.
   Then in EVERY window  win  of  L + max(10,L) + 1  rounds of the load (after
   any number  pre  of earlier rounds) there is a round x, preceded by at most
   L + max(10,L) rounds of the window, such that e was popped by then, or the
   append of round x runs maintenance and that run CONSIDERS e: its current
   version e1 (same ident, priority() only lower) is in the array, passes the
   straggler test  inserted_at < n_inserted - len, and with m the most urgent
   regular priority at that moment, if priority() > m its boost is strictly
   lowered and its distance to m multiplied by at most max(0, 1 - rho factor);
   in any case its distance to any bound hi >= the appended priority (G: any
   bound of that distance) is multiplied by at most that factor.
   Nothing here mentions the prior history. *)
Theorem C19_straggler_history :
  forall (f : Q) (ds : list Q) (history : list posop)
         (rho : Q) (e : entry pv) (pre win : list (Z * Q)),
  let s := pos_exec (pos_empty f ds) history in
  let L := plen s in
  2 <= L -> In e (arr (pq_ s)) -> regular e ->
  (0 < factor s)%Q -> (0 < rho)%Q ->
  Forall (fun d => rho <= d)%Q (draws s) ->
  Z.of_nat (length (pre ++ win)) * L <= Z.of_nat (length (draws s)) ->
  L + Z.max 10 L + 1 <= Z.of_nat (length win) ->
  exists l1 x l2, win = l1 ++ x :: l2 /\
    L <= Z.of_nat (length l1) <= L + Z.max 10 L /\
    (popped_in HPV s e (pre ++ l1 ++ [x]) \/
     exists e1 o s1,
       let st1 := pairs HPV s (pre ++ l1) in
       In e1 (arr (pq_ st1)) /\ ident e1 = ident e /\ (prio e1 <= prio e)%Q /\
       pos_popleft HPV st1 = Some (o, s1) /\
       let sm := pre_maint HPV s1 (fst x) (snd x) in
       due sm = true /\                                  (* maintenance runs *)
       In e1 (arr (pq_ sm)) /\
       ins_at (epri e1) < n_ins sm - plen sm /\          (* e1 is a straggler *)
       exists e', In e' (arr (pq_ (pair_pa HPV st1 x))) /\
         ident e' = ident e1 /\ (prio e' <= prio e1)%Q /\
         (forall m,
            ((exists e0, In e0 (arr (pq_ sm)) /\ regular e0 /\ (prio e0 == m)%Q) /\
             (forall e0, In e0 (arr (pq_ sm)) -> regular e0 -> (m <= prio e0)%Q)) ->
            (m < prio e1)%Q ->
            (boost (epri e') < boost (epri e1))%Q /\
            (prio e' - m <= shrink rho (factor s) * (prio e1 - m))%Q) /\
         (forall hi G, (snd x <= hi)%Q -> (0 <= G)%Q -> (prio e1 - hi <= G)%Q ->
            (prio e' - hi <= shrink rho (factor s) * G)%Q)).
Proof.
  intros f ds history rho e pre win s L HL He Hreg Hf Hrho Hd Hdl Hlen.
  assert (Hs : SInv HPV s) by apply reachable_SInv.
  destruct (straggler_history HPV HPV_plt HPV_heapspec s e rho pre win Hs HL He Hreg Hf Hrho)
    as (l1 & x & l2 & E & B & C); [split; assumption | exact Hlen |].
  exists l1, x, l2. split; [exact E|]. split; [exact B|].
  destruct C as [Pp|(e1 & He1 & [T1 T2] & (o & s1 & P & Hdue & Hm & Hst & e' & He' & [T3 T4] & C1 & C2))];
    [left; exact Pp|right].
  pose proof (pairs_factor HPV HPV_plt HPV_heapspec (pre ++ l1) s Hs HL) as Ef.
  exists e1, o, s1. cbv zeta. repeat (split; [assumption|]).
  exists e'. rewrite Ef in C1, C2. repeat (split; [assumption|]). exact C1.
Qed.
Print Assumptions C19_straggler_history.

(* "so it eventually runs", over whole histories, with an explicit bound.
   After an ARBITRARY prior history: L >= 2 entries, the straggler e (class 1),
   factor > 0, every draw >= rho > 0 (e.g. the constant d), L draws per round.
   Phase 1: K windows of rounds whose appended priorities are <= hi (the
   least urgent priority of the stream).  If G bounds the initial distance
   priority(e) - hi, then after phase 1 the distance is at most
   eps := max(0, 1 - rho factor)^K * G  (or e was popped).
   Phase 2: as soon as the stream's priorities are >= hi + eps - they may all
   still be more urgent than e's own base priority - e is returned by a popleft
   among the next 2L rounds.  So e is popped by one of the first
   K (L + max(10,L) + 1) + 2L rounds = twice as many operations: a bound in L,
   rho, factor, G and eps only, independent of the prior history.
   Special case rho * factor >= 1: shrink = 0, so K = 1 and eps = 0: phase 2
   may be the same constant stream as phase 1 (hi + 0 <= hi).  For
   rho * factor < 1 and a stream that stays at hi forever, e is NOT popped with
   exact rationals, for any number of rounds (C19_history_never_runs_small_draws,
   C19_history_needs_big_draw below): eps = 0 is then not
   reachable for any K, which is why the statement has the threshold form. *)
Theorem C19_eventually_runs_history :
  forall (f : Q) (ds : list Q) (history : list posop)
         (rho hi G eps : Q) (K : nat) (e : entry pv) (phase1 phase2 : list (Z * Q)),
  let s := pos_exec (pos_empty f ds) history in
  let L := plen s in
  2 <= L -> In e (arr (pq_ s)) -> pclass (epri e) = 1 ->
  (0 < factor s)%Q -> (0 < rho)%Q ->
  Forall (fun d => rho <= d)%Q (draws s) ->
  Z.of_nat (length phase1) * L <= Z.of_nat (length (draws s)) ->
  Z.of_nat (length phase1) = Z.of_nat K * (L + Z.max 10 L + 1) ->
  Forall (fun x => snd x <= hi)%Q phase1 ->
  (0 <= G)%Q -> (prio e - hi <= G)%Q ->
  (qpow (shrink rho (factor s)) K * G <= eps)%Q ->
  2 * L <= Z.of_nat (length phase2) ->
  Forall (fun x => hi + eps <= snd x)%Q phase2 ->
  exists l1 x l2 e1 q,
    phase1 ++ phase2 = l1 ++ x :: l2 /\
    Z.of_nat (length l1) < Z.of_nat K * (L + Z.max 10 L + 1) + 2 * L /\
    (* the popleft of round x returns e *)
    pq_popentry HPV (pq_ (pairs HPV s l1)) = Some (e1, q) /\ ident e1 = ident e.
Proof.
  intros f ds history rho hi G eps K e phase1 phase2 s L HL He Hcl Hf Hrho Hd Hdl Hlen Hhi HG HeG
         Heps Hlen2 Hlo.
  apply (eventually_runs_bound HPV HPV_plt HPV_heapspec s e rho hi G eps K phase1 phase2);
    auto; [apply reachable_SInv | split; assumption].
Qed.
Print Assumptions C19_eventually_runs_history.

(* its two halves, from any state satisfying the invariant and for every heap
   implementation meeting HeapSpec whose order is PriorityValue.__lt__:
   (1) K windows shrink the distance to hi by shrink^K (or the entry is popped) *)
Theorem C19_windows_shrink : forall (H : heapimpl pv), plt H = pv_lt -> HeapSpec H ->
  forall K st e rho hi G load,
  SInv H st -> 2 <= plen st -> In e (arr (pq_ st)) -> regular e ->
  (0 < factor st)%Q -> (0 < rho)%Q ->
  Forall (fun d => rho <= d)%Q (draws st) /\
  Z.of_nat (length load) * plen st <= Z.of_nat (length (draws st)) ->
  Z.of_nat (length load) = Z.of_nat K * (plen st + Z.max 10 (plen st) + 1) ->
  Forall (fun x => snd x <= hi)%Q load -> (0 <= G)%Q -> (prio e - hi <= G)%Q ->
  popped_in H st e load \/
  exists e', In e' (arr (pq_ (pairs H st load))) /\
             (ident e' = ident e /\ (prio e' <= prio e)%Q) /\
             (prio e' - hi <= qpow (shrink rho (factor st)) K * G)%Q.
Proof. exact windows_shrink. Qed.
Print Assumptions C19_windows_shrink.

(* (2) overtaking: an entry of class 1 with priority() <= T is popped within 2L
   rounds whose appended priorities are >= T (it has the older sequence
   number), whatever maintenance does meanwhile: at most one run in L rounds. *)
Theorem C19_overtakes : forall (H : heapimpl pv), plt H = pv_lt -> HeapSpec H ->
  forall st e T load,
  SInv H st -> 2 <= plen st -> In e (arr (pq_ st)) -> pclass (epri e) = 1 ->
  (prio e <= T)%Q -> Forall (fun x => T <= snd x)%Q load ->
  2 * plen st <= Z.of_nat (length load) -> popped_in H st e load.
Proof. exact overtakes. Qed.
Print Assumptions C19_overtakes.

(* every reachable state satisfies the invariant these theorems start from *)
Theorem C19_reachable_invariant : forall f ds history,
  let s := pos_exec (pos_empty f ds) history in
  (* heap layout and distinct, bounded sequence numbers - with boosting on *)
  (Heap.is_heap (entry_lt pv_lt) (arr (pq_ s)) /\
   NoDup (map (@eseq pv) (arr (pq_ s))) /\
   Forall (fun e => eseq e < seqn (pq_ s)) (arr (pq_ s)) /\ 0 <= seqn (pq_ s)) /\
  (0 <= last_maint s /\ last_maint s <= Z.min (n_ins s) (n_rem s)) /\
  Forall (fun e => ins_at (epri e) <= n_ins s) (arr (pq_ s)).
Proof.
  intros f ds history s. destruct (reachable_SInv f ds history) as [A B C].
  split; [exact A|]. split; [exact B|exact C].
Qed.
Print Assumptions C19_reachable_invariant.

(* History independence, explicitly: two queues that agree on their contents
   (up to boosts and array order) after DIFFERENT prior histories - different
   factors, draws, operations, hence different counters n_inserted / n_removed /
   last_maintenance - both consider their straggler (or have popped it) within
   the SAME bound: a round preceded by at most L + max(10,L) rounds of any
   window of L + max(10,L) + 1 rounds.  (considered_within H rho s e win L is
   the conclusion of C19_straggler_history with pre = [].) *)
Theorem C19_history_independent :
  forall f1 ds1 h1 f2 ds2 h2 rho e1 e2 win1 win2,
  let s1 := pos_exec (pos_empty f1 ds1) h1 in
  let s2 := pos_exec (pos_empty f2 ds2) h2 in
  Permutation (map ident (arr (pq_ s1))) (map ident (arr (pq_ s2))) ->
  let L := plen s1 in
  2 <= L ->
  In e1 (arr (pq_ s1)) -> In e2 (arr (pq_ s2)) -> regular e1 -> regular e2 ->
  (0 < factor s1)%Q -> (0 < factor s2)%Q -> (0 < rho)%Q ->
  (Forall (fun d => rho <= d)%Q (draws s1) /\
   Z.of_nat (length win1) * L <= Z.of_nat (length (draws s1))) ->
  (Forall (fun d => rho <= d)%Q (draws s2) /\
   Z.of_nat (length win2) * L <= Z.of_nat (length (draws s2))) ->
  L + Z.max 10 L + 1 <= Z.of_nat (length win1) ->
  L + Z.max 10 L + 1 <= Z.of_nat (length win2) ->
  plen s2 = L /\
  considered_within HPV rho s1 e1 win1 L /\ considered_within HPV rho s2 e2 win2 L.
Proof. exact history_independent. Qed.
Print Assumptions C19_history_independent.

(* Example (by computation).  Prior busy period: 300 operations, two stretches
   drained to empty and a third that leaves 7 entries and the counters at
   (last_maintenance, n_inserted, n_removed) = (66, 79, 71); then the straggler
   (object 100, priority 10): L = 8, factor 3/2, every draw d = 1/2, so the
   factor of C19_maintenance_shrinks is 1/4.  Stream: 38 rounds (K = 2 windows of
   19) of priority 0, then priority 1 >= 0 + (1/4)^2 * 10.  Bound of
   C19_eventually_runs_history: 2*19 + 2*8 = 54 rounds = 108 operations; the
   straggler is actually returned by the popleft of round 46 (operation 91). *)
Theorem C19_history_example :
  let s := ex_start (3#2) in
  length busy_history = 300%nat /\
  (plen s, last_maint s, n_ins s, n_rem s) = (8, 66, 79, 71) /\
  popped_in HPV s ex_entry (ex_phase1 ++ ex_phase2) /\
  pop_round s (ex_phase1 ++ ex_phase2) 100 1 = Some 46%nat /\
  (46 <= 2 * 19 + 2 * 8)%nat.
Proof. exact history_example. Qed.
Print Assumptions C19_history_example.

(* the same start with factor 2 (d * factor = 1): one window, constant stream of
   priority 0 throughout; bound 19 + 16 = 35 rounds, actual round 18 *)
Theorem C19_history_example_big_draw :
  let s := ex_start 2 in
  let load := repeat (50, 0%Q) 19 ++ repeat (50, 0%Q) 16 in
  popped_in HPV s ex_entry load /\ pop_round s load 100 1 = Some 18%nat.
Proof. exact history_example_big_draw. Qed.
Print Assumptions C19_history_example_big_draw.

(* ... and why "reaches the minimum / is popped" cannot be claimed for
   d * factor < 1 against a stream that stays at one priority: factor 3/2, d = 1/2,
   120 rounds of priority 0 (10 maintenance runs, each considering the
   straggler): never popped, priority() = 10 - 5242875/524288 = 10/4^10 > 0. *)
Theorem C19_history_needs_big_draw :
  let s := ex_start (3#2) in
  let load := repeat (50, 0%Q) 120 in
  pop_round s load 100 1 = None /\
  filter (fun x => fst (fst (fst x)) =? 100) (summary (pairs HPV s load))
  = [(100, 1, 10%Q, (-5242875 # 524288)%Q)].
Proof. exact history_needs_big_draw. Qed.
Print Assumptions C19_history_needs_big_draw.

(* two histories with the same contents and different counters (remove() counts
   a removal, find(remove=True) does not): maintenance first runs in round 10
   resp. 11, both within the bound 3 + max(10,3) + 1 = 14 of
   C19_history_independent *)
Theorem C19_history_independent_example :
  let s1 := pos_exec (pos_empty (3#2) (repeat (1#2) 100)) (hi_base ++ [QRemove 3]) in
  let s2 := pos_exec (pos_empty (3#2) (repeat (1#2) 100)) (hi_base ++ [QFind 3 true]) in
  map ident (arr (pq_ s1)) = map ident (arr (pq_ s2)) /\
  (last_maint s1, n_ins s1, n_rem s1) = (0, 4, 1) /\
  (last_maint s2, n_ins s2, n_rem s2) = (0, 4, 0) /\
  map (fun i => (last_maint (pairs HPV s1 (repeat (4, 0%Q) i)),
                 last_maint (pairs HPV s2 (repeat (4, 0%Q) i)))) [9; 10; 11]%nat
  = [(0, 0); (11, 0); (11, 11)].
Proof. exact history_independent_example. Qed.
Print Assumptions C19_history_independent_example.

(* The converse, over whole histories and for EVERY load length: why the
   threshold form of C19_eventually_runs_history is the strongest true one.
   After an arbitrary prior history, let every remaining draw r have
   0 <= r and r * factor < 1, let q be a lower bound of the priority() of all
   regular entries, the straggler e (class 1) strictly above it, some entry e0
   ahead of e now, and let the stream stay at priority q.  Then e is NEVER
   returned by a popleft, and it stays queued with q < priority() (each
   maintenance multiplies its distance to q by 1 - r factor > 0; the entry
   appended last is always ahead of it).  With exact rationals "eventually
   runs" therefore needs a draw with r * factor >= 1 or a stream that is at some
   point less urgent than the minimum by a margin. *)
Theorem C19_history_never_runs_small_draws :
  forall (f : Q) (ds : list Q) (history : list posop) (q : Q) (e e0 : entry pv)
         (load : list (Z * Q)),
  let s := pos_exec (pos_empty f ds) history in
  2 <= plen s -> In e (arr (pq_ s)) -> pclass (epri e) = 1 ->
  (0 < factor s)%Q ->
  Forall (fun r => 0 <= r /\ r * factor s < 1)%Q (draws s) ->
  (forall x, In x (arr (pq_ s)) -> regular x -> (q <= prio x)%Q) ->
  (q < prio e)%Q ->
  In e0 (arr (pq_ s)) -> entry_lt pv_lt e0 e = true ->
  Forall (fun x => snd x == q)%Q load ->
  ~ popped_in HPV s e load /\
  exists e', In e' (arr (pq_ (pairs HPV s load))) /\ ident e' = ident e /\
             (q < prio e')%Q /\ (prio e' <= prio e)%Q.
Proof.
  intros f ds history q e e0 load s HL He Hcl Hf Hd Hlb Hgt He0 Hah Hq.
  destruct (never_popped HPV HPV_plt HPV_heapspec q load s e) as (Hnp & e' & Hn' & [T1 T2]).
  - apply mkNI; auto; [apply reachable_SInv | exists e0; split; [exact He0|exact Hah]].
  - exact Hq.
  - split; [exact Hnp|]. exists e'. split; [apply (ni_in _ _ _ _ Hn')|]. split; [exact T1|].
    split; [apply (ni_gt _ _ _ _ Hn') | exact T2].
Qed.
Print Assumptions C19_history_never_runs_small_draws.

(* ... its hypotheses hold in the start state of C19_history_example (factor 3/2,
   draws 1/2, stream of priority 0): for every n the straggler is not popped in
   n rounds *)
Theorem C19_history_never_example : forall n,
  ~ popped_in HPV (ex_start (3#2)) ex_entry (repeat (50, 0%Q) n).
Proof. exact history_never_example. Qed.
Print Assumptions C19_history_never_example.
