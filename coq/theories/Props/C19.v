From Asynkit Require Import Base.Prelude Queue.PQ Queue.PosPQ.
(* placeholder until BoostProofs lands *)
Theorem C19_placeholder : forall (s : pos), plen s = plen s.
Proof. reflexivity. Qed.
Print Assumptions C19_placeholder.
