From Coq Require Import QArith.
From Asynkit Require Import Base.Prelude Queue.PQ Queue.PosPQ Queue.PosProofs.
(* placeholder: the loop-level C10 theorems land in Sched/PrioLoopProofs.v; the queue-level facts
   (class 0 before class 1, insert position, reschedule_all order) are C17_pos_* *)
Theorem C10_positional_class_first :
  forall a b : pv, pclass a = 0%Z -> pclass b = 1%Z -> pv_lt a b = true /\ pv_lt b a = false.
Proof.
  intros a b Ha Hb. unfold pv_lt. rewrite Ha, Hb. simpl. split; reflexivity.
Qed.
Print Assumptions C10_positional_class_first.
