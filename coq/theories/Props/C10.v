(* C10 - Priority loop: most urgent first, FIFO among equals, positions override.
   Statements only; proofs in Queue/PosList.v, Sched/PrioQueueProofs.v, Sched/PrioLoopProofs.v.

   Model: Sched/Model.v with ready queue [RPos p], p a Queue/PosPQ.v PosPriorityQueue over
   HPV (the transcription of CPython's heapq).  Vocabulary:
     PInv HPV p        the queue invariant (Queue/PosProofs.v): heap-ordered array, distinct
                       sequence numbers below the counter, boost factor 0 (starvation boosting
                       disabled), every entry positional (class 0, boost 0) or regular (class 1).
                       It holds in every reachable state of the priority loop (C10_reachable_inv).
     entry             mkE (mkPV base inserted_at boost class) seq obj ;  obj = handle id
     entry_lt pv_lt    PriEntry.__lt__ over PriorityValue.__lt__ = the KEY ORDER
                       (class, base+boost, seq)  - spelled out in C10_key_order
     plist HPV p       the entries of p sorted by the key order (stable_sort of the array)
     onat e            the handle id of entry e;  rq_items (RPos p) = map onat (plist HPV p)
     hcnt s t          number of queued handles that are step/wake-up handles of task t
                       (<= 1 in every reachable state: C09_inv_prio / C09_inv_meaning) *)
From Coq Require Import QArith Sorting.Sorted Sorting.Permutation.
From RecordUpdate Require Import RecordUpdate.
From Asynkit Require Import Base.Prelude Queue.PQ Queue.PosPQ Queue.PosProofs Queue.PosList Queue.Exec
     Sched.Model Sched.PartTables Sched.PartitionRun Sched.PrioQueueProofs Sched.PrioLoopProofs.
Import RecordSetNotations.
Open Scope nat_scope.

(* the key order: class first, then priority value (base + boost), then arrival sequence *)
Theorem C10_key_order : forall a b : entry pv,
  entry_lt pv_lt a b = true <->
  (pclass (epri a) < pclass (epri b))%Z \/
  (pclass (epri a) = pclass (epri b) /\
   (pv_priority (epri a) < pv_priority (epri b) \/
    (pv_priority (epri a) == pv_priority (epri b) /\ (eseq a < eseq b)%Z)))%Q.
Proof. exact eltv_spec. Qed.
Print Assumptions C10_key_order.

(* the invariant is not an assumption: every reachable state of the priority loop (boost
   factor 0, any program, any environment actions) has a ready queue satisfying it *)
Theorem C10_reachable_inv :
  forall draws lks cds nev l,
    let s0 := init_st true 0 draws lks cds nev in
    actions_ok s0 l -> exists p, ready (fold_left do_action l s0) = RPos p /\ PInv HPV p.
Proof. exact reachable_PInv. Qed.
Print Assumptions C10_reachable_inv.

(* ---- most urgent first ----
   popleft returns the object of THE minimal entry of the queue for the key order: it is
   strictly before every other entry.  Exactly that entry leaves the queue. *)
Theorem C10_pop_min : forall p o p',
  PInv HPV p -> pos_popleft HPV p = Some (o, p') ->
  exists e, In e (arr (pq_ p)) /\ eobj e = o /\
    (forall x, In x (arr (pq_ p)) -> x = e \/ entry_lt pv_lt e x = true) /\
    Permutation (arr (pq_ p)) (e :: arr (pq_ p')) /\ PInv HPV p'.
Proof. exact pop_min_queue. Qed.
Print Assumptions C10_pop_min.

(* ... i.e. a positional (class 0) entry whenever there is one; and among the entries of its
   class it has the least priority value, the earliest arrival among equals *)
Theorem C10_pop_min_cases : forall p o p',
  PInv HPV p -> pos_popleft HPV p = Some (o, p') ->
  exists e, In e (arr (pq_ p)) /\ eobj e = o /\
    ((exists x, In x (arr (pq_ p)) /\ pclass (epri x) = 0%Z) -> pclass (epri e) = 0%Z) /\
    (forall x, In x (arr (pq_ p)) -> pclass (epri x) = pclass (epri e) ->
       (pv_priority (epri e) <= pv_priority (epri x))%Q /\
       (pv_priority (epri e) == pv_priority (epri x) -> (eseq e <= eseq x)%Z)).
Proof. exact pop_min_cases. Qed.
Print Assumptions C10_pop_min_cases.

(* the scheduler: rq_items is the key-sorted list of the queue's entries, and run_one runs
   its head (a cancelled handle is popped and skipped) and leaves the tail queued *)
Theorem C10_run_one_runs_head :
  (forall p, PInv HPV p ->
     rq_items (RPos p) = map onat (plist HPV p) /\
     Permutation (plist HPV p) (arr (pq_ p)) /\
     StronglySorted (fun a b => entry_lt pv_lt a b = true) (plist HPV p)) /\
  (forall s p, ready s = RPos p -> PInv HPV p ->
     match rq_items (ready s) with
     | [] => run_one s = s
     | h :: rest =>
         exists p', PInv HPV p' /\ rq_items (RPos p') = rest /\
           run_one s = (let s1 := s <| ready := RPos p' |> in
                        if hcancelled (geth s1 h) then s1 else run_callback (hcb (geth s1 h)) s1)
     end).
Proof. split; [exact rq_items_sorted | exact run_one_head]. Qed.
Print Assumptions C10_run_one_runs_head.

(* ---- the key of a handle is its task's effective priority ----
   get_priority: effective_priority() for a step / wake-up of a PriorityTask, 0 otherwise;
   call_soon appends exactly one REGULAR entry (class 1, boost 0) with that base priority,
   inserted_at = the insertion counter and the next sequence number; nothing else changes *)
Theorem C10_key_is_effective_priority :
  (forall s c, handle_priority s c =
     match c with
     | HStep t _ | HWakeup t _ => if is_prio_task s t then effective_priority s t else 0%Q
     | _ => 0%Q
     end) /\
  (forall s c p, ready s = RPos p -> PInv HPV p ->
     let h := length (handles s) in
     let e := mkE (mkPV (handle_priority s c) (n_ins p) 0 1) (seqn (pq_ p)) (Z.of_nat h) in
     exists p', call_soon s c = (s <| handles := handles s ++ [mkH c false] |> <| ready := RPos p' |>, h) /\
       PInv HPV p' /\
       plist HPV p' = ins_stable HPV e (plist HPV p) /\
       Permutation (arr (pq_ p')) (e :: arr (pq_ p)) /\
       Permutation (rq_items (RPos p')) (h :: rq_items (RPos p))).
Proof. split; [exact handle_priority_spec | exact call_soon_key]. Qed.
Print Assumptions C10_key_is_effective_priority.

(* task_reschedule (priority inheritance) re-keys the REGULAR entry of a runnable task to its
   current effective priority - same object, same sequence number, every other entry
   untouched (so the run order is the key-sorted list of the new multiset) *)
Theorem C10_reschedule_rekeys : forall s t p e,
  ready s = RPos p -> PInv HPV p -> hcnt s t <= 1 ->
  In e (arr (pq_ p)) -> task_key s t (onat e) = true -> pclass (epri e) = 1%Z ->
  exists p' e' rest,
    task_reschedule s t = s <| ready := RPos p' |> /\ PInv HPV p' /\
    Permutation (arr (pq_ p)) (e :: rest) /\ Permutation (arr (pq_ p')) (e' :: rest) /\
    eobj e' = eobj e /\ eseq e' = eseq e /\ pclass (epri e') = 1%Z /\
    (pv_priority (epri e') == effective_priority s t)%Q.
Proof. exact reschedule_rekeys. Qed.
Print Assumptions C10_reschedule_rekeys.

(* ... and leaves a POSITIONAL entry alone (the F6 repair): the whole state is unchanged, so
   class, base, sequence number and place in the run order are kept *)
Theorem C10_positional_keeps_place : forall s t p e,
  ready s = RPos p -> PInv HPV p -> hcnt s t <= 1 ->
  In e (arr (pq_ p)) -> task_key s t (onat e) = true -> pclass (epri e) = 0%Z ->
  task_reschedule s t = s.
Proof. exact reschedule_positional_keeps_place. Qed.
Print Assumptions C10_positional_keeps_place.

(* ---- positions override ----
   (1) in every queue state all positional entries come before all regular entries in the
       run order;
   (2) queue_insert_pos(h, k) (used by task_switch / sleep_insert / task_reinsert /
       task_interrupt after taking the handle out): h and the k entries that were in front
       of it become positional, in their old order, in front of everything else; the run
       order is the old one with h inserted at index k (at the end if k > len);
   (3) call_pos(k, cb) = call_soon; queue_remove; queue_insert_pos does the same with the
       new handle. *)
Theorem C10_positional_first :
  (forall p, PInv HPV p ->
     exists ps rs, plist HPV p = ps ++ rs /\
       Forall (fun e => pclass (epri e) = 0%Z) ps /\ Forall (fun e => pclass (epri e) = 1%Z) rs) /\
  (forall p k h, PInv HPV p ->
     exists p' news,
       rq_insert_pos (RPos p) k h = RPos p' /\ PInv HPV p' /\
       plist HPV p' = news ++ skipn k (plist HPV p) /\
       Forall (fun e => pclass (epri e) = 0%Z) news /\
       map onat news = firstn k (rq_items (RPos p)) ++ [h] /\
       rq_items (RPos p') = insert_nth (rq_items (RPos p)) k h) /\
  (forall s k c p, ready s = RPos p -> PInv HPV p ->
     (forall x, In x (rq_items (ready s)) -> x < length (handles s)) ->
     let h := length (handles s) in
     exists p' news,
       call_pos s k c = s <| handles := handles s ++ [mkH c false] |> <| ready := RPos p' |> /\
       PInv HPV p' /\
       plist HPV p' = news ++ skipn k (plist HPV p) /\
       Forall (fun e => pclass (epri e) = 0%Z) news /\
       map onat news = firstn k (rq_items (RPos p)) ++ [h] /\
       rq_items (RPos p') = insert_nth (rq_items (RPos p)) k h).
Proof.
  split; [exact plist_class_split|]. split; [exact insert_pos_items | exact call_pos_items].
Qed.
Print Assumptions C10_positional_first.

(* ---- FIFO among equals: the priority queue IS the list queue ----
   Riso c rp rl :  rp = RPos p, rl = RList l, PInv HPV p, every object is a handle id, every
   regular entry has priority value == c, and l is the run order of p.
   Every ready-queue operation of the scheduler preserves Riso with equal results, provided
   the priorities handed to append / reschedule are == c and find/remove are used with a key
   that selects at most one queued handle (the only use the scheduler makes of them: hcnt <= 1,
   handle ids are queued once). *)
Theorem C10_equal_is_fifo : forall c : Q,
  (forall ds, Riso c (RPos (pos_empty 0 ds)) (RList [])) /\
  (forall rp rl h pr, Riso c rp rl -> pr == c -> Riso c (rq_append rp h pr) (rq_append rl h pr)) /\
  (forall rp rl, Riso c rp rl ->
     match rq_popleft rp, rq_popleft rl with
     | None, None => True
     | Some (h, rp'), Some (h', rl') => h = h' /\ Riso c rp' rl'
     | _, _ => False
     end) /\
  (forall rp rl k h, Riso c rp rl -> Riso c (rq_insert_pos rp k h) (rq_insert_pos rl k h)) /\
  (forall rp rl key rm, Riso c rp rl -> cnt key (rq_items rl) <= 1 ->
     match rq_find rp key rm, rq_find rl key rm with
     | None, None => True
     | Some (h, rp'), Some (h', rl') => h = h' /\ Riso c rp' rl'
     | _, _ => False
     end) /\
  (forall rp rl h, Riso c rp rl -> cnt (Nat.eqb h) (rq_items rl) <= 1 ->
     match rq_remove rp h, rq_remove rl h with
     | None, None => True
     | Some rp', Some rl' => Riso c rp' rl'
     | _, _ => False
     end) /\
  (forall rp rl key pr, Riso c rp rl -> pr == c ->
     rq_reschedule rp key pr = rp /\ rq_reschedule rl key pr = rl) /\
  (forall p rl, Riso c (RPos p) rl ->
     Riso c (RPos (snd (pos_iter HPV p))) rl /\ RList (map Z.to_nat (fst (pos_iter HPV p))) = rl) /\
  (forall rp rl, Riso c rp rl -> rq_items rp = rq_items rl).
Proof.
  intros c. split; [exact (Riso_empty c)|]. split; [exact (iso_append c)|].
  split; [exact (iso_popleft c)|]. split; [exact (iso_insert_pos c)|]. split; [exact (iso_find c)|].
  split; [exact (iso_remove c)|]. split; [exact (iso_reschedule c)|]. split; [exact (iso_iter c)|].
  intros [l0|p] [l|p0] HR; try destruct HR. destruct H0. assumption.
Qed.
Print Assumptions C10_equal_is_fifo.

(* class 0 beats class 1 whatever the priorities (kept from the first version of this file) *)
Theorem C10_positional_class_first :
  forall a b : pv, pclass a = 0%Z -> pclass b = 1%Z -> pv_lt a b = true /\ pv_lt b a = false.
Proof.
  intros a b Ha Hb. unfold pv_lt. rewrite Ha, Hb. simpl. split; reflexivity.
Qed.
Print Assumptions C10_positional_class_first.

(* ---- non-vacuity ---- *)
(* a PriorityTask (priority 1) that does sleep_insert(0), and a plain task *)
Definition ex10_prog : coro := Call (OSleepInsert 0) (fun _ => Ret 0).
Definition ex10_actions (n : nat) : list action :=
  [ASpawn (SPrio 1) ex10_prog; ASpawn SPlain (Ret 1)] ++ repeat AStep n.
Definition ex10_state (n : nat) : st := fold_left do_action (ex10_actions n) (init_st true 0 [] [] [] 0).

Lemma steps_ok n : forall s, actions_ok s (repeat AStep n).
Proof. induction n as [|n IH]; intros s; simpl; auto. Qed.

Lemma ex10_actions_ok n : actions_ok (init_st true 0 [] [] [] 0) (ex10_actions n).
Proof.
  unfold ex10_actions. cbn [app actions_ok]. split; [|split; [|apply steps_ok]].
  - simpl. split; auto.
  - simpl. exact Logic.I.
Qed.

(* before any step: both step handles are regular entries; the plain task (key 0) is ahead of
   the PriorityTask (key 1) although it arrived later; C10_reschedule_rekeys applies to task 0 *)
Example C10_example_regular :
  rq_items (ready (ex10_state 0)) = [1; 0] /\
  exists p e, ready (ex10_state 0) = RPos p /\ PInv HPV p /\ hcnt (ex10_state 0) 0 <= 1 /\
    In e (arr (pq_ p)) /\ task_key (ex10_state 0) 0 (onat e) = true /\ pclass (epri e) = 1%Z /\
    (pv_priority (epri e) == effective_priority (ex10_state 0) 0)%Q.
Proof.
  split; [vm_compute; reflexivity|].
  unfold ex10_state.
  destruct (C10_reachable_inv [] [] [] 0 (ex10_actions 0) (ex10_actions_ok 0)) as (p & Er & Hp).
  set (s := fold_left do_action (ex10_actions 0) (init_st true 0 [] [] [] 0)) in *.
  exists p. assert (Er' := Er). vm_compute in Er'. injection Er' as Ep.
  exists (mkE (mkPV 1 0 0 1) 0 0). split; [exact Er|]. split; [exact Hp|].
  split; [vm_compute; lia|]. split; [rewrite <- Ep; simpl; auto|].
  split; [vm_compute; reflexivity|]. split; [reflexivity|]. vm_compute. reflexivity.
Qed.

(* after three steps (plain task; the PriorityTask up to sleep_insert; the reinsert callback)
   the PriorityTask's step handle (id 3) is a POSITIONAL entry: C10_positional_keeps_place
   applies, re-prioritising it leaves the state unchanged *)
Example C10_example_positional :
  exists p e, ready (ex10_state 3) = RPos p /\ PInv HPV p /\ hcnt (ex10_state 3) 0 <= 1 /\
    In e (arr (pq_ p)) /\ task_key (ex10_state 3) 0 (onat e) = true /\ pclass (epri e) = 0%Z /\
    eobj e = 3%Z /\ task_reschedule (ex10_state 3) 0 = ex10_state 3.
Proof.
  unfold ex10_state.
  destruct (C10_reachable_inv [] [] [] 0 (ex10_actions 3) (ex10_actions_ok 3)) as (p & Er & Hp).
  set (s := fold_left do_action (ex10_actions 3) (init_st true 0 [] [] [] 0)) in *.
  exists p. assert (Er' := Er). vm_compute in Er'. injection Er' as Ep.
  exists (mkE (mkPV 0 2 0 0) 0 3).
  assert (Hc : hcnt s 0 <= 1) by (vm_compute; lia).
  assert (Hin : In (mkE (mkPV 0 2 0 0) 0 3%Z) (arr (pq_ p))) by (rewrite <- Ep; simpl; auto).
  assert (Hk : task_key s 0 (onat (mkE (mkPV 0 2 0 0) 0 3%Z)) = true) by (vm_compute; reflexivity).
  split; [exact Er|]. split; [exact Hp|]. split; [exact Hc|]. split; [exact Hin|].
  split; [exact Hk|]. split; [reflexivity|]. split; [reflexivity|].
  exact (C10_positional_keeps_place s 0 p _ Er Hp Hc Hin Hk eq_refl).
Qed.

(* equal priorities: a priority queue and a list queue driven by the same operations *)
Example C10_example_fifo :
  let ops (r : rq) :=
    let r := rq_append (rq_append (rq_append r 0 0%Q) 1 0%Q) 2 0%Q in
    let r := rq_insert_pos r 1 3 in
    let r := match rq_find r (Nat.eqb 1) true with Some (_, r') => r' | None => r end in
    rq_insert_pos (rq_append r 4 0%Q) 0 1 in
  Riso 0 (ops (RPos (pos_empty 0 []))) (ops (RList [])) /\
  rq_items (ops (RPos (pos_empty 0 []))) = [1; 0; 3; 2; 4] /\ ops (RList []) = RList [1; 0; 3; 2; 4].
Proof.
  cbv zeta. split; [|split; vm_compute; reflexivity].
  pose proof (C10_equal_is_fifo 0) as (H0 & Happ & _ & Hins & Hfind & _).
  assert (Q0 : 0 == 0) by reflexivity.
  pose proof (Hins _ _ 1 3 (Happ _ _ 2 0%Q (Happ _ _ 1 0%Q (Happ _ _ 0 0%Q (H0 []) Q0) Q0) Q0)) as R1.
  match type of R1 with Riso _ ?a ?b => set (rp1 := a) in *; set (rl1 := b) in * end.
  pose proof (Hfind rp1 rl1 (Nat.eqb 1) true R1) as R2.
  assert (Hc : cnt (Nat.eqb 1) (rq_items rl1) <= 1) by (vm_compute; lia).
  specialize (R2 Hc).
  destruct (rq_find rp1 (Nat.eqb 1) true) as [[h rp']|]; destruct (rq_find rl1 (Nat.eqb 1) true) as [[h' rl']|];
    try contradiction.
  - destruct R2 as [_ R2]. apply Hins, Happ; auto.
  - apply Hins, Happ; auto.
Qed.

(* ---- equal priorities at the scheduler's entry points to the queue ----
   all_prio0 s: every PriorityTask of s has priority == 0 (plain Tasks and other callbacks are
   keyed 0 by get_priority anyway).  Then every effective priority and every handle key is 0
   whatever the lock graph, so on a priority loop sp and a list loop sl with related ready
   queues: call_soon queues the same handle id at the end of both run orders, and
   task_reschedule (priority inheritance) is a no-op on both.  Together with C10_equal_is_fifo
   (popleft / insert_pos / find / remove / iterate) every access the scheduler model makes to
   its ready queue preserves Riso 0 with equal results. *)
Theorem C10_equal_priorities_entry_points :
  (forall s, (forall t, match tprio (gett s t) with Some q => q == 0 | None => True end) ->
     (forall t, effective_priority s t == 0) /\ (forall c, handle_priority s c == 0)) /\
  (forall sp sl c,
     Riso 0 (ready sp) (ready sl) -> length (handles sp) = length (handles sl) -> all_prio0 sp ->
     Riso 0 (ready (fst (call_soon sp c))) (ready (fst (call_soon sl c))) /\
     snd (call_soon sp c) = snd (call_soon sl c)) /\
  (forall sp sl t, Riso 0 (ready sp) (ready sl) -> all_prio0 sp ->
     task_reschedule sp t = sp /\ task_reschedule sl t = sl).
Proof.
  split; [exact equal_prio_keys|]. split; [exact equal_prio_call_soon | exact equal_prio_task_reschedule].
Qed.
Print Assumptions C10_equal_priorities_entry_points.

(* ---- ... with starvation boosting enabled (Sched/PrioBoostFifo.v) ----
   RisoB c rp rl := Riso c (rp with its boost factor set to 0) rl : rp is a PosPriorityQueue
   with ANY boost factor and ANY random draws whose array satisfies the queue invariant, every
   regular entry has priority value == c, and rl is its run order.
   When all regular priorities are equal no entry satisfies the boost condition ("priority
   strictly greater than the minimum"), so do_maintenance changes nothing and every operation
   commutes with resetting the factor (do_maintenance_flat, update_counters_zero, *_zero);
   therefore the isomorphism with the list queue holds for every boost factor - in particular
   the default one - whatever the history (maintenance runs included). *)
From Asynkit Require Import Sched.PrioBoostFifo.
Theorem C10_equal_is_fifo_boosting : forall c : Q,
  (forall f ds, RisoB c (RPos (pos_empty f ds)) (RList [])) /\
  (forall s, Forall (fun e => pclass (epri e) = 0%Z \/ pv_priority (epri e) == c) (arr (pq_ s)) ->
             do_maintenance HPV s = s) /\
  (forall rp rl h pr, RisoB c rp rl -> pr == c -> RisoB c (rq_append rp h pr) (rq_append rl h pr)) /\
  (forall rp rl, RisoB c rp rl ->
     match rq_popleft rp, rq_popleft rl with
     | None, None => True
     | Some (h, rp'), Some (h', rl') => h = h' /\ RisoB c rp' rl'
     | _, _ => False
     end) /\
  (forall rp rl k h, RisoB c rp rl -> RisoB c (rq_insert_pos rp k h) (rq_insert_pos rl k h)) /\
  (forall rp rl key rm, RisoB c rp rl -> cnt key (rq_items rl) <= 1 ->
     match rq_find rp key rm, rq_find rl key rm with
     | None, None => True
     | Some (h, rp'), Some (h', rl') => h = h' /\ RisoB c rp' rl'
     | _, _ => False
     end) /\
  (forall rp rl h, RisoB c rp rl -> cnt (Nat.eqb h) (rq_items rl) <= 1 ->
     match rq_remove rp h, rq_remove rl h with
     | None, None => True
     | Some rp', Some rl' => RisoB c rp' rl'
     | _, _ => False
     end) /\
  (forall rp rl key pr, RisoB c rp rl -> pr == c ->
     rq_reschedule rp key pr = rp /\ rq_reschedule rl key pr = rl) /\
  (forall p rl, RisoB c (RPos p) rl ->
     RisoB c (RPos (snd (pos_iter HPV p))) rl /\ RList (map Z.to_nat (fst (pos_iter HPV p))) = rl) /\
  (forall rp rl, RisoB c rp rl -> rq_items rp = rq_items rl).
Proof.
  intros c. split; [exact (isoB_empty c)|]. split; [exact (do_maintenance_flat c)|].
  split; [exact (isoB_append c)|]. split; [exact (isoB_popleft c)|].
  split; [exact (isoB_insert_pos c)|]. split; [exact (isoB_find c)|]. split; [exact (isoB_remove c)|].
  split; [exact (isoB_reschedule c)|]. split; [exact (isoB_iter c)|].
  intros rp rl HR. rewrite <- (rq_items_zero rp). unfold RisoB in HR.
  destruct (zero_rq rp) as [l0|p]; destruct rl as [l|p0]; try destruct HR. destruct H0. assumption.
Qed.
Print Assumptions C10_equal_is_fifo_boosting.

(* non-vacuity with the default factor 1/2: 14 appends and 12 pops make update_counters run
   do_maintenance (threshold max(10, len) + last_maintenance < min(inserted, removed)); the
   queue and the list stay related and the run order is the arrival order *)
Example C10_example_boosting :
  let app (r : rq) (h : nat) := rq_append r h 0%Q in
  let pop (r : rq) := match rq_popleft r with Some (_, r') => r' | None => r end in
  let run (r : rq) :=
    let r := fold_left app (seq 0 14) r in
    let r := Nat.iter 12 pop r in
    fold_left app (seq 14 3) r in
  rq_items (run (RPos (pos_empty (1#2) [1#3; 2#3]))) = [12; 13; 14; 15; 16] /\
  run (RList []) = RList [12; 13; 14; 15; 16] /\
  match run (RPos (pos_empty (1#2) [1#3; 2#3])) with
  | RPos p => (0 < last_maint p)%Z     (* maintenance did run *)
  | _ => False
  end.
Proof. cbv zeta. vm_compute. repeat split; reflexivity. Qed.

(* ---- most urgent first, with starvation boosting enabled (Sched/PrioPopBoost.v) ----
   For EVERY boost factor and every sequence of random draws: the array of the ready queue of
   every reachable state satisfies the PriorityQueue invariant (heap order, distinct sequence
   numbers), and popleft returns the unique minimum for the CURRENT keys
   (class, base + boost as lowered by maintenance so far, arrival). *)
From Asynkit Require Import Queue.PQProofs Sched.PrioQueueBoost Sched.PrioPopBoost.
Theorem C10_pop_min_boosting :
  (forall factor draws lks cds nev l,
     let s0 := init_st true factor draws lks cds nev in
     actions_ok s0 l ->
     exists p, ready (fold_left do_action l s0) = RPos p /\ PQProofs.Inv HPV (pq_ p)) /\
  (forall p o p',
     PQProofs.Inv HPV (pq_ p) -> pos_popleft HPV p = Some (o, p') ->
     exists e, In e (arr (pq_ p)) /\ eobj e = o /\
       (forall x, In x (arr (pq_ p)) -> x = e \/ entry_lt pv_lt e x = true) /\
       PQProofs.Inv HPV (pq_ p')).
Proof. split; [exact reachable_Inv_boost | exact pop_min_boost]. Qed.
Print Assumptions C10_pop_min_boosting.

(* ------------------------------------------------------------------------------------
   Equal priorities: the WHOLE RUN (Sched/EqualRunBase.v, EqualRunOps.v, EqualRunSteps.v,
   EqualRun.v).  "With all priorities equal it schedules exactly like the plain scheduling
   loop, whatever the history and with starvation boosting at its default setting."

   The two loops: sl0 = init_st false ... (ready queue = list) and sp0 = init_st true factor
   draws ... (ready queue = PosPriorityQueue with ANY boost factor and random draws), same
   locks / conditions / events, driven by the same environment actions (spawn any program,
   run one ready handle, begin an iteration / timers, advance the clock, any library call
   from outside).

   Hypothesis  mon_run sl0 acts = true : a boolean computed on the LIST loop's run only:
     (a) the only priority value programs hand out is 0  (Spawn (SPrio p), OSetPrio p: p == 0);
     (b) whenever the scheduler searches the ready queue for the handle of a task t
         (task_throw / task_interrupt / task_switch / task_reinsert / the sleep_insert
         callback / task_timeout's interruptor) at most one handle of t is queued - true of
         every task that is not done (C09; C10_whole_run_monitor below); a done task can keep
         a handle only if a program completes the task's own future with
         set_result/set_exception/cancel, which asyncio.Task refuses (model artefact,
         notes/C09.md section "Side conditions" 2);
     (c) where call_pos is used the queued ids are allocated handles (always true, C09).
   Conclusion: after every prefix of the action list the two states agree on every component
   - handles, futures, tasks (priorities included), locks and their waiter heaps, conditions,
   events, timeout blocks, timers, clock, current task, log, loop errors - and the ready
   queues hold the same handles in the same run order (RisoB 0: moreover the priority
   queue satisfies its invariant and every regular entry is keyed == 0). *)
From Asynkit Require Import Base.Obs Sched.Corr Sched.EqualRunBase Sched.EqualRunOps
     Sched.EqualRunSteps Sched.EqualRun.

Theorem C10_equal_priorities_whole_run :
  forall factor draws lks cds nev (acts : list action),
    let sl0 := init_st false factor draws lks cds nev in
    let sp0 := init_st true factor draws lks cds nev in
    mon_run sl0 acts = true ->
    forall n,
      let sl := fold_left do_action (firstn n acts) sl0 in
      let sp := fold_left do_action (firstn n acts) sp0 in
      handles sp = handles sl /\ futs sp = futs sl /\ tasks sp = tasks sl /\
      locks sp = locks sl /\ conds sp = conds sl /\ events sp = events sl /\
      blocks sp = blocks sl /\ timers sp = timers sl /\ now sp = now sl /\
      current sp = current sl /\ log sp = log sl /\ errors sp = errors sl /\
      rq_items (ready sp) = rq_items (ready sl) /\
      RisoB 0 (ready sp) (ready sl) /\
      (forall t, effective_priority sp t = effective_priority sl t /\ effective_priority sl t == 0).
Proof.
  intros factor draws lks cds nev acts sl0 sp0 M n sl sp.
  pose proof (equal_priorities_whole_run factor draws lks cds nev acts M n) as H.
  fold sl0 sp0 in H. fold sl sp in H.
  destruct (SimEq_order sl sp H) as (Hi & He & _).
  destruct H. repeat split; auto; apply He.
Qed.
Print Assumptions C10_equal_priorities_whole_run.

(* ... in terms of the correspondence observation (Sched/Corr.v: ostate = everything the
   harness compares after every action): the priority loop's sequence of observations, with
   its ready queue shown as run order (oview: list of (handle id, cancelled, task) instead
   of the heap array), IS the list loop's sequence of observations *)
Theorem C10_equal_priorities_whole_run_obs :
  forall factor draws lks cds nev (acts : list saction),
    mon_run (init_st false factor draws lks cds nev) (map act acts) = true ->
    run_view (init_st true factor draws lks cds nev) acts =
    run_from (init_st false factor draws lks cds nev) acts.
Proof. exact equal_priorities_whole_run_obs. Qed.
Print Assumptions C10_equal_priorities_whole_run_obs.

(* the simulation, layer by layer: SimEq (all components equal, ready queues RisoB 0-related,
   all PriorityTask priorities == 0) holds initially and is preserved, with equal results,
   by every library call (all 35 libops), frame resumption, user code (every coro tree,
   eager / descend / start spawns included), Task.__step, run_one, the timer phase and every
   environment action *)
Theorem C10_whole_run_simulation :
  (forall factor draws lks cds nev,
     SimEq (init_st false factor draws lks cds nev) (init_st true factor draws lks cds nev)) /\
  (forall t op sl sp, SimEq sl sp -> mon_lib t op sl = true ->
     SimEq (fst (lib_call t op sl)) (fst (lib_call t op sp)) /\
     snd (lib_call t op sp) = snd (lib_call t op sl)) /\
  (forall t frs inp sl sp, SimEq sl sp -> mon_stack t frs inp sl = true ->
     SimEq (fst (resume_stack t frs inp sl)) (fst (resume_stack t frs inp sp)) /\
     snd (resume_stack t frs inp sp) = snd (resume_stack t frs inp sl)) /\
  (forall t c sl sp, SimEq sl sp -> mon_exec t c sl = true ->
     SimEq (fst (exec t c sl)) (fst (exec t c sp)) /\ snd (exec t c sp) = snd (exec t c sl)) /\
  (forall t exc sl sp, SimEq sl sp -> mon_step t exc sl = true ->
     SimEq (step_task t exc sl) (step_task t exc sp)) /\
  (forall sl sp, SimEq sl sp -> mon_run_one sl = true -> SimEq (run_one sl) (run_one sp)) /\
  (forall sl sp, SimEq sl sp -> SimEq (begin_iteration sl) (begin_iteration sp)) /\
  (forall a sl sp, SimEq sl sp -> mon_action sl a = true ->
     SimEq (do_action sl a) (do_action sp a)).
Proof.
  split; [exact SimEq_init|]. split; [exact SimEq_lib_call|]. split; [exact SimEq_resume_stack|].
  split; [exact SimEq_exec|]. split; [exact SimEq_step_task|]. split; [exact SimEq_run_one|].
  split; [exact SimEq_begin_iteration|exact SimEq_do_action].
Qed.
Print Assumptions C10_whole_run_simulation.

(* the queue conditions (b), (c) of the monitor are consequences of the C09 invariant for
   every task that is not done; at a library call made in a state satisfying InvC (every
   state of the list loop reached by an actions_ok history, between steps and inside them:
   C09_inv, C09_inv_inside_step) the monitor reduces to: set_priority only with 0, and the
   target of task_switch / task_reinsert is not a done task.  Hence one library call keeps
   the two loops in step under these plain conditions. *)
From Asynkit Require Import Sched.PartitionFinal.
Theorem C10_whole_run_monitor :
  (forall qok c s, InvC qok c s -> rwfb s = true) /\
  (forall qok c s t, InvC qok c s -> tdone s t = false -> uq s t = true) /\
  (forall qok, QSpec qok -> forall c s t op, InvC qok c s ->
     match op with
     | OSetPrio p => Qeq_bool p 0 = true
     | OTaskSwitch t' _ | OTaskReinsert t' _ => tdone s t' = false
     | _ => True
     end -> mon_lib t op s = true) /\
  (forall qok, QSpec qok -> forall c s t fr inp, InvC qok c s -> mon_frame t fr inp s = true) /\
  (forall c t op sl sp, InvC qok_list c sl -> SimEq sl sp ->
     match op with
     | OSetPrio p => Qeq_bool p 0 = true
     | OTaskSwitch t' _ | OTaskReinsert t' _ => tdone sl t' = false
     | _ => True
     end ->
     SimEq (fst (lib_call t op sl)) (fst (lib_call t op sp)) /\
     snd (lib_call t op sp) = snd (lib_call t op sl)).
Proof.
  split; [exact rwfb_of_inv|]. split; [exact uq_of_inv|]. split; [exact mon_lib_of_inv|].
  split; [exact mon_frame_of_inv|].
  intros c t op sl sp I H Hc. apply SimEq_lib_call; auto.
  exact (mon_lib_of_inv qok_list QSpec_list c sl t op I Hc).
Qed.
Print Assumptions C10_whole_run_monitor.

(* non-vacuity: three tasks (two PriorityTasks of priority 0 and a plain task) contending
   for a PriorityLock, with sleep_insert, task_switch (both forms), cancel, set_priority(0),
   a sleep timer and the clock; boost factor 1/2.  The monitor holds (vm_compute), so the
   theorem applies: the two final states are SimEq; the log shows the interleaving. *)
Example C10_example_whole_run :
  mon_run (init_st false (1#2) [1#3; 2#3] [LPrio] [] 0) ex_acts = true /\
  SimEq ex_sl ex_sp /\
  log ex_sl = [(1, 1%Z); (1, 2%Z); (3, 4%Z); (2, 3%Z); (3, 5%Z); (3, 8%Z); (1, 6%Z); (2, 7%Z)] /\
  log ex_sp = log ex_sl /\
  mon_run (init_st false (1#2) [] [] [] 0) [ASpawn (SPrio 1) (Ret 0)] = false.
Proof.
  split; [exact ex_mon|]. destruct equal_priorities_example as (H1 & H2 & H3 & _).
  split; [exact H1|]. split; [exact H2|]. split; [exact H3|]. exact (proj1 ex_mon_rejects).
Qed.
Print Assumptions C10_example_whole_run.

(* ------------------------------------------------------------------------------------
   Equal priorities, the whole run, with ONLY standard / syntactic hypotheses
   (Sched/EqualStaticA.v, EqualStatic.v on top of Sched/Inert*.v).  The run-checked monitor
   mon_run of C10_equal_priorities_whole_run is discharged for whole runs: Inv09 and the
   invariant XI ("finished tasks are inert", Props/C09.v: C09_finished_tasks_inert) are threaded
   through exec / step_task / run_one / do_action beside the monitor; under them uq s t holds for
   EVERY task t (not done: at most one handle, Inv09; finished: no handle, XI) and rwfb is i_rwf.

   Hypotheses on the run of the LIST loop from sl0 = init_st false ...:
     actions_ok sl0 acts     C09's side condition (task_timeout's exit uses a block id it got
                             from its enter);
     nec sl0 acts            no action / library call of the run resolves, fails or
                             cancels-as-a-future the future that belongs to a task (run-checked;
                             implied by the syntactic Forall act_nf acts: no OSetResult / OSetExc /
                             OFutCancel at all);
     Forall act_pz acts      syntactic: every Spawn (SPrio p) / ASpawn (SPrio p) / OSetPrio p in the
                             programs and actions of the run has p == 0 (pz: a coro tree all of
                             whose priority arguments are == 0, for every reply).
   No operation of the language is excluded. *)
From Asynkit Require Import Sched.InertBase Sched.InertLib Sched.InertRun Sched.InertStatic Sched.EqualStaticA
     Sched.EqualStatic.

Theorem C10_equal_priorities_whole_run_static :
  (* the monitor holds on every such run ... *)
  (forall factor draws lks cds nev (acts : list action),
     let sl0 := init_st false factor draws lks cds nev in
     actions_ok sl0 acts -> nec sl0 acts -> Forall act_pz acts -> mon_run sl0 acts = true) /\
  (* ... hence, after every prefix, the list loop and the priority loop (any boost factor, any
     draws) agree on every component and on the run order of the ready queue *)
  (forall factor draws lks cds nev (acts : list action),
     let sl0 := init_st false factor draws lks cds nev in
     let sp0 := init_st true factor draws lks cds nev in
     actions_ok sl0 acts -> nec sl0 acts -> Forall act_pz acts ->
     forall n,
       let sl := fold_left do_action (firstn n acts) sl0 in
       let sp := fold_left do_action (firstn n acts) sp0 in
       handles sp = handles sl /\ futs sp = futs sl /\ tasks sp = tasks sl /\
       locks sp = locks sl /\ conds sp = conds sl /\ events sp = events sl /\
       blocks sp = blocks sl /\ timers sp = timers sl /\ now sp = now sl /\
       current sp = current sl /\ log sp = log sl /\ errors sp = errors sl /\
       rq_items (ready sp) = rq_items (ready sl) /\
       RisoB 0 (ready sp) (ready sl) /\
       (forall t, effective_priority sp t = effective_priority sl t /\ effective_priority sl t == 0)) /\
  (* ... and in terms of the correspondence observation *)
  (forall factor draws lks cds nev (acts : list saction),
     let sl0 := init_st false factor draws lks cds nev in
     actions_ok sl0 (map act acts) -> nec sl0 (map act acts) -> Forall act_pz (map act acts) ->
     run_view (init_st true factor draws lks cds nev) acts = run_from sl0 acts) /\
  (* the building blocks: under InvC + XI, inside steps too, every monitor check succeeds *)
  (forall qok, QSpec qok ->
     (forall c s t, InvC qok c s -> XI c s -> uq s t = true) /\
     (forall c s t op, InvC qok c s -> XI c s -> op_pz op -> mon_lib t op s = true) /\
     (forall c t c0, pz c0 -> forall s, coro_ok (List.length (blocks s)) c0 -> exec_nec t c0 s ->
                     InvC qok c s -> XI c s -> mon_exec t c0 s = true)) /\
  (* nec from the syntactic condition *)
  (forall prio factor draws lks cds nev acts,
     Forall act_nf acts -> nec (init_st prio factor draws lks cds nev) acts).
Proof.
  split; [exact mon_run_static|]. split.
  - intros factor draws lks cds nev acts sl0 sp0 Ha Hn Hp n sl sp.
    pose proof (equal_priorities_whole_run_static factor draws lks cds nev acts Ha Hn Hp n) as H.
    fold sl0 sp0 in H. fold sl sp in H.
    destruct (SimEq_order sl sp H) as (Hi & He & _).
    destruct H. repeat split; auto; apply He.
  - split; [exact equal_priorities_whole_run_obs_static|]. split; [|exact nec_static_init].
    intros qok QS. split; [exact (uq_inert qok)|]. split; [exact (mon_lib_inert qok QS)|].
    exact (mon_exec_inert qok QS).
Qed.
Print Assumptions C10_equal_priorities_whole_run_static.

(* non-vacuity: the run of C10_example_whole_run satisfies the three hypotheses (actions_ok and
   act_pz syntactically, nec through the static condition act_nf), so the monitor and the
   simulation follow without computing the monitor *)
Example C10_example_whole_run_static :
  actions_ok ex_sl0 ex_acts /\ nec ex_sl0 ex_acts /\ Forall act_pz ex_acts /\
  mon_run ex_sl0 ex_acts = true /\ SimEq ex_sl ex_sp /\
  log ex_sp = [(1, 1%Z); (1, 2%Z); (3, 4%Z); (2, 3%Z); (3, 5%Z); (3, 8%Z); (1, 6%Z); (2, 7%Z)].
Proof. exact equal_priorities_static_example. Qed.
