From Coq Require Import QArith.
From Asynkit Require Import Base.Prelude Queue.PQ Queue.PosPQ Sched.Model.
(* placeholder: the C12 theorems land in Sched/InheritProofs.v *)
Theorem C12_wake_targets_heap_head :
  forall s l, arr (lpq (getl s l)) = [] -> wake_up_first_p s l = s.
Proof. intros s l H. unfold wake_up_first_p. rewrite H. reflexivity. Qed.
Print Assumptions C12_wake_targets_heap_head.
