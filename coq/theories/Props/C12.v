(* C12 - PriorityLock hands over in effective-priority order.
   Statements over the executable scheduler model (Sched/Model.v).  The waiter queue of lock
   l is [lpq (getl s l)]: a heapq array [arr] of entries (epri = key, eseq = arrival
   sequence number, eobj = waiter future), with [lwt] mapping each future to its task.
   Vocabulary (Sched/InheritHandover.v, Sched/InheritKeys.v):
     entry_task lk e   = the task recorded for the future of entry e;
     wprio s w         = effective_priority s w for a PriorityTask, 0 for a plain task;
     live s e          = the future of e is still pending;
     keyed s l         = every live entry of l has key == wprio of its task (up to == on Q);
     before s l a b    = wprio(task a) < wprio(task b), or == and eseq a < eseq b;
     woken s g         = future g holds a result/exception (the test of _wake_up_first);
     lwt_ok s          = no waiter future is recorded twice in a lock's future->task table;
     blocked_on s w l f = PriorityTask w is not runnable, _waiting_on = l, and (f, w) is its
                         only row in lwt of l;
     reaches s n t w   = propagate_priority started at t arrives at w after n hops
                         (blocked task -> owner of the lock it waits for). *)
From Coq Require Import QArith Sorting.Permutation.
From Asynkit Require Import Base.Prelude Queue.PQ Queue.PosPQ Queue.Exec Sched.Model Sched.QFacts
  Sched.LockInv Sched.LockThms Sched.InheritEprio Sched.InheritHandover Sched.InheritKeys
  Sched.InheritFalls Sched.InheritExamples Sched.InheritThms.
Open Scope nat_scope.

(* Whenever _wake_up_first changes the state of a future f in a reachable state, f was
   pending and now holds the result True, it is the future of array element 0, which is
   STRICTLY least by (key, arrival number) among ALL queued entries, no queued waiter was
   already woken (at most one hand-over in flight), and no other future changes. *)
Theorem C12_handover_is_heap_min :
  forall s l f, reachable s ->
    fstate_ (getf (wake_up_first_p s l) f) <> fstate_ (getf s f) ->
    exists head rest,
      arr (lpq (getl s l)) = head :: rest /\ f = Z.to_nat (eobj head) /\
      fstate_ (getf s f) = FPending /\
      fstate_ (getf (wake_up_first_p s l) f) = FResult 1 /\
      (forall e, In e rest -> entry_lt qltb head e = true) /\
      (forall g, In g (pq_objs (lpq (getl s l))) -> woken s g = false) /\
      (forall g, g <> f -> fstate_ (getf (wake_up_first_p s l) g) = fstate_ (getf s g)).
Proof. exact C12_heap_min_reach. Qed.
Print Assumptions C12_handover_is_heap_min.

(* entry_lt qltb is the lexicographic order on (key, arrival number) *)
Theorem C12_entry_order :
  forall a b : entry Q,
    entry_lt qltb a b = true <->
    (epri a < epri b)%Q \/ ((epri a == epri b)%Q /\ (eseq a < eseq b)%Z).
Proof. exact elt_q_true. Qed.
Print Assumptions C12_entry_order.

(* arrival numbers are arrival order: add() gives the new entry a number above all queued *)
Theorem C12_arrival_numbers :
  forall (q : pq Q) p o, PQInv q ->
    Permutation (arr (pq_add HQ q p o)) (mkE p (seqn q) o :: arr q) /\
    forall e, In e (arr q) -> (eseq e < seqn q)%Z.
Proof. exact add_seq_last. Qed.
Print Assumptions C12_arrival_numbers.

(* Combination: if the keys of the live entries are the current effective priorities, the
   woken waiter is the (effective priority, arrival)-least live waiter. *)
Theorem C12_handover :
  forall s l f, PQInv (lpq (getl s l)) -> keyed s l ->
    fstate_ (getf (wake_up_first_p s l) f) <> fstate_ (getf s f) ->
    exists head rest,
      arr (lpq (getl s l)) = head :: rest /\ f = Z.to_nat (eobj head) /\
      fstate_ (getf s f) = FPending /\
      fstate_ (getf (wake_up_first_p s l) f) = FResult 1 /\
      (forall e, In e rest -> live s e -> before s l head e) /\
      (forall g, In g (pq_objs (lpq (getl s l))) -> woken s g = false).
Proof. exact handover_by_eprio. Qed.
Print Assumptions C12_handover.

(* Plain tasks count as 0: a lock whose waiters are all plain tasks is FIFO. *)
Theorem C12_plain_fifo :
  forall s l f, PQInv (lpq (getl s l)) -> keyed s l ->
    (forall e, In e (arr (lpq (getl s l))) -> is_prio_task s (entry_task (getl s l) e) = false) ->
    fstate_ (getf (wake_up_first_p s l) f) <> fstate_ (getf s f) ->
    exists head rest,
      arr (lpq (getl s l)) = head :: rest /\ f = Z.to_nat (eobj head) /\
      (forall e, In e rest -> live s e -> (eseq head < eseq e)%Z).
Proof. exact handover_plain_fifo. Qed.
Print Assumptions C12_plain_fifo.

(* Key tracking.  propagate_priority (called by acquire() on the owner of the lock, when
   somebody starts waiting for a lock the owner holds):
   - changes no effective priority;
   - keeps every lock's future->task table and set of queued futures; every entry keeps
     its future and its arrival number, and its key is the old one or the CURRENT effective
     priority of its task (so arrival order among equals is kept);
   - keeps up-to-date keys up to date;
   - re-keys, for every blocked PriorityTask w on the holder chain (t, the owner of the lock
     t waits for, ...), the entry of w in the lock it waits for to w's current effective
     priority. *)
Theorem C12_key_tracks_eprio :
  forall s t, Inv s -> lwt_ok s ->
    let s' := propagate_priority s t in
    (forall u, (effective_priority s' u == effective_priority s u)%Q) /\
    (forall l, lwt (getl s' l) = lwt (getl s l) /\
               Permutation (pq_objs (lpq (getl s' l))) (pq_objs (lpq (getl s l))) /\
               forall e', In e' (arr (lpq (getl s' l))) ->
                 exists e, In e (arr (lpq (getl s l))) /\ eseq e' = eseq e /\ eobj e' = eobj e /\
                   ((epri e' == epri e)%Q \/
                    (epri e' == wprio s' (entry_task (getl s' l) e'))%Q)) /\
    (forall l, keyed s l -> keyed s' l) /\
    (forall n w l f, reaches s n t w -> n < efuel s -> blocked_on s w l f ->
       forall e, In e (arr (lpq (getl s' l))) -> Z.to_nat (eobj e) = f ->
                 (epri e == effective_priority s' w)%Q).
Proof. exact C12_propagate_thm. Qed.
Print Assumptions C12_key_tracks_eprio.

(* Non-vacuity: the reachable state istA (H = task 0 holds lock 0; W1 = task 1, own priority
   5, holds lock 1 and is queued on lock 0 as future 3, arrival 0; W2 = task 2, priority 3,
   queued on lock 0 as future 4, arrival 1; the late X = task 3, priority -5, queued on
   lock 1).  The run has re-keyed W1's entry to the inherited -5, all hypotheses of the
   theorems hold, and H's release() hands lock 0 to the inheritor W1, not to W2. *)
Theorem C12_example :
  (reachable istA /\ ranked istA /\ lwt_ok istA /\
   arr (lpq (getl istA 0)) = [mkE (-5)%Q 0 3; mkE 3%Q 1 4] /\
   lwt (getl istA 0) = [(3, 1); (4, 2)] /\
   PQInv (lpq (getl istA 0)) /\ keyed istA 0 /\ keyed istA 1 /\
   blocked_on istA 1 0 3 /\ blocked_on istA 3 1 6 /\ reaches istA 1 3 1 /\
   map (fun t => Qred (effective_priority istA t)) [0; 1; 2; 3] = [(-5)%Q; (-5)%Q; 3%Q; (-5)%Q] /\
   map (own istA) [0; 1; 2; 3] = [0%Q; 5%Q; 3%Q; (-5)%Q]) /\
  (release_p istA 0 0 = (wake_up_first_p istA_free 0, RVal 0) /\
   PQInv (lpq (getl istA_free 0)) /\ keyed istA_free 0 /\
   fstate_ (getf (wake_up_first_p istA_free 0) 3) = FResult 1 /\
   fstate_ (getf (wake_up_first_p istA_free 0) 4) = FPending /\
   map (fun f => fstate_ (getf istR f)) [3; 4] = [FResult 1; FPending] /\
   Qred (effective_priority istR 0) = 0%Q).
Proof. exact (conj istA_facts istA_handover). Qed.
Print Assumptions C12_example.

(* Before the fix (finding F8): PriorityLock.propagate_priority looked the waiter up with
   `fut is from_obj` although from_obj is the task, so reschedule() never found it
   ([propagate_task_old]: the same code with a key that is never true).  In the reachable
   state istPre, X's acquire(lock 1) leaves W1's entry with the stale key 5 although W1 now
   has effective priority -5; the keys no longer track the effective priorities and
   release() hands lock 0 to W2 (future 4, key 3): the more urgent W1 is overtaken.  The
   repaired code re-keys the entry (same arrival number 0) and W1 gets the lock. *)
Theorem C12_refuted_before_fix :
  reachable istPre /\
  arr (lpq (getl istOld 0)) = [mkE 3%Q 1 4; mkE 5%Q 0 3] /\
  map (fun t => Qred (effective_priority istOld t)) [1; 2] = [(-5)%Q; 3%Q] /\
  ~ keyed istOld 0 /\
  map (fun f => fstate_ (getf (fst (release_p istOld 0 0)) f)) [3; 4] = [FPending; FResult 1] /\
  arr (lpq (getl istNew 0)) = [mkE (-5)%Q 0 3; mkE 3%Q 1 4] /\
  map (fun f => fstate_ (getf (fst (release_p istNew 0 0)) f)) [3; 4] = [FResult 1; FPending].
Proof. exact rekey_refuted_before_fix. Qed.
Print Assumptions C12_refuted_before_fix.

(* ------------------------------------------------------------------------------------------
   Appended: hypotheses discharged from reachability (second invariant [WInv], Sched/WaitInv.v,
   WaitOps.v, WaitLib.v, WaitProofs.v; corollaries Sched/WaitThms.v; finding F16 and its
   repair Sched/InheritStale.v, WaitStale.v).
   [reachable_ne s] (Sched/WaitProofs.v): s is reached from an initial state by an action list
   satisfying run_ok and run_ne: no eager start ([Spawn SEager]) is executed, and an
   environment call [ADo op] with op a release / condition wait / set-priority (these act as
   "task 0") is made only while task 0 is not queued on a PriorityLock. *)
From Asynkit Require Import Sched.Corr Sched.LockProofs Sched.InheritStale Sched.WaitInv Sched.WaitProofs
  Sched.WaitThms Sched.WaitStale.

(* C12_key_tracks_eprio in every reachable state: [lwt_ok] is an invariant, and of
   [blocked_on] only "w is a PriorityTask with a row (f, w) in l that is not runnable" has to
   be supplied (_waiting_on = l and the uniqueness of the row follow). *)
Theorem C12_key_tracks_eprio_reachable :
  forall s t, reachable s ->
    let s' := propagate_priority s t in
    (forall u, (effective_priority s' u == effective_priority s u)%Q) /\
    (forall l, lwt (getl s' l) = lwt (getl s l) /\
               Permutation (pq_objs (lpq (getl s' l))) (pq_objs (lpq (getl s l))) /\
               forall e', In e' (arr (lpq (getl s' l))) ->
                 exists e, In e (arr (lpq (getl s l))) /\ eseq e' = eseq e /\ eobj e' = eobj e /\
                   ((epri e' == epri e)%Q \/
                    (epri e' == wprio s' (entry_task (getl s' l) e'))%Q)) /\
    (forall l, keyed s l -> keyed s' l) /\
    (forall n w l f, reaches s n t w -> n < efuel s ->
       is_prio_task s w = true -> In (f, w) (lwt (getl s l)) -> task_is_runnable s w = false ->
       forall e, In e (arr (lpq (getl s' l))) -> Z.to_nat (eobj e) = f ->
                 (epri e == effective_priority s' w)%Q).
Proof. exact propagate_reach_thm. Qed.
Print Assumptions C12_key_tracks_eprio_reachable.

(* Before the fix of finding F16: acquire()'s `finally` only removed the leaving waiter's entry
   ([InheritStale.acquire_p_finish_old]: the old text of Model.acquire_p_finish, which differs
   from the current one only by the missing `owning.propagate_priority(self)` when the lock
   stays locked; Sched/InheritStale.v, not part of the model).  istX is the state of the run of
   C12_example continued by X.cancel(), just before the cancelled X (task 3, suspended in
   acquire(lock 1) on its future 6) runs that `finally`: it is reachable in the current model,
   without eager starts, acyclic, and `keyed` holds for both locks (W1 still inherits -5 from
   the queued X).  With the old text X leaves lock 1, W1's effective priority is its own 5
   again, but W1's live entry in lock 0 keeps the inherited key -5: `keyed` fails (nothing
   re-keyed when an effective priority became LESS urgent), and H's release() hands lock 0 to
   W1 although the live waiter W2 (effective priority 3) is `before` W1.  The unrepaired
   asynkit code behaved the same (replayed on /repo/src before the fix). *)
Theorem C12_refuted_before_fix_F16 :
  (* istXold: X's `finally` with the old text, applied in istX *)
  istXold = fst (InheritStale.acquire_p_finish_old istX 3 1 6 true (RExc ECancelled)) /\
  (reachable_ne istX /\
   tframes istX 3 = [InFut 6; InAcquireP 1 6 true] /\ task_is_runnable istX 3 = true /\
   fstate_ (getf istX 6) = FCancelled /\ keyed istX 0 /\ keyed istX 1) /\
  ranked istXold /\
  arr (lpq (getl istXold 0)) = [mkE (-5)%Q 0 3; mkE 3%Q 1 4] /\
  lwt (getl istXold 0) = [(3, 1); (4, 2)] /\
  map (fun t => Qred (wprio istXold t)) [1; 2] = [5%Q; 3%Q] /\
  live istXold (mkE (-5)%Q 0 3) /\ live istXold (mkE 3%Q 1 4) /\
  ~ keyed istXold 0 /\
  (* the queued W1 holds lock 1: outside the domain of C12_handover_reachable *)
  tholding (gett istXold 1) = [1] /\
  release_p istXold 0 0 = (wake_up_first_p (pre_wake istXold 0 0) 0, RVal 0) /\
  before (pre_wake istXold 0 0) 0 (mkE 3%Q 1 4) (mkE (-5)%Q 0 3) /\
  map (fun f => fstate_ (getf (fst (release_p istXold 0 0)) f)) [3; 4] = [FResult 1; FPending] /\
  (* the old and the current text agree unless the lock stays locked by another task *)
  (forall s t l f had inp,
     (let s' := fst (InheritStale.acquire_p_finish_old s t l f had inp) in
      llocked (getl s' l) = false \/ lowner (getl s' l) = Some t \/ lowner (getl s' l) = None) ->
     acquire_p_finish s t l f had inp = InheritStale.acquire_p_finish_old s t l f had inp).
Proof.
  destruct istX_facts as (_ & _ & _ & _ & _ & _ & _ & _ & XF & XR & XK0 & XK1).
  destruct istXold_facts as (A & B & _ & _ & _ & _ & C & _ & D & E & T & F).
  destruct istXold_handover as (G & _ & _ & _ & _ & H & _ & J).
  split; [exact istXold_def|].
  split.
  { split; [exact reachable_ne_istX|]. split; [exact XF|]. split; [exact XR|].
    split; [exact istX_fut6|split; [exact XK0|exact XK1]]. }
  split; [exact istXold_ranked|].
  split; [exact A|]. split; [exact B|]. split; [exact C|]. split; [exact D|]. split; [exact E|].
  split; [exact F|]. split; [exact T|]. split; [exact G|]. split; [exact H|].
  split; [rewrite G; exact J|]. exact finish_old_agrees.
Qed.
Print Assumptions C12_refuted_before_fix_F16.

(* The repaired code on the same run: istLeft is the state after X has run the current
   `finally` (reachable without eager starts, acyclic; the queued W1 still holds lock 1, so the
   state is outside the domain of C12_handover_reachable).  The `finally` has re-keyed W1's
   entry in lock 0 to W1's current effective priority 5, keeping its arrival number 0 (the keys
   of lock 0 are (3, W2), (5, W1)); `keyed` holds for both locks, and H's release() hands
   lock 0 to W2 (future 4), the (effective priority, arrival)-least live waiter. *)
Theorem C12_repaired_F16_example :
  reachable_ne istLeft /\ ranked istLeft /\
  (* istXnew: X's `finally` with the current text, applied in istX *)
  istXnew = fst (acquire_p_finish istX 3 1 6 true (RExc ECancelled)) /\
  arr (lpq (getl istXnew 0)) = [mkE 3%Q 1 4; mkE 5%Q 0 3] /\
  arr (lpq (getl istLeft 0)) = [mkE 3%Q 1 4; mkE 5%Q 0 3] /\
  lwt (getl istLeft 0) = [(3, 1); (4, 2)] /\
  map (fun t => Qred (wprio istLeft t)) [1; 2] = [5%Q; 3%Q] /\
  live istLeft (mkE 5%Q 0 3) /\ live istLeft (mkE 3%Q 1 4) /\
  keyed istLeft 0 /\ keyed istLeft 1 /\
  tholding (gett istLeft 1) = [1] /\
  release_p istLeft 0 0 = (wake_up_first_p (pre_wake istLeft 0 0) 0, RVal 0) /\
  PQInv (lpq (getl (pre_wake istLeft 0 0) 0)) /\ keyed (pre_wake istLeft 0 0) 0 /\
  before (pre_wake istLeft 0 0) 0 (mkE 3%Q 1 4) (mkE 5%Q 0 3) /\
  map (fun f => fstate_ (getf (fst (release_p istLeft 0 0)) f)) [3; 4] = [FPending; FResult 1] /\
  (* the same in the run itself *)
  map (fun f => fstate_ (getf istAfter f)) [3; 4] = [FPending; FResult 1].
Proof.
  destruct istLeft_facts as (N & A & B & _ & _ & _ & _ & C & _ & D & E & T & K0 & K1).
  destruct istLeft_handover as (G & _ & Q & KF & H & J & R & _).
  split; [exact reachable_ne_istLeft|]. split; [exact istLeft_ranked|]. split; [exact istXnew_def|].
  split; [exact N|]. split; [exact A|]. split; [exact B|]. split; [exact C|]. split; [exact D|].
  split; [exact E|]. split; [exact K0|]. split; [exact K1|]. split; [exact T|]. split; [exact G|].
  split; [exact Q|]. split; [exact KF|]. split; [exact H|]. split; [rewrite G; exact J|exact R].
Qed.
Print Assumptions C12_repaired_F16_example.

(* Key tracking when a waiter LEAVES (the repair of F16 in general; Sched/InheritLeave.v).
   acquire()'s `finally` for waiter future f of lock l, run by task t while l is locked by
   another task o (t was cancelled / interrupted, or woken although the lock has an owner):
   nothing is taken, and
   - l stays locked by o and f is no longer queued on it;
   - compared with the old text of the `finally` (which stopped after removing the entry) only
     keys differ: same effective priorities, same future->task tables and queued futures, every
     entry keeps future and arrival number, its key is the old one or the CURRENT effective
     priority of its task; up-to-date keys stay up to date;
   - for every blocked PriorityTask w on the holder chain above o (o itself, the owner of the
     lock o waits for, ...) the entry of w in the lock it waits for is keyed by w's effective
     priority in the resulting state - which no longer counts the waiter that left.
   Hypotheses as for C12_key_tracks_eprio (C13's invariant, lwt_ok, the chain fits the recursion
   budget), plus: every task recorded for the leaving future f is runnable - it is the task
   running the `finally` (Task.__step has cleared its _fut_waiter). *)
From Asynkit Require Import Sched.InheritLeave.
Theorem C12_rekey_on_leave :
  forall s t l f had inp o, Inv s -> lwt_ok s ->
    In f (pq_objs (lpq (getl s l))) ->
    llocked (getl s l) = true -> lowner (getl s l) = Some o -> o <> t ->
    (forall l0 u, In (f, u) (lwt (getl s l0)) -> task_is_runnable s u = true) ->
    let s' := fst (acquire_p_finish s t l f had inp) in
    let sO := fst (InheritStale.acquire_p_finish_old s t l f had inp) in
    (llocked (getl s' l) = true /\ lowner (getl s' l) = Some o /\
     ~ In f (pq_objs (lpq (getl s' l)))) /\
    (forall u, (effective_priority s' u == effective_priority sO u)%Q) /\
    (forall l0, lwt (getl s' l0) = lwt (getl sO l0) /\
                Permutation (pq_objs (lpq (getl s' l0))) (pq_objs (lpq (getl sO l0))) /\
                forall e', In e' (arr (lpq (getl s' l0))) ->
                  exists e, In e (arr (lpq (getl sO l0))) /\ eseq e' = eseq e /\ eobj e' = eobj e /\
                    ((epri e' == epri e)%Q \/
                     (epri e' == wprio s' (entry_task (getl s' l0) e'))%Q)) /\
    (forall l0, keyed sO l0 -> keyed s' l0) /\
    (forall n w l1 f1, reaches s n o w -> n < efuel s -> blocked_on s w l1 f1 ->
       forall e, In e (arr (lpq (getl s' l1))) -> Z.to_nat (eobj e) = f1 ->
                 (epri e == effective_priority s' w)%Q).
Proof. exact rekey_on_leave. Qed.
Print Assumptions C12_rekey_on_leave.

(* Non-vacuity of C12_rekey_on_leave: its hypotheses hold in the reachable state istX for X's
   `finally` (t = 3, l = 1, f = 6, o = W1 = 1; W1 is blocked on lock 0 with future 3), and the
   theorem gives that W1's entry in lock 0 carries W1's effective priority afterwards. *)
Theorem C12_rekey_on_leave_example :
  (Inv istX /\ lwt_ok istX /\ In 6 (pq_objs (lpq (getl istX 1))) /\
   llocked (getl istX 1) = true /\ lowner (getl istX 1) = Some 1 /\
   (forall l0 u, In (6, u) (lwt (getl istX l0)) -> task_is_runnable istX u = true) /\
   reaches istX 0 1 1 /\ 0 < efuel istX /\ blocked_on istX 1 0 3) /\
  (forall e, In e (arr (lpq (getl istXnew 0))) -> Z.to_nat (eobj e) = 3 ->
             (epri e == effective_priority istXnew 1)%Q).
Proof.
  split; [|exact istX_rekey_by_theorem].
  split; [exact (reachable_inv _ reachable_istX)|]. split; [exact (reach_lwt_ok _ reachable_istX)|].
  split; [vm_compute; auto|]. split; [vm_compute; reflexivity|]. split; [vm_compute; reflexivity|].
  split; [exact istX_caller_runs|]. split; [constructor|]. split; [unfold efuel; lia|exact istX_b1].
Qed.
Print Assumptions C12_rekey_on_leave_example.

(* The domain on which the keys ARE up to date: in every state reachable without eager
   starts, the live entry of a queued task that holds no PriorityLock is keyed by that task's
   current effective priority (= its own priority; 0 for a plain task).  So [keyed s l] holds
   whenever the tasks queued on l hold no PriorityLock (no nested locking among the waiters). *)
Theorem C12_keyed_lock_free_waiters :
  forall s l, reachable_ne s ->
    (forall e, In e (arr (lpq (getl s l))) -> live s e ->
       tholding (gett s (entry_task (getl s l) e)) = [] ->
       (epri e == wprio s (entry_task (getl s l) e))%Q) /\
    ((forall f w, In (f, w) (lwt (getl s l)) -> tholding (gett s w) = []) -> keyed s l).
Proof.
  intros s l Hr. split; [intros e; now apply reach_ne_key|now apply reach_ne_keyed_flat].
Qed.
Print Assumptions C12_keyed_lock_free_waiters.

(* Hand-over in effective-priority order from reachability alone (no keyed / lwt_ok / PQInv
   hypothesis), on that domain: whenever _wake_up_first resolves a future, it is the future of
   the (effective priority, arrival)-least live waiter. *)
Theorem C12_handover_reachable :
  forall s l f, reachable_ne s ->
    (forall g w, In (g, w) (lwt (getl s l)) -> tholding (gett s w) = []) ->
    fstate_ (getf (wake_up_first_p s l) f) <> fstate_ (getf s f) ->
    exists head rest,
      arr (lpq (getl s l)) = head :: rest /\ f = Z.to_nat (eobj head) /\
      fstate_ (getf s f) = FPending /\
      fstate_ (getf (wake_up_first_p s l) f) = FResult 1 /\
      (forall e, In e rest -> live s e -> before s l head e) /\
      (forall g, In g (pq_objs (lpq (getl s l))) -> woken s g = false).
Proof. exact handover_reach. Qed.
Print Assumptions C12_handover_reachable.

(* ... and for the hand-over performed by release() itself (the wake-up happens in the
   intermediate state pre_wake, after the owner has been cleared): if release() by the owner t
   resolves a future, it is the future of the (effective priority, arrival)-least live waiter,
   priorities and liveness taken in the state s before the release. *)
Theorem C12_release_handover_reachable :
  forall s t l f, reachable_ne s ->
    llocked (getl s l) = true -> lowner (getl s l) = Some t ->
    (forall g w, In (g, w) (lwt (getl s l)) -> tholding (gett s w) = []) ->
    fstate_ (getf (fst (release_p s t l)) f) <> fstate_ (getf s f) ->
    exists head rest,
      arr (lpq (getl s l)) = head :: rest /\ f = Z.to_nat (eobj head) /\
      fstate_ (getf s f) = FPending /\
      fstate_ (getf (fst (release_p s t l)) f) = FResult 1 /\
      (forall e, In e rest -> live s e -> before s l head e) /\
      (forall g, In g (pq_objs (lpq (getl s l))) -> woken s g = false).
Proof. exact release_handover_reach. Qed.
Print Assumptions C12_release_handover_reachable.

(* The domain is implied by a syntactic condition (Sched/LockStatic.v, Sched/WaitStatic.v), as
   for C13: every action is [ASpawn how c] with c a program without set_result/set_exception
   calls ([nosr]) and without [Spawn SEager] anywhere, continuations included ([noeag]), or
   [ADo op] with op none of OSetResult / OSetExc / OAcquire / ORelease / OCondWait / OSetPrio,
   or a step / clock action.  Then every state of the run is [reachable_ne], hence satisfies
   all the theorems above and C11_graph_consistent, C14_lock_on_exit_reachable.  Harness
   scripts without eager spawn denote such programs ([denote_task_noeag], [denote_task_nosr]). *)
From Asynkit Require Import Sched.LockStatic Sched.WaitStatic.
Theorem C12_domain_static :
  forall p fa dr lks cds nev acts,
    Forall act_static acts -> Forall act_static_ne acts ->
    reachable_ne (fold_left do_action acts (init_st p fa dr lks cds nev)).
Proof. exact static_reachable_ne. Qed.
Print Assumptions C12_domain_static.

(* ------------------------------------------------------------------------------------------
   Appended: the last sentence of C12 as a HISTORY theorem over runs
   ("A waiter is never overtaken by a waiter that was strictly less urgent during the whole
     time both were waiting"): Sched/NoOvertakeRel.v (step relations), NoOvertakePass.v (every
   scheduler action, by a pass through all primitives / frames / coro trees), NoOvertakeThms.v,
   NoOvertakeExample.v.
   A run: the action list [acts] from an initial state; T k = the state after the first k
   actions.  Domain: run_ok (C13's side condition) and run_ne (no asynkit.eager() start is
   executed; ADo release/wait/set-priority only while task 0 is not queued) - both hold for
   every run of the static class of C12_domain_static (run_ok_static_init, run_ne_static_init).
   Vocabulary (NoOvertakeThms.v):
     queued_at s l f q   := exists e, In e (arr (lpq (getl s l))) /\ Z.to_nat (eobj e) = f /\ eseq e = q
     waits_at s l f q    := queued_at s l f q /\ fdone s f = false            (still pending)
     waits_through T l f q i j := forall k, i <= k <= j -> waits_at (T k) l f q
     granted_at T l f k  := f is queued on l in T k and in T (S k), pending in T k and woken
                            (holds a result) in T (S k): action k hands l over to that waiter
     waiter_prio s l f   := wprio s (task_of_fut (getl s l) f): effective priority of the task
                            recorded for waiter future f, 0 for a plain task
     flat s l            := the tasks queued on l hold no PriorityLock.
   Side condition added with the repair of F16 (all theorems that compare with the state BEFORE the
   action): "the holder of l is not itself queued on a PriorityLock" in that state,
     forall o l0 f, lowner (getl (T k) l) = Some o -> ~ In (f, o) (lwt (getl (T k) l0)).
   Reason: the `finally` of acquire() - the first thing a resumed waiter executes - now calls
   owning.propagate_priority when the waiter leaves a lock that stays locked, which re-keys entries up
   the holder chain; if the leaving task HOLDS l (a waits-for cycle through l, broken by a
   cancellation) entries of l are re-keyed and, later in the same step, the task can release l: the
   hand-over then follows the new keys, not those stored before the action.  Without the side
   condition the statements are false: C12_no_overtake_needs_holder_free.  In every other case an
   action that re-keys entries of l wakes no waiter of l (NoOvertakeRel.v: phase 0 [rek], and the
   ownership clauses [otr] of phase 1). *)
From Asynkit Require Import Sched.NoOvertakeRel Sched.NoOvertakePass Sched.NoOvertakeThms
  Sched.NoOvertakeExample.

(* One action, keys as stored.  If action k of the run hands lock l over to the waiter with
   future fb while the waiter with future fa is queued and pending before and after the action,
   then fb's entry is strictly (key, arrival number)-less than fa's entry, both taken from the
   waiter heap in the state BEFORE the action.  No hypothesis on keys or priorities: this is
   the heap-minimum property of _wake_up_first carried through the whole action (the wake-up
   happens at an intermediate state; entries are neither added nor re-keyed before it - given
   that the holder of l is not itself queued on a PriorityLock, see above). *)
Theorem C12_no_overtake_keys :
  forall prio_loop factor draws lks cds nev acts,
    let s0 := init_st prio_loop factor draws lks cds nev in
    let T := fun k => fold_left do_action (firstn k acts) s0 in
    run_ok s0 acts -> run_ne s0 acts ->
    forall l fa fb k ea eb, k < length acts ->
      (forall o l0 f, lowner (getl (T k) l) = Some o -> ~ In (f, o) (lwt (getl (T k) l0))) ->
      In ea (arr (lpq (getl (T k) l))) -> Z.to_nat (eobj ea) = fa ->
      In eb (arr (lpq (getl (T k) l))) -> Z.to_nat (eobj eb) = fb ->
      In fa (pq_objs (lpq (getl (T (S k)) l))) -> fdone (T (S k)) fa = false ->
      (In fb (pq_objs (lpq (getl (T k) l))) /\ In fb (pq_objs (lpq (getl (T (S k)) l))) /\
       fdone (T k) fb = false /\ woken (T (S k)) fb = true) ->
      (epri eb < epri ea)%Q \/ ((epri eb == epri ea)%Q /\ (eseq eb < eseq ea)%Z).
Proof.
  intros prio_loop factor draws lks cds nev acts s0 T Hok Hne l fa fb k ea eb.
  exact (no_overtake_keys prio_loop factor draws lks cds nev acts Hok Hne l fa fb k ea eb).
Qed.
Print Assumptions C12_no_overtake_keys.

(* C12_no_overtake_step.  ... hence, when the keys of l's live entries are the current effective
   priorities in the state before the action ([keyed], C12's domain; derived from reachability
   when the queued tasks hold no PriorityLock, see C12_no_overtake_flat), the waiter that is
   granted the lock was, at that moment, more urgent than every waiter that keeps waiting, or
   equally urgent and earlier.  Contrapositive: a waiter that is strictly more urgent than b
   (or equally urgent and earlier) and keeps waiting is not passed over in favour of b. *)
Theorem C12_no_overtake_step :
  forall prio_loop factor draws lks cds nev acts,
    let s0 := init_st prio_loop factor draws lks cds nev in
    let T := fun k => fold_left do_action (firstn k acts) s0 in
    run_ok s0 acts -> run_ne s0 acts ->
    forall l fa qa fb qb k, k < length acts ->
      (forall o l0 f, lowner (getl (T k) l) = Some o -> ~ In (f, o) (lwt (getl (T k) l0))) ->
      keyed (T k) l ->
      waits_at (T k) l fa qa -> waits_at (T (S k)) l fa qa ->
      queued_at (T k) l fb qb -> granted_at T l fb k ->
      (waiter_prio (T k) l fb < waiter_prio (T k) l fa)%Q \/
      ((waiter_prio (T k) l fb == waiter_prio (T k) l fa)%Q /\ (qb < qa)%Z).
Proof.
  intros prio_loop factor draws lks cds nev acts s0 T Hok Hne l fa qa fb qb k.
  exact (no_overtake_step prio_loop factor draws lks cds nev acts Hok Hne l fa qa fb qb k).
Qed.
Print Assumptions C12_no_overtake_step.

(* C12_no_overtake, the history statement.  Let a (future fa, arrival number qa) wait on l in
   every state of the window [i, j+1].  If b (future fb) is strictly less urgent than a (greater
   effective-priority value) in every state of [i, j] in which b is queued on l, then none of the
   actions i..j hands l over to b.  Hypotheses: run_ok, run_ne (the run), keyed in the states of
   the window (domain condition: keys track effective priorities - it fails only after a
   waiter's effective priority became LESS urgent while queued and nobody re-keyed it: a release /
   set-priority among its own waiters, O16; the cancellation case is repaired, F16), and in the
   same states the holder of l is not itself queued on a PriorityLock (which excludes the
   waits-for cycles through l; nothing else is assumed about acyclicity). *)
Theorem C12_no_overtake :
  forall prio_loop factor draws lks cds nev acts,
    let s0 := init_st prio_loop factor draws lks cds nev in
    let T := fun k => fold_left do_action (firstn k acts) s0 in
    run_ok s0 acts -> run_ne s0 acts ->
    forall l fa qa fb i j, j < length acts ->
      (forall k, i <= k <= S j ->
         (exists e, In e (arr (lpq (getl (T k) l))) /\ Z.to_nat (eobj e) = fa /\ eseq e = qa) /\
         fdone (T k) fa = false) ->
      (forall k, i <= k <= j -> forall o l0 f, lowner (getl (T k) l) = Some o -> ~ In (f, o) (lwt (getl (T k) l0))) ->
      (forall k, i <= k <= j -> keyed (T k) l) ->
      (forall k, i <= k <= j -> In fb (pq_objs (lpq (getl (T k) l))) ->
         (wprio (T k) (task_of_fut (getl (T k) l) fa) < wprio (T k) (task_of_fut (getl (T k) l) fb))%Q) ->
      forall k, i <= k <= j ->
        ~ (In fb (pq_objs (lpq (getl (T k) l))) /\ In fb (pq_objs (lpq (getl (T (S k)) l))) /\
           fdone (T k) fb = false /\ woken (T (S k)) fb = true).
Proof.
  intros prio_loop factor draws lks cds nev acts s0 T Hok Hne l fa qa fb i j.
  exact (no_overtake prio_loop factor draws lks cds nev acts Hok Hne l fa qa fb i j).
Qed.
Print Assumptions C12_no_overtake.

(* ... with [keyed] derived from reachability when the tasks queued on l hold no PriorityLock in
   the states of the window.  (The holder condition is kept here too; it is presumably implied on
   this domain - a re-keyed waiter holds a lock - but that is not proved.) *)
Theorem C12_no_overtake_flat :
  forall prio_loop factor draws lks cds nev acts,
    let s0 := init_st prio_loop factor draws lks cds nev in
    let T := fun k => fold_left do_action (firstn k acts) s0 in
    run_ok s0 acts -> run_ne s0 acts ->
    forall l fa qa fb i j, j < length acts ->
      waits_through T l fa qa i (S j) ->
      (forall k, i <= k <= j -> forall o l0 f, lowner (getl (T k) l) = Some o -> ~ In (f, o) (lwt (getl (T k) l0))) ->
      (forall k, i <= k <= j -> forall g w, In (g, w) (lwt (getl (T k) l)) -> tholding (gett (T k) w) = []) ->
      (forall k, i <= k <= j -> In fb (pq_objs (lpq (getl (T k) l))) ->
         (waiter_prio (T k) l fa < waiter_prio (T k) l fb)%Q) ->
      forall k, i <= k <= j -> ~ granted_at T l fb k.
Proof.
  intros prio_loop factor draws lks cds nev acts s0 T Hok Hne l fa qa fb i j.
  exact (no_overtake_flat prio_loop factor draws lks cds nev acts Hok Hne l fa qa fb i j).
Qed.
Print Assumptions C12_no_overtake_flat.

(* Among waiters that are equally urgent throughout, grants follow arrival order: if a arrived
   before b (qa < qb) and their effective priorities are equal in every state of the window in
   which b is queued, b is not granted l while a waits. *)
Theorem C12_fifo_among_equals_history :
  forall prio_loop factor draws lks cds nev acts,
    let s0 := init_st prio_loop factor draws lks cds nev in
    let T := fun k => fold_left do_action (firstn k acts) s0 in
    run_ok s0 acts -> run_ne s0 acts ->
    forall l fa qa fb qb i j, j < length acts ->
      waits_through T l fa qa i (S j) ->
      (forall k, i <= k <= j -> forall o l0 f, lowner (getl (T k) l) = Some o -> ~ In (f, o) (lwt (getl (T k) l0))) ->
      (forall k, i <= k <= j -> keyed (T k) l) ->
      (qa < qb)%Z ->
      (forall k, i <= k <= j -> queued_at (T k) l fb qb ->
         (waiter_prio (T k) l fa == waiter_prio (T k) l fb)%Q) ->
      forall k, i <= k <= j -> queued_at (T k) l fb qb -> ~ granted_at T l fb k.
Proof.
  intros prio_loop factor draws lks cds nev acts s0 T Hok Hne l fa qa fb qb i j.
  exact (fifo_among_equals prio_loop factor draws lks cds nev acts Hok Hne l fa qa fb qb i j).
Qed.
Print Assumptions C12_fifo_among_equals_history.

(* Plain asyncio tasks count as priority 0, so among plain tasks a PriorityLock is FIFO like
   asyncio.Lock; no [keyed] hypothesis (nobody queued on l holds a PriorityLock). *)
Theorem C12_fifo_plain_tasks_history :
  forall prio_loop factor draws lks cds nev acts,
    let s0 := init_st prio_loop factor draws lks cds nev in
    let T := fun k => fold_left do_action (firstn k acts) s0 in
    run_ok s0 acts -> run_ne s0 acts ->
    forall l fa qa fb qb i j, j < length acts ->
      waits_through T l fa qa i (S j) ->
      (forall k, i <= k <= j -> forall o l0 f, lowner (getl (T k) l) = Some o -> ~ In (f, o) (lwt (getl (T k) l0))) ->
      (forall k, i <= k <= j -> forall g w, In (g, w) (lwt (getl (T k) l)) -> tholding (gett (T k) w) = []) ->
      (qa < qb)%Z ->
      (forall k, i <= k <= j ->
         is_prio_task (T k) (task_of_fut (getl (T k) l) fa) = false /\
         is_prio_task (T k) (task_of_fut (getl (T k) l) fb) = false) ->
      forall k, i <= k <= j -> queued_at (T k) l fb qb -> ~ granted_at T l fb k.
Proof.
  intros prio_loop factor draws lks cds nev acts s0 T Hok Hne l fa qa fb qb i j.
  exact (fifo_plain_tasks prio_loop factor draws lks cds nev acts Hok Hne l fa qa fb qb i j).
Qed.
Print Assumptions C12_fifo_plain_tasks_history.

(* The granted waiter and ownership (C13_at_most_one_woken, C13_take_lock_only_when_free): after
   the grant the lock has no owner, fb is the ONLY woken waiter queued on l (one hand-over in
   flight), and _take_lock by whoever resumes that waiter succeeds and makes it the owner. *)
Theorem C12_grant_in_flight :
  forall prio_loop factor draws lks cds nev acts,
    let s0 := init_st prio_loop factor draws lks cds nev in
    let T := fun k => fold_left do_action (firstn k acts) s0 in
    run_ok s0 acts -> run_ne s0 acts ->
    forall l fb k, granted_at T l fb k ->
      lowner (getl (T (S k)) l) = None /\
      (forall g, In g (pq_objs (lpq (getl (T (S k)) l))) -> woken (T (S k)) g = true -> g = fb) /\
      (forall t, exists s', take_lock (T (S k)) l t = inl s' /\ lowner (getl s' l) = Some t).
Proof.
  intros prio_loop factor draws lks cds nev acts s0 T Hok Hne l fb k.
  exact (grant_in_flight prio_loop factor draws lks cds nev acts Hok l fb k).
Qed.
Print Assumptions C12_grant_in_flight.

(* the domain is implied by the syntactic condition of C12_domain_static *)
Theorem C12_no_overtake_domain_static :
  forall p fa dr lks cds nev acts,
    Forall act_static acts -> Forall act_static_ne acts ->
    run_ok (init_st p fa dr lks cds nev) acts /\ run_ne (init_st p fa dr lks cds nev) acts.
Proof.
  intros. split; [now apply run_ok_static_init|now apply run_ne_static_init].
Qed.
Print Assumptions C12_no_overtake_domain_static.


(* Non-vacuity (Sched/NoOvertakeExample.v; list loop, locks 0 and 1; tasks H=0 (priority 0, owner
   of lock 0), B=1 (3), C=2 (-10), A=3 (5, owner of lock 1), X=4 (-5); waiter futures of lock 0:
   B 4 (arrival 0), C 5 (arrival 1), A 6 (arrival 2)).  X starts waiting on lock 1 AFTER A queued
   on lock 0 (action 11): A inherits -5 and its entry is re-keyed from 5 to -5, arrival 2 kept.
   In the window of states 12..14 A waits and is strictly more urgent than B; [keyed] holds and the
   holder of lock 0 (H) is not queued anywhere; the
   release by H (action 13) happens inside the window and goes to C; by the theorem B is not
   granted the lock in the window.  The next hand-over (action 14) goes to A before the earlier
   arrival B, as C12_no_overtake_step requires (-5 < 3).  Service order C, A, B; arrival order
   B, C, A.  (T is written with [tr s0 acts k] = fold_left do_action (firstn k acts) s0 of
   NoOvertakeThms.v, by definition the same term as in the theorems above.) *)
Theorem C12_no_overtake_example :
  let T := tr (init_st false 0 [] [LPrio; LPrio] [] 0) nacts in
  (run_ok (init_st false 0 [] [LPrio; LPrio] [] 0) nacts /\
   run_ne (init_st false 0 [] [LPrio; LPrio] [] 0) nacts) /\
  (arr (lpq (getl (T 11) 0)) = [mkE (-10)%Q 1 5; mkE 3%Q 0 4; mkE 5%Q 2 6] /\
   arr (lpq (getl (T 12) 0)) = [mkE (-10)%Q 1 5; mkE 3%Q 0 4; mkE (-5)%Q 2 6] /\
   lwt (getl (T 12) 0) = [(4, 1); (5, 2); (6, 3)] /\
   tholding (gett (T 12) 3) = [1] /\ lwt (getl (T 12) 1) = [(8, 4)] /\
   map (fun t => Qred (wprio (T 11) t)) [1; 2; 3] = [3%Q; (-10)%Q; 5%Q] /\
   map (fun t => Qred (wprio (T 12) t)) [1; 2; 3] = [3%Q; (-10)%Q; (-5)%Q]) /\
  (waits_through T 0 6 2 12 14 /\
   (forall k, 12 <= k <= 13 -> forall o l0 f, lowner (getl (T k) 0) = Some o -> ~ In (f, o) (lwt (getl (T k) l0))) /\
   (forall k, 12 <= k <= 13 -> keyed (T k) 0) /\
   (forall k, 12 <= k <= 13 -> (waiter_prio (T k) 0 6 < waiter_prio (T k) 0 4)%Q)) /\
  (granted_at T 0 5 13 /\ forall k, 12 <= k <= 13 -> ~ granted_at T 0 4 k) /\
  (granted_at T 0 5 13 /\ granted_at T 0 6 14 /\ granted_at T 0 4 15).
Proof.
  cbv zeta.
  split; [exact (conj nrun_ok nrun_ne)|].
  split.
  { destruct n_queue as (A & B & _ & _ & _ & C & D & E & F & G).
    exact (conj A (conj B (conj C (conj D (conj E (conj F G)))))). }
  split.
  { split; [exact n_A_waits|]. split; [intros k Hk; apply n_holder_free; lia|].
    split; [|exact n_urgency]. intros k Hk. apply n_keyed. lia. }
  split; [exact (conj n_grant_C n_no_overtake)|].
  destruct n_service_order as (A & B & C & _). exact (conj A (conj B C)).
Qed.
Print Assumptions C12_no_overtake_example.

(* The side condition "the holder of l is not itself queued on a PriorityLock" cannot be dropped
   (repaired model; Sched/NoOvertakeExample.v, [cyc_*]; list loop, locks 0 and 1).  T (task 0,
   priority -5) holds lock 0 and queues on lock 1; O (task 1, priority 5) holds lock 1 and queues on
   lock 0 (future 5, arrival 1, inherits -5 from T: key -5); W (task 2, priority 3) queues on lock 0
   (future 3, arrival 0, key 3); T is cancelled.  The run satisfies run_ok and run_ne, [keyed] holds
   for lock 0 in state 9, O waits on lock 0 before and after action 9 and is strictly more urgent
   than W in state 9 (-5 < 3) - yet action 9 (T's step: `finally` of acquire(lock 1) re-keys O's
   entry to 5, then T catches the CancelledError and releases lock 0) grants lock 0 to W.  So the
   conclusions of C12_no_overtake_keys / _step / C12_no_overtake (with i = j = 9) fail; the only
   hypothesis violated is the holder condition: T holds lock 0 and is queued on lock 1. *)
Theorem C12_no_overtake_needs_holder_free :
  let T := tr (init_st false 0 [] [LPrio; LPrio] [] 0) cacts in
  (run_ok (init_st false 0 [] [LPrio; LPrio] [] 0) cacts /\
   run_ne (init_st false 0 [] [LPrio; LPrio] [] 0) cacts) /\
  (arr (lpq (getl (T 9) 0)) = [mkE (-5)%Q 1 5; mkE 3%Q 0 3] /\
   arr (lpq (getl (T 10) 0)) = [mkE 3%Q 0 3; mkE 5%Q 1 5] /\
   lowner (getl (T 9) 0) = Some 0 /\ lwt (getl (T 9) 1) = [(4, 0)] /\
   map (fun t => Qred (wprio (T 9) t)) [0; 1; 2] = [(-5)%Q; (-5)%Q; 3%Q] /\
   map (fun t => Qred (wprio (T 10) t)) [0; 1; 2] = [(-5)%Q; 5%Q; 3%Q]) /\
  keyed (T 9) 0 /\
  (waits_at (T 9) 0 5 1 /\ In 5 (pq_objs (lpq (getl (T 10) 0))) /\ fdone (T 10) 5 = false) /\
  granted_at T 0 3 9 /\
  ~ ((3 < -5)%Q \/ ((3 == -5)%Q /\ (0 < 1)%Z)) /\
  ~ (forall o l0 f, lowner (getl (T 9) 0) = Some o -> ~ In (f, o) (lwt (getl (T 9) l0))).
Proof.
  cbv zeta.
  split; [exact (conj cyc_run_ok cyc_run_ne)|].
  split.
  { destruct cyc_states as (A & B & _ & C & D & _ & E & F & _).
    exact (conj A (conj B (conj D (conj C (conj E F))))). }
  split; [exact cyc_keyed|].
  split; [exact cyc_O_waits|].
  split; [exact cyc_grant_W|].
  split; [exact (proj2 (proj2 cyc_keys_fail))|exact cyc_not_holder_free].
Qed.
Print Assumptions C12_no_overtake_needs_holder_free.

(* ------------------------------------------------------------------------------------------
   Appended: C12 on the property's own domain - locks acquired in a FIXED ORDER
   (Sched/OrderInv.v, OrderPass.v, OrderThms.v: [run_ord], [reachable_ord], see the end of
   Props/C11.v; there [ranked] is derived from reachability).

   Question: is [keyed s l] (every live entry's stored key = the waiter's current effective
   priority) an invariant for NESTED waiters on this domain (no OSetPrio executed)?
   With the code as it was: NO, as soon as a waiter can be cancelled (finding F17; computed run,
   reproduced on the real code: notes/C12.md).  Three locks taken in increasing order only:
     O2 (task 0, priority 0)  holds lock 2 across three sleep(0);
     O1 (task 1, priority 5)  holds lock 1 and is queued on lock 2: future 3, key 5;
     U  (task 2, priority 7)  holds lock 0 and is queued on lock 1 (future 4);
     T  (task 3, priority -5) calls U.cancel() and then queues on lock 0 (held by U);
     W2 (task 4, priority 3)  queues on lock 2 afterwards: future 8, key 3.
   When T arrives, U's future is cancelled but U has not run its `finally` yet, so U is RUNNABLE
   and still queued on lock 1: effective_priority(O1) = -5 (lock 1's waiter list still contains U).
   Before the repair PriorityTask.propagate_priority(U) rescheduled the runnable U and stopped: it
   neither re-keyed U's entry nor notified O1, the owner of the lock U is still queued on; O1's
   entry in lock 2 kept key 5 and O2's release completed W2's future (key 3 < 5) although O1 was
   strictly more urgent (-5 < 3) in every state in which both were waiting
   ([C12_refuted_before_fix_F17]; the old text is [OrderExample.propagate_task_old], not in Model.v).
   The repaired propagate_priority (Model.propagate_task: reschedule a runnable task AND pass the
   notification on through the lock it is still queued on) re-keys both entries and the release
   wakes O1 ([C12_repaired_F17_example]).
   What IS proved towards the invariant: effective priorities are local ([C12_eprio_local]);
   release() by a task without row keeps [keyed] for all locks ([C12_keyed_release]); arrival and
   leaving re-key the blocked holder chain ([C12_key_tracks_eprio], [C12_rekey_on_leave], above). *)
From Asynkit Require Import Sched.OrderInv Sched.OrderPass Sched.OrderThms Sched.OrderExample
  Sched.InheritLocal.

(* kpre: the state just before T's arrival (U.cancel() issued from outside so that it is a state
   of a run; T has not started).  kold11 / kold12: T's acquire(lock 0) and then W2's
   acquire(lock 2) with the OLD propagate_priority, applied at lock level in kpre. *)
Theorem C12_refuted_before_fix_F17 :
  let s0 := init_st false 0 [] [LPrio; LPrio; LPrio] [] 0 in
  (* the pre-arrival state is reachable in the CURRENT model, on the fixed-order domain *)
  kpre = fold_left do_action kactsX s0 /\ reachable_ord kpre /\ ranked kpre /\
  (* in kpre: U's future 4 is cancelled, U is runnable and still queued on lock 1; O1's entry in
     lock 2 has key 5 = its effective priority; `keyed` holds for all three locks *)
  (fstate_ (getf kpre 4) = FCancelled /\ task_is_runnable kpre 2 = true /\
   twaiting (gett kpre 2) = Some 1 /\ lwt (getl kpre 1) = [(4, 2)] /\
   arr (lpq (getl kpre 2)) = [mkE 5%Q 0 3] /\ Qred (effective_priority kpre 1) = 5%Q /\
   keyed kpre 0 /\ keyed kpre 1 /\ keyed kpre 2) /\
  kold11 = fst (OrderExample.acquire_p_start_old kpre 3 0) /\
  kold12 = fst (OrderExample.acquire_p_start_old kold11 4 2) /\
  (* after T's arrival with the old text: O1 has effective priority -5, its entry in lock 2 keeps 5 *)
  arr (lpq (getl kold11 2)) = [mkE 5%Q 0 3] /\ Qred (effective_priority kold11 1) = (-5)%Q /\
  (* after W2's arrival: W2 queued with key 3; both entries live; effective priorities of O1, W2 *)
  ranked kold12 /\
  arr (lpq (getl kold12 2)) = [mkE 3%Q 1 8; mkE 5%Q 0 3] /\ lwt (getl kold12 2) = [(3, 1); (8, 4)] /\
  fdone kold12 3 = false /\ fdone kold12 8 = false /\
  map (fun t => Qred (effective_priority kold12 t)) [1; 4] = [(-5)%Q; 3%Q] /\
  ~ keyed kold12 2 /\
  (* O1's entry is `before` W2's (strictly more urgent) ... *)
  before kold12 2 (mkE 5%Q 0 3) (mkE 3%Q 1 8) /\
  (* ... but O2's release grants lock 2 to W2 while O1 keeps waiting *)
  release_p kold12 0 2 = (wake_up_first_p (pre_wake kold12 0 2) 2, RVal 0) /\
  before (pre_wake kold12 0 2) 2 (mkE 5%Q 0 3) (mkE 3%Q 1 8) /\
  map (fun f => fstate_ (getf (fst (release_p kold12 0 2)) f)) [3; 8] = [FPending; FResult 1] /\
  (* the old and the current text agree unless a task is runnable and still queued on a lock *)
  (forall fuel s t,
     (forall u, task_is_runnable s u = true -> twaiting (gett s u) = None) ->
     propagate_task fuel s t = OrderExample.propagate_task_old fuel s t).
Proof.
  cbv zeta.
  destruct kpre_facts as (P1 & P2 & P3 & P4 & _ & _ & _ & _ & _ & K0 & K1 & K2).
  destruct kold_facts as (_ & A2 & _ & B1 & B2 & B3 & B4 & B5 & _ & _ & NK & BF).
  destruct kold_handover as (G & _ & H & J).
  split; [vm_compute; reflexivity|]. split; [exact kpre_reachable_ord|]. split; [exact kpre_ranked|].
  split.
  { split; [exact P1|]. split; [exact P2|]. split; [exact P3|]. split; [exact P4|].
    split; [vm_compute; reflexivity|]. split; [vm_compute; reflexivity|].
    split; [exact K0|]. split; [exact K1|exact K2]. }
  split; [exact kold11_def|]. split; [exact kold12_def|].
  split; [exact A2|]. split; [vm_compute; reflexivity|].
  split; [exact kold12_ranked|].
  split; [exact B1|]. split; [exact B2|]. split; [exact B3|]. split; [exact B4|]. split; [exact B5|].
  split; [exact NK|]. split; [exact BF|]. split; [exact G|]. split; [exact H|].
  split; [rewrite G; exact J|]. exact propagate_old_agrees.
Qed.
Print Assumptions C12_refuted_before_fix_F17.

(* The repaired code on the same run (T cancels U and queues on lock 0 in one step): the run is
   in the domain to its end; in state 11 U's entry in lock 1 and O1's entry in lock 2 have been
   re-keyed to -5; in state 12 W2 is queued behind O1, `keyed` holds for lock 2; action 12 (O2's
   release) completes O1's future, W2 keeps waiting.  knew11 = the current acquire_p_start applied
   to kpre at lock level gives the same lock tables as state 11 of the run. *)
Theorem C12_repaired_F17_example :
  let s0 := init_st false 0 [] [LPrio; LPrio; LPrio] [] 0 in
  run_ok s0 kacts /\ run_ne s0 kacts /\ run_ord s0 kacts /\
  kst11 = tr s0 kacts 11 /\ kst12 = tr s0 kacts 12 /\ kst13 = tr s0 kacts 13 /\
  reachable_ord kst12 /\ ranked kst12 /\
  (* state 11: T has arrived; U's future 4 is cancelled, U is still queued on lock 1 *)
  fstate_ (getf kst11 4) = FCancelled /\ lwt (getl kst11 1) = [(4, 2)] /\
  arr (lpq (getl kst11 1)) = [mkE (-5)%Q 0 4] /\
  arr (lpq (getl kst11 2)) = [mkE (-5)%Q 0 3] /\ Qred (effective_priority kst11 1) = (-5)%Q /\
  (* state 12: W2 queued with key 3 behind O1; both entries live *)
  arr (lpq (getl kst12 2)) = [mkE (-5)%Q 0 3; mkE 3%Q 1 8] /\ lwt (getl kst12 2) = [(3, 1); (8, 4)] /\
  fdone kst12 3 = false /\ fdone kst12 8 = false /\
  map (fun t => Qred (effective_priority kst12 t)) [1; 4] = [(-5)%Q; 3%Q] /\
  keyed kst12 2 /\
  before kst12 2 (mkE (-5)%Q 0 3) (mkE 3%Q 1 8) /\
  (* action 12 (O2's release) grants lock 2 to O1; W2 keeps waiting *)
  fstate_ (getf kst13 3) = FResult 1 /\ fstate_ (getf kst13 8) = FPending /\
  In 3 (objs kst13 2) /\ In 8 (objs kst13 2) /\
  (* the current text applied in kpre *)
  knew11 = fst (acquire_p_start kpre 3 0) /\
  arr (lpq (getl knew11 1)) = [mkE (-5)%Q 0 4] /\ arr (lpq (getl knew11 2)) = [mkE (-5)%Q 0 3] /\
  map (fun l => arr (lpq (getl knew11 l))) [0; 1; 2] = map (fun l => arr (lpq (getl kst11 l))) [0; 1; 2].
Proof.
  cbv zeta.
  destruct k_facts as (A1 & A2 & A3 & A4 & A5 & B1 & B2 & B3 & B4 & B5 & C1 & C2 & C3 & C4).
  destruct knew_facts as (N1 & N2 & _ & N4).
  split; [exact krun_ok|]. split; [exact krun_ne|]. split; [exact krun_ord|].
  split; [vm_compute; reflexivity|]. split; [vm_compute; reflexivity|]. split; [vm_compute; reflexivity|].
  split; [exact kst12_reachable_ord|]. split; [exact kst12_ranked|].
  split; [exact A1|]. split; [exact A2|]. split; [exact A3|]. split; [exact A4|]. split; [exact A5|].
  split; [exact B1|]. split; [exact B2|]. split; [exact B3|]. split; [exact B4|]. split; [exact B5|].
  split; [exact kst12_keyed2|]. split; [exact kst12_before|].
  split; [exact C1|]. split; [exact C2|]. split; [exact C3|]. split; [exact C4|].
  split; [exact knew11_def|]. split; [exact N1|]. split; [exact N2|exact N4].
Qed.
Print Assumptions C12_repaired_F17_example.

(* Effective priorities are local.  Two states with acyclic wait-for graphs (rank functions
   within the recursion budget) and a set D of "dirty" tasks that is closed upwards (a waiter of
   a clean task is clean): if every clean task has the same priority and the same waiters (up
   to order) in both states, it has the same effective priority in both. *)
Theorem C12_eprio_local :
  forall (s s' : st) (rank rank' : nat -> nat) (D : nat -> Prop),
    (forall w t, waits_on s w t -> rank w < rank t) -> (forall t, rank t <= efuel s) ->
    (forall w t, waits_on s' w t -> rank' w < rank' t) -> (forall t, rank' t <= efuel s') ->
    (forall x, ~ D x -> tprio (gett s' x) = tprio (gett s x)) ->
    (forall x, ~ D x -> Permutation (waiters_of s' x) (waiters_of s x)) ->
    (forall x w, ~ D x -> In w (waiters_of s x) -> ~ D w) ->
    forall x, ~ D x ->
      (effective_priority s' x == effective_priority s x)%Q /\ (wprio s' x == wprio s x)%Q.
Proof.
  intros s s' rank rank' D H1 H2 H3 H4 H5 H6 H7 x Hx. split.
  - exact (eprio_local s s' rank rank' D H1 H2 H3 H4 H5 H6 H7 x Hx).
  - exact (wprio_local s s' rank rank' D H1 H2 H3 H4 H5 H6 H7 x Hx).
Qed.
Print Assumptions C12_eprio_local.

(* "A holder releases (it is running, not queued)": PriorityLock.release() by a task t that has
   no row in any waiter table keeps [keyed] for EVERY lock - only t's own effective priority
   changes and t is nobody's waiter.  [WIx ne X R s] is the second invariant in the form that
   holds at intermediate states of a task step (Sched/WaitInv.v; [WInv ne s] = [WIx ne _ (0,[]) s]
   between actions), [ranked s] holds on the fixed-order domain. *)
Theorem C12_keyed_release :
  forall ne X R s t l,
    WIx ne X R s -> ranked s -> (forall l0 f, ~ In (f, t) (lwt (getl s l0))) ->
    (forall l0, keyed s l0) -> forall l0, keyed (fst (release_p s t l)) l0.
Proof. exact keyed_release. Qed.
Print Assumptions C12_keyed_release.

(* Non-vacuity of [C12_keyed_release]: the state [est] of [C11_ordered_example] (chain B -> A -> C,
   nested waiters): C = task 0 holds lock 1 and has no row, every key is current.  The THEOREM
   gives [keyed] for all locks after C's release of lock 1; C's effective priority falls back
   from the inherited -2 to its own 7 while the keys of the waiters stay correct. *)
Theorem C12_keyed_release_example :
  (forall l0, keyed est l0) /\ (forall l0 f, ~ In (f, 0) (lwt (getl est l0))) /\ ranked est /\
  (forall l0, keyed (fst (release_p est 0 1)) l0) /\
  Qred (effective_priority est 0) = (-2)%Q /\
  Qred (effective_priority (fst (release_p est 0 1)) 0) = 7%Q.
Proof.
  destruct est_release_keyed as (A & B & C).
  exact (conj est_keyed (conj est_C_no_row (conj est_ranked (conj A (conj B C))))).
Qed.
Print Assumptions C12_keyed_release_example.

(* ------------------------------------------------------------------------------------------------
   Round 5: towards the invariant [forall l, keyed s l] over the model with the repairs F16 and F17.
   Primitive-level preservation at INTERMEDIATE states of a task step.  State hypotheses:
   [Inv s] (C13), [WIx true X R s] / [WI true (t, P) s] (second invariant, no eager starts), and the
   fixed lock order in table form: a PriorityTask with _waiting_on = l holds only locks < l. *)
From Asynkit Require Import Sched.WaitInv Sched.WaitOps Sched.LockOps Sched.OrderInv Sched.OrderThms
  Sched.OrderExample Sched.InheritChain Sched.InheritArrive Sched.InheritFinish Sched.InheritPrimsExample.

(* The state hypotheses hold in every reachable state of the fixed-order domain. *)
Theorem C12_keyed_prims_domain :
  forall s t, reachable_ord s ->
    Inv s /\ WI true (t, []) s /\
    (forall x l l0, is_prio_task s x = true -> twaiting (gett s x) = Some l ->
                    In l0 (tholding (gett s x)) -> l0 < l).
Proof. exact reach_ord_prims. Qed.
Print Assumptions C12_keyed_prims_domain.

(* THE CORE (generalises C12_key_tracks_eprio (4) to chain tasks that are RUNNABLE and still queued,
   and adds completeness): if every live entry is keyed by the current effective priority except
   possibly the entries of o and of the tasks o waits for (transitively), then after
   propagate_priority(o) EVERY live entry of EVERY lock is. *)
Theorem C12_keyed_propagate_up :
  forall ne X R s o,
    Inv s -> WIx ne X R s ->
    (forall x l l0, is_prio_task s x = true -> twaiting (gett s x) = Some l ->
                    In l0 (tholding (gett s x)) -> l0 < l) ->
    is_prio_task s o = true ->
    (forall l0 e, In e (arr (lpq (getl s l0))) -> live s e ->
                  ~ (entry_task (getl s l0) e = o \/ waits_tr s o (entry_task (getl s l0) e)) ->
                  (epri e == wprio s (entry_task (getl s l0) e))%Q) ->
    forall l0, keyed (propagate_priority s o) l0.
Proof. intros ne X R s o I W O. exact (keyed_propagate_up ne X R s I W O o). Qed.
Print Assumptions C12_keyed_propagate_up.

(* A waiter ARRIVES: PriorityLock.acquire() up to its `await fut` (all paths: lock taken at once,
   assertion, enqueue with the effective priority + propagate up the holder chain) keeps [keyed] for
   every lock and the fixed order.  t is the calling task: not queued anywhere, and it holds only
   locks below l (the condition checked by run_ord). *)
Theorem C12_keyed_arrive :
  forall s t l P,
    Inv s -> t < length (tasks s) -> lkind_ (getl s l) = LPrio -> WI true (t, P) s ->
    (forall x l1 l0, is_prio_task s x = true -> twaiting (gett s x) = Some l1 ->
                     In l0 (tholding (gett s x)) -> l0 < l1) ->
    (lkind_ (getl s l) = LPrio -> forall l0, In l0 (tholding (gett s t)) -> l0 < l) ->
    (forall l0 g, ~ In (g, t) (lwt (getl s l0))) ->
    (forall l0, keyed s l0) ->
    (forall l0, keyed (fst (acquire_p_start s t l)) l0) /\
    (forall x l1 l0, is_prio_task (fst (acquire_p_start s t l)) x = true ->
                     twaiting (gett (fst (acquire_p_start s t l)) x) = Some l1 ->
                     In l0 (tholding (gett (fst (acquire_p_start s t l)) x)) -> l0 < l1).
Proof. exact keyed_arrive. Qed.
Print Assumptions C12_keyed_arrive.

(* A waiter LEAVES by exception (cancelled / interrupted / timed out): the `finally` of acquire()
   removes the entry; if the lock stays locked its owner re-propagates (F16), through runnable chain
   tasks too (F17); if it is free the next waiter is woken.  f is the waiter future of the frame
   [InAcquireP l f had] the running task t has just popped. *)
Theorem C12_keyed_leave :
  forall s t l f had e rest,
    Inv s -> t < length (tasks s) -> In f (objs s l) -> no_frame s f -> no_acq rest ->
    WI true (t, InAcquireP l f had :: rest) s ->
    (forall x l1 l0, is_prio_task s x = true -> twaiting (gett s x) = Some l1 ->
                     In l0 (tholding (gett s x)) -> l0 < l1) ->
    (forall l0, keyed s l0) ->
    (forall l0, keyed (fst (acquire_p_finish s t l f had (RExc e))) l0) /\
    (forall x l1 l0, is_prio_task (fst (acquire_p_finish s t l f had (RExc e))) x = true ->
                     twaiting (gett (fst (acquire_p_finish s t l f had (RExc e))) x) = Some l1 ->
                     In l0 (tholding (gett (fst (acquire_p_finish s t l f had (RExc e))) x)) -> l0 < l1).
Proof.
  intros s t l f had e rest I Ht Hf Hnf Hna W O K.
  apply (keyed_finish s t l f had (RExc e) rest); auto. intros v H. discriminate H.
Qed.
Print Assumptions C12_keyed_leave.

(* A waiter is GRANTED the lock (resumed with a value; its future was woken): it becomes the owner,
   leaves the queue and is not queued anywhere else; the remaining waiters now boost it. *)
Theorem C12_keyed_grant :
  forall s t l f had v rest,
    Inv s -> t < length (tasks s) -> In f (objs s l) -> no_frame s f -> no_acq rest ->
    woken s f = true ->
    WI true (t, InAcquireP l f had :: rest) s ->
    (forall x l1 l0, is_prio_task s x = true -> twaiting (gett s x) = Some l1 ->
                     In l0 (tholding (gett s x)) -> l0 < l1) ->
    (forall l0, keyed s l0) ->
    (forall l0, keyed (fst (acquire_p_finish s t l f had (RVal v))) l0) /\
    (forall x l1 l0, is_prio_task (fst (acquire_p_finish s t l f had (RVal v))) x = true ->
                     twaiting (gett (fst (acquire_p_finish s t l f had (RVal v))) x) = Some l1 ->
                     In l0 (tholding (gett (fst (acquire_p_finish s t l f had (RVal v))) x)) -> l0 < l1).
Proof.
  intros s t l f had v rest I Ht Hf Hnf Hna Hw W O K.
  apply (keyed_finish s t l f had (RVal v) rest); auto.
Qed.
Print Assumptions C12_keyed_grant.

(* Non-vacuity of [C12_keyed_arrive] on the F17 scenario: in the reachable state [kpre] T (task 3,
   priority -5) calls acquire(lock 0); the holder U is cancelled, RUNNABLE and still queued on lock 1
   (owner O1, queued on lock 2).  The hypotheses hold and the THEOREM yields [keyed] for all locks
   after the arrival; by computation the three queues are keyed -5 (T's, U's and O1's entries). *)
Theorem C12_keyed_arrive_example :
  reachable_ord kpre /\ task_is_runnable kpre 2 = true /\ twaiting (gett kpre 2) = Some 1 /\
  (forall l0, keyed kpre l0) /\ (forall l0 g, ~ In (g, 3) (lwt (getl kpre l0))) /\
  (forall l0, keyed (fst (acquire_p_start kpre 3 0)) l0) /\
  map (fun l => map (fun e => (Qred (epri e), eobj e)) (arr (lpq (getl (fst (acquire_p_start kpre 3 0)) l)))) [0; 1; 2]
    = [[((-5)%Q, 7%Z)]; [((-5)%Q, 4%Z)]; [((-5)%Q, 3%Z)]].
Proof.
  destruct kpre_arrive as (A & _ & C & D).
  split; [exact kpre_reachable_ord|]. split; [exact D|]. split; [vm_compute; reflexivity|].
  split; [exact kpre_keyed_all|]. split; [exact kpre_T_norow|]. split; [exact A|exact C].
Qed.
Print Assumptions C12_keyed_arrive_example.

(* ------------------------------------------------------------------------------------------------
   Round 5, the invariant.  Fifth pass (Sched/Keyed{Inv,Lib,Pass,Thms}.v) through every library call,
   frame, user-code tree, Task.__step, loop callback and environment action, carrying
   "fixed order on the tables + all live keys current" jointly with Inv (C13) and WInv true.
   Side conditions, all checked along the run (Sched/KeyedPass.v, same shape as run_ok / run_ne /
   run_ord): [run_np] = set_priority (OSetPrio) is never executed - priorities are fixed at spawn
   (neither by a task, [exec_np], nor from outside the loop, [ADo]). *)
From Asynkit Require Import Sched.WaitProofs Sched.OrderPass Sched.NoOvertakeThms Sched.KeyedLib
  Sched.KeyedPass Sched.KeyedThms.

(* C12_keyed_reachable: in EVERY state of every run (both loops, all programs, all lock / condition /
   event tables) that satisfies run_ok, run_ne (no eager start), run_ord (locks taken in increasing
   index order) and run_np (no set_priority), every live entry of every PriorityLock is keyed by the
   current effective priority of its task - over the model with the repairs F16 and F17. *)
Theorem C12_keyed_reachable :
  forall prio_loop factor draws lks cds nev acts,
    let s0 := init_st prio_loop factor draws lks cds nev in
    run_ok s0 acts -> run_ne s0 acts -> run_ord s0 acts -> run_np s0 acts ->
    forall k l e,
      let s := fold_left do_action (firstn k acts) s0 in
      In e (arr (lpq (getl s l))) -> fdone s (Z.to_nat (eobj e)) = false ->
      (epri e == wprio s (entry_task (getl s l) e))%Q.
Proof.
  intros prio_loop factor draws lks cds nev acts s0 Hok Hne Hord Hnp k l e.
  exact (keyed_run prio_loop factor draws lks cds nev acts Hok Hne Hord Hnp k l e).
Qed.
Print Assumptions C12_keyed_reachable.

(* the same as a statement about reachable states *)
Theorem C12_keyed_reachable_state :
  forall s, reachable_kd s -> forall l, keyed s l.
Proof. exact keyed_reachable. Qed.
Print Assumptions C12_keyed_reachable_state.

(* the domain is the C11 domain with one more run-checked condition *)
Theorem C12_keyed_domain :
  forall s, reachable_kd s <->
    exists p fa dr lks cds nev acts,
      run_ok (init_st p fa dr lks cds nev) acts /\ run_ne (init_st p fa dr lks cds nev) acts /\
      run_ord (init_st p fa dr lks cds nev) acts /\ run_np (init_st p fa dr lks cds nev) acts /\
      s = fold_left do_action acts (init_st p fa dr lks cds nev).
Proof. intros s. reflexivity. Qed.
Print Assumptions C12_keyed_domain.

(* what run_np checks at an action *)
Theorem C12_run_np_unfold :
  forall s a rest,
    run_np s (a :: rest) <->
    (match a with
     | AStep => run_one_np s
     | ADo op => match op with OSetPrio _ => False | _ => True end
     | _ => True end) /\ run_np (do_action s a) rest.
Proof. intros s a rest. destruct a; reflexivity. Qed.
Print Assumptions C12_run_np_unfold.

(* C12_no_overtake_reachable: the history theorem C12_no_overtake with the hypothesis [keyed]
   DISCHARGED on this domain.  If waiter fa (arrival number qa) waits on l in all states of [i, j+1],
   the holder of l is not itself queued in the states of [i, j] (holder_free, kept as a hypothesis),
   and fb is strictly less urgent than fa (current effective priorities) in every state of [i, j] in
   which it is queued, then no action k in [i, j] grants l to fb. *)
Theorem C12_no_overtake_reachable :
  forall prio_loop factor draws lks cds nev acts,
    let s0 := init_st prio_loop factor draws lks cds nev in
    let T := fun k => fold_left do_action (firstn k acts) s0 in
    run_ok s0 acts -> run_ne s0 acts -> run_ord s0 acts -> run_np s0 acts ->
    forall l fa qa fb i j, j < length acts ->
      (forall k, i <= k <= S j ->
         (exists e, In e (arr (lpq (getl (T k) l))) /\ Z.to_nat (eobj e) = fa /\ eseq e = qa) /\
         fdone (T k) fa = false) ->
      (forall k, i <= k <= j -> forall o l0 f, lowner (getl (T k) l) = Some o -> ~ In (f, o) (lwt (getl (T k) l0))) ->
      (forall k, i <= k <= j -> In fb (pq_objs (lpq (getl (T k) l))) ->
         (wprio (T k) (task_of_fut (getl (T k) l) fa) < wprio (T k) (task_of_fut (getl (T k) l) fb))%Q) ->
      forall k, i <= k <= j ->
        ~ (In fb (pq_objs (lpq (getl (T k) l))) /\ In fb (pq_objs (lpq (getl (T (S k)) l))) /\
           fdone (T k) fb = false /\ woken (T (S k)) fb = true).
Proof.
  intros prio_loop factor draws lks cds nev acts s0 T Hok Hne Hord Hnp l fa qa fb i j.
  exact (no_overtake_reachable prio_loop factor draws lks cds nev acts Hok Hne Hord Hnp l fa qa fb i j).
Qed.
Print Assumptions C12_no_overtake_reachable.

(* Non-vacuity: the F17 run [kacts] (three locks, nested waiters, U cancelled while queued, T arrives on
   the lock U holds) satisfies all four run conditions; state 12 of it is in the domain, and the THEOREM
   gives [keyed] for all its locks (lock 2 holds the re-keyed entry of O1 and W2's entry). *)
Theorem C12_keyed_reachable_example :
  run_ok kst0 kacts /\ run_ne kst0 kacts /\ run_ord kst0 kacts /\ run_np kst0 kacts /\
  reachable_kd kst12 /\ (forall l, keyed kst12 l) /\
  arr (lpq (getl kst12 2)) = [mkE (-5)%Q 0 3; mkE 3%Q 1 8] /\
  tholding (gett kst12 1) <> [].
Proof.
  split; [exact krun_ok|]. split; [exact krun_ne|]. split; [exact krun_ord|]. split; [exact krun_np|].
  split; [exact kst12_reachable_kd|]. split; [exact kst12_keyed_all|]. split; [exact kst12_arr2|].
  vm_compute. discriminate.
Qed.
Print Assumptions C12_keyed_reachable_example.
