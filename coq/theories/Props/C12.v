(* C12 - PriorityLock hands over in effective-priority order.
   Statements over the executable scheduler model (Sched/Model.v).  The waiter queue of lock
   l is [lpq (getl s l)]: a heapq array [arr] of entries (epri = key, eseq = arrival
   sequence number, eobj = waiter future), with [lwt] mapping each future to its task.
   Vocabulary (Sched/InheritHandover.v, Sched/InheritKeys.v):
     entry_task lk e   = the task recorded for the future of entry e;
     wprio s w         = effective_priority s w for a PriorityTask, 0 for a plain task;
     live s e          = the future of e is still pending;
     keyed s l         = every live entry of l has key == wprio of its task (up to == on Q);
     before s l a b    = wprio(task a) < wprio(task b), or == and eseq a < eseq b;
     woken s g         = future g holds a result/exception (the test of _wake_up_first);
     lwt_ok s          = no waiter future is recorded twice in a lock's future->task table;
     blocked_on s w l f = PriorityTask w is not runnable, _waiting_on = l, and (f, w) is its
                         only row in lwt of l;
     reaches s n t w   = propagate_priority started at t arrives at w after n hops
                         (blocked task -> owner of the lock it waits for). *)
From Coq Require Import QArith Sorting.Permutation.
From Asynkit Require Import Base.Prelude Queue.PQ Queue.PosPQ Queue.Exec Sched.Model Sched.QFacts
  Sched.LockInv Sched.LockThms Sched.InheritEprio Sched.InheritHandover Sched.InheritKeys
  Sched.InheritFalls Sched.InheritExamples Sched.InheritThms.
Open Scope nat_scope.

(* Whenever _wake_up_first changes the state of a future f in a reachable state, f was
   pending and now holds the result True, it is the future of array element 0, which is
   STRICTLY least by (key, arrival number) among ALL queued entries, no queued waiter was
   already woken (at most one hand-over in flight), and no other future changes. *)
Theorem C12_handover_is_heap_min :
  forall s l f, reachable s ->
    fstate_ (getf (wake_up_first_p s l) f) <> fstate_ (getf s f) ->
    exists head rest,
      arr (lpq (getl s l)) = head :: rest /\ f = Z.to_nat (eobj head) /\
      fstate_ (getf s f) = FPending /\
      fstate_ (getf (wake_up_first_p s l) f) = FResult 1 /\
      (forall e, In e rest -> entry_lt qltb head e = true) /\
      (forall g, In g (pq_objs (lpq (getl s l))) -> woken s g = false) /\
      (forall g, g <> f -> fstate_ (getf (wake_up_first_p s l) g) = fstate_ (getf s g)).
Proof. exact C12_heap_min_reach. Qed.
Print Assumptions C12_handover_is_heap_min.

(* entry_lt qltb is the lexicographic order on (key, arrival number) *)
Theorem C12_entry_order :
  forall a b : entry Q,
    entry_lt qltb a b = true <->
    (epri a < epri b)%Q \/ ((epri a == epri b)%Q /\ (eseq a < eseq b)%Z).
Proof. exact elt_q_true. Qed.
Print Assumptions C12_entry_order.

(* arrival numbers are arrival order: add() gives the new entry a number above all queued *)
Theorem C12_arrival_numbers :
  forall (q : pq Q) p o, PQInv q ->
    Permutation (arr (pq_add HQ q p o)) (mkE p (seqn q) o :: arr q) /\
    forall e, In e (arr q) -> (eseq e < seqn q)%Z.
Proof. exact add_seq_last. Qed.
Print Assumptions C12_arrival_numbers.

(* Combination: if the keys of the live entries are the current effective priorities, the
   woken waiter is the (effective priority, arrival)-least live waiter. *)
Theorem C12_handover :
  forall s l f, PQInv (lpq (getl s l)) -> keyed s l ->
    fstate_ (getf (wake_up_first_p s l) f) <> fstate_ (getf s f) ->
    exists head rest,
      arr (lpq (getl s l)) = head :: rest /\ f = Z.to_nat (eobj head) /\
      fstate_ (getf s f) = FPending /\
      fstate_ (getf (wake_up_first_p s l) f) = FResult 1 /\
      (forall e, In e rest -> live s e -> before s l head e) /\
      (forall g, In g (pq_objs (lpq (getl s l))) -> woken s g = false).
Proof. exact handover_by_eprio. Qed.
Print Assumptions C12_handover.

(* Plain tasks count as 0: a lock whose waiters are all plain tasks is FIFO. *)
Theorem C12_plain_fifo :
  forall s l f, PQInv (lpq (getl s l)) -> keyed s l ->
    (forall e, In e (arr (lpq (getl s l))) -> is_prio_task s (entry_task (getl s l) e) = false) ->
    fstate_ (getf (wake_up_first_p s l) f) <> fstate_ (getf s f) ->
    exists head rest,
      arr (lpq (getl s l)) = head :: rest /\ f = Z.to_nat (eobj head) /\
      (forall e, In e rest -> live s e -> (eseq head < eseq e)%Z).
Proof. exact handover_plain_fifo. Qed.
Print Assumptions C12_plain_fifo.

(* Key tracking.  propagate_priority (called by acquire() on the owner of the lock, when
   somebody starts waiting for a lock the owner holds):
   - changes no effective priority;
   - keeps every lock's future->task table and set of queued futures; every entry keeps
     its future and its arrival number, and its key is the old one or the CURRENT effective
     priority of its task (so arrival order among equals is kept);
   - keeps up-to-date keys up to date;
   - re-keys, for every blocked PriorityTask w on the holder chain (t, the owner of the lock
     t waits for, ...), the entry of w in the lock it waits for to w's current effective
     priority. *)
Theorem C12_key_tracks_eprio :
  forall s t, Inv s -> lwt_ok s ->
    let s' := propagate_priority s t in
    (forall u, (effective_priority s' u == effective_priority s u)%Q) /\
    (forall l, lwt (getl s' l) = lwt (getl s l) /\
               Permutation (pq_objs (lpq (getl s' l))) (pq_objs (lpq (getl s l))) /\
               forall e', In e' (arr (lpq (getl s' l))) ->
                 exists e, In e (arr (lpq (getl s l))) /\ eseq e' = eseq e /\ eobj e' = eobj e /\
                   ((epri e' == epri e)%Q \/
                    (epri e' == wprio s' (entry_task (getl s' l) e'))%Q)) /\
    (forall l, keyed s l -> keyed s' l) /\
    (forall n w l f, reaches s n t w -> n < efuel s -> blocked_on s w l f ->
       forall e, In e (arr (lpq (getl s' l))) -> Z.to_nat (eobj e) = f ->
                 (epri e == effective_priority s' w)%Q).
Proof. exact C12_propagate_thm. Qed.
Print Assumptions C12_key_tracks_eprio.

(* Non-vacuity: the reachable state istA (H = task 0 holds lock 0; W1 = task 1, own priority
   5, holds lock 1 and is queued on lock 0 as future 3, arrival 0; W2 = task 2, priority 3,
   queued on lock 0 as future 4, arrival 1; the late X = task 3, priority -5, queued on
   lock 1).  The run has re-keyed W1's entry to the inherited -5, all hypotheses of the
   theorems hold, and H's release() hands lock 0 to the inheritor W1, not to W2. *)
Theorem C12_example :
  (reachable istA /\ ranked istA /\ lwt_ok istA /\
   arr (lpq (getl istA 0)) = [mkE (-5)%Q 0 3; mkE 3%Q 1 4] /\
   lwt (getl istA 0) = [(3, 1); (4, 2)] /\
   PQInv (lpq (getl istA 0)) /\ keyed istA 0 /\ keyed istA 1 /\
   blocked_on istA 1 0 3 /\ blocked_on istA 3 1 6 /\ reaches istA 1 3 1 /\
   map (fun t => Qred (effective_priority istA t)) [0; 1; 2; 3] = [(-5)%Q; (-5)%Q; 3%Q; (-5)%Q] /\
   map (own istA) [0; 1; 2; 3] = [0%Q; 5%Q; 3%Q; (-5)%Q]) /\
  (release_p istA 0 0 = (wake_up_first_p istA_free 0, RVal 0) /\
   PQInv (lpq (getl istA_free 0)) /\ keyed istA_free 0 /\
   fstate_ (getf (wake_up_first_p istA_free 0) 3) = FResult 1 /\
   fstate_ (getf (wake_up_first_p istA_free 0) 4) = FPending /\
   map (fun f => fstate_ (getf istR f)) [3; 4] = [FResult 1; FPending] /\
   Qred (effective_priority istR 0) = 0%Q).
Proof. exact (conj istA_facts istA_handover). Qed.
Print Assumptions C12_example.

(* Before the fix (finding F8): PriorityLock.propagate_priority looked the waiter up with
   `fut is from_obj` although from_obj is the task, so reschedule() never found it
   ([propagate_task_old]: the same code with a key that is never true).  In the reachable
   state istPre, X's acquire(lock 1) leaves W1's entry with the stale key 5 although W1 now
   has effective priority -5; the keys no longer track the effective priorities and
   release() hands lock 0 to W2 (future 4, key 3): the more urgent W1 is overtaken.  The
   repaired code re-keys the entry (same arrival number 0) and W1 gets the lock. *)
Theorem C12_refuted_before_fix :
  reachable istPre /\
  arr (lpq (getl istOld 0)) = [mkE 3%Q 1 4; mkE 5%Q 0 3] /\
  map (fun t => Qred (effective_priority istOld t)) [1; 2] = [(-5)%Q; 3%Q] /\
  ~ keyed istOld 0 /\
  map (fun f => fstate_ (getf (fst (release_p istOld 0 0)) f)) [3; 4] = [FPending; FResult 1] /\
  arr (lpq (getl istNew 0)) = [mkE (-5)%Q 0 3; mkE 3%Q 1 4] /\
  map (fun f => fstate_ (getf (fst (release_p istNew 0 0)) f)) [3; 4] = [FResult 1; FPending].
Proof. exact rekey_refuted_before_fix. Qed.
Print Assumptions C12_refuted_before_fix.

(* ------------------------------------------------------------------------------------------
   Appended: hypotheses discharged from reachability (second invariant [WInv], Sched/WaitInv.v,
   WaitOps.v, WaitLib.v, WaitProofs.v; corollaries Sched/WaitThms.v; counterexample
   Sched/InheritStale.v, WaitStale.v).
   [reachable_ne s] (Sched/WaitProofs.v): s is reached from an initial state by an action list
   satisfying run_ok and run_ne: no eager start ([Spawn SEager]) is executed, and an
   environment call [ADo op] with op a release / condition wait / set-priority (these act as
   "task 0") is made only while task 0 is not queued on a PriorityLock. *)
From Asynkit Require Import Sched.Corr Sched.LockProofs Sched.InheritStale Sched.WaitInv Sched.WaitProofs
  Sched.WaitThms Sched.WaitStale.

(* C12_key_tracks_eprio in every reachable state: [lwt_ok] is an invariant, and of
   [blocked_on] only "w is a PriorityTask with a row (f, w) in l that is not runnable" has to
   be supplied (_waiting_on = l and the uniqueness of the row follow). *)
Theorem C12_key_tracks_eprio_reachable :
  forall s t, reachable s ->
    let s' := propagate_priority s t in
    (forall u, (effective_priority s' u == effective_priority s u)%Q) /\
    (forall l, lwt (getl s' l) = lwt (getl s l) /\
               Permutation (pq_objs (lpq (getl s' l))) (pq_objs (lpq (getl s l))) /\
               forall e', In e' (arr (lpq (getl s' l))) ->
                 exists e, In e (arr (lpq (getl s l))) /\ eseq e' = eseq e /\ eobj e' = eobj e /\
                   ((epri e' == epri e)%Q \/
                    (epri e' == wprio s' (entry_task (getl s' l) e'))%Q)) /\
    (forall l, keyed s l -> keyed s' l) /\
    (forall n w l f, reaches s n t w -> n < efuel s ->
       is_prio_task s w = true -> In (f, w) (lwt (getl s l)) -> task_is_runnable s w = false ->
       forall e, In e (arr (lpq (getl s' l))) -> Z.to_nat (eobj e) = f ->
                 (epri e == effective_priority s' w)%Q).
Proof. exact propagate_reach_thm. Qed.
Print Assumptions C12_key_tracks_eprio_reachable.

(* [keyed] is NOT an invariant of reachable states, even without eager starts and on an
   acyclic wait-for graph: in the reachable state istStale (Sched/InheritStale.v: the run of
   C12_example continued by cancelling X, which leaves lock 1 held by the queued W1) W1's live
   entry in lock 0 keeps the inherited key -5 although W1's effective priority is 5 again
   (nothing re-keys when an effective priority becomes LESS urgent), and H's release() hands
   lock 0 to W1 although the live waiter W2 (effective priority 3) is `before` W1.  The real
   asynkit code behaves the same (replayed on /repo/src). *)
Theorem C12_keyed_not_invariant :
  reachable_ne istStale /\ ranked istStale /\
  arr (lpq (getl istStale 0)) = [mkE (-5)%Q 0 3; mkE 3%Q 1 4] /\
  lwt (getl istStale 0) = [(3, 1); (4, 2)] /\
  map (fun t => Qred (wprio istStale t)) [1; 2] = [5%Q; 3%Q] /\
  live istStale (mkE (-5)%Q 0 3) /\ live istStale (mkE 3%Q 1 4) /\
  ~ keyed istStale 0 /\
  (* the queued W1 holds lock 1: outside the domain of C12_handover_reachable *)
  tholding (gett istStale 1) = [1] /\
  release_p istStale 0 0 = (wake_up_first_p (pre_wake istStale 0 0) 0, RVal 0) /\
  before (pre_wake istStale 0 0) 0 (mkE 3%Q 1 4) (mkE (-5)%Q 0 3) /\
  map (fun f => fstate_ (getf (fst (release_p istStale 0 0)) f)) [3; 4] = [FResult 1; FPending].
Proof.
  destruct istStale_facts as (A & B & _ & _ & _ & _ & C & _ & D & E & F).
  destruct istStale_handover as (G & _ & _ & _ & _ & H & _ & J & _).
  split; [exact reachable_ne_istStale|]. split; [exact istStale_ranked|].
  split; [exact A|]. split; [exact B|]. split; [exact C|]. split; [exact D|]. split; [exact E|].
  split; [exact F|]. split; [apply istStale_not_flat|]. split; [exact G|]. split; [exact H|].
  rewrite G. exact J.
Qed.
Print Assumptions C12_keyed_not_invariant.

(* The domain on which the keys ARE up to date: in every state reachable without eager
   starts, the live entry of a queued task that holds no PriorityLock is keyed by that task's
   current effective priority (= its own priority; 0 for a plain task).  So [keyed s l] holds
   whenever the tasks queued on l hold no PriorityLock (no nested locking among the waiters). *)
Theorem C12_keyed_lock_free_waiters :
  forall s l, reachable_ne s ->
    (forall e, In e (arr (lpq (getl s l))) -> live s e ->
       tholding (gett s (entry_task (getl s l) e)) = [] ->
       (epri e == wprio s (entry_task (getl s l) e))%Q) /\
    ((forall f w, In (f, w) (lwt (getl s l)) -> tholding (gett s w) = []) -> keyed s l).
Proof.
  intros s l Hr. split; [intros e; now apply reach_ne_key|now apply reach_ne_keyed_flat].
Qed.
Print Assumptions C12_keyed_lock_free_waiters.

(* Hand-over in effective-priority order from reachability alone (no keyed / lwt_ok / PQInv
   hypothesis), on that domain: whenever _wake_up_first resolves a future, it is the future of
   the (effective priority, arrival)-least live waiter. *)
Theorem C12_handover_reachable :
  forall s l f, reachable_ne s ->
    (forall g w, In (g, w) (lwt (getl s l)) -> tholding (gett s w) = []) ->
    fstate_ (getf (wake_up_first_p s l) f) <> fstate_ (getf s f) ->
    exists head rest,
      arr (lpq (getl s l)) = head :: rest /\ f = Z.to_nat (eobj head) /\
      fstate_ (getf s f) = FPending /\
      fstate_ (getf (wake_up_first_p s l) f) = FResult 1 /\
      (forall e, In e rest -> live s e -> before s l head e) /\
      (forall g, In g (pq_objs (lpq (getl s l))) -> woken s g = false).
Proof. exact handover_reach. Qed.
Print Assumptions C12_handover_reachable.

(* ... and for the hand-over performed by release() itself (the wake-up happens in the
   intermediate state pre_wake, after the owner has been cleared): if release() by the owner t
   resolves a future, it is the future of the (effective priority, arrival)-least live waiter,
   priorities and liveness taken in the state s before the release. *)
Theorem C12_release_handover_reachable :
  forall s t l f, reachable_ne s ->
    llocked (getl s l) = true -> lowner (getl s l) = Some t ->
    (forall g w, In (g, w) (lwt (getl s l)) -> tholding (gett s w) = []) ->
    fstate_ (getf (fst (release_p s t l)) f) <> fstate_ (getf s f) ->
    exists head rest,
      arr (lpq (getl s l)) = head :: rest /\ f = Z.to_nat (eobj head) /\
      fstate_ (getf s f) = FPending /\
      fstate_ (getf (fst (release_p s t l)) f) = FResult 1 /\
      (forall e, In e rest -> live s e -> before s l head e) /\
      (forall g, In g (pq_objs (lpq (getl s l))) -> woken s g = false).
Proof. exact release_handover_reach. Qed.
Print Assumptions C12_release_handover_reachable.

(* The domain is implied by a syntactic condition (Sched/LockStatic.v, Sched/WaitStatic.v), as
   for C13: every action is [ASpawn how c] with c a program without set_result/set_exception
   calls ([nosr]) and without [Spawn SEager] anywhere, continuations included ([noeag]), or
   [ADo op] with op none of OSetResult / OSetExc / OAcquire / ORelease / OCondWait / OSetPrio,
   or a step / clock action.  Then every state of the run is [reachable_ne], hence satisfies
   all the theorems above and C11_graph_consistent, C14_lock_on_exit_reachable.  Harness
   scripts without eager spawn denote such programs ([denote_task_noeag], [denote_task_nosr]). *)
From Asynkit Require Import Sched.LockStatic Sched.WaitStatic.
Theorem C12_domain_static :
  forall p fa dr lks cds nev acts,
    Forall act_static acts -> Forall act_static_ne acts ->
    reachable_ne (fold_left do_action acts (init_st p fa dr lks cds nev)).
Proof. exact static_reachable_ne. Qed.
Print Assumptions C12_domain_static.

(* ------------------------------------------------------------------------------------------
   Appended: the last sentence of C12 as a HISTORY theorem over runs
   ("A waiter is never overtaken by a waiter that was strictly less urgent during the whole
     time both were waiting"): Sched/NoOvertakeRel.v (step relations), NoOvertakePass.v (every
   scheduler action, by a pass through all primitives / frames / coro trees), NoOvertakeThms.v,
   NoOvertakeExample.v.
   A run: the action list [acts] from an initial state; T k = the state after the first k
   actions.  Domain: run_ok (C13's side condition) and run_ne (no asynkit.eager() start is
   executed; ADo release/wait/set-priority only while task 0 is not queued) - both hold for
   every run of the static class of C12_domain_static (run_ok_static_init, run_ne_static_init).
   Vocabulary (NoOvertakeThms.v):
     queued_at s l f q   := exists e, In e (arr (lpq (getl s l))) /\ Z.to_nat (eobj e) = f /\ eseq e = q
     waits_at s l f q    := queued_at s l f q /\ fdone s f = false            (still pending)
     waits_through T l f q i j := forall k, i <= k <= j -> waits_at (T k) l f q
     granted_at T l f k  := f is queued on l in T k and in T (S k), pending in T k and woken
                            (holds a result) in T (S k): action k hands l over to that waiter
     waiter_prio s l f   := wprio s (task_of_fut (getl s l) f): effective priority of the task
                            recorded for waiter future f, 0 for a plain task
     flat s l            := the tasks queued on l hold no PriorityLock. *)
From Asynkit Require Import Sched.NoOvertakeRel Sched.NoOvertakePass Sched.NoOvertakeThms
  Sched.NoOvertakeExample.

(* One action, keys as stored.  If action k of the run hands lock l over to the waiter with
   future fb while the waiter with future fa is queued and pending before and after the action,
   then fb's entry is strictly (key, arrival number)-less than fa's entry, both taken from the
   waiter heap in the state BEFORE the action.  No hypothesis on keys or priorities: this is
   the heap-minimum property of _wake_up_first carried through the whole action (the wake-up
   happens at an intermediate state; entries are neither added nor re-keyed before it). *)
Theorem C12_no_overtake_keys :
  forall prio_loop factor draws lks cds nev acts,
    let s0 := init_st prio_loop factor draws lks cds nev in
    let T := fun k => fold_left do_action (firstn k acts) s0 in
    run_ok s0 acts -> run_ne s0 acts ->
    forall l fa fb k ea eb, k < length acts ->
      In ea (arr (lpq (getl (T k) l))) -> Z.to_nat (eobj ea) = fa ->
      In eb (arr (lpq (getl (T k) l))) -> Z.to_nat (eobj eb) = fb ->
      In fa (pq_objs (lpq (getl (T (S k)) l))) -> fdone (T (S k)) fa = false ->
      (In fb (pq_objs (lpq (getl (T k) l))) /\ In fb (pq_objs (lpq (getl (T (S k)) l))) /\
       fdone (T k) fb = false /\ woken (T (S k)) fb = true) ->
      (epri eb < epri ea)%Q \/ ((epri eb == epri ea)%Q /\ (eseq eb < eseq ea)%Z).
Proof.
  intros prio_loop factor draws lks cds nev acts s0 T Hok Hne l fa fb k ea eb.
  exact (no_overtake_keys prio_loop factor draws lks cds nev acts Hok Hne l fa fb k ea eb).
Qed.
Print Assumptions C12_no_overtake_keys.

(* C12_no_overtake_step.  ... hence, when the keys of l's live entries are the current effective
   priorities in the state before the action ([keyed], C12's domain; derived from reachability
   when the queued tasks hold no PriorityLock, see C12_no_overtake_flat), the waiter that is
   granted the lock was, at that moment, more urgent than every waiter that keeps waiting, or
   equally urgent and earlier.  Contrapositive: a waiter that is strictly more urgent than b
   (or equally urgent and earlier) and keeps waiting is not passed over in favour of b. *)
Theorem C12_no_overtake_step :
  forall prio_loop factor draws lks cds nev acts,
    let s0 := init_st prio_loop factor draws lks cds nev in
    let T := fun k => fold_left do_action (firstn k acts) s0 in
    run_ok s0 acts -> run_ne s0 acts ->
    forall l fa qa fb qb k, k < length acts -> keyed (T k) l ->
      waits_at (T k) l fa qa -> waits_at (T (S k)) l fa qa ->
      queued_at (T k) l fb qb -> granted_at T l fb k ->
      (waiter_prio (T k) l fb < waiter_prio (T k) l fa)%Q \/
      ((waiter_prio (T k) l fb == waiter_prio (T k) l fa)%Q /\ (qb < qa)%Z).
Proof.
  intros prio_loop factor draws lks cds nev acts s0 T Hok Hne l fa qa fb qb k.
  exact (no_overtake_step prio_loop factor draws lks cds nev acts Hok Hne l fa qa fb qb k).
Qed.
Print Assumptions C12_no_overtake_step.

(* C12_no_overtake, the history statement.  Let a (future fa, arrival number qa) wait on l in
   every state of the window [i, j+1].  If b (future fb) is strictly less urgent than a (greater
   effective-priority value) in every state of [i, j] in which b is queued on l, then none of the
   actions i..j hands l over to b.  Hypotheses: run_ok, run_ne (the run), keyed in the states of
   the window (domain condition: keys track effective priorities - it fails only after a
   waiter's effective priority became LESS urgent while queued, i.e. after a cancellation /
   release / set-priority among its own waiters: C12_keyed_not_invariant, O16).  Nothing is
   assumed about acyclicity. *)
Theorem C12_no_overtake :
  forall prio_loop factor draws lks cds nev acts,
    let s0 := init_st prio_loop factor draws lks cds nev in
    let T := fun k => fold_left do_action (firstn k acts) s0 in
    run_ok s0 acts -> run_ne s0 acts ->
    forall l fa qa fb i j, j < length acts ->
      (forall k, i <= k <= S j ->
         (exists e, In e (arr (lpq (getl (T k) l))) /\ Z.to_nat (eobj e) = fa /\ eseq e = qa) /\
         fdone (T k) fa = false) ->
      (forall k, i <= k <= j -> keyed (T k) l) ->
      (forall k, i <= k <= j -> In fb (pq_objs (lpq (getl (T k) l))) ->
         (wprio (T k) (task_of_fut (getl (T k) l) fa) < wprio (T k) (task_of_fut (getl (T k) l) fb))%Q) ->
      forall k, i <= k <= j ->
        ~ (In fb (pq_objs (lpq (getl (T k) l))) /\ In fb (pq_objs (lpq (getl (T (S k)) l))) /\
           fdone (T k) fb = false /\ woken (T (S k)) fb = true).
Proof.
  intros prio_loop factor draws lks cds nev acts s0 T Hok Hne l fa qa fb i j.
  exact (no_overtake prio_loop factor draws lks cds nev acts Hok Hne l fa qa fb i j).
Qed.
Print Assumptions C12_no_overtake.

(* ... with [keyed] derived from reachability: no hypothesis besides the run's side conditions
   when the tasks queued on l hold no PriorityLock in the states of the window *)
Theorem C12_no_overtake_flat :
  forall prio_loop factor draws lks cds nev acts,
    let s0 := init_st prio_loop factor draws lks cds nev in
    let T := fun k => fold_left do_action (firstn k acts) s0 in
    run_ok s0 acts -> run_ne s0 acts ->
    forall l fa qa fb i j, j < length acts ->
      waits_through T l fa qa i (S j) ->
      (forall k, i <= k <= j -> forall g w, In (g, w) (lwt (getl (T k) l)) -> tholding (gett (T k) w) = []) ->
      (forall k, i <= k <= j -> In fb (pq_objs (lpq (getl (T k) l))) ->
         (waiter_prio (T k) l fa < waiter_prio (T k) l fb)%Q) ->
      forall k, i <= k <= j -> ~ granted_at T l fb k.
Proof.
  intros prio_loop factor draws lks cds nev acts s0 T Hok Hne l fa qa fb i j.
  exact (no_overtake_flat prio_loop factor draws lks cds nev acts Hok Hne l fa qa fb i j).
Qed.
Print Assumptions C12_no_overtake_flat.

(* Among waiters that are equally urgent throughout, grants follow arrival order: if a arrived
   before b (qa < qb) and their effective priorities are equal in every state of the window in
   which b is queued, b is not granted l while a waits. *)
Theorem C12_fifo_among_equals_history :
  forall prio_loop factor draws lks cds nev acts,
    let s0 := init_st prio_loop factor draws lks cds nev in
    let T := fun k => fold_left do_action (firstn k acts) s0 in
    run_ok s0 acts -> run_ne s0 acts ->
    forall l fa qa fb qb i j, j < length acts ->
      waits_through T l fa qa i (S j) ->
      (forall k, i <= k <= j -> keyed (T k) l) ->
      (qa < qb)%Z ->
      (forall k, i <= k <= j -> queued_at (T k) l fb qb ->
         (waiter_prio (T k) l fa == waiter_prio (T k) l fb)%Q) ->
      forall k, i <= k <= j -> queued_at (T k) l fb qb -> ~ granted_at T l fb k.
Proof.
  intros prio_loop factor draws lks cds nev acts s0 T Hok Hne l fa qa fb qb i j.
  exact (fifo_among_equals prio_loop factor draws lks cds nev acts Hok Hne l fa qa fb qb i j).
Qed.
Print Assumptions C12_fifo_among_equals_history.

(* Plain asyncio tasks count as priority 0, so among plain tasks a PriorityLock is FIFO like
   asyncio.Lock; no [keyed] hypothesis (nobody queued on l holds a PriorityLock). *)
Theorem C12_fifo_plain_tasks_history :
  forall prio_loop factor draws lks cds nev acts,
    let s0 := init_st prio_loop factor draws lks cds nev in
    let T := fun k => fold_left do_action (firstn k acts) s0 in
    run_ok s0 acts -> run_ne s0 acts ->
    forall l fa qa fb qb i j, j < length acts ->
      waits_through T l fa qa i (S j) ->
      (forall k, i <= k <= j -> forall g w, In (g, w) (lwt (getl (T k) l)) -> tholding (gett (T k) w) = []) ->
      (qa < qb)%Z ->
      (forall k, i <= k <= j ->
         is_prio_task (T k) (task_of_fut (getl (T k) l) fa) = false /\
         is_prio_task (T k) (task_of_fut (getl (T k) l) fb) = false) ->
      forall k, i <= k <= j -> queued_at (T k) l fb qb -> ~ granted_at T l fb k.
Proof.
  intros prio_loop factor draws lks cds nev acts s0 T Hok Hne l fa qa fb qb i j.
  exact (fifo_plain_tasks prio_loop factor draws lks cds nev acts Hok Hne l fa qa fb qb i j).
Qed.
Print Assumptions C12_fifo_plain_tasks_history.

(* The granted waiter and ownership (C13_at_most_one_woken, C13_take_lock_only_when_free): after
   the grant the lock has no owner, fb is the ONLY woken waiter queued on l (one hand-over in
   flight), and _take_lock by whoever resumes that waiter succeeds and makes it the owner. *)
Theorem C12_grant_in_flight :
  forall prio_loop factor draws lks cds nev acts,
    let s0 := init_st prio_loop factor draws lks cds nev in
    let T := fun k => fold_left do_action (firstn k acts) s0 in
    run_ok s0 acts -> run_ne s0 acts ->
    forall l fb k, granted_at T l fb k ->
      lowner (getl (T (S k)) l) = None /\
      (forall g, In g (pq_objs (lpq (getl (T (S k)) l))) -> woken (T (S k)) g = true -> g = fb) /\
      (forall t, exists s', take_lock (T (S k)) l t = inl s' /\ lowner (getl s' l) = Some t).
Proof.
  intros prio_loop factor draws lks cds nev acts s0 T Hok Hne l fb k.
  exact (grant_in_flight prio_loop factor draws lks cds nev acts Hok l fb k).
Qed.
Print Assumptions C12_grant_in_flight.

(* the domain is implied by the syntactic condition of C12_domain_static *)
Theorem C12_no_overtake_domain_static :
  forall p fa dr lks cds nev acts,
    Forall act_static acts -> Forall act_static_ne acts ->
    run_ok (init_st p fa dr lks cds nev) acts /\ run_ne (init_st p fa dr lks cds nev) acts.
Proof.
  intros. split; [now apply run_ok_static_init|now apply run_ne_static_init].
Qed.
Print Assumptions C12_no_overtake_domain_static.


(* Non-vacuity (Sched/NoOvertakeExample.v; list loop, locks 0 and 1; tasks H=0 (priority 0, owner
   of lock 0), B=1 (3), C=2 (-10), A=3 (5, owner of lock 1), X=4 (-5); waiter futures of lock 0:
   B 4 (arrival 0), C 5 (arrival 1), A 6 (arrival 2)).  X starts waiting on lock 1 AFTER A queued
   on lock 0 (action 11): A inherits -5 and its entry is re-keyed from 5 to -5, arrival 2 kept.
   In the window of states 12..14 A waits and is strictly more urgent than B; [keyed] holds; the
   release by H (action 13) happens inside the window and goes to C; by the theorem B is not
   granted the lock in the window.  The next hand-over (action 14) goes to A before the earlier
   arrival B, as C12_no_overtake_step requires (-5 < 3).  Service order C, A, B; arrival order
   B, C, A.  (T is written with [tr s0 acts k] = fold_left do_action (firstn k acts) s0 of
   NoOvertakeThms.v, by definition the same term as in the theorems above.) *)
Theorem C12_no_overtake_example :
  let T := tr (init_st false 0 [] [LPrio; LPrio] [] 0) nacts in
  (run_ok (init_st false 0 [] [LPrio; LPrio] [] 0) nacts /\
   run_ne (init_st false 0 [] [LPrio; LPrio] [] 0) nacts) /\
  (arr (lpq (getl (T 11) 0)) = [mkE (-10)%Q 1 5; mkE 3%Q 0 4; mkE 5%Q 2 6] /\
   arr (lpq (getl (T 12) 0)) = [mkE (-10)%Q 1 5; mkE 3%Q 0 4; mkE (-5)%Q 2 6] /\
   lwt (getl (T 12) 0) = [(4, 1); (5, 2); (6, 3)] /\
   tholding (gett (T 12) 3) = [1] /\ lwt (getl (T 12) 1) = [(8, 4)] /\
   map (fun t => Qred (wprio (T 11) t)) [1; 2; 3] = [3%Q; (-10)%Q; 5%Q] /\
   map (fun t => Qred (wprio (T 12) t)) [1; 2; 3] = [3%Q; (-10)%Q; (-5)%Q]) /\
  (waits_through T 0 6 2 12 14 /\
   (forall k, 12 <= k <= 13 -> keyed (T k) 0) /\
   (forall k, 12 <= k <= 13 -> (waiter_prio (T k) 0 6 < waiter_prio (T k) 0 4)%Q)) /\
  (granted_at T 0 5 13 /\ forall k, 12 <= k <= 13 -> ~ granted_at T 0 4 k) /\
  (granted_at T 0 5 13 /\ granted_at T 0 6 14 /\ granted_at T 0 4 15).
Proof.
  cbv zeta.
  split; [exact (conj nrun_ok nrun_ne)|].
  split.
  { destruct n_queue as (A & B & _ & _ & _ & C & D & E & F & G).
    exact (conj A (conj B (conj C (conj D (conj E (conj F G)))))). }
  split.
  { split; [exact n_A_waits|]. split; [|exact n_urgency]. intros k Hk. apply n_keyed. lia. }
  split; [exact (conj n_grant_C n_no_overtake)|].
  destruct n_service_order as (A & B & C & _). exact (conj A (conj B C)).
Qed.
Print Assumptions C12_no_overtake_example.
