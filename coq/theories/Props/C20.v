(* C20 - Coroutine state helpers classify every state of every coroutine kind.
   Statements only; proofs in Coro/CoroStateProofs.v.

   [ostate] is the object state of a native coroutine, a generator-based
   coroutine or an async generator in CPython 3.12.1 (frame state, ag_running)
   together with the ground truth the transitions maintain: [gstarted] some
   code of the body has run, [gexited] the body returned or raised, [gkilled]
   it was closed / thrown into before it ever started, [gonstack] it is being
   run right now.  [reachable] = produced from a new object by the drive steps
   of [apply_ev] (start, resume, yield, await-suspend, return/raise, close or
   throw before start, throw into the awaited object, asend/athrow/aclose
   awaitables with their ag_running effects, leaving an awaitable half-way).
   [is_new] / [is_suspended] / [is_finished] are asynkit's coro_is_new /
   coro_is_suspended / coro_is_finished (after fix F12) as functions of the
   attributes Python code can read. *)
From Asynkit Require Import Base.Prelude Coro.CoroState Coro.CoroStateCorr Coro.CoroStateProofs.

(* At every point of the life of an object of any of the three kinds exactly one of
   new / suspended / finished / "currently executing" (= none of the three helpers)
   holds, and it is the true one. *)
Theorem C20_exactly_one_and_true :
  forall s : ostate, reachable s ->
    (is_new s = true <-> gstarted s = false /\ gkilled s = false) /\
    (is_suspended s = true <-> gstarted s = true /\ gexited s = false /\ gonstack s = false) /\
    (is_finished s = true <-> gexited s = true \/ gkilled s = true) /\
    (is_new s = false /\ is_suspended s = false /\ is_finished s = false <-> gonstack s = true) /\
    ~ (is_new s = true /\ is_suspended s = true) /\
    ~ (is_new s = true /\ is_finished s = true) /\
    ~ (is_suspended s = true /\ is_finished s = true).
Proof. exact exactly_one_and_true. Qed.
Print Assumptions C20_exactly_one_and_true.

(* the same with the model's truth function (finished > executing > suspended > new) *)
Theorem C20_classify_ok : forall s : ostate, reachable s -> classify_ok s = true.
Proof. exact classify_ok_reachable. Qed.
Print Assumptions C20_classify_ok.

(* the computed list of 24 states is exactly the set of reachable states *)
Theorem C20_closure_exact : forall s : ostate, reachable s <-> In s closure.
Proof. exact closure_exact. Qed.
Print Assumptions C20_closure_exact.

(* every object state between two steps of any drive history of any body, as computed by
   the interpreter that the harness compares with the real objects, is reachable *)
Theorem C20_run_states_reachable :
  forall H k b ops, Forall reachable (states_from H b (start_state k b) ops).
Proof. exact run_states_reachable. Qed.
Print Assumptions C20_run_states_reachable.

(* Finding F12: with the helpers as they were before the fix, an async generator paused
   at a `yield` (reachable: start through asend().send(None), then yield) is reported
   new and not suspended. *)
Theorem C20_refuted_before_fix :
  exists s : ostate, reachable s /\ ground_truth s = TSuspended
                     /\ old_is_new s = true /\ old_is_suspended s = false.
Proof. exact refuted_before_fix. Qed.
Print Assumptions C20_refuted_before_fix.
