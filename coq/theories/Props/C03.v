(* C03 - cancelling an eager awaitable always reaches the started coroutine.
   Model-level content over Sched/Model.v (current code: _EagerContinuation forwards a
   throw() before the first step into the started coroutine).  Proofs: Sched/EagerProofs.v.

   Vocabulary (see also Props/C01.v):
     TEager y frs k     continuation task of eager(), not yet stepped: the started coroutine is
                        suspended with library frames frs and continuation k, having yielded y
     TSusp frs k        an ordinary task suspended at the same point
     as_susp s t frs k  s with task t's continuation replaced by TSusp frs k
     run_cont t frs k inp s
                        the coroutine resumed at its suspension point with inp: resume_stack over
                        its library frames, then its own continuation k on the reply (exec)
     step_input s t exc what Task.__step hands to the coroutine: exc, or - when a cancel() is
                        pending (tmustc) - a CancelledError (exc itself if it is one)
     step_task_old      Task.__step over the UNREPAIRED as_coroutine() wrapper (differs from
                        step_task only for a throw into an unstepped TEager task) *)
From Coq Require Import QArith.
From RecordUpdate Require Import RecordUpdate.
From Asynkit Require Import Base.Prelude Sched.Model Sched.ThrowProofs Sched.Corr Sched.EagerProofs.
Import RecordSetNotations.
Open Scope nat_scope.

(* cancel() right after eager() returned (continuation not yet stepped, hence no waiter):
   only _must_cancel is set; the next step throws CancelledError into the STARTED coroutine at
   its suspension point (frames frs, then k) - literally the step of the same task suspended
   there as an ordinary task; a repeated cancel() changes nothing.  The last two clauses cover
   any state in which that step is eventually taken, and any pending exception. *)
Theorem C03_cancel_reaches :
  (forall s tn y frs k,
     tdone s tn = false -> tcont_ (gett s tn) = TEager y frs k -> twaiter (gett s tn) = None ->
     let s' := fst (cancel_task s tn) in
     snd (cancel_task s tn) = true /\
     s' = sett s tn (gett s tn <| tmustc := true |>) /\
     tmustc (gett s' tn) = true /\ tcont_ (gett s' tn) = TEager y frs k /\ tdone s' tn = false /\
     step_task tn None s' =
       (let '(s2, o) := run_cont tn frs k (RExc ECancelled) (running_state s tn) in
        finish_step tn s2 o <| current := None |>) /\
     step_task tn None s' = step_task tn None (as_susp s' tn frs k) /\
     cancel_task s' tn = (s', true)) /\
  (forall s tn exc y frs k,
     tdone s tn = false -> tcont_ (gett s tn) = TEager y frs k -> tmustc (gett s tn) = true ->
     exists e, step_input s tn exc = Some e /\ is_cancel e = true /\
       step_task tn exc s =
         (let '(s2, o) := run_cont tn frs k (RExc e) (running_state s tn) in
          finish_step tn s2 o <| current := None |>) /\
       step_task tn exc s = step_task tn exc (as_susp s tn frs k)) /\
  (* whenever the first step is a throw (pending cancel, task_throw, failed wake-up) the
     TEager case of step_task coincides with the TSusp case *)
  (forall s tn exc e y frs k,
     tdone s tn = false -> tcont_ (gett s tn) = TEager y frs k -> step_input s tn exc = Some e ->
     step_task tn exc s = step_task tn exc (as_susp s tn frs k)).
Proof.
  split; [exact eager_cancel_reaches|]. split; [exact eager_step_cancelled|].
  exact step_eager_throw_as_susp.
Qed.
Print Assumptions C03_cancel_reaches.

(* after the first step the task is an ordinary suspended task: cancel() while runnable sets
   _must_cancel and the next step throws CancelledError at the suspension point; cancel() while
   blocked on a pending plain future cancels that future, whose wake-up throws CancelledError
   there; cancelling again while that wake-up is pending only sets _must_cancel, and the
   coroutine still receives a single CancelledError *)
Theorem C03_cancel_reaches_later :
  forall s t frs k,
  tdone s t = false -> tcont_ (gett s t) = TSusp frs k ->
  (twaiter (gett s t) = None ->
     let s' := fst (cancel_task s t) in
     step_task t None s' =
       (let '(s2, o) := run_cont t frs k (RExc ECancelled) (running_state s t) in
        finish_step t s2 o <| current := None |>)) /\
  (forall f, twaiter (gett s t) = Some f -> fowner (getf s f) = None -> fstate_ (getf s f) = FPending ->
     cancel_task s t = (fst (fut_finish s f FCancelled), true)) /\
  (forall f, twaiter (gett s t) = Some f -> fowner (getf s f) = None -> fstate_ (getf s f) <> FPending ->
     cancel_task s t = (sett s t (gett s t <| tmustc := true |>), true)) /\
  (forall u f, tdone u t = false -> tcont_ (gett u t) = TSusp frs k ->
     fstate_ (getf u f) = FCancelled -> fcexc (getf u f) = None ->
     wakeup t f u =
       (let '(s2, o) := run_cont t frs k (RExc ECancelled) (running_state u t) in
        finish_step t s2 o <| current := None |>)).
Proof.
  intros s t frs k Hd Hk. destruct (susp_cancel_reaches s t frs k Hd Hk) as (A & B & C).
  split; [exact A|]. split; [exact B|]. split; [|exact C].
  intros f Hw Ho Hp. apply (cancel_blocked_again s t f); assumption.
Qed.
Print Assumptions C03_cancel_reaches_later.

(* no stranded coroutine: finish_step leaves TFin exactly when the coroutine returned/raised;
   and a step of an eager continuation or of a suspended task either keeps a suspension point of
   the coroutine, or finishes the task BY RUNNING the coroutine (its frames and continuation were
   resumed and ran to the end) - it is never dropped unrun *)
Theorem C03_no_stranded :
  (forall t s o, t < length (tasks s) ->
     tcont_ (gett (finish_step t s o) t) =
     match o with ODone _ => TFin | OYield _ frs k => TSusp frs k end) /\
  (forall s t exc y frs k,
     tdone s t = false ->
     (tcont_ (gett s t) = TSusp frs k \/ tcont_ (gett s t) = TEager y frs k) ->
     let s' := step_task t exc s in
     (exists frs' k', tcont_ (gett s' t) = TSusp frs' k') \/
     (tcont_ (gett s' t) = TFin /\
      exists inp s2 r, run_cont t frs k inp (running_state s t) = (s2, ODone r))).
Proof. split; [exact finish_step_tcont|exact step_no_stranded]. Qed.
Print Assumptions C03_no_stranded.

(* the unchanged tree violated the property at exactly one instant: the probe of DESIGN 4/C03
     t = eager(body()); t.cancel(); await t
     body: log 1; try: await fut0  except CancelledError: log 2; raise  finally: log 3
   run on the model logs 1,2,3; run with the old step function (identical except for a throw
   into an unstepped continuation, which ended the task without resuming the coroutine) it never
   logs more than 1 although the awaitable ends cancelled in both *)
Theorem C03_refuted_before_fix :
  (forall s t exc,
     (forall y frs k, tcont_ (gett s t) = TEager y frs k -> step_input s t exc = None) ->
     step_task_old t exc s = step_task t exc s) /\
  (forall s, run_one_with step_task s = run_one s) /\
  body_events (iter 6 run_one probe_start) = [1; 2; 3]%Z /\
  rq_items (ready (iter 6 run_one probe_start)) = [] /\
  body_events (iter 6 (run_one_with step_task_old) probe_start) = [1]%Z /\
  rq_items (ready (iter 6 (run_one_with step_task_old) probe_start)) = [] /\
  (forall n, let ev := body_events (iter n (run_one_with step_task_old) probe_start) in
             ev = [] \/ ev = [1]%Z) /\
  fstate_ (getf (iter 6 run_one probe_start) 2) = FCancelled /\
  fstate_ (getf (iter 6 (run_one_with step_task_old) probe_start) 2) = FCancelled /\
  tcont_ (gett (iter 6 run_one probe_start) 1) = TFin /\
  tcont_ (gett (iter 6 (run_one_with step_task_old) probe_start) 1) = TFin.
Proof.
  split; [exact step_task_old_same|]. split; [exact run_one_with_model|].
  exact cancel_before_first_step_probe.
Qed.
Print Assumptions C03_refuted_before_fix.

(* ================================================================================================
   WHOLE RUNS WITH A CANCELLATION (schedule level; Sched/CancelRun.v, CancelRunThm.v,
   CancelRunExample.v, extending the C01 development Sched/EagerRun*.v).

   Vocabulary (AD, ref_run, agree, evlog, calm_run, task_outcome, Inv09/InvC: see Props/C01.v):
     ref_run_c c val n   the pure reference run of the await-determined body c in which the first
                         n awaits (await f / sleep(0)) are answered as in ref_run (await f by
                         [val f]), the (n+1)-th is resumed with a CancelledError, and whatever
                         the body does afterwards (catch, log, await again, re-raise, return) is
                         run by ref_run again.  No tasks, no loop, no schedule, no start mode.
     susp_at c val n     the (n+1)-th await point on that path: (events logged before it, what
                         the body yields there, the body's continuation)
     m : option nat      how the cancellation reaches the task:
                           None    cancel() found it not blocked - the continuation task of
                                   eager() not yet stepped (TEager: the F2 case), or an ordinary
                                   task woken but not yet run (the future's value is lost), or
                                   runnable after sleep(0): _must_cancel, thrown at its next step;
                           Some f  it was blocked on the pending future f: f is cancelled, its
                                   wake-up throws the CancelledError
     pendb tn m s        the cancellation is pending in s (_must_cancel set / f cancelled)
     deliver_ok .. s     tn is suspended at its (n+1)-th await: tcont_ is TSusp (or, for m = None,
                         TEager) with exactly the frames and continuation of susp_at c val n
                         (m = Some f: that await yields f, and f stores no exception instance)
     cancel_run val c tn n m s acts
                         run-checked shape of the run, at every action boundary: while no
                         cancellation is pending the run is calm; while one is pending (cancel()
                         may be called again, from inside any task's step - also the step that
                         called eager() - from the loop, from outside; any other code may run)
                         tn's future is not done, and tn's first step is the delivery, with
                         deliver_ok; afterwards the run is calm again (no second cancellation);
                         the delivery happens within acts.  cancel_run_opt: same, delivery not
                         required.
     P2 P m              the futures the body may await after the delivery: P, minus f if m = Some f
     post_ok P val c n m (m = Some f) after the CancelledError the body stays within P2, i.e. does
                         not await the future that was cancelled under it again
     val_nc val          no awaited future fails with a CancelledError(-subclass) instance
     own_done sf tn      tn's future is done only if tn finished (model artefact, see C01 notes) *)
From Asynkit Require Import Sched.PartTables Sched.PartitionRun Sched.TaskFrame Sched.FutMono
     Sched.EagerRunOth Sched.EagerRun Sched.EagerRunThm Sched.CancelRun Sched.CancelRunThm
     Sched.CancelRunExample.

(* the reference semantics, spelled out *)
Theorem C03_reference_with_cancellation :
  forall val n,
  (forall v, ref_run_c (Ret v) val n = ([], RVal v)) /\
  (forall e, ref_run_c (Raise e) val n = ([], RExc e)) /\
  (forall x k, ref_run_c (Call (OLog x) k) val n =
               (x :: fst (ref_run_c (k (RVal 0)) val n), snd (ref_run_c (k (RVal 0)) val n))) /\
  (forall f k, ref_run_c (Call (OAwaitFut f) k) val (S n) = ref_run_c (k (val f)) val n) /\
  (forall k, ref_run_c (Call OSleep0 k) val (S n) = ref_run_c (k (RVal 0)) val n) /\
  (forall f k, ref_run_c (Call (OAwaitFut f) k) val 0 = ref_run (k (RExc ECancelled)) val) /\
  (forall k, ref_run_c (Call OSleep0 k) val 0 = ref_run (k (RExc ECancelled)) val).
Proof. intros val n. repeat split; reflexivity. Qed.
Print Assumptions C03_reference_with_cancellation.

(* CANCELLED = THE REFERENCE, FOR BOTH START MODES, WITH THE SAME RIGHT-HAND SIDE.
   (1) eager start: at any point of any run where a running task t executes eager(c) (state s inside
   t's step, any caller continuation k - which may itself cancel the awaitable at once) and the body
   suspended (continuation task tn), then the caller's step ends and any actions follow: if the run
   has the shape cancel_run - one delivered cancellation, while the body is suspended at its
   (n+1)-th await, reaching it in mode m - the prefix events followed by tn's events are the trace
   of ref_run_c c val n and tn's future holds its outcome (FCancelled when the CancelledError
   propagates out of the body).
   (2) a plain task (any C task kind) of the same body under the same conditions: the same. *)
Theorem C03_cancel_is_reference :
  forall qok, QSpec qok -> forall (P : nat -> Prop) c val n m,
  AD P c -> post_ok P val c n m -> val_nc val ->
  (forall s t k acts s1 y frs kc s' o,
     InvC qok (Some t) s -> current s = Some t ->
     coro_ok (length (blocks s)) (Spawn SEager c k) ->
     (forall f, P f -> f < length (futs s)) ->
     (forall f, m = Some f -> fcancelled s f = false) ->
     exec t c s = (s1, OYield y frs kc) ->
     exec t (Spawn SEager c k) s = (s', o) ->
     let sb := finish_step t s' o <| current := None |> in
     let sf := fold_left do_action acts sb in
     let tn := length (tasks s1) in
     actions_ok sb acts -> cancel_run val c tn n m sb acts -> agree (P2 P m) sf val ->
     tcont_ (gett sf tn) = TFin ->
     map snd (skipn (length (log s)) (log s1)) ++ map snd (evlog tn (length (log s1)) sf)
       = fst (ref_run_c c val n) /\
     fstate_ (getf sf (tfut (gett sf tn))) = task_outcome (snd (ref_run_c c val n))) /\
  (forall s how acts,
     Inv09 qok s -> how <> SPy -> (forall f, P f -> f < length (futs s)) ->
     let tn := length (tasks s) in
     let s1 := do_action s (ASpawn how c) in
     let sf := fold_left do_action acts s1 in
     actions_ok s1 acts -> cancel_run val c tn n m s1 acts -> agree (P2 P m) sf val ->
     tcont_ (gett sf tn) = TFin ->
     map snd (evlog tn (length (log s)) sf) = fst (ref_run_c c val n) /\
     fstate_ (getf sf (tfut (gett sf tn))) = task_outcome (snd (ref_run_c c val n))).
Proof.
  intros qok QS P c val n m Hc Hpo Hnc. split.
  - intros s t k acts s1 y frs kc s' o I Hcur Hok Rng Hnp E1 E sb sf tn Ha Hr A Fin.
    exact (eager_cancel_run qok QS P s t c k acts val n m I Hcur Hc Hok Rng Hnp s1 y frs kc s' o E1 E
             Hpo Hnc Ha Hr A Fin).
  - intros s how acts I Hh Rng tn s1 sf Ha Hr A Fin.
    exact (plain_cancel_run qok QS P s how c acts val n m I Hh Hc Rng Hpo Hnc Ha Hr A Fin).
Qed.
Print Assumptions C03_cancel_is_reference.

(* "exactly as for a plain task cancelled at that point": any eager run and any plain run of the same
   body - own parents, environments, loop kinds, schedules, and own ways m1 / m2 in which the
   cancellation arrives (e.g. eager: before the continuation's first step; plain: while blocked) -
   that resolve the awaited futures alike (val) and deliver the cancellation at the same await
   index n have equal event sequences and equal states of the awaitable *)
Theorem C03_same_as_cancelled_task :
  forall (P : nat -> Prop) c val n, AD P c -> val_nc val ->
  (* the eager run *)
  forall qok1, QSpec qok1 -> forall m1 s t k acts s1 y frs kc s' o,
  post_ok P val c n m1 ->
  InvC qok1 (Some t) s -> current s = Some t ->
  coro_ok (length (blocks s)) (Spawn SEager c k) -> (forall f, P f -> f < length (futs s)) ->
  (forall f, m1 = Some f -> fcancelled s f = false) ->
  exec t c s = (s1, OYield y frs kc) -> exec t (Spawn SEager c k) s = (s', o) ->
  let sb := finish_step t s' o <| current := None |> in
  let sf := fold_left do_action acts sb in
  let tn := length (tasks s1) in
  actions_ok sb acts -> cancel_run val c tn n m1 sb acts -> agree (P2 P m1) sf val ->
  tcont_ (gett sf tn) = TFin ->
  (* the plain run *)
  forall qok2, QSpec qok2 -> forall m2 z how acts2,
  post_ok P val c n m2 ->
  Inv09 qok2 z -> how <> SPy -> (forall f, P f -> f < length (futs z)) ->
  let tp := length (tasks z) in
  let z1 := do_action z (ASpawn how c) in
  let zf := fold_left do_action acts2 z1 in
  actions_ok z1 acts2 -> cancel_run val c tp n m2 z1 acts2 -> agree (P2 P m2) zf val ->
  tcont_ (gett zf tp) = TFin ->
  map snd (skipn (length (log s)) (log s1)) ++ map snd (evlog tn (length (log s1)) sf) =
    map snd (evlog tp (length (log z)) zf) /\
  fstate_ (getf sf (tfut (gett sf tn))) = fstate_ (getf zf (tfut (gett zf tp))).
Proof.
  intros P c val n Hc Hnc qok1 QS1 m1 s t k acts s1 y frs kc s' o Hpo1 I Hcur Hok R1 Hnp E1 E sb sf tn
         Ha Hr A Fin qok2 QS2 m2 z how acts2 Hpo2 Iz Hh R2 tp z1 zf Ha2 Hr2 A2 Fin2.
  destruct (eager_cancel_run qok1 QS1 P s t c k acts val n m1 I Hcur Hc Hok R1 Hnp s1 y frs kc s' o E1 E
              Hpo1 Hnc Ha Hr A Fin) as [T1 O1].
  destruct (plain_cancel_run qok2 QS2 P z how c acts2 val n m2 Iz Hh Hc R2 Hpo2 Hnc Ha2 Hr2 A2 Fin2) as [T2 O2].
  split.
  - transitivity (fst (ref_run_c c val n)); [exact T1|symmetry; exact T2].
  - transitivity (task_outcome (snd (ref_run_c c val n))); [exact O1|symmetry; exact O2].
Qed.
Print Assumptions C03_same_as_cancelled_task.

(* NEVER LEFT SUSPENDED (whole-run form of C03_no_stranded).  A body started by eager() that
   suspended: in every run that ends drained (empty ready queue) with all the futures it may await
   done (a cancelled future is done), the task has FINISHED (tcont_ = TFin: by C03_no_stranded a
   task reaches TFin only by running its coroutine to the end, so its finally blocks ran; by
   C01_eager_equals_plain / C03_cancel_is_reference its events are then the complete reference
   trace) - (1) when it was never cancelled, (2) when the run has the cancel_run shape WITHOUT
   the assumption that the cancellation was delivered: a requested cancellation of a suspended
   body cannot stay undelivered in a drained run, and the body cannot stay suspended *)
Theorem C03_continuation_always_run :
  forall qok, QSpec qok -> forall (P : nat -> Prop) s t c k acts val,
  InvC qok (Some t) s -> current s = Some t ->
  AD P c -> coro_ok (length (blocks s)) (Spawn SEager c k) ->
  (forall f, P f -> f < length (futs s)) ->
  forall s1 y frs kc s' o,
  exec t c s = (s1, OYield y frs kc) ->
  exec t (Spawn SEager c k) s = (s', o) ->
  let sb := finish_step t s' o <| current := None |> in
  let sf := fold_left do_action acts sb in
  let tn := length (tasks s1) in
  actions_ok sb acts ->
  rq_items (ready sf) = [] -> (forall f, P f -> fdone sf f = true) -> own_done sf tn ->
  (calm_run tn sb acts -> agree P sf val -> tcont_ (gett sf tn) = TFin) /\
  (forall n m, post_ok P val c n m -> val_nc val ->
     (forall f, m = Some f -> fcancelled s f = false /\ fstate_ (getf sf f) = FCancelled) ->
     cancel_run_opt val c tn n m sb acts -> agree (P2 P m) sf val -> tcont_ (gett sf tn) = TFin).
Proof. exact eager_always_run. Qed.
Print Assumptions C03_continuation_always_run.

(* the instance asked for in DESIGN 9.3: body  try: await f0; log 1; await f1; log 2 finally: log 9
   (A) eager start, cancelled by the caller before the continuation task's first step, (A') plain
   task cancelled while blocked on f0: events [9], FCancelled, finished, in both; (B) eager,
   cancelled while blocked on f1, (B') plain, cancelled while woken but not yet run: [1; 9],
   FCancelled in both; all four runs have the cancel_run shape (n = 0 resp. 1) and end drained *)
Theorem C03_cancel_example :
  (ref_run_c cx_body cx_val 0 = ([9]%Z, RExc ECancelled) /\
   ref_run_c cx_body cx_val 1 = ([1; 9]%Z, RExc ECancelled) /\
   cx_obs cx_A 1 = ([9]%Z, TFin, FCancelled) /\
   cx_obs cx_A' 0 = ([9]%Z, TFin, FCancelled) /\
   cx_obs cx_B 1 = ([1; 9]%Z, TFin, FCancelled) /\
   cx_obs cx_B' 0 = ([1; 9]%Z, TFin, FCancelled) /\
   (exists y frs k, tcont_ (gett cx_A_start 1) = TEager y frs k) /\ tmustc (gett cx_A_start 1) = true /\
   rq_items (ready cx_A) = [] /\ rq_items (ready cx_A') = [] /\
   rq_items (ready cx_B) = [] /\ rq_items (ready cx_B') = []) /\
  cancel_run cx_val cx_body 1 0 None cx_A_start cx_A_acts /\
  cancel_run cx_val cx_body 0 0 (Some 0) cx_A'_start cx_A'_acts /\
  cancel_run cx_val cx_body 1 1 (Some 1) cx_B_start cx_B_acts /\
  cancel_run cx_val cx_body 0 1 None cx_B'_start cx_B'_acts.
Proof.
  split; [exact ex_cancel_same|]. split; [exact ex_cancel_run_A|]. split; [exact ex_cancel_run_A'|].
  split; [exact ex_cancel_run_B|exact ex_cancel_run_B'].
Qed.
Print Assumptions C03_cancel_example.
