(* C03 - cancelling an eager awaitable always reaches the started coroutine.
   Model-level content over Sched/Model.v (current code: _EagerContinuation forwards a
   throw() before the first step into the started coroutine).  Proofs: Sched/EagerProofs.v.

   Vocabulary (see also Props/C01.v):
     TEager y frs k     continuation task of eager(), not yet stepped: the started coroutine is
                        suspended with library frames frs and continuation k, having yielded y
     TSusp frs k        an ordinary task suspended at the same point
     as_susp s t frs k  s with task t's continuation replaced by TSusp frs k
     run_cont t frs k inp s
                        the coroutine resumed at its suspension point with inp: resume_stack over
                        its library frames, then its own continuation k on the reply (exec)
     step_input s t exc what Task.__step hands to the coroutine: exc, or - when a cancel() is
                        pending (tmustc) - a CancelledError (exc itself if it is one)
     step_task_old      Task.__step over the UNREPAIRED as_coroutine() wrapper (differs from
                        step_task only for a throw into an unstepped TEager task) *)
From Coq Require Import QArith.
From RecordUpdate Require Import RecordUpdate.
From Asynkit Require Import Base.Prelude Sched.Model Sched.ThrowProofs Sched.Corr Sched.EagerProofs.
Import RecordSetNotations.
Open Scope nat_scope.

(* cancel() right after eager() returned (continuation not yet stepped, hence no waiter):
   only _must_cancel is set; the next step throws CancelledError into the STARTED coroutine at
   its suspension point (frames frs, then k) - literally the step of the same task suspended
   there as an ordinary task; a repeated cancel() changes nothing.  The last two clauses cover
   any state in which that step is eventually taken, and any pending exception. *)
Theorem C03_cancel_reaches :
  (forall s tn y frs k,
     tdone s tn = false -> tcont_ (gett s tn) = TEager y frs k -> twaiter (gett s tn) = None ->
     let s' := fst (cancel_task s tn) in
     snd (cancel_task s tn) = true /\
     s' = sett s tn (gett s tn <| tmustc := true |>) /\
     tmustc (gett s' tn) = true /\ tcont_ (gett s' tn) = TEager y frs k /\ tdone s' tn = false /\
     step_task tn None s' =
       (let '(s2, o) := run_cont tn frs k (RExc ECancelled) (running_state s tn) in
        finish_step tn s2 o <| current := None |>) /\
     step_task tn None s' = step_task tn None (as_susp s' tn frs k) /\
     cancel_task s' tn = (s', true)) /\
  (forall s tn exc y frs k,
     tdone s tn = false -> tcont_ (gett s tn) = TEager y frs k -> tmustc (gett s tn) = true ->
     exists e, step_input s tn exc = Some e /\ is_cancel e = true /\
       step_task tn exc s =
         (let '(s2, o) := run_cont tn frs k (RExc e) (running_state s tn) in
          finish_step tn s2 o <| current := None |>) /\
       step_task tn exc s = step_task tn exc (as_susp s tn frs k)) /\
  (* whenever the first step is a throw (pending cancel, task_throw, failed wake-up) the
     TEager case of step_task coincides with the TSusp case *)
  (forall s tn exc e y frs k,
     tdone s tn = false -> tcont_ (gett s tn) = TEager y frs k -> step_input s tn exc = Some e ->
     step_task tn exc s = step_task tn exc (as_susp s tn frs k)).
Proof.
  split; [exact eager_cancel_reaches|]. split; [exact eager_step_cancelled|].
  exact step_eager_throw_as_susp.
Qed.
Print Assumptions C03_cancel_reaches.

(* after the first step the task is an ordinary suspended task: cancel() while runnable sets
   _must_cancel and the next step throws CancelledError at the suspension point; cancel() while
   blocked on a pending plain future cancels that future, whose wake-up throws CancelledError
   there; cancelling again while that wake-up is pending only sets _must_cancel, and the
   coroutine still receives a single CancelledError *)
Theorem C03_cancel_reaches_later :
  forall s t frs k,
  tdone s t = false -> tcont_ (gett s t) = TSusp frs k ->
  (twaiter (gett s t) = None ->
     let s' := fst (cancel_task s t) in
     step_task t None s' =
       (let '(s2, o) := run_cont t frs k (RExc ECancelled) (running_state s t) in
        finish_step t s2 o <| current := None |>)) /\
  (forall f, twaiter (gett s t) = Some f -> fowner (getf s f) = None -> fstate_ (getf s f) = FPending ->
     cancel_task s t = (fst (fut_finish s f FCancelled), true)) /\
  (forall f, twaiter (gett s t) = Some f -> fowner (getf s f) = None -> fstate_ (getf s f) <> FPending ->
     cancel_task s t = (sett s t (gett s t <| tmustc := true |>), true)) /\
  (forall u f, tdone u t = false -> tcont_ (gett u t) = TSusp frs k ->
     fstate_ (getf u f) = FCancelled -> fcexc (getf u f) = None ->
     wakeup t f u =
       (let '(s2, o) := run_cont t frs k (RExc ECancelled) (running_state u t) in
        finish_step t s2 o <| current := None |>)).
Proof.
  intros s t frs k Hd Hk. destruct (susp_cancel_reaches s t frs k Hd Hk) as (A & B & C).
  split; [exact A|]. split; [exact B|]. split; [|exact C].
  intros f Hw Ho Hp. apply (cancel_blocked_again s t f); assumption.
Qed.
Print Assumptions C03_cancel_reaches_later.

(* no stranded coroutine: finish_step leaves TFin exactly when the coroutine returned/raised;
   and a step of an eager continuation or of a suspended task either keeps a suspension point of
   the coroutine, or finishes the task BY RUNNING the coroutine (its frames and continuation were
   resumed and ran to the end) - it is never dropped unrun *)
Theorem C03_no_stranded :
  (forall t s o, t < length (tasks s) ->
     tcont_ (gett (finish_step t s o) t) =
     match o with ODone _ => TFin | OYield _ frs k => TSusp frs k end) /\
  (forall s t exc y frs k,
     tdone s t = false ->
     (tcont_ (gett s t) = TSusp frs k \/ tcont_ (gett s t) = TEager y frs k) ->
     let s' := step_task t exc s in
     (exists frs' k', tcont_ (gett s' t) = TSusp frs' k') \/
     (tcont_ (gett s' t) = TFin /\
      exists inp s2 r, run_cont t frs k inp (running_state s t) = (s2, ODone r))).
Proof. split; [exact finish_step_tcont|exact step_no_stranded]. Qed.
Print Assumptions C03_no_stranded.

(* the unchanged tree violated the property at exactly one instant: the probe of DESIGN 4/C03
     t = eager(body()); t.cancel(); await t
     body: log 1; try: await fut0  except CancelledError: log 2; raise  finally: log 3
   run on the model logs 1,2,3; run with the old step function (identical except for a throw
   into an unstepped continuation, which ended the task without resuming the coroutine) it never
   logs more than 1 although the awaitable ends cancelled in both *)
Theorem C03_refuted_before_fix :
  (forall s t exc,
     (forall y frs k, tcont_ (gett s t) = TEager y frs k -> step_input s t exc = None) ->
     step_task_old t exc s = step_task t exc s) /\
  (forall s, run_one_with step_task s = run_one s) /\
  body_events (iter 6 run_one probe_start) = [1; 2; 3]%Z /\
  rq_items (ready (iter 6 run_one probe_start)) = [] /\
  body_events (iter 6 (run_one_with step_task_old) probe_start) = [1]%Z /\
  rq_items (ready (iter 6 (run_one_with step_task_old) probe_start)) = [] /\
  (forall n, let ev := body_events (iter n (run_one_with step_task_old) probe_start) in
             ev = [] \/ ev = [1]%Z) /\
  fstate_ (getf (iter 6 run_one probe_start) 2) = FCancelled /\
  fstate_ (getf (iter 6 (run_one_with step_task_old) probe_start) 2) = FCancelled /\
  tcont_ (gett (iter 6 run_one probe_start) 1) = TFin /\
  tcont_ (gett (iter 6 (run_one_with step_task_old) probe_start) 1) = TFin.
Proof.
  split; [exact step_task_old_same|]. split; [exact run_one_with_model|].
  exact cancel_before_first_step_probe.
Qed.
Print Assumptions C03_refuted_before_fix.
