From Coq Require Import QArith.
From Asynkit Require Import Base.Prelude Sched.Model.
(* placeholder: the C03 theorems land in Sched/EagerProofs.v *)
Theorem C03_bind_ret : forall v f, bind (Ret v) f = f (RVal v).
Proof. reflexivity. Qed.
Print Assumptions C03_bind_ret.
