(* C16 - task_timeout fires iff the block outlives its deadline, never after exit.
   Model-level content over Sched/Model.v / Sched/Corr.v.  Proofs: Sched/TimeoutProofs.v
   (+ Sched/FrameFacts.v for "a block never becomes active again").

   Vocabulary (Model.v):
     OTimeoutEnter d / OTimeoutExit b r   __aenter__ / __aexit__ of `async with task_timeout(d)`;
                        r is how the body ended; blocks s = the table of timeout blocks
                        (btask: the task inside, bactive: is_active, btimer: its call_later handle)
     ETimeoutInt b      the private TimeoutInterrupt instance (token) of block b
     interruptor fuel s b i   the interruptor task's 3-attempt loop from attempt i
     InIntr b i ph      the interruptor suspended in attempt i (resumed by the loop later)
     exit_reply b r     what leaves block b when its body ended with r
     exit_state s b     s with block b inactive and its timer handle cancelled *)
From Coq Require Import QArith.
From RecordUpdate Require Import RecordUpdate.
From Asynkit Require Import Base.Prelude Sched.Model Sched.PartitionProofs Sched.ThrowProofs
     Sched.FrameFacts Sched.Corr Sched.TimeoutProofs.
Import RecordSetNotations.
Open Scope nat_scope.

(* task_timeout(None) never interferes: entering changes nothing, and the denotation of the
   block is the body followed by the rest - no block, no timer, no exit call *)
Theorem C16_none :
  (forall t s, lib_call t (OTimeoutEnter None) s = (s, LDone (RVal (-1)))) /\
  (forall t body rest env cur k s,
     exec t (denote (STimeout None body rest) env cur k) s =
     exec t (denote body env cur
                    (fun env c0 => match c0 with CNormal => denote rest env cur k | _ => k env c0 end)) s).
Proof. split; [exact timeout_none_enter|exact timeout_none_denote]. Qed.
Print Assumptions C16_none.

(* leaving the block: is_active := False, the timer handle is cancelled, nothing else changes *)
Theorem C16_exit_deactivates :
  forall t b r s,
  let s' := cancel_handle (setb s b (mkBlk (btask (getb s b)) false (btimer (getb s b))))
                          (btimer (getb s b)) in
  let h := btimer (getb s b) in
  lib_call t (OTimeoutExit b r) s = (s', LDone (exit_reply b r)) /\
  bactive (getb s' b) = false /\
  btask (getb s' b) = btask (getb s b) /\ btimer (getb s' b) = btimer (getb s b) /\
  (forall b', b' <> b -> getb s' b' = getb s b') /\
  length (blocks s') = length (blocks s) /\
  (h < length (handles s) -> geth s' h = mkH (hcb (geth s h)) true) /\
  (forall h', h' <> h -> geth s' h' = geth s h') /\
  length (handles s') = length (handles s) /\
  ready s' = ready s /\ futs s' = futs s /\ tasks s' = tasks s /\ locks s' = locks s /\
  conds s' = conds s /\ events s' = events s /\ timers s' = timers s /\ now s' = now s /\
  current s' = current s /\ log s' = log s /\ errors s' = errors s.
Proof. intros t b r s. split; [reflexivity|]. exact (exit_state_facts s b). Qed.
Print Assumptions C16_exit_deactivates.

(* the level: a block converts exactly its own token into TimeoutError; tokens of other (outer)
   blocks, results and every other exception pass through unchanged *)
Theorem C16_level :
  forall b,
  exit_reply b (RExc (ETimeoutInt b)) = RExc ETimeout /\
  (forall b', b' <> b -> exit_reply b (RExc (ETimeoutInt b')) = RExc (ETimeoutInt b')) /\
  (forall v, exit_reply b (RVal v) = RVal v) /\
  (forall e, (forall b', e <> ETimeoutInt b') -> exit_reply b (RExc e) = RExc e).
Proof. exact exit_reply_level. Qed.
Print Assumptions C16_level.

(* no late interrupt.  (1) the interruptor throws block b's token only under `is_active`:
   attempt i of an inactive block does nothing and goes on, of an active one it is exactly
   task_interrupt(btask, token);  (2) an inactive block stays inactive over every sequence of
   environment actions and every user program (and inside steps);  (3) hence after the exit of
   b - whatever happens next - every run of b's interruptor, from its start or resumed from any
   of its suspensions, returns without touching the state;  (4) the cancelled timer handle is
   skipped by the loop *)
Theorem C16_no_late_interrupt :
  (forall fuel s b i, i < 3 ->
     interruptor (S fuel) s b i =
     if bactive (getb s b)
     then (let '(s1, r) := task_interrupt_start s (btask (getb s b)) (ETimeoutInt b) in
           match r with
           | LSusp y frs => (s1, LSusp y (frs ++ [InIntr b i 0]))
           | LDone (RExc (ERuntime k)) =>
               if Nat.eqb i 2 then (s1, LDone (RExc (ERuntime k)))
               else (s1, LSusp YNone [InSleep0; InIntr b i 1])
           | LDone (RExc e) => (s1, LDone (RExc e))
           | LDone (RVal _) => interruptor fuel s1 b (S i)
           end)
     else (s, LDone (RVal 0))) /\
  (forall fuel s b i, bactive (getb s b) = false -> interruptor fuel s b i = (s, LDone (RVal 0))) /\
  (forall s b acts, b < length (blocks s) -> bactive (getb s b) = false ->
     bactive (getb (fold_left do_action acts s) b) = false) /\
  (forall t c s s' o b, exec t c s = (s', o) -> b < length (blocks s) -> bactive (getb s b) = false ->
     bactive (getb s' b) = false) /\
  (forall t b r s acts, b < length (blocks s) ->
     let s1 := fst (lib_call t (OTimeoutExit b r) s) in
     let s2 := fold_left do_action acts s1 in
     bactive (getb s2 b) = false /\
     (forall fuel i, interruptor fuel s2 b i = (s2, LDone (RVal 0))) /\
     (forall t', lib_call t' (OInterruptor b) s2 = (s2, LDone (RVal 0))) /\
     (forall t' i ph v, frame_resume t' (InIntr b i ph) (RVal v) s2 = (s2, LDone (RVal 0)))) /\
  (forall s h r, rq_popleft (ready s) = Some (h, r) -> hcancelled (geth s h) = true ->
     run_one s = s <| ready := r |>).
Proof.
  split; [exact interruptor_throws_only_if_active|]. split; [exact interruptor_inactive|].
  split; [exact inactive_forever|]. split; [exact inactive_inside_step|].
  split; [exact no_late_interrupt|exact cancelled_handle_skipped].
Qed.
Print Assumptions C16_no_late_interrupt.

(* it fires (list ready queue): block b active, the interruptor's attempt i, and task_throw
   accepts the token for b's task (e.g. a Python task blocked on a pending future - last
   clause; see C15_throw_effect for what an accepted throw changes).  Then the interruptor has
   thrown ETimeoutInt b, moved the target's new handle to position 0 and is itself asleep; the
   very next handle the loop runs is the target's step carrying the token (delivered at its
   suspension point by C15_delivered; converted by the block's exit by C16_level) *)
Theorem C16_fires :
  (forall fuel s b i l s1 v,
     ready s = RList l -> bactive (getb s b) = true -> i < 3 ->
     let t := btask (getb s b) in
     let hn := length (handles s) in
     task_throw s t (ETimeoutInt b) = (s1, RVal v) ->
     exists l',
       ready s1 = RList (l' ++ [hn]) /\
       geth s1 hn = mkH (HStep t (Some (ETimeoutInt b))) false /\
       interruptor (S fuel) s b i =
         (s1 <| ready := RList (hn :: l') |>, LSusp YNone [InSleep0; InIntr b i 0]) /\
       run_one (s1 <| ready := RList (hn :: l') |>) =
         step_task t (Some (ETimeoutInt b)) (s1 <| ready := RList l' |>)) /\
  (forall s t e f,
     tdone s t = false -> tkind_ (gett s t) = KPy -> twaiter (gett s t) = Some f -> fdone s f = false ->
     task_throw s t e = (throw_go (remove_done_callback s f (CbWakeup t)) t e, RVal 0)).
Proof. split; [exact interruptor_fires|exact throw_accepts_blocked]. Qed.
Print Assumptions C16_fires.

(* concrete runs (scripts of Sched/Corr.v, SPy tasks, virtual clock):
   - nested timeouts 1 tick around 5 ticks around sleep(10): the inner level sees the outer
     token (903) unchanged, TimeoutError (904) appears at the outer level only, both blocks end
     inactive with cancelled timers, the sleep future is not cancelled;
   - sleep(1) under task_timeout(1), timers tie: the block is still running at its deadline and
     is interrupted (904);
   - the deadline passes just as the task leaves the block (trigger fired, interruptor spawned,
     task runs first): the block completes normally (7, 8), the interruptor ends quietly *)
Theorem C16_examples :
  (let s := run_acts ex_nested_acts in
   events_of s = [903; 904; 4]%Z /\ map bactive (blocks s) = [false; false] /\
   hcancelled (geth s (btimer (getb s 0))) = true /\ hcancelled (geth s (btimer (getb s 1))) = true /\
   fstate_ (getf s (tfut (gett s 0))) = FResult 0 /\ fstate_ (getf s 1) = FPending /\
   rq_items (ready s) = [] /\ errors s = []) /\
  (let s := run_acts [XSpawn SPy ex_tie_running; XBegin; XStep; XAdvance 1%Q; XBegin;
                      XStep; XStep; XStep; XStep; XStep; XStep] in
   events_of s = [904; 8]%Z /\ map bactive (blocks s) = [false] /\
   rq_items (ready s) = [] /\ errors s = []) /\
  (let s := run_acts ex_tie_leaving_acts in
   events_of s = [7; 8]%Z /\ map bactive (blocks s) = [false] /\ length (tasks s) = 2 /\
   map fstate_ (futs s) = [FResult 5; FResult 0; FResult 0] /\
   rq_items (ready s) = [] /\ errors s = [] /\
   (let s9 := run_acts (firstn 9 ex_tie_leaving_acts) in
    map bactive (blocks s9) = [false] /\ rq_items (ready s9) = [3] /\
    geth s9 3 = mkH (HStep 1 None) false)).
Proof.
  split; [exact ex_nested_outer_expires|]. split; [exact ex_tie_block_still_running|].
  exact ex_tie_block_leaving.
Qed.
Print Assumptions C16_examples.
