From Coq Require Import QArith.
From Asynkit Require Import Base.Prelude Sched.Model.
(* placeholder: the C16 theorems land in Sched/TimeoutProofs.v *)
Theorem C16_none_adds_nothing :
  forall t s, lib_call t (OTimeoutEnter None) s = (s, LDone (RVal (-1))).
Proof. reflexivity. Qed.
Print Assumptions C16_none_adds_nothing.
