(* C16 - task_timeout fires iff the block outlives its deadline, never after exit.
   Model-level content over Sched/Model.v / Sched/Corr.v.  Proofs: Sched/TimeoutProofs.v
   (+ Sched/FrameFacts.v for "a block never becomes active again").

   Vocabulary (Model.v):
     OTimeoutEnter d / OTimeoutExit b r   __aenter__ / __aexit__ of `async with task_timeout(d)`;
                        r is how the body ended; blocks s = the table of timeout blocks
                        (btask: the task inside, bactive: is_active, btimer: its call_later handle)
     ETimeoutInt b      the private TimeoutInterrupt instance (token) of block b
     interruptor fuel s b i   the interruptor task's 3-attempt loop from attempt i
     InIntr b i ph      the interruptor suspended in attempt i (resumed by the loop later)
     exit_reply b r     what leaves block b when its body ended with r
     exit_state s b     s with block b inactive and its timer handle cancelled *)
From Coq Require Import QArith.
From RecordUpdate Require Import RecordUpdate.
From Asynkit Require Import Base.Prelude Sched.Model Sched.PartitionProofs Sched.ThrowProofs
     Sched.FrameFacts Sched.Corr Sched.TimeoutProofs.
Import RecordSetNotations.
Open Scope nat_scope.

(* task_timeout(None) never interferes: entering changes nothing, and the denotation of the
   block is the body followed by the rest - no block, no timer, no exit call *)
Theorem C16_none :
  (forall t s, lib_call t (OTimeoutEnter None) s = (s, LDone (RVal (-1)))) /\
  (forall t body rest env cur k s,
     exec t (denote (STimeout None body rest) env cur k) s =
     exec t (denote body env cur
                    (fun env c0 => match c0 with CNormal => denote rest env cur k | _ => k env c0 end)) s).
Proof. split; [exact timeout_none_enter|exact timeout_none_denote]. Qed.
Print Assumptions C16_none.

(* leaving the block: is_active := False, the timer handle is cancelled, nothing else changes *)
Theorem C16_exit_deactivates :
  forall t b r s,
  let s' := cancel_handle (setb s b (mkBlk (btask (getb s b)) false (btimer (getb s b))))
                          (btimer (getb s b)) in
  let h := btimer (getb s b) in
  lib_call t (OTimeoutExit b r) s = (s', LDone (exit_reply b r)) /\
  bactive (getb s' b) = false /\
  btask (getb s' b) = btask (getb s b) /\ btimer (getb s' b) = btimer (getb s b) /\
  (forall b', b' <> b -> getb s' b' = getb s b') /\
  length (blocks s') = length (blocks s) /\
  (h < length (handles s) -> geth s' h = mkH (hcb (geth s h)) true) /\
  (forall h', h' <> h -> geth s' h' = geth s h') /\
  length (handles s') = length (handles s) /\
  ready s' = ready s /\ futs s' = futs s /\ tasks s' = tasks s /\ locks s' = locks s /\
  conds s' = conds s /\ events s' = events s /\ timers s' = timers s /\ now s' = now s /\
  current s' = current s /\ log s' = log s /\ errors s' = errors s.
Proof. intros t b r s. split; [reflexivity|]. exact (exit_state_facts s b). Qed.
Print Assumptions C16_exit_deactivates.

(* the level: a block converts exactly its own token into TimeoutError; tokens of other (outer)
   blocks, results and every other exception pass through unchanged *)
Theorem C16_level :
  forall b,
  exit_reply b (RExc (ETimeoutInt b)) = RExc ETimeout /\
  (forall b', b' <> b -> exit_reply b (RExc (ETimeoutInt b')) = RExc (ETimeoutInt b')) /\
  (forall v, exit_reply b (RVal v) = RVal v) /\
  (forall e, (forall b', e <> ETimeoutInt b') -> exit_reply b (RExc e) = RExc e).
Proof. exact exit_reply_level. Qed.
Print Assumptions C16_level.

(* no late interrupt.  (1) the interruptor throws block b's token only under `is_active`:
   attempt i of an inactive block does nothing and goes on, of an active one it is exactly
   task_interrupt(btask, token);  (2) an inactive block stays inactive over every sequence of
   environment actions and every user program (and inside steps);  (3) hence after the exit of
   b - whatever happens next - every run of b's interruptor, from its start or resumed from any
   of its suspensions, returns without touching the state;  (4) the cancelled timer handle is
   skipped by the loop *)
Theorem C16_no_late_interrupt :
  (forall fuel s b i, i < 3 ->
     interruptor (S fuel) s b i =
     if bactive (getb s b)
     then (let '(s1, r) := task_interrupt_start s (btask (getb s b)) (ETimeoutInt b) in
           match r with
           | LSusp y frs => (s1, LSusp y (frs ++ [InIntr b i 0]))
           | LDone (RExc (ERuntime k)) =>
               if Nat.eqb i 2 then (s1, LDone (RExc (ERuntime k)))
               else (s1, LSusp YNone [InSleep0; InIntr b i 1])
           | LDone (RExc e) => (s1, LDone (RExc e))
           | LDone (RVal _) => interruptor fuel s1 b (S i)
           end)
     else (s, LDone (RVal 0))) /\
  (forall fuel s b i, bactive (getb s b) = false -> interruptor fuel s b i = (s, LDone (RVal 0))) /\
  (forall s b acts, b < length (blocks s) -> bactive (getb s b) = false ->
     bactive (getb (fold_left do_action acts s) b) = false) /\
  (forall t c s s' o b, exec t c s = (s', o) -> b < length (blocks s) -> bactive (getb s b) = false ->
     bactive (getb s' b) = false) /\
  (forall t b r s acts, b < length (blocks s) ->
     let s1 := fst (lib_call t (OTimeoutExit b r) s) in
     let s2 := fold_left do_action acts s1 in
     bactive (getb s2 b) = false /\
     (forall fuel i, interruptor fuel s2 b i = (s2, LDone (RVal 0))) /\
     (forall t', lib_call t' (OInterruptor b) s2 = (s2, LDone (RVal 0))) /\
     (forall t' i ph v, frame_resume t' (InIntr b i ph) (RVal v) s2 = (s2, LDone (RVal 0)))) /\
  (forall s h r, rq_popleft (ready s) = Some (h, r) -> hcancelled (geth s h) = true ->
     run_one s = s <| ready := r |>).
Proof.
  split; [exact interruptor_throws_only_if_active|]. split; [exact interruptor_inactive|].
  split; [exact inactive_forever|]. split; [exact inactive_inside_step|].
  split; [exact no_late_interrupt|exact cancelled_handle_skipped].
Qed.
Print Assumptions C16_no_late_interrupt.

(* it fires (list ready queue): block b active, the interruptor's attempt i, and task_throw
   accepts the token for b's task (e.g. a Python task blocked on a pending future - last
   clause; see C15_throw_effect for what an accepted throw changes).  Then the interruptor has
   thrown ETimeoutInt b, moved the target's new handle to position 0 and is itself asleep; the
   very next handle the loop runs is the target's step carrying the token (delivered at its
   suspension point by C15_delivered; converted by the block's exit by C16_level) *)
Theorem C16_fires :
  (forall fuel s b i l s1 v,
     ready s = RList l -> bactive (getb s b) = true -> i < 3 ->
     let t := btask (getb s b) in
     let hn := length (handles s) in
     task_throw s t (ETimeoutInt b) = (s1, RVal v) ->
     exists l',
       ready s1 = RList (l' ++ [hn]) /\
       geth s1 hn = mkH (HStep t (Some (ETimeoutInt b))) false /\
       interruptor (S fuel) s b i =
         (s1 <| ready := RList (hn :: l') |>, LSusp YNone [InSleep0; InIntr b i 0]) /\
       run_one (s1 <| ready := RList (hn :: l') |>) =
         step_task t (Some (ETimeoutInt b)) (s1 <| ready := RList l' |>)) /\
  (forall s t e f,
     tdone s t = false -> tkind_ (gett s t) = KPy -> twaiter (gett s t) = Some f -> fdone s f = false ->
     task_throw s t e = (throw_go (remove_done_callback s f (CbWakeup t)) t e, RVal 0)).
Proof. split; [exact interruptor_fires|exact throw_accepts_blocked]. Qed.
Print Assumptions C16_fires.

(* concrete runs (scripts of Sched/Corr.v, SPy tasks, virtual clock):
   - nested timeouts 1 tick around 5 ticks around sleep(10): the inner level sees the outer
     token (903) unchanged, TimeoutError (904) appears at the outer level only, both blocks end
     inactive with cancelled timers, the sleep future is not cancelled;
   - sleep(1) under task_timeout(1), timers tie: the block is still running at its deadline and
     is interrupted (904);
   - the deadline passes just as the task leaves the block (trigger fired, interruptor spawned,
     task runs first): the block completes normally (7, 8), the interruptor ends quietly *)
Theorem C16_examples :
  (let s := run_acts ex_nested_acts in
   events_of s = [903; 904; 4]%Z /\ map bactive (blocks s) = [false; false] /\
   hcancelled (geth s (btimer (getb s 0))) = true /\ hcancelled (geth s (btimer (getb s 1))) = true /\
   fstate_ (getf s (tfut (gett s 0))) = FResult 0 /\ fstate_ (getf s 1) = FPending /\
   rq_items (ready s) = [] /\ errors s = []) /\
  (let s := run_acts [XSpawn SPy ex_tie_running; XBegin; XStep; XAdvance 1%Q; XBegin;
                      XStep; XStep; XStep; XStep; XStep; XStep] in
   events_of s = [904; 8]%Z /\ map bactive (blocks s) = [false] /\
   rq_items (ready s) = [] /\ errors s = []) /\
  (let s := run_acts ex_tie_leaving_acts in
   events_of s = [7; 8]%Z /\ map bactive (blocks s) = [false] /\ length (tasks s) = 2 /\
   map fstate_ (futs s) = [FResult 5; FResult 0; FResult 0] /\
   rq_items (ready s) = [] /\ errors s = [] /\
   (let s9 := run_acts (firstn 9 ex_tie_leaving_acts) in
    map bactive (blocks s9) = [false] /\ rq_items (ready s9) = [3] /\
    geth s9 3 = mkH (HStep 1 None) false)).
Proof.
  split; [exact ex_nested_outer_expires|]. split; [exact ex_tie_block_still_running|].
  exact ex_tie_block_leaving.
Qed.
Print Assumptions C16_examples.

(* ====================================================================================
   Composition (Sched/TimeoutCompose.v): the interruptor fires, the NEXT handle run is the target's
   step, the token is delivered at its suspension point, an un-caught token reaches the exit of
   its block which raises TimeoutError and deactivates the block - all in that one handle run.

   Additional vocabulary:
     texit b rest cur k     the continuation denote gives the body of `async with task_timeout(d)`
                            (block b): call __aexit__ (OTimeoutExit b <how the body ended>), then
                            continue with texit_k: what leaves the block goes to k
     enter_state s t d      s after __aenter__: timer scheduled, new active block for task t
     sdo_k rest env cur k   continuation of a plain awaited call: an exception goes to k
     stry_k ...             continuation denote gives the body of a try/except/finally
     running_state s t      the state in which t's code runs (C15) *)
From Asynkit Require Import Sched.TimeoutCompose.

(* the level, seen from the running code (any continuation k, any state): entering creates an
   active block for the calling task and runs the body with [texit b]; the block's own token
   leaves as TimeoutError; any other block's token and every other exception leave unchanged;
   the block is inactive afterwards in each case (C16_exit_deactivates) *)
Theorem C16_level_exec :
  (forall t d body rest env cur k s,
     exec t (denote (STimeout (Some d) body rest) env cur k) s =
     exec t (denote body env cur (texit (length (blocks s)) rest cur k)) (enter_state s t d)) /\
  (forall s t d, let b := length (blocks s) in let s' := enter_state s t d in
     bactive (getb s' b) = true /\ btask (getb s' b) = t /\ length (blocks s') = S b) /\
  (forall t b rest cur k env s,
     exec t (texit b rest cur k env (CExc (ETimeoutInt b))) s =
     exec t (k env (CExc ETimeout)) (exit_state s b)) /\
  (forall t b b' rest cur k env s, b' <> b ->
     exec t (texit b rest cur k env (CExc (ETimeoutInt b'))) s =
     exec t (k env (CExc (ETimeoutInt b'))) (exit_state s b)) /\
  (forall t b e rest cur k env s, (forall b', e <> ETimeoutInt b') ->
     exec t (texit b rest cur k env (CExc e)) s = exec t (k env (CExc e)) (exit_state s b)) /\
  (forall t b rest cur k env s,
     exec t (texit b rest cur k env CNormal) s = exec t (denote rest env cur k) (exit_state s b)).
Proof.
  split; [exact denote_timeout_some|]. split; [exact enter_state_block|]. split; [exact texit_own|].
  split; [exact texit_other|]. split; [exact texit_exc|exact texit_normal].
Qed.
Print Assumptions C16_level_exec.

(* nested blocks: the OUTER block's token raised inside the INNER block passes the inner exit
   unchanged - the inner block is deactivated on the way out, the outer one untouched by it -
   and becomes TimeoutError at the outer exit; both blocks inactive afterwards.  The INNER
   block's own token becomes TimeoutError at the inner level and passes the outer exit as an
   ordinary exception *)
Theorem C16_nested :
  (forall t bi bo resti resto cur k env s, bi <> bo ->
     let s' := exit_state (exit_state s bi) bo in
     exec t (texit bi resti cur (texit bo resto cur k) env (CExc (ETimeoutInt bo))) s =
     exec t (k env (CExc ETimeout)) s' /\
     bactive (getb s' bi) = false /\ bactive (getb s' bo) = false /\
     bactive (getb (exit_state s bi) bi) = false /\
     getb (exit_state s bi) bo = getb s bo) /\
  (forall t bi bo resti resto cur k env s,
     exec t (texit bi resti cur (texit bo resto cur k) env (CExc (ETimeoutInt bi))) s =
     exec t (k env (CExc ETimeout)) (exit_state (exit_state s bi) bo)).
Proof. split; [exact texit_nested_outer_token|exact texit_nested_inner_token]. Qed.
Print Assumptions C16_nested.

(* C16_fires_and_raises (list ready queue).  Block b is active when its interruptor's attempt i
   runs, task_throw accepts the token for the block's task t, no cancel() is pending on t, t is
   suspended with library frames frs and user continuation k, where
     - the frames let the exception through, transforming the state by fr
       (e.g. inside asyncio.sleep: frames [InFut f; InSleepTimer h], fr = cancel the timer),
     - the body does not swallow the token: resumed with it, k reaches the exit call of block b
       with the token (state transformed by bd: inner exits, handlers that log and re-raise ...).
   Then: (i) the interruptor has thrown, moved the target to position 0 and sleeps; the next
   handle run is t's step; (ii) t is resumed with the token itself; (iii) the exit of b raises
   TimeoutError and deactivates b; the whole of it IS that one run_one: no other task runs
   between the interruptor's attempt and TimeoutError leaving block b *)
Theorem C16_fires_and_raises :
  forall fuel s b i l s1 v frs k kx (fr bd : st -> st),
  ready s = RList l -> bactive (getb s b) = true -> i < 3 ->
  let t := btask (getb s b) in
  let tok := ETimeoutInt b in
  let hn := length (handles s) in
  task_throw s t tok = (s1, RVal v) ->
  tmustc (gett s t) = false -> tcont_ (gett s t) = TSusp frs k ->
  (forall s0, resume_stack t frs (RExc tok) s0 = (fr s0, LDone (RExc tok))) ->
  (forall s0, exec t (k (RExc tok)) s0 = exec t (Call (OTimeoutExit b (RExc tok)) kx) (bd s0)) ->
  exists l',
    let sI := s1 <| ready := RList (hn :: l') |> in
    let s3 := s1 <| ready := RList l' |> in
    let s5 := bd (fr (running_state s3 t)) in
    interruptor (S fuel) s b i = (sI, LSusp YNone [InSleep0; InIntr b i 0]) /\
    run_one sI = step_task t (Some tok) s3 /\
    delivered_exn s3 t tok = tok /\
    lib_call t (OTimeoutExit b (RExc tok)) s5 = (exit_state s5 b, LDone (RExc ETimeout)) /\
    bactive (getb (exit_state s5 b) b) = false /\
    run_one sI = (let '(s6, o) := exec t (kx (RExc ETimeout)) (exit_state s5 b) in
                  finish_step t s6 o <| current := None |>).
Proof. exact fires_and_raises. Qed.
Print Assumptions C16_fires_and_raises.

(* the same for ANY state whose next handle is the target's step carrying the token - in
   particular the state after the interruptor task's own step has ended: Task.__step of the
   interruptor appends its handle behind, keeps the head, the target's entry and the blocks *)
Theorem C16_token_step_raises :
  (forall s2 b t hn rest frs k kx (fr bd : st -> st),
     let tok := ETimeoutInt b in
     ready s2 = RList (hn :: rest) -> geth s2 hn = mkH (HStep t (Some tok)) false ->
     tdone s2 t = false -> tmustc (gett s2 t) = false -> tcont_ (gett s2 t) = TSusp frs k ->
     (forall s0, resume_stack t frs (RExc tok) s0 = (fr s0, LDone (RExc tok))) ->
     (forall s0, exec t (k (RExc tok)) s0 = exec t (Call (OTimeoutExit b (RExc tok)) kx) (bd s0)) ->
     let s3 := s2 <| ready := RList rest |> in
     let s5 := bd (fr (running_state s3 t)) in
     run_one s2 = step_task t (Some tok) s3 /\
     delivered_exn s3 t tok = tok /\
     lib_call t (OTimeoutExit b (RExc tok)) s5 = (exit_state s5 b, LDone (RExc ETimeout)) /\
     bactive (getb (exit_state s5 b) b) = false /\
     run_one s2 = (let '(s6, o) := exec t (kx (RExc ETimeout)) (exit_state s5 b) in
                   finish_step t s6 o <| current := None |>)) /\
  (forall sI ti t hn l' frsI kI,
     ready sI = RList (hn :: l') -> hn < length (handles sI) -> ti <> t ->
     let sF := finish_step ti sI (OYield YNone frsI kI) <| current := None |> in
     ready sF = RList (hn :: l' ++ [length (handles sI)]) /\ geth sF hn = geth sI hn /\
     geth sF (length (handles sI)) = mkH (HStep ti None) false /\
     gett sF t = gett sI t /\ tdone sF t = tdone sI t /\ blocks sF = blocks sI /\ futs sF = futs sI).
Proof. split; [exact token_step_raises|exact interruptor_yield_keeps_head]. Qed.
Print Assumptions C16_token_step_raises.

(* the typical shape: the task sleeps (or awaits anything by a plain call) directly inside the
   block: frames of asyncio.sleep, continuation sdo_k ... (texit b ...).  What the code after the
   block (k0) sees in the next handle run is TimeoutError, with block b inactive and the sleep's
   timer cancelled *)
Theorem C16_fires_and_raises_sleep :
  forall fuel s b i l s1 v f h rest' rest env cur k0,
  ready s = RList l -> bactive (getb s b) = true -> i < 3 ->
  let t := btask (getb s b) in
  let tok := ETimeoutInt b in
  let hn := length (handles s) in
  task_throw s t tok = (s1, RVal v) -> tmustc (gett s t) = false ->
  tcont_ (gett s t) = TSusp [InFut f; InSleepTimer h] (sdo_k rest' env cur (texit b rest cur k0)) ->
  exists l',
    let sI := s1 <| ready := RList (hn :: l') |> in
    let s3 := s1 <| ready := RList l' |> in
    let s5 := exit_state (cancel_handle (running_state s3 t) h) b in
    interruptor (S fuel) s b i = (sI, LSusp YNone [InSleep0; InIntr b i 0]) /\
    bactive (getb s5 b) = false /\
    run_one sI = (let '(s6, o) := exec t (k0 env (CExc ETimeout)) s5 in
                  finish_step t s6 o <| current := None |>).
Proof. exact fires_and_raises_sleep. Qed.
Print Assumptions C16_fires_and_raises_sleep.

(* non-vacuity of C16_fires_and_raises on the nested example (task_timeout(1) around
   task_timeout(5) around sleep(10), every level logging what leaves its block), in the state
   ex_sr inside the first step of the OUTER block's interruptor: all hypotheses hold (the token
   passes the inner exit - block 1 deactivated -, is logged 903 by the inner handler which
   re-raises it, and reaches the exit call of block 0), hence the conclusion *)
Theorem C16_fires_and_raises_example :
  (ready ex_sr = RList [] /\ bactive (getb ex_sr 0) = true /\ btask (getb ex_sr 0) = 0 /\
   snd (task_throw ex_sr 0 (ETimeoutInt 0)) = RVal 0 /\ tmustc (gett ex_sr 0) = false /\
   tcont_ (gett ex_sr 0) = TSusp [InFut 1; InSleepTimer 3] ex_k /\
   (forall s0, resume_stack 0 [InFut 1; InSleepTimer 3] (RExc (ETimeoutInt 0)) s0 =
               (cancel_handle s0 3, LDone (RExc (ETimeoutInt 0)))) /\
   (forall s0, exec 0 (ex_k (RExc (ETimeoutInt 0))) s0 =
               exec 0 (Call (OTimeoutExit 0 (RExc (ETimeoutInt 0))) ex_kx) (addlog (exit_state s0 1) 903))) /\
  (exists s1 l',
    let sI := s1 <| ready := RList (5 :: l') |> in
    let s3 := s1 <| ready := RList l' |> in
    let s5 := addlog (exit_state (cancel_handle (running_state s3 0) 3) 1) 903 in
    task_throw ex_sr 0 (ETimeoutInt 0) = (s1, RVal 0) /\
    interruptor 4 ex_sr 0 0 = (sI, LSusp YNone [InSleep0; InIntr 0 0 0]) /\
    bactive (getb (exit_state s5 0) 0) = false /\ bactive (getb (exit_state s5 0) 1) = false /\
    run_one sI = (let '(s6, o) := exec 0 (ex_kx (RExc ETimeout)) (exit_state s5 0) in
                  finish_step 0 s6 o <| current := None |>)).
Proof. split; [exact fires_and_raises_hyps|exact fires_and_raises_ex]. Qed.
Print Assumptions C16_fires_and_raises_example.

(* C16_example_whole_run: the complete run of that program through do_action (virtual clock):
   spawn; begin; step (enter both blocks, sleep(10)); clock +1; begin (the outer timer is due);
   step (trigger: spawns the interruptor); step (interruptor: throw + switch, asleep); step (task
   0: token delivered, 903 at the inner level, TimeoutError 904 at the outer level, 4 after the
   blocks, result 0); step (the interruptor resumes, block inactive, ends) *)
Theorem C16_example_whole_run :
  let st_after n := run_acts (firstn n ex_nested_acts) in
  (rq_items (ready (st_after 3)) = [] /\ map bactive (blocks (st_after 3)) = [true; true] /\
   twaiter (gett (st_after 3) 0) = Some 1) /\
  (rq_items (ready (st_after 5)) = [1] /\ hcb (geth (st_after 5) 1) = HTrigger 0) /\
  (rq_items (ready (st_after 6)) = [4] /\ hcb (geth (st_after 6) 4) = HStep 1 None) /\
  (rq_items (ready (st_after 7)) = [5; 6] /\
   geth (st_after 7) 5 = mkH (HStep 0 (Some (ETimeoutInt 0))) false /\
   geth (st_after 7) 6 = mkH (HStep 1 None) false /\
   events_of (st_after 7) = [] /\ map bactive (blocks (st_after 7)) = [true; true] /\
   fstate_ (getf (st_after 7) 1) = FPending /\ fcbs (getf (st_after 7) 1) = []) /\
  (events_of (st_after 8) = [903; 904; 4]%Z /\ map bactive (blocks (st_after 8)) = [false; false] /\
   fstate_ (getf (st_after 8) (tfut (gett (st_after 8) 0))) = FResult 0 /\
   map (fun h => hcancelled (geth (st_after 8) h)) [1; 2; 3] = [true; true; true] /\
   rq_items (ready (st_after 8)) = [6]) /\
  (rq_items (ready (st_after 9)) = [] /\ events_of (st_after 9) = [903; 904; 4]%Z /\
   map fstate_ (futs (st_after 9)) = [FResult 0; FPending; FResult 0] /\
   errors (st_after 9) = []) /\
  st_after 8 = run_one (st_after 7).
Proof. exact whole_run. Qed.
Print Assumptions C16_example_whole_run.

(* the composition for EVERY ready queue in which position 0 is the head of the run order (QNext:
   the list queue and the priority loop's PosPriorityQueue with boosting off - Props/C15.v,
   C15_interrupt_queues), under the partition invariant InvC: the interruptor's attempt leaves the
   target's handle hn = HStep t (Some token) at the head (popleft returns it), and the run_one that
   pops it resumes the target with the token, which the exit of b turns into TimeoutError *)
From Asynkit Require Import Sched.PartTables Sched.InterruptNext.
Theorem C16_fires_and_raises_any_queue :
  forall qok, QSpec qok -> QNext qok -> forall c fuel s b i s1 v frs k kx (fr bd : st -> st),
  InvC qok c s -> bactive (getb s b) = true -> i < 3 ->
  let t := btask (getb s b) in
  let tok := ETimeoutInt b in
  let hn := length (handles s) in
  task_throw s t tok = (s1, RVal v) ->
  tmustc (gett s t) = false -> tcont_ (gett s t) = TSusp frs k ->
  (forall s0, resume_stack t frs (RExc tok) s0 = (fr s0, LDone (RExc tok))) ->
  (forall s0, exec t (k (RExc tok)) s0 = exec t (Call (OTimeoutExit b (RExc tok)) kx) (bd s0)) ->
  exists sI r'',
    let s3 := sI <| ready := r'' |> in
    let s5 := bd (fr (running_state s3 t)) in
    interruptor (S fuel) s b i = (sI, LSusp YNone [InSleep0; InIntr b i 0]) /\
    InvC qok c sI /\
    rq_popleft (ready sI) = Some (hn, r'') /\ geth sI hn = mkH (HStep t (Some tok)) false /\
    run_one sI = step_task t (Some tok) s3 /\
    delivered_exn s3 t tok = tok /\
    lib_call t (OTimeoutExit b (RExc tok)) s5 = (exit_state s5 b, LDone (RExc ETimeout)) /\
    bactive (getb (exit_state s5 b) b) = false /\
    run_one sI = (let '(s6, o) := exec t (kx (RExc ETimeout)) (exit_state s5 b) in
                  finish_step t s6 o <| current := None |>).
Proof. exact fires_and_raises_gen. Qed.
Print Assumptions C16_fires_and_raises_any_queue.

(* ====================================================================================
   The timing half (Sched/TimerInv.v, Sched/TimerDue.v, Sched/TimerExamples.v): "fires iff the
   block outlives its deadline" as theorems about the loop's timer mechanism (timers = the heapq
   of (when, handle) of BaseEventLoop._scheduled; ABegin = the timer pass of _run_once; AAdvance =
   the virtual clock).  All for EVERY user program and every ready queue with QSpec (list loop,
   priority loop with or without boosting - Props/C09.v).

   Additional vocabulary:
     Inv qok b h w s     the state invariant of block b with trigger handle h and deadline w:
                         h carries HTrigger b - the only handle that does - and is block b's timer
                         (no other block's); h is not handle 0; h is cancelled iff b is
                         inactive; while b is active (w, h) is in the timer heap; no other heap
                         entry has handle h; h is not in the ready queue; no library frame of any
                         task refers to h; the heap is a heap with distinct existing handles
     EnterWf qok s       well-formedness of the state in which the block is entered (part of C09's
                         invariant, InvC_EnterWf, plus: handle ids in the heap distinct, heap order,
                         trigger callbacks only for existing blocks, at least one handle exists -
                         i.e. some task was created before)
     early w n acts      every ABegin of acts happens at a clock value < w, the clock starting at n
     app_due s r e       the ready queue r with the due timer e appended (loop.call_soon order)
     dl_le               deadline order on heap entries *)
From Coq Require Import Sorting.Permutation Sorting.Sorted.
From Asynkit Require Import Queue.Heap Sched.PartitionFinal Sched.TimerInv Sched.TimerDue Sched.TimerExamples.

(* C16_timer_armed.  (1) entering with delay d at time now s: the reply is the new block id b, the
   block is active for the calling task with timer handle h = the new handle, which carries
   HTrigger b un-cancelled; the heap gains exactly the entry (now s + d, h) and no older entry has
   handle h; the invariant holds.  (2) the invariant is kept by EVERY action list (every program,
   every interleaving) whose iteration starts all happen before the deadline - so at every such
   state: h is cancelled iff b was left, and while b is active the heap is l1 ++ (w, h) :: l2 with
   no other entry for h (exactly one, un-cancelled), and h is not ready.  (3) the exit of b
   (C16_exit_deactivates) keeps the invariant with b inactive and h cancelled; the entry stays in the
   heap until an iteration start drops it (begin_iteration_spec: cancelled heads are dropped) *)
Theorem C16_timer_armed :
  (forall qok t d s, EnterWf qok s ->
     let b := length (blocks s) in let h := length (handles s) in let w := (now s + d)%Q in
     let s' := enter_st s t d in
     lib_call t (OTimeoutEnter (Some d)) s = (s', LDone (RVal (Z.of_nat b))) /\
     getb s' b = mkBlk t true h /\ geth s' h = mkH (HTrigger b) false /\
     Permutation (timers s') ((w, h) :: timers s) /\
     (forall e, In e (timers s) -> snd e <> h) /\
     Inv qok b h w s') /\
  (forall qok, QSpec qok -> forall b h w acts s,
     Inv qok b h w s -> early w (now s) acts ->
     let s' := fold_left do_action acts s in
     Inv qok b h w s' /\
     hcb (geth s' h) = HTrigger b /\ btimer (getb s' b) = h /\
     hcancelled (geth s' h) = negb (bactive (getb s' b)) /\
     ~ In h (rq_items (ready s')) /\
     (bactive (getb s' b) = true ->
        hcancelled (geth s' h) = false /\
        exists l1 l2, timers s' = l1 ++ (w, h) :: l2 /\ forall e, In e (l1 ++ l2) -> snd e <> h)) /\
  (forall qok, QSpec qok -> forall b h w t r s,
     Inv qok b h w s ->
     let s' := fst (lib_call t (OTimeoutExit b r) s) in
     Inv qok b h w s' /\ bactive (getb s' b) = false /\ hcancelled (geth s' h) = true /\
     timers s' = timers s) /\
  (forall qok c s, InvC qok c s -> 0 < length (handles s) ->
     (forall x b', x < length (handles s) -> hcb (geth s x) = HTrigger b' -> b' < length (blocks s)) ->
     NoDup (map snd (timers s)) -> is_heap timer_lt (timers s) -> EnterWf qok s).
Proof.
  split; [exact enter_arms|]. split; [|split; [|exact InvC_EnterWf]].
  - intros qok QS b h w acts s I He s'.
    pose proof (armed_actions qok QS b h w acts s I He) as I'. fold s' in I'.
    split; [exact I'|]. split; [apply (v_cb _ _ _ _ _ I')|]. split; [apply (v_bt _ _ _ _ _ I')|].
    split; [apply (v_c _ _ _ _ _ I')|]. split; [apply (v_nr _ _ _ _ _ I')|].
    intros A. apply (armed_exactly_one _ _ _ _ _ I' A).
  - intros qok QS b h w t r s I s'.
    assert (I' : Inv qok b h w s').
    { unfold s'. destruct (lib_call t (OTimeoutExit b r) s) as [s1 r1] eqn:E. cbn [fst].
      eapply K_inv. eapply (K_lib_call qok QS); [exact E|apply K_refl; exact I]. }
    assert (A : bactive (getb s' b) = false).
    { unfold s'. rewrite timeout_exit_eq. cbn [fst]. apply exit_state_facts. }
    split; [exact I'|]. split; [exact A|]. split; [rewrite (v_c _ _ _ _ _ I'), A; reflexivity|].
    unfold s'. rewrite timeout_exit_eq. reflexivity.
Qed.
Print Assumptions C16_timer_armed.

(* C16_not_before_deadline (the "only if" direction, at the level of the trigger).  As long as every
   iteration start of the run happens before the deadline, in every state reached (prefixes of an
   early action list are early): the trigger handle of the block is not in the ready queue, the
   handle the loop would run next is never the trigger and does not carry the callback HTrigger b
   (h is the only handle that does), and the trigger's timer entry is still in the heap while the
   block is active - so run_callback (HTrigger b), the only place where the interruptor task of b
   (the only library code that throws b's token, C16_no_late_interrupt (1)) is created, is never
   executed by the loop before the deadline *)
Theorem C16_not_before_deadline :
  forall qok, QSpec qok -> forall b h w acts s,
  Inv qok b h w s -> early w (now s) acts ->
  (forall acts1 acts2, acts = acts1 ++ acts2 -> early w (now s) acts1) /\
  let s' := fold_left do_action acts s in
  ~ In h (rq_items (ready s')) /\
  (forall x r, rq_popleft (ready s') = Some (x, r) -> x <> h /\ hcb (geth s' x) <> HTrigger b) /\
  (forall x, x < length (handles s') -> hcb (geth s' x) = HTrigger b -> x = h) /\
  (bactive (getb s' b) = true -> In (w, h) (timers s') /\ hcancelled (geth s' h) = false).
Proof.
  intros qok QS b h w acts s I He. split.
  - intros acts1 acts2 ->. clear I. revert He. generalize (now s). induction acts1 as [|a l IH]; intros n He.
    + exact Logic.I.
    + destruct a; cbn [early app] in *; try (apply IH; exact He). split; [apply He|apply IH; apply He].
  - pose proof (armed_actions qok QS b h w acts s I He) as I'. cbv zeta.
    split; [apply (v_nr _ _ _ _ _ I')|].
    split; [intros x r P; split; [eapply popped_not_trigger; eauto|eapply popped_not_trigger_cb; eauto]|].
    split; [apply (v_uq _ _ _ _ _ I')|].
    intros A. split; [apply (v_in _ _ _ _ _ I' A)|]. rewrite (v_c _ _ _ _ _ I'), A. reflexivity.
Qed.
Print Assumptions C16_not_before_deadline.

(* C16_due_timer_moves (the "if" direction, first half).  (1) what the start of an iteration does
   (any state whose timer list is a heap): cancelled heads are dropped; then ALL due timers (when <=
   now), cancelled or not, are appended to the ready queue in heap-pop order = non-decreasing
   deadline (ties: heapq array order - TimerHandle.__lt__ compares `when` only; on the list loop:
   ready = old ++ moved handles); what stays in the heap is strictly later than now.  (2) at an
   iteration start with now >= deadline and the block still active, the trigger handle IS among
   the moved ones: after those with earlier-or-equal deadline m1, before those with
   later-or-equal deadline m2; no entry for h remains anywhere else.  (3) when the loop reaches
   it (un-cancelled), run_one creates the interruptor task tn = a new C task whose body is
   interruptor_body b, not done, with its first step HStep tn None appended to the ready queue *)
Theorem C16_due_timer_moves :
  (forall s, is_heap timer_lt (timers s) ->
     exists dropped moved tm',
       begin_iteration s = s <| timers := tm' |> <| ready := fold_left (app_due s) moved (ready s) |> /\
       Permutation (timers s) (dropped ++ moved ++ tm') /\
       (forall e, In e dropped -> hcancelled (geth s (snd e)) = true) /\
       (forall e, In e moved -> (fst e <= now s)%Q) /\
       (forall e, In e tm' -> (now s < fst e)%Q) /\
       StronglySorted dl_le moved /\ is_heap timer_lt tm') /\
  (forall s moved l, fold_left (app_due s) moved (RList l) = RList (l ++ map snd moved)) /\
  (forall qok, QSpec qok -> forall b h w s,
     Inv qok b h w s -> bactive (getb s b) = true -> (w <= now s)%Q ->
     exists dropped m1 m2 tm',
       let moved := m1 ++ (w, h) :: m2 in
       begin_iteration s = s <| timers := tm' |> <| ready := fold_left (app_due s) moved (ready s) |> /\
       Permutation (timers s) (dropped ++ moved ++ tm') /\
       (forall e, In e dropped -> hcancelled (geth s (snd e)) = true) /\
       (forall e, In e m1 -> (fst e <= w)%Q) /\
       (forall e, In e m2 -> (w <= fst e)%Q /\ (fst e <= now s)%Q) /\
       (forall e, In e tm' -> (now s < fst e)%Q) /\
       (forall e, In e (dropped ++ m1 ++ m2 ++ tm') -> snd e <> h) /\
       In h (rq_items (ready (begin_iteration s))) /\
       (forall l, ready s = RList l ->
          ready (begin_iteration s) = RList (l ++ map snd m1 ++ h :: map snd m2))) /\
  (forall s b h r,
     rq_popleft (ready s) = Some (h, r) -> geth s h = mkH (HTrigger b) false ->
     let tn := length (tasks s) in let hs := length (handles s) in let s' := run_one s in
     s' = fst (new_task (s <| ready := r |>) KC None (interruptor_body b)) /\
     length (tasks s') = S tn /\
     gett s' tn = mkTask KC None (length (futs s)) (TNew (interruptor_body b)) None false [] None /\
     tdone s' tn = false /\ geth s' hs = mkH (HStep tn None) false /\
     (exists p, ready s' = rq_append r hs p) /\
     blocks s' = blocks s /\ timers s' = timers s /\ now s' = now s /\
     (forall t, t < tn -> gett s' t = gett s t) /\ (forall x, x < hs -> geth s' x = geth s x)).
Proof.
  split; [exact begin_iteration_spec|]. split; [exact fold_app_due_list|].
  split; [exact due_timer_moves|exact trigger_runs].
Qed.
Print Assumptions C16_due_timer_moves.

(* C16_fires_in_first_iteration (list loop; composition with C16_fires / C16_fires_and_raises).
   (1) the interruptor task's first step IS attempt 0 of its loop, run in the state in which it is
   the current task.  (2) if block b is still active then and task_throw accepts the token for the
   block's task t (the hypotheses of C16_fires: e.g. a Python task blocked on a pending future,
   C16_fires second clause), that step throws ETimeoutInt b, ends with the target's new handle hn
   at the HEAD of the ready queue and the interruptor queued last, and the next handle run is
   step_task t (Some token) - whose outcome is C16_token_step_raises / C16_fires_and_raises: the
   token reaches the exit of b, TimeoutError leaves the block.  (3) the tie the oracle tolerates:
   if the exit of b ran first - at any earlier point, in particular earlier in the same iteration -
   then whatever happened in between, a cancelled trigger at the head is popped and skipped, and
   every run of b's interruptor (spawned before or after) returns with the state unchanged *)
Theorem C16_fires_in_first_iteration :
  (forall s hs r tn b,
     rq_popleft (ready s) = Some (hs, r) -> geth s hs = mkH (HStep tn None) false ->
     tdone s tn = false -> tcont_ (gett s tn) = TNew (interruptor_body b) -> tmustc (gett s tn) = false ->
     let s1 := running_state (s <| ready := r |>) tn in
     run_one s =
     (let '(s2, r2) := interruptor 4 s1 b 0 in
      let '(s3, r3) := interruptor_wrap s2 r2 in
      finish_step tn s3 (match r3 with LDone rep => ODone rep | LSusp y frs => OYield y frs kI end)
        <| current := None |>)) /\
  (forall s hs l tn b s1' v,
     ready s = RList (hs :: l) -> geth s hs = mkH (HStep tn None) false ->
     tdone s tn = false -> tcont_ (gett s tn) = TNew (interruptor_body b) -> tmustc (gett s tn) = false ->
     bactive (getb s b) = true ->
     let t := btask (getb s b) in
     let tok := ETimeoutInt b in
     let hn := length (handles s) in
     let s1 := running_state (s <| ready := RList l |>) tn in
     tn <> t -> task_throw s1 t tok = (s1', RVal v) ->
     exists l',
       let sI := s1' <| ready := RList (hn :: l') |> in
       let sF := run_one s in
       interruptor 4 s1 b 0 = (sI, LSusp YNone [InSleep0; InIntr b 0 0]) /\
       sF = finish_step tn sI (OYield YNone [InSleep0; InIntr b 0 0] kI) <| current := None |> /\
       ready sF = RList (hn :: l' ++ [length (handles sI)]) /\
       geth sF hn = mkH (HStep t (Some tok)) false /\
       gett sF t = gett sI t /\ blocks sF = blocks sI /\
       run_one sF = step_task t (Some tok) (sF <| ready := RList (l' ++ [length (handles sI)]) |>)) /\
  (forall t b r s acts, b < length (blocks s) ->
     let s2 := fold_left do_action acts (fst (lib_call t (OTimeoutExit b r) s)) in
     bactive (getb s2 b) = false /\
     (forall x r', rq_popleft (ready s2) = Some (x, r') -> hcancelled (geth s2 x) = true ->
                   run_one s2 = s2 <| ready := r' |>) /\
     (forall fuel i, interruptor fuel s2 b i = (s2, LDone (RVal 0))) /\
     (forall t', lib_call t' (OInterruptor b) s2 = (s2, LDone (RVal 0)))).
Proof.
  split; [exact interruptor_first_step|]. split; [exact fires_first_step|].
  intros t b r s acts Hb s2.
  destruct (no_late_interrupt t b r s acts Hb) as (A & B & C & _).
  split; [exact A|]. split; [intros x r' P Hc; apply (cancelled_handle_skipped s2 x r' P Hc)|].
  split; [exact B|exact C].
Qed.
Print Assumptions C16_fires_in_first_iteration.

(* complete runs (list loop, SPy task; the task sleeps 1, then enters task_timeout(2) at time 1 -
   deadline 3 - around sleep(X)): X = 5/2: nothing at clock 2, at clock 3 the trigger is moved, runs,
   the interruptor throws, TimeoutError (904) leaves the block in that iteration;  X = 3/2: the
   body ends at 2.5, the block is left normally (7, 8), the cancelled entry is dropped at clock 3,
   no interruptor is ever created;  X = 2 (exact tie): the trigger (older timer) is moved before
   the sleep's callback and the block is interrupted.  Last: the hypotheses EnterWf / Inv / early
   are satisfiable (a block entered from outside the loop after a spawn) *)
Theorem C16_deadline_examples :
  (let st_after n := run_acts (firstn n ex_dl_long) in
   (now (st_after 7) == 1 /\ blocks (st_after 7) = [mkBlk 0 true 3] /\
    geth (st_after 7) 3 = mkH (HTrigger 0) false /\
    filter (fun e => Nat.eqb (snd e) 3) (timers (st_after 7)) = [((1 + 2)%Q, 3)] /\
    rq_items (ready (st_after 7)) = []) /\
   (now (st_after 9) == 2 /\ rq_items (ready (st_after 9)) = [] /\
    map bactive (blocks (st_after 9)) = [true] /\ hcancelled (geth (st_after 9) 3) = false /\
    filter (fun e => Nat.eqb (snd e) 3) (timers (st_after 9)) = [((1 + 2)%Q, 3)] /\
    events_of (st_after 9) = [] /\ length (tasks (st_after 9)) = 1) /\
   (now (st_after 11) == 3 /\ rq_items (ready (st_after 11)) = [3] /\
    filter (fun e => Nat.eqb (snd e) 3) (timers (st_after 11)) = [] /\
    map bactive (blocks (st_after 11)) = [true]) /\
   (length (tasks (st_after 12)) = 2 /\ tcont_ (gett (st_after 12) 1) = TNew (interruptor_body 0) /\
    rq_items (ready (st_after 12)) = [5] /\ geth (st_after 12) 5 = mkH (HStep 1 None) false) /\
   (rq_items (ready (st_after 13)) = [6; 7] /\
    geth (st_after 13) 6 = mkH (HStep 0 (Some (ETimeoutInt 0))) false /\
    geth (st_after 13) 7 = mkH (HStep 1 None) false /\ events_of (st_after 13) = []) /\
   (events_of (st_after 14) = [904; 8]%Z /\ map bactive (blocks (st_after 14)) = [false] /\
    hcancelled (geth (st_after 14) 3) = true /\ now (st_after 14) == 3) /\
   (rq_items (ready (st_after 15)) = [] /\ errors (st_after 15) = [] /\
    map fstate_ (futs (st_after 15)) = [FResult 0; FResult 0; FPending; FResult 0])) /\
  (let st_after n := run_acts (firstn n ex_dl_short) in
   (now (st_after 9) == 2 /\ rq_items (ready (st_after 9)) = [] /\
    map bactive (blocks (st_after 9)) = [true] /\ hcancelled (geth (st_after 9) 3) = false) /\
   (now (st_after 13) == (5 # 2) /\ events_of (st_after 13) = [7; 8]%Z /\
    map bactive (blocks (st_after 13)) = [false] /\ hcancelled (geth (st_after 13) 3) = true /\
    filter (fun e => Nat.eqb (snd e) 3) (timers (st_after 13)) = [((1 + 2)%Q, 3)] /\
    rq_items (ready (st_after 13)) = []) /\
   (now (st_after 15) == 3 /\ timers (st_after 15) = [] /\ rq_items (ready (st_after 15)) = [] /\
    st_after 16 = st_after 15 /\ events_of (st_after 16) = [7; 8]%Z /\ length (tasks (st_after 16)) = 1 /\
    fstate_ (getf (st_after 16) 0) = FResult 0 /\ errors (st_after 16) = [])) /\
  (let st_after n := run_acts (firstn n ex_dl_tie) in
   (rq_items (ready (st_after 9)) = [3; 4] /\ hcb (geth (st_after 9) 3) = HTrigger 0 /\
    hcb (geth (st_after 9) 4) = HSetResult 2 0) /\
   events_of (st_after 14) = [904; 8]%Z /\ map bactive (blocks (st_after 14)) = [false] /\
   rq_items (ready (st_after 14)) = [] /\ errors (st_after 14) = []) /\
  (EnterWf qok_list ex_s0 /\
   let s1 := fst (lib_call 0 (OTimeoutEnter (Some 2%Q)) ex_s0) in
   Inv qok_list 0 1 (now ex_s0 + 2)%Q s1 /\
   (forall acts, early (now ex_s0 + 2)%Q (now s1) acts ->
      Inv qok_list 0 1 (now ex_s0 + 2)%Q (fold_left do_action acts s1)) /\
   early (now ex_s0 + 2)%Q (now s1)
         [ABegin; AStep; AAdvance 1%Q; ABegin; AStep; AStep; AAdvance (1 # 2); ABegin; AStep]).
Proof.
  split; [exact ex_deadline_fires|]. split; [exact ex_deadline_not_reached|].
  split; [exact ex_deadline_tie|]. split; [exact ex_enter_wf|exact ex_inv_holds].
Qed.
Print Assumptions C16_deadline_examples.

(* ---------------------------------------------------------------------------------------------
   Fourth round: no well-formedness hypothesis left on reachable states
   (Sched/TimerWf.v, Sched/TimerReach.v, Sched/TimerReachEx.v).

   Additional vocabulary:
     TWfN n s, TWf s = TWfN 0 s   the timer tables are well formed (spelled out in the first clause of
                         C16_enter_wf_reachable): at least n handles exist, every heap entry refers to
                         an existing handle, handle ids in the heap are pairwise distinct, the timer
                         list is a heap for TimerHandle.__lt__, a handle carries HTrigger b only for
                         an allocated block b
     at_calls P s0 acts  P sm holds for EVERY library call made in the run acts from s0, sm being the
                         state in which the call is made - calls made by user code in the middle of
                         a task step (any nesting of eager children, after any frame resumption) as
                         well as calls from outside the loop (ADo; those under the proviso that at
                         least one handle exists).  Defined by instrumenting the model clause by
                         clause (TimerReach.exec_pre / step_pre / run_one_pre / run_pre)
     at_enters R s0 acts R t d sm sf holds for EVERY task_timeout(d) entered in the run: by task t in
                         state sm (mid-step, or from outside the loop with t = 0 if a handle exists),
                         sf being the state at the END of the loop step (or external call) that
                         made the call - a state between actions, from which do_action lists start
     Inv09 qok s         C09's invariant between actions (Props/C09.v); actions_ok: the domain condition
                         of C09 (timeout exits refer to blocks entered before) *)
From Asynkit Require Import Sched.PartitionRun Sched.PrioQueueProofs Sched.PrioQueueBoost
     Sched.TimerWf Sched.TimerReach Sched.TimerReachEx.

(* C16_enter_wf_reachable.  (1) what TWfN says.  (2) it holds initially and (3) is preserved by
   everything, with no side condition at all.  (4) together with C09's invariant (any current
   task, i.e. also mid-step) and one existing handle it gives EnterWf.  (5) hence in every state
   reachable from a state with Inv09 and TWf under actions_ok: Inv09, TWf, and EnterWf as soon as
   a handle exists (handles are never removed: TWfN n is preserved for every n); (6) and EnterWf
   holds in the state of EVERY library call of such a run - in particular at every OTimeoutEnter,
   in the middle of a step.  (7) the initial states of the three loop models (list loop, priority
   loop without and with boosting) are such start states *)
Theorem C16_enter_wf_reachable :
  (forall n s, TWfN n s <->
     n <= length (handles s) /\
     (forall e, In e (timers s) -> snd e < length (handles s)) /\
     NoDup (map snd (timers s)) /\ is_heap timer_lt (timers s) /\
     (forall x b', x < length (handles s) -> hcb (geth s x) = HTrigger b' -> b' < length (blocks s))) /\
  (forall prio factor draws lks cds nev, TWf (init_st prio factor draws lks cds nev)) /\
  (forall n s, TWfN n s ->
     (forall t op, TWfN n (fst (lib_call t op s))) /\
     (forall t frs inp, TWfN n (fst (resume_stack t frs inp s))) /\
     (forall t c, TWfN n (fst (exec t c s))) /\
     (forall t exc, TWfN n (step_task t exc s)) /\
     TWfN n (run_one s) /\ TWfN n (begin_iteration s) /\
     (forall acts, TWfN n (fold_left do_action acts s))) /\
  (forall qok c s, InvC qok c s -> TWfN 1 s -> EnterWf qok s) /\
  (forall qok, QSpec qok -> forall s0 acts,
     Inv09 qok s0 -> TWf s0 -> actions_ok s0 acts ->
     let s := fold_left do_action acts s0 in
     Inv09 qok s /\ TWf s /\ (0 < length (handles s) -> EnterWf qok s)) /\
  (forall qok, QSpec qok -> forall s0 acts,
     Inv09 qok s0 -> TWf s0 -> actions_ok s0 acts -> at_calls (EnterWf qok) s0 acts) /\
  ((forall factor draws lks cds nev,
      let s0 := init_st false factor draws lks cds nev in Inv09 qok_list s0 /\ TWf s0) /\
   (forall draws lks cds nev,
      let s0 := init_st true 0 draws lks cds nev in Inv09 qok_pos s0 /\ TWf s0) /\
   (forall factor draws lks cds nev,
      let s0 := init_st true factor draws lks cds nev in Inv09 qok_boost s0 /\ TWf s0)).
Proof.
  split.
  { intros n s. split.
    - intros []. auto 6.
    - intros (a & b & c & d & e). constructor; auto. }
  split; [exact TW_init|]. split.
  { intros n s H.
    split; [intros t op; destruct (lib_call t op s) as [s1 r] eqn:E; eapply TW_lib_call; eauto|].
    split; [intros t frs inp; destruct (resume_stack t frs inp s) as [s1 r] eqn:E; eapply TW_resume_stack; eauto|].
    split; [intros t c; destruct (exec t c s) as [s1 o] eqn:E; eapply TW_exec; eauto|].
    split; [intros; apply TW_step_task; auto|]. split; [apply TW_run_one; auto|].
    split; [apply TW_begin_iteration; auto|intros; apply TW_actions; auto]. }
  split; [exact enter_wf_of|]. split; [intros qok QS s0 acts; exact (reach_wf qok QS acts s0)|]. split; [exact enter_wf_every_call|exact reach_init].
Qed.
Print Assumptions C16_enter_wf_reachable.

(* C16_timer_armed_reachable: C16_timer_armed with no EnterWf / Inv hypothesis.  For every block
   entered in a run from a start state as above (clause 7 of C16_enter_wf_reachable: any of the
   three loops), wherever the enter happens: the call arms the timer exactly as in C16_timer_armed
   (1), the invariant of the new block holds right after the call AND at the end of the loop step
   that made it, and from there along every continuation whose iteration starts happen before the
   deadline (C16_timer_armed (2)) *)
Theorem C16_timer_armed_reachable :
  forall qok, QSpec qok -> forall s0 acts,
  Inv09 qok s0 -> TWf s0 -> actions_ok s0 acts ->
  at_enters (fun t d sm sf =>
     let b := length (blocks sm) in let h := length (handles sm) in let w := (now sm + d)%Q in
     let s' := enter_st sm t d in
     lib_call t (OTimeoutEnter (Some d)) sm = (s', LDone (RVal (Z.of_nat b))) /\
     getb s' b = mkBlk t true h /\ geth s' h = mkH (HTrigger b) false /\
     Permutation (timers s') ((w, h) :: timers sm) /\
     (forall e, In e (timers sm) -> snd e <> h) /\
     Inv qok b h w s' /\ Inv qok b h w sf /\
     forall acts', early w (now sf) acts' ->
       let s'' := fold_left do_action acts' sf in
       Inv qok b h w s'' /\
       hcb (geth s'' h) = HTrigger b /\ btimer (getb s'' b) = h /\
       hcancelled (geth s'' h) = negb (bactive (getb s'' b)) /\
       ~ In h (rq_items (ready s'')) /\
       (bactive (getb s'' b) = true ->
          hcancelled (geth s'' h) = false /\
          exists l1 l2, timers s'' = l1 ++ (w, h) :: l2 /\ forall e, In e (l1 ++ l2) -> snd e <> h))
    s0 acts.
Proof.
  intros qok QS s0 acts J T Ha. apply (at_enters_intro qok QS); auto.
  intros t d sm sf b h w W A1 A2 A3. destruct C16_timer_armed as (P1 & P2 & _).
  destruct (P1 qok t d sm W) as (B1 & B2 & B3 & B4 & B5 & B6).
  repeat (split; [assumption|]). intros acts' He. apply (P2 qok QS b h w acts' sf A3 He).
Qed.
Print Assumptions C16_timer_armed_reachable.

(* C16_not_before_deadline_reachable: for every block entered in such a run, along every
   continuation (from the end of the entering step) whose iteration starts all happen before the
   deadline: the trigger handle is not ready, is never what the loop pops next, is the only handle
   carrying HTrigger b, and stays armed while the block is active - so the interruptor of b is
   never created before the deadline.  No hypothesis on the state *)
Theorem C16_not_before_deadline_reachable :
  forall qok, QSpec qok -> forall s0 acts,
  Inv09 qok s0 -> TWf s0 -> actions_ok s0 acts ->
  at_enters (fun t d sm sf =>
     let b := length (blocks sm) in let h := length (handles sm) in let w := (now sm + d)%Q in
     forall acts', early w (now sf) acts' ->
       let s'' := fold_left do_action acts' sf in
       ~ In h (rq_items (ready s'')) /\
       (forall x r, rq_popleft (ready s'') = Some (x, r) -> x <> h /\ hcb (geth s'' x) <> HTrigger b) /\
       (forall x, x < length (handles s'') -> hcb (geth s'' x) = HTrigger b -> x = h) /\
       (bactive (getb s'' b) = true -> In (w, h) (timers s'') /\ hcancelled (geth s'' h) = false))
    s0 acts.
Proof.
  intros qok QS s0 acts J T Ha. apply (at_enters_intro qok QS); auto.
  intros t d sm sf b h w W A1 A2 A3. cbv zeta. intros acts' He.
  apply (proj2 (C16_not_before_deadline qok QS b h w acts' sf A3 He)).
Qed.
Print Assumptions C16_not_before_deadline_reachable.

(* C16_due_timer_moves_reachable.  (1) in every reachable state (between actions, where iterations
   start) the iteration start behaves as in C16_due_timer_moves (1): no heap hypothesis.  (2) for
   every block entered in such a run: if, after a continuation whose iteration starts were all
   early, the block is still active and the clock has reached the deadline, the next iteration
   start moves the trigger to the ready queue (C16_due_timer_moves (3)) *)
Theorem C16_due_timer_moves_reachable :
  forall qok, QSpec qok -> forall s0 acts,
  Inv09 qok s0 -> TWf s0 -> actions_ok s0 acts ->
  (let s := fold_left do_action acts s0 in
   exists dropped moved tm',
     begin_iteration s = s <| timers := tm' |> <| ready := fold_left (app_due s) moved (ready s) |> /\
     Permutation (timers s) (dropped ++ moved ++ tm') /\
     (forall e, In e dropped -> hcancelled (geth s (snd e)) = true) /\
     (forall e, In e moved -> (fst e <= now s)%Q) /\
     (forall e, In e tm' -> (now s < fst e)%Q) /\
     StronglySorted dl_le moved /\ is_heap timer_lt tm') /\
  at_enters (fun t d sm sf =>
     let b := length (blocks sm) in let h := length (handles sm) in let w := (now sm + d)%Q in
     forall acts', early w (now sf) acts' ->
       let s := fold_left do_action acts' sf in
       bactive (getb s b) = true -> (w <= now s)%Q ->
       exists dropped m1 m2 tm',
         let moved := m1 ++ (w, h) :: m2 in
         begin_iteration s = s <| timers := tm' |> <| ready := fold_left (app_due s) moved (ready s) |> /\
         Permutation (timers s) (dropped ++ moved ++ tm') /\
         (forall e, In e dropped -> hcancelled (geth s (snd e)) = true) /\
         (forall e, In e m1 -> (fst e <= w)%Q) /\
         (forall e, In e m2 -> (w <= fst e)%Q /\ (fst e <= now s)%Q) /\
         (forall e, In e tm' -> (now s < fst e)%Q) /\
         (forall e, In e (dropped ++ m1 ++ m2 ++ tm') -> snd e <> h) /\
         In h (rq_items (ready (begin_iteration s))) /\
         (forall l, ready s = RList l ->
            ready (begin_iteration s) = RList (l ++ map snd m1 ++ h :: map snd m2)))
    s0 acts.
Proof.
  intros qok QS s0 acts J T Ha. destruct C16_due_timer_moves as (P1 & _ & P3 & _). split.
  - destruct (reach_wf qok QS acts s0 J T Ha) as (_ & T' & _). apply P1. apply (tw_hp _ _ T').
  - apply (at_enters_intro qok QS); auto.
    intros t d sm sf b h w W A1 A2 A3. cbv zeta. intros acts' He Hact Hw.
    destruct C16_timer_armed as (_ & P2 & _).
    destruct (P2 qok QS b h w acts' sf A3 He) as [I' _]. apply (P3 qok QS b h w _ I' Hact Hw).
Qed.
Print Assumptions C16_due_timer_moves_reachable.

(* non-vacuity: a run of the list loop in which a Python task enters task_timeout(2) inside its
   first step and sleeps: the action list is in the domain, the run does contain an enter (so
   at_enters R is not vacuously true), and the instance of the reachable theorem: Inv for block 0
   / trigger handle 1 / deadline 0 + 2 in the state after the step *)
Theorem C16_reachable_example :
  actions_ok rx_s0 rx_acts /\
  ~ at_enters (fun _ _ _ _ => False) rx_s0 rx_acts /\
  Inv qok_list 0 1 (0 + 2)%Q (fold_left do_action rx_acts rx_s0).
Proof. split; [exact rx_actions_ok|]. split; [exact rx_enters|exact rx_inv]. Qed.
Print Assumptions C16_reachable_example.

(* ---------------------------------------------------------------------------------------------
   Fifth round: the composition on the priority loop with starvation boosting ENABLED
   (Sched/InterruptNextW.v, Sched/InterruptNextBoost.v; Props/C15.v, C15_QNext_boost: QNext is false
   for the boosted queue, the weaker QNextW - after an insert at position 0 the rest of the run order
   is a permutation of the old one - holds for the queue predicate qok_boostc = PriorityQueue
   invariant + every entry positional-with-boost-0 or regular, which is a QSpec instance) *)
From Asynkit Require Import Sched.InterruptNextW Sched.InterruptNextBoost.

(* C16_fires_and_raises_weak_queue: C16_fires_and_raises_any_queue with QNextW in place of QNext -
   same conclusion, so it covers the list queue, the priority queue and the boosted priority queue *)
Theorem C16_fires_and_raises_weak_queue :
  forall qok, QSpec qok -> QNextW qok -> forall c fuel s b i s1 v frs k kx (fr bd : st -> st),
  InvC qok c s -> bactive (getb s b) = true -> i < 3 ->
  let t := btask (getb s b) in
  let tok := ETimeoutInt b in
  let hn := length (handles s) in
  task_throw s t tok = (s1, RVal v) ->
  tmustc (gett s t) = false -> tcont_ (gett s t) = TSusp frs k ->
  (forall s0, resume_stack t frs (RExc tok) s0 = (fr s0, LDone (RExc tok))) ->
  (forall s0, exec t (k (RExc tok)) s0 = exec t (Call (OTimeoutExit b (RExc tok)) kx) (bd s0)) ->
  exists sI r'',
    let s3 := sI <| ready := r'' |> in
    let s5 := bd (fr (running_state s3 t)) in
    interruptor (S fuel) s b i = (sI, LSusp YNone [InSleep0; InIntr b i 0]) /\
    InvC qok c sI /\
    rq_popleft (ready sI) = Some (hn, r'') /\ geth sI hn = mkH (HStep t (Some tok)) false /\
    run_one sI = step_task t (Some tok) s3 /\
    delivered_exn s3 t tok = tok /\
    lib_call t (OTimeoutExit b (RExc tok)) s5 = (exit_state s5 b, LDone (RExc ETimeout)) /\
    bactive (getb (exit_state s5 b) b) = false /\
    run_one sI = (let '(s6, o) := exec t (kx (RExc ETimeout)) (exit_state s5 b) in
                  finish_step t s6 o <| current := None |>).
Proof. exact fires_and_raises_genW. Qed.
Print Assumptions C16_fires_and_raises_weak_queue.

(* C16_fires_and_raises_boost: the instance for the boosted priority loop, any boost factor, any
   draws.  In every state with C09's invariant for qok_boostc (every reachable state of the boosted
   loop: C15_QNext_boost, last clause; also mid-step): block b active at the interruptor's attempt
   i < 3, the throw accepted, the frames and the body hand the token to the exit of b  ==>  the
   interruptor's attempt leaves the target's handle hn = HStep t (Some token) where popleft takes it
   next, the run_one that pops it resumes the target with the token, and TimeoutError leaves b
   inside that single handle run *)
Theorem C16_fires_and_raises_boost :
  forall c fuel s b i s1 v frs k kx (fr bd : st -> st),
  InvC qok_boostc c s -> bactive (getb s b) = true -> i < 3 ->
  let t := btask (getb s b) in
  let tok := ETimeoutInt b in
  let hn := length (handles s) in
  task_throw s t tok = (s1, RVal v) ->
  tmustc (gett s t) = false -> tcont_ (gett s t) = TSusp frs k ->
  (forall s0, resume_stack t frs (RExc tok) s0 = (fr s0, LDone (RExc tok))) ->
  (forall s0, exec t (k (RExc tok)) s0 = exec t (Call (OTimeoutExit b (RExc tok)) kx) (bd s0)) ->
  exists sI r'',
    let s3 := sI <| ready := r'' |> in
    let s5 := bd (fr (running_state s3 t)) in
    interruptor (S fuel) s b i = (sI, LSusp YNone [InSleep0; InIntr b i 0]) /\
    InvC qok_boostc c sI /\
    rq_popleft (ready sI) = Some (hn, r'') /\ geth sI hn = mkH (HStep t (Some tok)) false /\
    run_one sI = step_task t (Some tok) s3 /\
    delivered_exn s3 t tok = tok /\
    lib_call t (OTimeoutExit b (RExc tok)) s5 = (exit_state s5 b, LDone (RExc ETimeout)) /\
    bactive (getb (exit_state s5 b) b) = false /\
    run_one sI = (let '(s6, o) := exec t (kx (RExc ETimeout)) (exit_state s5 b) in
                  finish_step t s6 o <| current := None |>).
Proof. exact (fires_and_raises_genW qok_boostc QSpec_boostc QNextW_boostc). Qed.
Print Assumptions C16_fires_and_raises_boost.
