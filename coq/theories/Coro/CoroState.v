(* C20 - finite model of the object state of the three coroutine kinds of
   CPython 3.12.1 (native coroutine `cr_`, generator-based coroutine `gi_`,
   async generator `ag_`), the attributes Python code can read, the asynkit
   helpers coro_is_new / coro_is_suspended / coro_is_finished as boolean
   functions of those attributes, and the transition function for every drive
   step.  No proofs here (CoroStateProofs.v); the interpreter that is compared
   with the real code is in CoroStateCorr.v and moves the object state *only*
   through [apply_ev].

   Source transcribed: /repo/src/asynkit/coroutine.py:119-162 with
   fixes/F12-asyncgen-state.patch applied (the helpers before the patch are kept
   as [old_is_new] / [old_is_suspended]); Lib/inspect.py (3.12.1)
   getcoroutinestate / getgeneratorstate; Objects/genobject.c (3.12.1) for the
   attribute getters and the state changes. *)
From Asynkit Require Import Base.Prelude.

Inductive kind := KCoro | KGen | KAgen.

(* gi_frame_state, refined by what the frame is suspended in.  [FThrowing] is
   FRAME_EXECUTING as set by gen_throw()/gen_close() around the call of the
   awaited iterator's throw()/close(): the frame is not linked into the stack
   (f_back is None) and still stands at its await. *)
Inductive fstate := FCreated | FSuspYield | FSuspAwait | FExecuting | FThrowing | FCleared.

Record ostate := mkO {
  okind : kind;
  ofs : fstate;
  orun : bool;        (* ag_running_async (async generators only) *)
  (* ground truth, maintained by the transitions independently of the above *)
  gstarted : bool;    (* some code of the body has run *)
  gexited : bool;     (* the body returned or raised (after having started) *)
  gkilled : bool;     (* closed / thrown into before it ever started *)
  gonstack : bool     (* the object is being run right now *)
}.

Definition init (k : kind) : ostate := mkO k FCreated false false false false false.

Definition fstate_eqb (a b : fstate) : bool :=
  match a, b with
  | FCreated, FCreated | FSuspYield, FSuspYield | FSuspAwait, FSuspAwait
  | FExecuting, FExecuting | FThrowing, FThrowing | FCleared, FCleared => true
  | _, _ => false
  end.
Definition kind_eqb (a b : kind) : bool :=
  match a, b with KCoro, KCoro | KGen, KGen | KAgen, KAgen => true | _, _ => false end.
Definition ostate_eqb (a b : ostate) : bool :=
  kind_eqb (okind a) (okind b) && fstate_eqb (ofs a) (ofs b) && Bool.eqb (orun a) (orun b)
  && Bool.eqb (gstarted a) (gstarted b) && Bool.eqb (gexited a) (gexited b)
  && Bool.eqb (gkilled a) (gkilled b) && Bool.eqb (gonstack a) (gonstack b).

(* ---------------------------------------------------------------------- *)
(* attributes visible from Python (3.12.1)                                 *)

(* cr_frame / gi_frame / ag_frame is None *)
Definition a_frame_none (s : ostate) : bool := fstate_eqb (ofs s) FCleared.
(* frame.f_lasti < 0: never in 3.12 (a created frame stands at RETURN_GENERATOR) *)
Definition a_lasti_neg (s : ostate) : bool := false.
(* frame.f_back is not None *)
Definition a_fback (s : ostate) : bool := fstate_eqb (ofs s) FExecuting.
(* gi_frame_state == FRAME_EXECUTING *)
Definition executing_state (s : ostate) : bool :=
  fstate_eqb (ofs s) FExecuting || fstate_eqb (ofs s) FThrowing.
(* cr_running / gi_running; ag_running is the unrelated ag_running_async *)
Definition a_running (s : ostate) : bool :=
  match okind s with KAgen => orun s | _ => executing_state s end.
(* cr_suspended / gi_suspended / ag_suspended *)
Definition a_suspended (s : ostate) : bool :=
  fstate_eqb (ofs s) FSuspYield || fstate_eqb (ofs s) FSuspAwait.
(* cr_await / gi_yieldfrom / ag_await is None *)
Definition a_await_none (s : ostate) : bool :=
  negb (fstate_eqb (ofs s) FSuspAwait || fstate_eqb (ofs s) FThrowing).

Inductive istate := ICreated | IRunning | ISuspended | IClosed.
Definition istate_eqb (a b : istate) : bool :=
  match a, b with
  | ICreated, ICreated | IRunning, IRunning | ISuspended, ISuspended | IClosed, IClosed => true
  | _, _ => false
  end.

(* inspect.getcoroutinestate / inspect.getgeneratorstate *)
Definition inspect_state (s : ostate) : istate :=
  if a_running s then IRunning
  else if a_suspended s then ISuspended
  else if a_frame_none s then IClosed
  else ICreated.

(* asynkit.coroutine._asyncgen_state (fix F12), the 3.12 branch *)
Definition asyncgen_state (s : ostate) : istate :=
  if a_frame_none s then IClosed
  else if a_fback s then IRunning
  else if a_suspended s then ISuspended
  else if negb (a_await_none s) then IRunning
  else ICreated.

Definition helper_state (s : ostate) : istate :=
  match okind s with KAgen => asyncgen_state s | _ => inspect_state s end.

Definition is_new (s : ostate) : bool := istate_eqb (helper_state s) ICreated.
Definition is_suspended (s : ostate) : bool := istate_eqb (helper_state s) ISuspended.
Definition is_finished (s : ostate) : bool := a_frame_none s.

(* the helpers before the fix *)
Definition old_is_new (s : ostate) : bool :=
  match okind s with
  | KAgen => negb (a_frame_none s) && a_await_none s && negb (a_running s)
  | _ => istate_eqb (inspect_state s) ICreated
  end.
Definition old_is_suspended (s : ostate) : bool :=
  match okind s with
  | KAgen => negb (a_await_none s)
  | _ => istate_eqb (inspect_state s) ISuspended
  end.
Definition old_is_finished (s : ostate) : bool := a_frame_none s.

(* ---------------------------------------------------------------------- *)
(* ground truth                                                             *)
Inductive truth := TNew | TSuspended | TExecuting | TFinished.

Definition gdone (s : ostate) : bool := gexited s || gkilled s.

Definition ground_truth (s : ostate) : truth :=
  if gdone s then TFinished
  else if gonstack s then TExecuting
  else if gstarted s then TSuspended
  else TNew.

(* exactly one of new / suspended / finished / "executing" (= none of the
   three) holds, and it is the true one *)
Definition classify_with (n u f : ostate -> bool) (s : ostate) : bool :=
  match ground_truth s with
  | TNew => n s && negb (u s) && negb (f s)
  | TSuspended => negb (n s) && u s && negb (f s)
  | TFinished => negb (n s) && negb (u s) && f s
  | TExecuting => negb (n s) && negb (u s) && negb (f s)
  end.
Definition classify_ok : ostate -> bool := classify_with is_new is_suspended is_finished.
Definition old_classify_ok : ostate -> bool :=
  classify_with old_is_new old_is_suspended old_is_finished.

(* ---------------------------------------------------------------------- *)
(* drive steps                                                              *)
Inductive event :=
| EvEnter (setrun : bool)      (* start or resume the body: send(); an exception thrown in at a yield;
                                  [setrun]: through an asend()/athrow() awaitable that sets ag_running *)
| EvKill                       (* throw()/close() (or athrow/aclose) before the first step: the frame is
                                  cleared, no code of the body runs *)
| EvThrowInto (setrun : bool)  (* throw()/close() while suspended in an await: first the awaited iterator *)
| EvThrowBack                  (* ... which swallowed the exception and yielded again *)
| EvThrowDone                  (* ... which raised (or was closed): the exception enters the body *)
| EvYield                      (* the body yields a value (generators) *)
| EvAwait                      (* the body suspends in an await / yield from *)
| EvFinish (keeprun : bool)    (* the body returns or raises; [keeprun]: the exception leaves through
                                  aclose().throw(), which does not reset ag_running *)
| EvBounce.                    (* send()/throw() through an awaitable into a finished async generator *)

Definition isagen (s : ostate) : bool := kind_eqb (okind s) KAgen.

Definition apply_ev (s : ostate) (e : event) : option ostate :=
  match e, ofs s with
  | EvEnter r, (FCreated | FSuspYield | FSuspAwait) =>
      Some (mkO (okind s) FExecuting (isagen s && (orun s || r))
                true (gexited s) (gkilled s) true)
  | EvKill, FCreated =>
      Some (mkO (okind s) FCleared false (gstarted s) (gexited s) true (gonstack s))
  | EvThrowInto r, FSuspAwait =>
      Some (mkO (okind s) FThrowing (isagen s && (orun s || r))
                (gstarted s) (gexited s) (gkilled s) true)
  | EvThrowBack, FThrowing =>
      Some (mkO (okind s) FSuspAwait (orun s) (gstarted s) (gexited s) (gkilled s) false)
  | EvThrowDone, FThrowing =>
      Some (mkO (okind s) FExecuting (orun s) (gstarted s) (gexited s) (gkilled s) (gonstack s))
  | EvYield, FExecuting =>
      match okind s with
      | KCoro => None
      | _ => Some (mkO (okind s) FSuspYield false (gstarted s) (gexited s) (gkilled s) false)
      end
  | EvAwait, FExecuting =>
      Some (mkO (okind s) FSuspAwait (orun s) (gstarted s) (gexited s) (gkilled s) false)
  | EvFinish keep, FExecuting =>
      Some (mkO (okind s) FCleared (keep && orun s) (gstarted s) true (gkilled s) false)
  | EvBounce, FCleared =>
      Some (mkO (okind s) FCleared false (gstarted s) (gexited s) (gkilled s) (gonstack s))
  | _, _ => None
  end.

Definition all_events : list event :=
  [EvEnter false; EvEnter true; EvKill; EvThrowInto false; EvThrowInto true; EvThrowBack;
   EvThrowDone; EvYield; EvAwait; EvFinish false; EvFinish true; EvBounce].

(* successor states of a state *)
Definition successors (s : ostate) : list ostate :=
  flat_map (fun e => match apply_ev s e with Some s' => [s'] | None => [] end) all_events.

Definition mem_state (s : ostate) (l : list ostate) : bool := existsb (ostate_eqb s) l.

Fixpoint add_new (l acc : list ostate) : list ostate :=
  match l with
  | [] => acc
  | s :: t => if mem_state s acc then add_new t acc else add_new t (acc ++ [s])
  end.

(* breadth first closure; the state space has 3*6*2*16 elements *)
Fixpoint closure_from (fuel : nat) (acc : list ostate) : list ostate :=
  match fuel with
  | O => acc
  | S f => closure_from f (add_new (flat_map successors acc) acc)
  end.

Definition closure : list ostate := closure_from 12 [init KCoro; init KGen; init KAgen].

Definition closed_under_steps (l : list ostate) : bool :=
  forallb (fun s => forallb (fun s' => mem_state s' l) (successors s)) l.

(* the states an object can be in: what the drive steps produce from a new object *)
Inductive reachable : ostate -> Prop :=
| reach_init : forall k, reachable (init k)
| reach_step : forall s e s', reachable s -> apply_ev s e = Some s' -> reachable s'.
