(* Proofs about await_sync / aiter_sync (property C05). *)
From Asynkit Require Import Base.Prelude Coro.Tree Coro.Native Coro.TreeProofs Coro.AwaitSync.

Lemma await_sync_value : forall fixd w s c evs s' v,
  run s c = (evs, s', SRet v) ->
  await_sync fixd w s c = mksync evs (SyValue v) Finished s' w.
Proof. intros fixd w s c evs s' v H. unfold await_sync. rewrite H. reflexivity. Qed.
