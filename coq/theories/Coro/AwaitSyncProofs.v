(* Proofs about await_sync / aiter_sync (property C05) and about the future
   handshake flag around CoroStart (finding F1).  Everything is for all trees
   (all coroutine bodies), all stores and all future worlds. *)
From Asynkit Require Import Base.Prelude Coro.Tree Coro.Native Coro.TreeProofs Coro.AwaitSync.

Definition no_susp (st : stop) : Prop :=
  match st with SSusp _ _ => False | _ => True end.

(* ------------------------------------------------ running through an await *)
Lemma run_await_ret : forall kd c kr ke s evs s' v,
  run s c = (evs, s', SRet v) ->
  run s (await_ kd c kr ke) =
  let '(e2, s2, st2) := run s' (kr v) in (evs ++ e2, s2, st2).
Proof.
  induction c as [v0|e0|ev c IH|x g IH|x v0 c IH|y g IH]; intros kr ke s evs s' v H; simpl in *.
  - inversion H; subst. destruct (run s' (kr v)) as [[e2 s2] st2]. reflexivity.
  - discriminate.
  - destruct (run s c) as [[e1 s1] st1] eqn:Hc. inversion H; subst.
    rewrite (IH kr ke s e1 s' v Hc). destruct (run s' (kr v)) as [[e2 s2] st2]. reflexivity.
  - apply IH; assumption.
  - apply IH; assumption.
  - discriminate.
Qed.

Lemma run_await_raise : forall kd c kr ke s evs s' e,
  run s c = (evs, s', SRaise e) ->
  run s (await_ kd c kr ke) =
  let '(e2, s2, st2) := run s' (ke (pep479 kd e)) in (evs ++ e2, s2, st2).
Proof.
  induction c as [v0|e0|ev c IH|x g IH|x v0 c IH|y g IH]; intros kr ke s evs s' e H; simpl in *.
  - discriminate.
  - inversion H; subst. destruct (run s' (ke (pep479 kd e))) as [[e2 s2] st2]. reflexivity.
  - destruct (run s c) as [[e1 s1] st1] eqn:Hc. inversion H; subst.
    rewrite (IH kr ke s e1 s' e Hc). destruct (run s' (ke (pep479 kd e))) as [[e2 s2] st2].
    reflexivity.
  - apply IH; assumption.
  - apply IH; assumption.
  - discriminate.
Qed.

Lemma run_await_susp : forall kd c kr ke s evs s' y k,
  run s c = (evs, s', SSusp y k) ->
  exists k', run s (await_ kd c kr ke) = (evs, s', SSusp y k').
Proof.
  induction c as [v0|e0|ev c IH|x g IH|x v0 c IH|y0 g IH]; intros kr ke s evs s' y k H; simpl in *.
  - discriminate.
  - discriminate.
  - destruct (run s c) as [[e1 s1] st1] eqn:Hc. inversion H; subst.
    destruct (IH kr ke s e1 s' y k Hc) as [k' Hk']. rewrite Hk'. eexists; reflexivity.
  - eapply IH; eassumption.
  - eapply IH; eassumption.
  - inversion H; subst. eexists; reflexivity.
Qed.

(* a body which does not suspend runs alike under any number of native awaits *)
Lemma run_native_await_ret : forall c s evs s' v,
  run s c = (evs, s', SRet v) -> run s (native_await c) = (evs, s', SRet v).
Proof.
  intros c s evs s' v H. unfold native_await. rewrite (run_await_ret _ _ _ _ _ _ _ _ H). simpl.
  rewrite app_nil_r. reflexivity.
Qed.

Lemma run_native_await_raise : forall c s evs s' e,
  run s c = (evs, s', SRaise e) -> run s (native_await c) = (evs, s', SRaise (pep479 KCoro e)).
Proof.
  intros c s evs s' e H. unfold native_await. rewrite (run_await_raise _ _ _ _ _ _ _ _ H). simpl.
  rewrite app_nil_r. reflexivity.
Qed.

(* ------------------------------------------------------- C05_sync_complete *)
(* The reference is the native protocol: coro.send(None) on the new coroutine
   object (Tree.co_send). *)
Theorem sync_complete : forall fixd w s c,
  no_susp (snd (run s c)) ->
  let n := co_send KCoro (New c) s VNone in
  let r := await_sync fixd w s c in
  sr_events r = r_events n /\ sr_store r = r_store n /\
  sr_obj r = Finished /\ r_obj n = Finished /\
  sr_world r = w /\
  match r_out n with
  | OReturn v => sr_out r = SyValue v
  | ORaise e => sr_out r = SyRaise e
  | OYield _ => False
  end.
Proof.
  intros fixd w s c H. unfold await_sync. simpl.
  destruct (run s c) as [[evs s'] st] eqn:Hr. simpl in H.
  destruct st as [v|e|y k]; simpl; try contradiction; repeat split; reflexivity.
Qed.

Example sync_complete_ex :
  sr_out (await_sync true world0 []
            (native_await (native_await (Eff (ELog 1) (Ret (VInt 5)))))) = SyValue (VInt 5).
Proof. reflexivity. Qed.

Fixpoint nest (d : nat) (c : coro) : coro :=
  match d with O => c | S d' => native_await (nest d' c) end.

Lemma await_sync_native_await : forall fixd w s c,
  no_susp (snd (run s c)) ->
  await_sync fixd w s (native_await c) = await_sync fixd w s c.
Proof.
  intros fixd w s c H. unfold await_sync.
  destruct (run s c) as [[evs s'] st] eqn:Hr. simpl in H.
  destruct st as [v|e|y k]; try contradiction.
  - rewrite (run_native_await_ret _ _ _ _ _ Hr). reflexivity.
  - rewrite (run_native_await_raise _ _ _ _ _ Hr). rewrite pep479_idem. reflexivity.
Qed.

Lemma no_susp_native_await : forall s c,
  no_susp (snd (run s c)) -> no_susp (snd (run s (native_await c))).
Proof.
  intros s c H. destruct (run s c) as [[evs s'] st] eqn:Hr. simpl in H.
  destruct st as [v|e|y k]; try contradiction.
  - rewrite (run_native_await_ret _ _ _ _ _ Hr). exact I.
  - rewrite (run_native_await_raise _ _ _ _ _ Hr). exact I.
Qed.

(* however deeply the coroutine is awaited by other non-suspending coroutines *)
Theorem sync_complete_nested : forall d fixd w s c,
  no_susp (snd (run s c)) ->
  await_sync fixd w s (nest d c) = await_sync fixd w s c.
Proof.
  induction d as [|d IH]; intros fixd w s c H; simpl; auto.
  rewrite await_sync_native_await.
  - apply IH; assumption.
  - clear IH. induction d as [|d IHd]; simpl; auto using no_susp_native_await.
Qed.

(* ------------------------------------------------------------ C05_blocking *)
(* The reference is the native protocol: coro.throw(SynchronousAbort()) on the
   coroutine object suspended at k (Tree.co_throw). *)
Theorem blocking : forall fixd w s c ev0 s0 y k,
  run s c = (ev0, s0, SSusp y k) ->
  abort_terminates s0 k ->
  let t := co_throw KCoro (Suspended k) s0 SynchronousAbort in
  let r := await_sync fixd w s c in
  sr_events r = ev0 ++ r_events t /\ sr_store r = r_store t /\
  sr_obj r = Finished /\ r_obj t = Finished /\
  match r_out t with
  | ORaise e => sr_out r = SySyncError false (Some e)
  | OReturn _ => sr_out r = SySyncError true None
  | OYield _ => False
  end.
Proof.
  intros fixd w s c ev0 s0 y k Hr Hd. unfold await_sync, abort_terminates in *. rewrite Hr.
  unfold cs_throw1. simpl.
  destruct (run s0 (k (Throw SynchronousAbort))) as [[ev1 s1] st1] eqn:H1.
  destruct st1 as [v|e|y2 k2]; try contradiction; simpl; rewrite app_nil_r;
    repeat split; reflexivity.
Qed.

Example blocking_ex :
  let body := Eff (ELog 1) (await_ KGen (tok (VInt 3)) (fun _ => Ret VNone)
                              (fun e => Eff (ELog 2) (Raise e))) in   (* try: await tok(3) finally: log 2 *)
  let r := await_sync true world0 [] body in
  sr_out r = SySyncError false (Some SynchronousAbort) /\
  sr_events r = [ELog 1; ELog 2] /\ sr_obj r = Finished.
Proof. repeat split; reflexivity. Qed.

(* outside the domain: the body swallowed the abort and suspended again.
   SynchronousError is chained to RuntimeError("coroutine ignored
   SynchronousAbort"), the coroutine is closed natively (Tree.co_close), and
   whatever close() raises replaces the SynchronousError *)
Theorem blocking_outside_domain : forall fixd w s c ev0 s0 y k ev1 s1 y2 k2,
  run s c = (ev0, s0, SSusp y k) ->
  run s0 (k (Throw SynchronousAbort)) = (ev1, s1, SSusp y2 k2) ->
  let cl := co_close KCoro (Suspended k2) s1 in
  let r := await_sync fixd w s c in
  sr_events r = ev0 ++ ev1 ++ r_events cl /\ sr_store r = r_store cl /\
  sr_obj r = r_obj cl /\
  sr_out r = match r_out cl with
             | ORaise e => SyCloseRaised e
             | _ => SySyncError false (Some rt_ignored_abort)
             end.
Proof.
  intros fixd w s c ev0 s0 y k ev1 s1 y2 k2 Hr H1. unfold await_sync. rewrite Hr.
  unfold cs_throw1. rewrite H1. simpl.
  destruct (run s1 (k2 (Throw GeneratorExit))) as [[ev2 s2] st2] eqn:H2.
  destruct st2 as [v|e|y3 k3]; simpl; try (repeat split; reflexivity).
  destruct (is_genexit e); simpl; repeat split; reflexivity.
Qed.

(* ---------------------------------------------------- C05_object_untouched *)
Lemma set_flag_clear_id : forall w f g,
  f_flag (w f) = false -> set_flag (set_flag w f true) f false g = w g.
Proof.
  intros w f g H. unfold set_flag. destruct (Z.eqb g f) eqn:E; auto.
  apply Z.eqb_eq in E; subst g. simpl.
  destruct (w f) as [d c fl]; simpl in *. subst fl. reflexivity.
Qed.

(* receiving what the body yielded, repaired code: the world is as before *)
Lemma capture_arm_id : forall w y g,
  (forall f, y = VFut f -> f_flag (w f) = false) ->
  fst (capture true (arm w y) y) g = w g.
Proof.
  intros w y g H. destruct y as [|z|f]; try reflexivity.
  unfold capture, arm, unblock.
  assert (E : f_flag (set_flag w f true f) = true)
    by (unfold set_flag; rewrite Z.eqb_refl; reflexivity).
  rewrite E. simpl. apply set_flag_clear_id. auto.
Qed.

Theorem object_untouched : forall w s c ev0 s0 y k,
  run s c = (ev0, s0, SSusp y k) ->
  abort_terminates s0 k ->
  (forall f, y = VFut f -> f_flag (w f) = false) ->
  forall g, sr_world (await_sync true w s c) g = w g.
Proof.
  intros w s c ev0 s0 y k Hr Hd Hw g. unfold await_sync, abort_terminates in *. rewrite Hr.
  unfold cs_throw1.
  destruct (run s0 (k (Throw SynchronousAbort))) as [[ev1 s1] st1] eqn:H1.
  destruct st1 as [v|e|y2 k2]; try contradiction; simpl; apply capture_arm_id; assumption.
Qed.

Example object_untouched_ex :
  (* try: await F0  finally: log 2   -- with a callback already registered on F0 *)
  let body := await_ KGen (tok (VFut 0)) (fun _ => Ret VNone) (fun e => Eff (ELog 2) (Raise e)) in
  let w := fun g : Z => if Z.eqb g 0 then mkfut false 3 false else fut0 in
  let r := await_sync true w [] body in
  sr_out r = SySyncError false (Some SynchronousAbort) /\ sr_world r 0%Z = mkfut false 3 false /\
  f_flag (sr_world (await_sync false w [] body) 0%Z) = true.
Proof. repeat split; reflexivity. Qed.

(* in particular an ordinary Task can await the future afterwards, and is then
   registered on it exactly as if await_sync had never happened *)
Theorem object_awaitable_later : forall w s c ev0 s0 f k,
  run s c = (ev0, s0, SSusp (VFut f) k) ->
  abort_terminates s0 k ->
  f_flag (w f) = false ->
  let w' := sr_world (await_sync true w s c) in
  awaitable_later w' f = true /\
  forall g, fst (task_await_step w' f) g = fst (task_await_step w f) g.
Proof.
  intros w s c ev0 s0 f k Hr Hd Hw w'.
  assert (Hu : forall g, w' g = w g).
  { intro g. unfold w'. eapply object_untouched; eauto.
    intros f' Hf'. inversion Hf'; subst; assumption. }
  clearbody w'. unfold awaitable_later, task_await_step.
  assert (Hf : f_flag (w' f) = false) by (rewrite Hu; exact Hw).
  rewrite Hf, Hw. simpl. split; auto.
  intro g. destruct (Z.eqb g f) eqn:E; auto.
  apply Z.eqb_eq in E; subst g. rewrite Hu. reflexivity.
Qed.

(* also outside the domain, as long as the body gives in to close(): the second
   object it suspended on is left untouched as well *)
Theorem object_untouched_second : forall w s c ev0 s0 y k ev1 s1 y2 k2,
  run s c = (ev0, s0, SSusp y k) ->
  run s0 (k (Throw SynchronousAbort)) = (ev1, s1, SSusp y2 k2) ->
  no_susp (snd (run s1 (k2 (Throw GeneratorExit)))) ->
  (forall f, f_flag (w f) = false) ->
  forall g, sr_world (await_sync true w s c) g = w g.
Proof.
  intros w s c ev0 s0 y k ev1 s1 y2 k2 Hr H1 H2 Hw g. unfold await_sync. rewrite Hr.
  unfold cs_throw1. rewrite H1. simpl.
  destruct (run s1 (k2 (Throw GeneratorExit))) as [[ev2 s2] st2] eqn:H3. simpl in H2.
  assert (Hc : forall g', fst (capture true (arm w y) y) g' = w g').
  { intro g'. apply capture_arm_id. intros; apply Hw. }
  destruct st2 as [v|e|y3 k3]; try contradiction; simpl;
    (rewrite capture_arm_id; [apply Hc|]); intros f _; rewrite Hc; apply Hw.
Qed.

(* the code before the repair: the flag stays set, the future is unusable *)
Theorem refuted_before_fix : exists (c : coro) (f : Z) (k : input -> coro),
  run [] c = ([], [], SSusp (VFut f) k) /\ abort_terminates [] k /\
  f_flag (world0 f) = false /\
  let w' := sr_world (await_sync false world0 [] c) in
  f_flag (w' f) = true /\ f_done (w' f) = false /\
  awaitable_later w' f = false /\
  snd (task_await_step w' f) = Some rt_await_no_future.
Proof.
  exists (tok (VFut 0)), 0%Z,
         (fun i => match i with Send v => Ret v | Throw e => Raise e end).
  repeat split; exact I.
Qed.

(* ------------------------------------------------------------- C05_aiter *)
(* The reference is the native loop  `async for x in it: <record x>`  run as a
   tree (AwaitSync.async_for). *)
Lemma await_sync_value : forall fixd w s c evs s' v,
  run s c = (evs, s', SRet v) ->
  await_sync fixd w s c = mksync evs (SyValue v) Finished s' w.
Proof. intros fixd w s c evs s' v H. unfold await_sync. rewrite H. reflexivity. Qed.

Lemma await_sync_raise : forall fixd w s c evs s' e,
  run s c = (evs, s', SRaise e) ->
  await_sync fixd w s c = mksync evs (SyRaise (pep479 KCoro e)) Finished s' w.
Proof. intros fixd w s c evs s' e H. unfold await_sync. rewrite H. reflexivity. Qed.

Lemma aiter_sync_cons : forall hlp fixd w s c rest take,
  aiter_sync_with hlp fixd w s (c :: rest) (S take) =
  let r := await_sync fixd w s (hlp c) in
  match sr_out r with
  | SyValue v =>
      let r' := aiter_sync_with hlp fixd (sr_world r) (sr_store r) rest take in
      mkaiter (sr_events r ++ item v :: ai_events r') (ai_end r') (ai_store r')
              (ai_world r') (ai_obj r')
  | SyRaise StopAsyncIteration
  | SyCloseRaised StopAsyncIteration =>
      mkaiter (sr_events r) AEnd (sr_store r) (sr_world r) (sr_obj r)
  | o => mkaiter (sr_events r) (ARaise o) (sr_store r) (sr_world r) (sr_obj r)
  end.
Proof. reflexivity. Qed.

Theorem aiter_native : forall fixd anexts w s evs s' st take,
  run s (async_for anexts) = (evs, s', st) ->
  no_susp st ->
  (length anexts < take)%nat ->
  let r := aiter_sync fixd w s anexts take in
  ai_events r = evs /\ ai_store r = s' /\ ai_world r = w /\
  ai_end r = match st with
             | SRaise e => ARaise (SyRaise e)
             | _ => AEnd
             end.
Proof.
  intros fixd anexts. unfold aiter_sync.
  induction anexts as [|c rest IH]; intros w s evs s' st take Hr Hn Ht.
  - simpl in Hr. inversion Hr; subst. destruct take as [|take]; [simpl in Ht; lia|].
    simpl. repeat split; reflexivity.
  - destruct take as [|take]; [simpl in Ht; lia|]. simpl in Ht.
    rewrite aiter_sync_cons. cbv zeta. simpl in Hr.
    destruct (run s c) as [[e1 s1] st1] eqn:Hc.
    assert (Hs : st1 = snd (run s c)) by (rewrite Hc; reflexivity).
    destruct st1 as [v|e|y k].
    + (* the __anext__ coroutine returns v *)
      rewrite (run_await_ret _ _ _ _ _ _ _ _ Hc) in Hr. simpl in Hr.
      destruct (run s1 (async_for rest)) as [[e2 s2] st2] eqn:Hrest.
      inversion Hr; subst evs s' st. clear Hr.
      change (helper c) with (native_await c). rewrite (await_sync_native_await fixd w s c) by (rewrite <- Hs; exact I).
      rewrite (await_sync_value fixd w _ _ _ _ _ Hc). simpl.
      destruct (IH w s1 e2 s2 st2 take Hrest Hn ltac:(lia)) as (E1 & E2 & E3 & E4).
      rewrite E1, E2, E3, E4. repeat split; reflexivity.
    + (* it raises *)
      rewrite (run_await_raise _ _ _ _ _ _ _ _ Hc) in Hr.
      change (helper c) with (native_await c). rewrite (await_sync_native_await fixd w s c) by (rewrite <- Hs; exact I).
      rewrite (await_sync_raise fixd w _ _ _ _ _ Hc). simpl.
      destruct (pep479 KCoro e) eqn:He; simpl in Hr; inversion Hr; subst; simpl;
        repeat split; try reflexivity; rewrite app_nil_r; reflexivity.
    + (* it suspends: excluded *)
      destruct (run_await_susp KCoro c (fun v => Eff (item v) (async_for rest))
                  (fun e => match e with StopAsyncIteration => Ret VNone | _ => Raise e end)
                  s _ _ _ _ Hc) as [k' Hk'].
      rewrite Hk' in Hr. inversion Hr; subst. contradiction.
Qed.

Example aiter_native_ex :
  let it := [Eff (ELog 1) (Ret (VInt 1)); Ret (VInt 2); Raise StopAsyncIteration; Ret (VInt 9)] in
  let r := aiter_sync true world0 [] it 10 in
  ai_events r = [ELog 1; item (VInt 1); item (VInt 2)] /\ ai_end r = AEnd.
Proof. repeat split; reflexivity. Qed.

(* an __anext__ that suspends: the values so far have been handed out, then
   await_sync's exception leaves the generator *)
Theorem aiter_blocking : forall fixd w s c rest take,
  (match sr_out (await_sync fixd w s (helper c)) with
   | SyValue _ | SyRaise StopAsyncIteration | SyCloseRaised StopAsyncIteration => False
   | _ => True
   end) ->
  let r0 := await_sync fixd w s (helper c) in
  let r := aiter_sync fixd w s (c :: rest) (S take) in
  ai_end r = ARaise (sr_out r0) /\ ai_events r = sr_events r0 /\ ai_obj r = sr_obj r0.
Proof.
  intros fixd w s c rest take H. unfold aiter_sync. rewrite aiter_sync_cons. cbv zeta.
  destruct (sr_out (await_sync fixd w s (helper c))) as [v|e|b o|e] eqn:Ho; try contradiction;
    try (destruct e; try contradiction); simpl; repeat split; reflexivity.
Qed.

(* -------------------------------- CoroStart and the flag (shared with C01) *)
(* whatever a (repaired) CoroStart captures, no flag is left set *)
Theorem capture_flag_invariant : forall w s c,
  (forall f, f_flag (w f) = false) ->
  let '(_, _, _, _, w') := csf_start true w s c in
  forall g, w' g = w g.
Proof.
  intros w s c Hw. unfold csf_start.
  destruct (run s c) as [[evs s'] st]. destruct st as [v|e|y k]; auto.
  destruct (capture true (arm w y) y) as [w' b] eqn:Hc. intro g.
  change w' with (fst (w', b)). rewrite <- Hc. apply capture_arm_id. intros; apply Hw.
Qed.

(* ... and when __await__ hands the captured object to the Task, the Task
   finds it as Future.__await__ yielded it *)
Theorem rearm_for_task : forall w s c evs s' y k b w',
  (forall f, f_flag (w f) = false) ->
  csf_start true w s c = (evs, s', SSusp y k, b, w') ->
  snd (task_receive (csf_first_yield w' y b) y) = None.
Proof.
  intros w s c evs s' y k b w' Hw H. unfold csf_start in H.
  destruct (run s c) as [[evs0 s0] st]. destruct st as [v|e|y0 k0]; try discriminate.
  destruct (capture true (arm w y0) y0) as [w1 b1] eqn:Hc. inversion H; subst. clear H.
  destruct y as [|z|f].
  - inversion Hc; subst. reflexivity.
  - inversion Hc; subst. reflexivity.
  - unfold capture, arm, unblock in Hc.
    assert (E : f_flag (set_flag w f true f) = true)
      by (unfold set_flag; rewrite Z.eqb_refl; reflexivity).
    rewrite E in Hc. inversion Hc; subst.
    unfold csf_first_yield, arm, task_receive.
    assert (E2 : f_flag (set_flag (set_flag (set_flag w f true) f false) f true f) = true)
      by (unfold set_flag; rewrite Z.eqb_refl; reflexivity).
    rewrite E2. reflexivity.
Qed.
