(* What CPython's native [await x] (= [yield from x.__await__()], PEP 380/492)
   does to the protocol, as a transformer of trees.  Model of CPython 3.12,
   validated against CPython itself by the `native` stream of the C02 check.

     r = await x          inside a frame whose continuation after the await is
                          [kr r] and whose handler for an exception raised at
                          the await is [ke e]

   * everything x yields is yielded outward, everything sent in is sent to x;
   * an exception thrown in is thrown into x (x.throw), EXCEPT GeneratorExit:
     x.close() is called, and then GeneratorExit is raised at the await --
     unless close() itself raised (x raised something else, or x yielded again:
     RuntimeError "coroutine ignored GeneratorExit"), in which case that error
     is raised at the await;
   * x returning v makes the await evaluate to v; x raising e raises e at the
     await; a StopIteration escaping x's frame is RuntimeError (PEP 479, at
     x's boundary, message according to x's kind).

   Model file: definitions only. *)
From Asynkit Require Import Base.Prelude Coro.Tree.

(* [c] is what x does after GeneratorExit was thrown into it by close();
   [kont None] = close() returned, [kont (Some e)] = close() raised e *)
Fixpoint close_then (kd : kind) (c : coro) (kont : option exn -> coro) : coro :=
  match c with
  | Ret _ => kont None
  | Raise e => if is_genexit e then kont None else kont (Some (pep479 kd e))
  | Eff ev c' => Eff ev (close_then kd c' kont)
  | Get x k => Get x (fun v => close_then kd (k v) kont)
  | Set_ x v c' => Set_ x v (close_then kd c' kont)
  | Susp _ _ => kont (Some (RuntimeError RtIgnoredGenExit))
  end.

Definition exn_after_close (r : option exn) : exn :=
  match r with None => GeneratorExit | Some e => e end.

Fixpoint await_ (kd : kind) (c : coro) (kr : val -> coro) (ke : exn -> coro) : coro :=
  match c with
  | Ret v => kr v
  | Raise e => ke (pep479 kd e)
  | Eff ev c' => Eff ev (await_ kd c' kr ke)
  | Get x k => Get x (fun v => await_ kd (k v) kr ke)
  | Set_ x v c' => Set_ x v (await_ kd c' kr ke)
  | Susp y k =>
      Susp y (fun i =>
        match i with
        | Throw GeneratorExit =>
            close_then kd (k (Throw GeneratorExit)) (fun r => ke (exn_after_close r))
        | _ => await_ kd (k i) kr ke
        end)
  end.

(* the body of  [async def ref(): return await c]  for a coroutine c *)
Definition native_await (c : coro) : coro := await_ KCoro c Ret Raise.

(* same for an awaitable whose __await__() returns a generator-based iterator *)
Definition native_await_gen (c : coro) : coro := await_ KGen c Ret Raise.

(* the iterator of the token helper
     @types.coroutine
     def tok(y): return (yield y)                                         *)
Definition tok (y : val) : coro :=
  Susp y (fun i => match i with Send v => Ret v | Throw e => Raise e end).
