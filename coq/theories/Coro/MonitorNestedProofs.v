(* Proofs for the nested-monitor history theorem of C07 (model/reference: MonitorNested.v). *)
From Asynkit Require Import Base.Prelude Coro.Tree Coro.Native Coro.Monitor Coro.MonitorSpec
  Coro.TreeProofs Coro.MonitorProofs Coro.MonitorNested.
Open Scope Z_scope.

(* ------------------------------- sessions: simulation with a store-indexed object relation *)
Section SimS.
  Variables O K O' K' : Type.
  Variable first : store -> O -> call -> list event * store * gstop O K.
  Variable resume : call -> store -> K -> input -> list event * store * gstop O K.
  Variable first' : store -> O' -> call -> list event * store * gstop O' K'.
  Variable resume' : call -> store -> K' -> input -> list event * store * gstop O' K'.
  Variable RO : store -> O -> O' -> Prop.
  Variable RK : store -> K -> K' -> Prop.

  Definition RstopS (s : store) (a : gstop O K) (b : gstop O' K') : Prop :=
    match a, b with
    | GEnd o r, GEnd o' r' => RO s o o' /\ r = r'
    | GSusp y k, GSusp y' k' => y = y' /\ RK s k k'
    | _, _ => False
    end.

  Definition R3S (a : list event * store * gstop O K) (b : list event * store * gstop O' K') : Prop :=
    let '(evs, s, st) := a in let '(evs', s', st') := b in evs = evs' /\ s = s' /\ RstopS s st st'.

  Hypothesis Hfirst : forall s o o' cl, RO s o o' -> R3S (first s o cl) (first' s o' cl).
  Hypothesis Hresume : forall cl s k k' i, RK s k k' -> R3S (resume cl s k i) (resume' cl s k' i).

  Lemma gsteps_simS : forall cl ins s k k', RK s k k' ->
    let '(tr, s2, o2) := @gsteps O K resume cl s k ins in
    let '(tr', s2', o2') := @gsteps O' K' resume' cl s k' ins in
    tr = tr' /\ s2 = s2' /\ match o2, o2' with
                            | Some o, Some o' => RO s2 o o'
                            | None, None => True
                            | _, _ => False
                            end.
  Proof.
    induction ins as [|i t IH]; intros s k k' Hk; simpl; auto.
    pose proof (Hresume cl s k k' i Hk) as H.
    destruct (resume cl s k i) as [[evs s1] st1], (resume' cl s k' i) as [[evs' s1'] st1'].
    destruct H as (-> & -> & H).
    destruct st1 as [o r|y k1], st1' as [o' r'|y' k1']; simpl in H; try contradiction.
    - destruct H as [Ho ->]. auto.
    - destruct H as [-> Hk1]. specialize (IH s1' k1 k1' Hk1).
      destruct (@gsteps O K resume cl s1' k1 t) as [[tr s2] o2],
               (@gsteps O' K' resume' cl s1' k1' t) as [[tr' s2'] o2'].
      destruct IH as (-> & -> & Ho). auto.
  Qed.

  Theorem gsession_simS : forall h s o o', RO s o o' ->
    @gsession O K first resume s o h = @gsession O' K' first' resume' s o' h.
  Proof.
    induction h as [|[cl ins] t IH]; intros s o o' Ho; simpl; auto.
    pose proof (Hfirst s o o' cl Ho) as H.
    destruct (first s o cl) as [[evs s1] st1], (first' s o' cl) as [[evs' s1'] st1'].
    destruct H as (-> & -> & H).
    destruct st1 as [o1 r|y k1], st1' as [o1' r'|y' k1']; simpl in H; try contradiction.
    - destruct H as [Ho1 ->]. simpl. f_equal. apply IH, Ho1.
    - destruct H as [-> Hk1]. pose proof (gsteps_simS cl ins s1' k1 k1' Hk1) as G.
      destruct (@gsteps O K resume cl s1' k1 ins) as [[tr s2] o2],
               (@gsteps O' K' resume' cl s1' k1' ins) as [[tr' s2'] o2'].
      destruct G as (-> & -> & G). simpl. f_equal.
      destruct o2 as [o2|], o2' as [o2'|]; try contradiction; auto.
  Qed.
End SimS.

(* ------------------------- the relay and close() as functions of [run] of the driven body *)
Definition relay_of_run (m : Z) (first : bool) (r : list event * store * stop)
  : list event * store * mstop :=
  let '(evs, s', stp) := r in
  match stp with
  | SRet v => (evs, setcell s' m 0, MEnd Finished (RVal v))
  | SRaise e => (evs, setcell s' m 0, MEnd Finished (RExc (first_exn first (pep479 KCoro e))))
  | SSusp y k =>
      if mstate s' m =? -1
      then (evs, setcell (setcell s' m 1) m 0, MEnd (Suspended k) (RExc (OOBData y)))
      else (evs, s', MSusp y k)
  end.

Lemma relay_run_of_run : forall c m first s, relay_run m first s c = relay_of_run m first (run s c).
Proof.
  induction c as [v|e|ev c IH|x k IH|x v c IH|y k IH]; intros m first s; simpl; auto.
  rewrite IH. destruct (run s c) as [[evs s'] stp]. simpl.
  destruct stp as [v|e|y k]; try reflexivity.
  destruct (mstate s' m =? -1); reflexivity.
Qed.

Definition close_of_run (r : list event * store * stop) : list event * store * (cobj * option exn) :=
  let '(evs, s', stp) := r in
  match stp with
  | SRet _ => (evs, s', (Finished, None))
  | SRaise e => (evs, s', (Finished, if is_genexit e then None else Some (pep479 KCoro e)))
  | SSusp _ k' => (evs, s', (Suspended k', Some (RuntimeError RtIgnoredGenExit)))
  end.

Lemma close_run_of_run : forall c s, close_run s c = close_of_run (run s c).
Proof.
  induction c as [v|e|ev c IH|x k IH|x v c IH|y k IH]; intros s; simpl; auto.
  rewrite IH. destruct (run s c) as [[evs s'] stp]. simpl.
  destruct stp as [v|e|y k]; reflexivity.
Qed.

(* a body is used only through what [run] makes of it: re-entrant calls etc. can be replaced
   by their run-equivalent under any stack of relays *)
Lemma relay_run_ext : forall m first s c c', run s c = run s c' ->
  relay_run m first s c = relay_run m first s c'.
Proof. intros. rewrite !relay_run_of_run. congruence. Qed.

Lemma relay_k_ext : forall m first s c c' kont kc, run s c = run s c' ->
  run s (relay_k m first c kont kc) = run s (relay_k m first c' kont kc).
Proof. intros. rewrite !relay_k_run. f_equal. apply relay_run_ext; assumption. Qed.

(* --------------------------------------------------------- B under the inner relay *)
Section Nested.
Variable m1 : Z.

Definition bgood (t : mtree) : Prop := no_lost t /\ gx_ok m1 t.
Definition kgood (k : input -> mtree) : Prop :=
  (forall i, bgood (k i)) /\ quiet1 m1 (k (Throw GeneratorExit)).
Definition tobj_good (bo : tobj) : Prop :=
  match bo with TNew t => bgood t | TAt k => kgood k | TFinished => True end.

Lemma bgood_node : forall k, (forall i, no_lost (k i)) ->
  (forall i, gx_ok m1 (k i)) /\ quiet1 m1 (k (Throw GeneratorExit)) -> kgood k.
Proof. intros k Hn [Hg Hq]. split; [intro i; split; auto|exact Hq]. Qed.

Definition R_inner (m : Z) (s : store) (a : list event * store * mstop)
           (b : list event * store * iout) : Prop :=
  let '(evs, s', stp) := a in let '(evs2, s2, io) := b in
  evs = evs2 /\ s' = s2 /\
  match stp, io with
  | MEnd o r, IEnd bo r' =>
      o = obj_emb bo /\ tobj_good bo /\ r = r' /\ (forall x, x <> m -> mstate s' x = mstate s x)
  | MSusp y k, IReal y' kb => y = y' /\ k = bemb kb /\ kgood kb /\ s' = s
  | MSusp y k, IOut m' d kb =>
      y = d /\ k = bemb kb /\ kgood kb /\ m' <> m /\ s' = setcell s m' (-1) /\ mstate s m' = 1
  | _, _ => False
  end.

Lemma irelay_cons : forall m first ev evs s stp,
  irelay m first (ev :: evs, s, stp) =
  let '(e, s', g) := irelay m first (evs, s, stp) in (ev :: e, s', g).
Proof.
  intros. unfold irelay. destruct stp as [v|e|y k|m' d k]; try reflexivity.
  destruct (m' =? m); reflexivity.
Qed.

Lemma relay3 : forall t m first s, mstate s m = 1 -> bgood t ->
  R_inner m s (relay_run m first s (emb t)) (irelay m first (trun s t)).
Proof.
  induction t as [v|e|ev t IH|y k IH|m0 d k IH|m0 d ta IHa tn IHn];
    intros m first s Hs [Hn Hg]; simpl in *.
  - repeat split; auto; intros; apply mstate_set_other; congruence.
  - repeat split; auto; intros; apply mstate_set_other; congruence.
  - specialize (IH m first s Hs (conj Hn Hg)).
    destruct (relay_run m first s (emb t)) as [[evs s1] st1].
    destruct (trun s t) as [[evs' s1'] st1'].
    cbv beta iota. rewrite irelay_cons.
    destruct (irelay m first (evs', s1', st1')) as [[evs2 s2] io2].
    simpl in IH |- *. destruct IH as (-> & -> & H). repeat split; auto.
  - destruct Hg as [Hg Hq]. rewrite Hs. simpl. repeat split; auto.
  - destruct Hg as [Hg Hq].
    fold (mstate s m0). destruct (mstate s m0 =? 1) eqn:Ea; simpl.
    + apply Z.eqb_eq in Ea. destruct (m0 =? m) eqn:Em.
      * apply Z.eqb_eq in Em; subst m0.
        unfold setst. simpl. fold (setcell s m (-1)). rewrite mstate_set_same. simpl.
        repeat split; auto.
        intros x Hx. rewrite !mstate_set_other by congruence. reflexivity.
      * apply Z.eqb_neq in Em. fold (setcell s m0 (-1)).
        rewrite mstate_set_other by auto. rewrite Hs. simpl. repeat split; auto.
    + apply IH; auto. split; [apply Hn|apply Hg].
  - contradiction.
Qed.

(* B.close() *)
Lemma tclose_res_cons : forall ev evs s stp,
  tclose_res (ev :: evs, s, stp) = let '(e, s', g) := tclose_res (evs, s, stp) in (ev :: e, s', g).
Proof. intros. destruct stp; reflexivity. Qed.

Lemma close3 : forall t s, no_lost t -> gx_ok m1 t ->
  let '(evs, s', (o, x)) := close_run s (emb t) in
  let '(evs2, s2, (bo, x2)) := tclose_res (trun s t) in
  evs = evs2 /\ s' = s2 /\ o = obj_emb bo /\ x = x2 /\ tobj_good bo
  /\ (quiet1 m1 t -> mstate s' m1 = mstate s m1).
Proof.
  induction t as [v|e|ev t IH|y k IH|m0 d k IH|m0 d ta IHa tn IHn]; intros s Hn Hg; simpl in *.
  - repeat split; auto.
  - repeat split; auto.
  - specialize (IH s Hn Hg).
    destruct (close_run s (emb t)) as [[evs s1] [o1 x1]].
    destruct (trun s t) as [[evs' s1'] st1'].
    cbv beta iota. rewrite tclose_res_cons.
    destruct (tclose_res (evs', s1', st1')) as [[evs2 s2] [bo2 x2]].
    destruct IH as (-> & -> & -> & -> & Hb & Hq). repeat split; auto.
  - destruct Hg as [Hg Hq]. repeat split; auto.
  - destruct Hg as [Hg Hq].
    fold (mstate s m0). destruct (mstate s m0 =? 1) eqn:Ea; simpl.
    + fold (setcell s m0 (-1)). repeat split; auto.
      intros [Hne _]. apply mstate_set_other; auto.
    + specialize (IH not_active s (Hn _) (Hg _)).
      destruct (close_run s (emb (k not_active))) as [[evs s1] [o1 x1]].
      destruct (tclose_res (trun s (k not_active))) as [[evs2 s2] [bo2 x2]].
      destruct IH as (-> & -> & -> & -> & Hb & Hq2). repeat split; auto.
      intros [_ Hq']. auto.
  - contradiction.
Qed.

Lemma first_call_emb : forall bo i, tobj_good bo ->
  match tfirst_call bo i with
  | inl t => first_call (obj_emb bo) i = inl (emb t) /\ bgood t
  | inr (bo', e) => first_call (obj_emb bo) i = inr (obj_emb bo', e) /\ tobj_good bo'
  end.
Proof.
  intros bo i Hb. destruct bo as [t|k|]; simpl in *.
  - destruct i as [v|e]; [destruct v|]; simpl; auto.
  - split; [reflexivity|apply Hb].
  - auto.
Qed.

Lemma skips_emb : forall cl bo, skips cl (obj_emb bo) = tskips cl bo.
Proof. destruct cl, bo; reflexivity. Qed.

(* ------------------------------------------------------------ A's code = nrun *)
Definition nk_good (s : store) (k : nk) : Prop :=
  match k with
  | KAt _ bo => tobj_good bo
  | KIn m _ _ kb => kgood kb /\ m <> m1 /\ mstate s m = 1
  end.

Lemma nk_good_frame : forall s s2 k,
  (forall x, x <> m1 -> mstate s2 x = mstate s x) -> nk_good s k -> nk_good s2 k.
Proof.
  intros s s2 [ka bo|m cl ka kb] H; simpl; auto.
  intros (Hk & Hne & Hm). rewrite H by auto. auto.
Qed.

Definition Rrun (a : list event * store * stop) (b : list event * store * nstop) : Prop :=
  let '(evs, s', stp) := a in let '(evs2, s2, nst) := b in
  evs = evs2 /\ s' = s2 /\
  match stp, nst with
  | SRet v, NsRet v' => v = v'
  | SRaise e, NsRaise e' => e = e'
  | SSusp y k, NsReal y' k' => y = y' /\ k = nk_emb k' /\ nk_good s' k' /\ mstate s' m1 = 1
  | SSusp y k, NsOob m' d k' =>
      y = d /\ k = nk_emb k' /\ nk_good s' k' /\ mstate s' m' = -1 /\ (m' <> m1 -> mstate s' m1 = 1)
  | _, _ => False
  end.

Lemma Rrun_pre : forall evs a b, Rrun a b -> Rrun (pre evs a) (napp evs b).
Proof.
  intros evs [[e s] stp] [[e2 s2] nst] (-> & -> & H). simpl. repeat split; auto.
Qed.

Lemma Rrun_cons : forall ev (a : list event * store * stop) (b : list event * store * nstop),
  Rrun a b ->
  Rrun (let '(evs, s', stp) := a in (ev :: evs, s', stp)) (let '(evs, s', r) := b in (ev :: evs, s', r)).
Proof.
  intros ev [[e s] stp] [[e2 s2] nst] (-> & -> & H). simpl. repeat split; auto.
Qed.

(* the two continuations call_k hands to asend_k *)
Definition kont1 (cl : call) (ka : res -> aprog) : cobj -> res -> coro :=
  fun o' r => akont ka o' (post cl r).
Definition kont2 (cl : call) (ka : res -> aprog) : cobj -> res -> coro :=
  fun o' r => akont ka o' (bound_fix true (Throw GeneratorExit) (post cl r)).

Definition IHa (ka : res -> aprog) : Prop :=
  forall r bo s, mstate s m1 = 1 -> tobj_good bo ->
    Rrun (run s (adenote (ka r) (obj_emb bo))) (nrun s (ka r) bo).

Lemma after_inner : forall m cl ka s a b,
  m <> m1 -> mstate s m1 = 1 -> mstate s m = 1 -> R_inner m s a b -> IHa ka ->
  Rrun (run_of_mstop m (kont1 cl ka) (kont2 cl ka) a) (nafter m cl ka b).
Proof.
  intros m cl ka s [[evs s'] stp] [[evs2 s2] io] Hne H1 Hm (-> & -> & H) IH.
  destruct stp as [o r|y k], io as [bo r'|y' kb|m' d kb]; simpl in H; try contradiction.
  - destruct H as (-> & Hb & -> & Hfr). simpl.
    apply Rrun_pre. unfold kont1, akont. apply IH; auto.
    rewrite Hfr by auto. exact H1.
  - destruct H as (-> & -> & Hk & ->). simpl.
    do 4 (split; [reflexivity|]). split; [|exact H1]. simpl. auto.
  - destruct H as (-> & -> & Hk & Hnm & -> & Ha). simpl.
    do 4 (split; [reflexivity|]). split; [|split].
    + simpl. repeat split; try apply Hk; auto. rewrite mstate_set_other by auto. exact Hm.
    + apply mstate_set_same.
    + intros Hn1. rewrite mstate_set_other by auto. exact H1.
Qed.

Lemma run_get : forall s x k, run s (Get x k) = run s (k (lookup s x)).
Proof. reflexivity. Qed.
Lemma run_setst : forall s m z c, run s (setst m z c) = run (setcell s m z) c.
Proof. reflexivity. Qed.

Lemma post_reent : forall cl, post cl (RExc (RuntimeError RtMonitorReentered))
                              = RExc (RuntimeError RtMonitorReentered).
Proof. destruct cl; reflexivity. Qed.

Lemma nrun_call : forall s m cl k bo,
  nrun s (ACall m cl k) bo =
  if tskips cl bo then nrun s (k (RVal VNone)) bo
  else if mstate s m =? 0 then
    match tfirst_call bo (call_input cl) with
    | inr (bo', e) => nrun (setcell (setcell s m 1) m 0) (k (post cl (imm_res e))) bo'
    | inl t => nafter m cl k (irelay m true (trun (setcell s m 1) t))
    end
  else nrun s (k (RExc (RuntimeError RtMonitorReentered))) bo.
Proof. reflexivity. Qed.

Lemma run_adenote : forall a bo s, mstate s m1 = 1 -> tobj_good bo ->
  Rrun (run s (adenote a (obj_emb bo))) (nrun s a bo).
Proof.
  induction a as [v|e|ev a IH|y k IH|m d k IH|m cl k IH]; intros bo s H1 Hb.
  - simpl. repeat split; auto.
  - simpl. repeat split; auto.
  - simpl. apply Rrun_cons. apply IH; auto.
  - simpl. repeat split; auto.
  - simpl adenote. rewrite run_get. simpl nrun. fold (mstate s m).
    destruct (mstate s m =? 1) eqn:Ea.
    + rewrite run_setst. simpl. repeat split; auto.
      * apply mstate_set_same.
      * intros Hn. rewrite mstate_set_other by auto. exact H1.
    + apply IH; auto.
  - simpl adenote. rewrite nrun_call. unfold call_k. rewrite skips_emb.
    destruct (tskips cl bo).
    + apply IH; auto.
    + change (asend_k m (obj_emb bo) (call_input cl)
                (fun ob rb => adenote (k (post cl rb)) ob)
                (fun oc rc => adenote (k (bound_fix true (Throw GeneratorExit) (post cl rc))) oc))
        with (asend_k m (obj_emb bo) (call_input cl) (kont1 cl k) (kont2 cl k)).
      rewrite asend_k_run. unfold asend_run.
      destruct (mstate s m =? 0) eqn:E0.
      * apply Z.eqb_eq in E0.
        assert (Hne : m <> m1) by (intro; subst; lia).
        pose proof (first_call_emb bo (call_input cl) Hb) as F.
        destruct (tfirst_call bo (call_input cl)) as [t|[bo' e]].
        -- destruct F as [-> Ht].
           apply after_inner with (s := setcell s m 1);
             [exact Hne | rewrite mstate_set_other by auto; exact H1 | apply mstate_set_same
             | apply relay3; [apply mstate_set_same|exact Ht] | exact IH].
        -- destruct F as [-> Hb']. simpl. rewrite pre_nil.
           unfold kont1, akont. apply IH; auto.
           rewrite !mstate_set_other by auto. exact H1.
      * simpl. rewrite pre_nil. unfold kont1, akont. rewrite post_reent. apply IH; auto.
Qed.

(* what A does with an input at its suspension *)
Lemma run_nk : forall k s i, mstate s m1 = 1 -> nk_good s k ->
  Rrun (run s (nk_emb k i)) (nresume s k i).
Proof.
  intros [ka bo|m cl ka kb] s i H1 Hg; simpl in Hg.
  - simpl. apply run_adenote; auto.
  - destruct Hg as (Hk & Hne & Hm).
    assert (IH : IHa ka) by (intros r bo s0 ? ?; apply run_adenote; auto).
    assert (D : i = Throw GeneratorExit \/ i <> Throw GeneratorExit).
    { destruct i as [v|e]; [right; discriminate|]. destruct e; try (right; discriminate). left; reflexivity. }
    change (nk_emb (KIn m cl ka kb)) with (relay_cont m (bemb kb) (kont1 cl ka) (kont2 cl ka)).
    destruct D as [->|Hi].
    + rewrite relay_cont_run_close. unfold resume_run, nresume.
      destruct Hk as [Hgood Hq].
      pose proof (close3 (kb (Throw GeneratorExit)) s (proj1 (Hgood _)) (proj2 (Hgood _))) as C.
      unfold bemb at 1.
      destruct (close_run s (emb (kb (Throw GeneratorExit)))) as [[evs s'] [o x]].
      destruct (tclose_res (trun s (kb (Throw GeneratorExit)))) as [[evs2 s2] [bo x2]].
      destruct C as (-> & -> & -> & -> & Hb & Hfr).
      apply Rrun_pre. unfold kont2, akont. apply IH; auto.
      rewrite mstate_set_other by auto. rewrite Hfr by auto. exact H1.
    + rewrite relay_cont_run_other by assumption.
      assert (R : resume_run m s (bemb kb) i = relay_run m false s (emb (kb i))).
      { unfold resume_run, bemb. destruct i as [v|e]; [reflexivity|].
        destruct e; try reflexivity. contradiction. }
      rewrite R.
      assert (N : nresume s (KIn m cl ka kb) i = nafter m cl ka (irelay m false (trun s (kb i)))).
      { unfold nresume. destruct i as [v|e]; [reflexivity|].
        destruct e; try reflexivity. contradiction. }
      rewrite N.
      apply after_inner with (s := s);
        [exact Hne | exact H1 | exact Hm | apply relay3; [exact Hm|apply Hk] | exact IH].
Qed.

(* -------------------------------------------------------- the outer relay (M1) *)
Definition nobj_good (s : store) (o : nobj) : Prop :=
  match o with NNew _ bo => tobj_good bo | NSus k => nk_good s k | NFin => True end.

Definition ROn (s : store) (o : cobj) (o' : nobj) : Prop := o = nobj_emb o' /\ nobj_good s o'.
Definition RKn (s : store) (k : input -> coro) (k' : nk) : Prop :=
  k = nk_emb k' /\ nk_good s k' /\ mstate s m1 = 1.

Notation R3n := (@R3S cobj (input -> coro) nobj nk ROn RKn).

Lemma frame_m1 : forall s z x, x <> m1 -> mstate (setcell s m1 z) x = mstate s x.
Proof. intros. apply mstate_set_other. congruence. Qed.

Lemma frame_m1_2 : forall s z z' x, x <> m1 ->
  mstate (setcell (setcell s m1 z) m1 z') x = mstate s x.
Proof. intros. rewrite !frame_m1 by auto. reflexivity. Qed.

Lemma outer_relay : forall first r r', Rrun r r' ->
  R3n (lift3 gstop_of (relay_of_run m1 first r)) (nrelay m1 first r').
Proof.
  intros first [[evs s] stp] [[evs2 s2] nst] (-> & -> & H).
  destruct stp as [v|e|y k], nst as [v'|e'|y' k'|m' d k']; simpl in H; try contradiction.
  - subst. simpl. repeat split; auto.
  - subst. simpl. repeat split; auto.
  - destruct H as (-> & -> & Hg & H1). simpl. rewrite H1. simpl. repeat split; auto.
  - destruct H as (-> & -> & Hg & Hm & H1). simpl.
    destruct (m' =? m1) eqn:Em.
    + apply Z.eqb_eq in Em; subst m'. rewrite Hm. simpl.
      split; [reflexivity|]. split; [reflexivity|]. split; [|reflexivity].
      split; [reflexivity|]. simpl.
      apply nk_good_frame with (s := s2); auto. intros; apply frame_m1_2; auto.
    + apply Z.eqb_neq in Em. rewrite (H1 Em). simpl. repeat split; auto.
Qed.

Lemma outer_close : forall r r', Rrun r r' ->
  R3n (close_end m1 (close_of_run r)) (nclose m1 r').
Proof.
  intros [[evs s] stp] [[evs2 s2] nst] (-> & -> & H).
  destruct stp as [v|e|y k], nst as [v'|e'|y' k'|m' d k']; simpl in H; try contradiction.
  - simpl. repeat split; auto.
  - subst. simpl. repeat split; auto.
  - destruct H as (-> & -> & Hg & H1). simpl.
    split; [reflexivity|]. split; [reflexivity|]. split; [|reflexivity].
    split; [reflexivity|]. simpl.
    apply nk_good_frame with (s := s2); auto. intros; apply frame_m1; auto.
  - destruct H as (-> & -> & Hg & Hm & H1). simpl.
    split; [reflexivity|]. split; [reflexivity|]. split; [|reflexivity].
    split; [reflexivity|]. simpl.
    apply nk_good_frame with (s := s2); auto. intros; apply frame_m1; auto.
Qed.

Lemma npost_R3 : forall cl a b, R3n a b ->
  R3n (let '(evs, s, st) := a in
       (evs, s, match st with GEnd o x => GEnd o (post cl x) | GSusp y k => GSusp y k end))
      (npost cl b).
Proof.
  intros cl [[evs s] st] [[evs' s'] st'] (-> & -> & H). simpl.
  destruct st as [o x|y k], st' as [o' x'|y' k']; simpl in *; try contradiction.
  - destruct H as [Ho ->]. split; [reflexivity|]. split; [reflexivity|]. split; [exact Ho|reflexivity].
  - destruct H as [-> Hk]. split; [reflexivity|]. split; [reflexivity|]. split; [reflexivity|exact Hk].
Qed.

Lemma ncall_resume_sim : forall cl s k k' i, RKn s k k' ->
  R3n (lift3 gstop_of (call_resume m1 cl s k i)) (ncall_resume m1 cl s k' i).
Proof.
  intros cl s k k' i (-> & Hg & H1). unfold call_resume, ncall_resume.
  rewrite lift3_post. apply npost_R3. unfold resume_run.
  assert (D : i = Throw GeneratorExit \/ i <> Throw GeneratorExit).
  { destruct i as [v|e]; [right; discriminate|]. destruct e; try (right; discriminate). left; reflexivity. }
  destruct D as [->|Hi].
  - rewrite close_run_of_run.
    pose proof (outer_close _ _ (run_nk k' s (Throw GeneratorExit) H1 Hg)) as C.
    destruct (close_of_run (run s (nk_emb k' (Throw GeneratorExit)))) as [[evs s1] [o1 x1]].
    exact C.
  - assert (E1 : match i with
                 | Throw GeneratorExit =>
                     let '(evs, s', (o', r)) := close_run s (nk_emb k' (Throw GeneratorExit)) in
                     (evs, setcell s' m1 0, MEnd o' (RExc (exn_after_close r)))
                 | _ => relay_run m1 false s (nk_emb k' i)
                 end = relay_run m1 false s (nk_emb k' i)).
    { destruct i as [v|e]; [reflexivity|]. destruct e; try reflexivity. contradiction. }
    rewrite E1.
    assert (E2 : match i with
                 | Throw GeneratorExit => nclose m1 (nresume s k' (Throw GeneratorExit))
                 | _ => nrelay m1 false (nresume s k' i)
                 end = nrelay m1 false (nresume s k' i)).
    { destruct i as [v|e]; [reflexivity|]. destruct e; try reflexivity. contradiction. }
    rewrite E2. rewrite relay_run_of_run. apply outer_relay. apply run_nk; auto.
Qed.

Lemma nskips_emb : forall cl o, skips cl (nobj_emb o) = nskips cl o.
Proof. destruct cl, o; reflexivity. Qed.

Lemma ncall_run_sim : forall s o o' cl, ROn s o o' ->
  R3n (lift3 gstop_of (call_run m1 s o cl)) (ncall_run m1 s o' cl).
Proof.
  intros s o o' cl [-> Hg]. unfold call_run, ncall_run.
  rewrite nskips_emb. destruct (nskips cl o').
  - simpl. repeat split; auto.
  - unfold asend_run. destruct (mstate s m1 =? 0) eqn:E0.
    + rewrite lift3_post. apply npost_R3.
      assert (H1 : mstate (setcell s m1 1) m1 = 1) by apply mstate_set_same.
      destruct o' as [a bo|k|]; simpl in Hg |- *.
      * destruct (call_input cl) as [v|e]; simpl.
        -- destruct v; simpl; try (repeat split; auto; fail).
           rewrite relay_run_of_run. apply outer_relay. apply run_adenote; auto.
        -- repeat split; auto.
      * rewrite relay_run_of_run. apply outer_relay. apply run_nk; auto.
        apply nk_good_frame with (s := s); auto. intros; apply frame_m1; auto.
      * destruct (call_input cl); simpl; repeat split; auto.
    + simpl. split; [reflexivity|]. split; [reflexivity|].
      split; [split; [reflexivity|exact Hg]|]. destruct cl; reflexivity.
Qed.

(* ONE history: the model (state flags, Monitor.v) = the reference (explicit nodes) *)
Theorem nested_history : forall a b s h, no_lost b -> gx_ok m1 b ->
  msession m1 s (New (adenote a (New (emb b)))) h = nsession m1 s (NNew a (TNew b)) h.
Proof.
  intros a b s h Hn Hg. unfold msession, nsession.
  apply gsession_simS with (RO := ROn) (RK := RKn).
  - intros; apply ncall_run_sim; auto.
  - intros; apply ncall_resume_sim; auto.
  - split; [reflexivity|]. simpl. split; assumption.
Qed.

(* ------------------------------------------------------------- re-entrant use *)
Definition reentered : res := RExc (RuntimeError RtMonitorReentered).

(* A re-entrant call on the outer monitor issued by A's code, or by B's code two relays
   down, and a re-entrant call on the inner monitor issued by B: the statement
   `r = await M.<cl>(o)` behaves exactly like `r = <RuntimeError>` -- no event, same store
   (so both uses in progress keep their state), same object o, and everything the two
   relays do afterwards is what they do for the continuation [kont o reentered]. *)
Theorem nested_reentrancy : forall m2 fa fb s o cl kont kontB kcB, skips cl o = false ->
  (mstate s m1 <> 0 ->
     relay_run m1 fa s (call_k m1 o cl kont) = relay_run m1 fa s (kont o reentered)
     /\ relay_run m1 fa s (relay_k m2 fb (call_k m1 o cl kont) kontB kcB)
        = relay_run m1 fa s (relay_k m2 fb (kont o reentered) kontB kcB))
  /\ (mstate s m2 <> 0 ->
     relay_run m1 fa s (relay_k m2 fb (call_k m2 o cl kont) kontB kcB)
     = relay_run m1 fa s (relay_k m2 fb (kont o reentered) kontB kcB)).
Proof.
  intros m2 fa fb s o cl kont kontB kcB Hs. split; [intro H; split|intro H].
  - apply relay_run_ext. apply call_k_reentered; assumption.
  - apply relay_run_ext, relay_k_ext. apply call_k_reentered; assumption.
  - apply relay_run_ext, relay_k_ext. apply call_k_reentered; assumption.
Qed.

(* the same inside the history theorem's vocabulary: a call of A through a monitor that is
   in use (in particular through M1 itself, which is active whenever A runs) *)
Lemma nrun_reentered : forall s m cl k bo, mstate s m <> 0 -> tskips cl bo = false ->
  nrun s (ACall m cl k) bo = nrun s (k reentered) bo.
Proof.
  intros s m cl k bo H Hs. rewrite nrun_call, Hs.
  destruct (mstate s m =? 0) eqn:E; [apply Z.eqb_eq in E; contradiction|reflexivity].
Qed.
End Nested.

(* ---------------------------------------------------- idle after every call *)
Lemma trun_inv : forall t s evs s' stp, no_lost t -> trun s t = (evs, s', stp) ->
  match stp with
  | TsRet _ | TsRaise _ => s' = s
  | TsReal _ k => s' = s /\ forall i, no_lost (k i)
  | TsOob m' _ k => s' = setcell s m' (-1) /\ mstate s m' = 1 /\ forall i, no_lost (k i)
  end.
Proof.
  induction t as [v|e|ev t IH|y k IH|m0 d k IH|m0 d ta IHa tn IHn];
    intros s evs s' stp Hn H; simpl in *.
  - inversion H; subst; auto.
  - inversion H; subst; auto.
  - destruct (trun s t) as [[evs1 s1] st1] eqn:E. inversion H; subst. eapply IH; eauto.
  - inversion H; subst; auto.
  - destruct (mstate s m0 =? 1) eqn:Ea.
    + apply Z.eqb_eq in Ea. inversion H; subst; auto.
    + eapply IH; eauto.
  - contradiction.
Qed.

Section Idle.
Variables m1 m2 : Z.
Hypothesis Hne : m2 <> m1.

Definition expect (k : nk) : Z := if inside m2 k then 1 else 0.
Definition expect_obj (o : nobj) : Z := if inside_obj m2 o then 1 else 0.
Definition nk_ok (k : nk) : Prop :=
  match k with KAt _ bo => obj_ok bo | KIn _ _ _ kb => forall i, no_lost (kb i) end.

Definition incall (m : Z) : Z := if m =? m2 then 1 else 0.

Lemma irelay_m2 : forall m first t s evs s' io, no_lost t -> mstate s m2 = incall m ->
  irelay m first (trun s t) = (evs, s', io) ->
  match io with
  | IEnd bo _ => obj_ok bo /\ mstate s' m2 = 0
  | IReal _ kb => (forall i, no_lost (kb i)) /\ mstate s' m2 = incall m
  | IOut m' _ kb => (forall i, no_lost (kb i)) /\ m' <> m2 /\ mstate s' m2 = incall m
  end.
Proof.
  intros m first t s evs s' io Hn Hs H.
  destruct (trun s t) as [[evs1 s1] st1] eqn:E. pose proof (trun_inv _ _ _ _ _ Hn E) as T.
  assert (Z0 : forall s0, mstate s0 m2 = incall m -> mstate (setcell s0 m 0) m2 = 0).
  { intros s0 H0. unfold incall in H0. destruct (m =? m2) eqn:Em.
    - apply Z.eqb_eq in Em; subst. apply mstate_set_same.
    - apply Z.eqb_neq in Em. rewrite mstate_set_other by auto. exact H0. }
  destruct st1 as [v|e|y k|m' d k]; simpl in H.
  - inversion H; subst. simpl. auto.
  - inversion H; subst. simpl. auto.
  - destruct T as [-> Hk]. inversion H; subst. auto.
  - destruct T as (-> & Ha & Hk). destruct (m' =? m) eqn:Em.
    + apply Z.eqb_eq in Em; subst m'. inversion H; subst. simpl. split; [exact Hk|].
      unfold incall in Hs. destruct (m =? m2) eqn:Em2.
      * apply Z.eqb_eq in Em2; subst. apply mstate_set_same.
      * apply Z.eqb_neq in Em2. rewrite !mstate_set_other by auto. exact Hs.
    + apply Z.eqb_neq in Em. inversion H; subst.
      assert (Hm' : m' <> m2).
      { unfold incall in Hs. destruct (m =? m2) eqn:Em2.
        - apply Z.eqb_eq in Em2; subst. exact Em.
        - intro; subst m'. lia. }
      repeat split; auto. rewrite mstate_set_other by auto. exact Hs.
Qed.

Lemma tclose_m2 : forall m t s evs s2 bo x, no_lost t -> mstate s m2 = incall m ->
  tclose_res (trun s t) = (evs, s2, (bo, x)) -> obj_ok bo /\ mstate (setcell s2 m 0) m2 = 0.
Proof.
  intros m t s evs s2 bo x Hn Hs H.
  destruct (trun s t) as [[evs1 s1] st1] eqn:E. pose proof (trun_inv _ _ _ _ _ Hn E) as T.
  assert (Z0 : forall s0, (m <> m2 -> mstate s0 m2 = 0) -> mstate (setcell s0 m 0) m2 = 0).
  { intros s0 H0. destruct (m =? m2) eqn:Em.
    - apply Z.eqb_eq in Em; subst. apply mstate_set_same.
    - apply Z.eqb_neq in Em. rewrite mstate_set_other by auto. auto. }
  assert (Hs0 : m <> m2 -> mstate s m2 = 0).
  { intro Hm. unfold incall in Hs. apply Z.eqb_neq in Hm. rewrite Hm in Hs. exact Hs. }
  destruct st1 as [v|e|y k|m' d k]; simpl in H; inversion H; subst; simpl.
  - auto.
  - auto.
  - destruct T as [-> Hk]. auto.
  - destruct T as (-> & Ha & Hk). split; [exact Hk|]. apply Z0. intro Hm.
    rewrite mstate_set_other; auto. intro; subst m'. rewrite (Hs0 Hm) in Ha. lia.
Qed.

Definition Pidle (s' : store) (nst : nstop) : Prop :=
  match nst with
  | NsRet _ | NsRaise _ => mstate s' m2 = 0
  | NsReal _ k => mstate s' m2 = expect k /\ nk_ok k
  | NsOob m' _ k => m' <> m2 /\ mstate s' m2 = expect k /\ nk_ok k
  end.

Lemma Pidle_napp : forall evs r evs' s' nst, napp evs r = (evs', s', nst) ->
  exists e0, r = (e0, s', nst).
Proof. intros evs [[e s] st] evs' s' nst H. simpl in H. inversion H; subst. eauto. Qed.

Definition IHidle (ka : res -> aprog) : Prop :=
  forall r bo s evs s' nst, obj_ok bo -> mstate s m2 = 0 ->
    nrun s (ka r) bo = (evs, s', nst) -> Pidle s' nst.

Lemma nafter_idle : forall m cl ka first t s evs s' nst,
  IHidle ka -> no_lost t -> mstate s m2 = incall m ->
  nafter m cl ka (irelay m first (trun s t)) = (evs, s', nst) -> Pidle s' nst.
Proof.
  intros m cl ka first t s evs s' nst IH Hn Hs H.
  destruct (irelay m first (trun s t)) as [[evs1 s1] io] eqn:E.
  pose proof (irelay_m2 _ _ _ _ _ _ _ Hn Hs E) as I.
  destruct io as [bo r|y kb|m' d kb]; simpl in H.
  - destruct I as [Hb H0]. apply Pidle_napp in H. destruct H as [e0 H]. eapply IH; eauto.
  - destruct I as [Hk H0]. inversion H; subst. simpl. split; auto.
  - destruct I as (Hk & Hm' & H0). inversion H; subst. simpl. repeat split; auto.
Qed.

Lemma tfirst_ok : forall bo i, obj_ok bo ->
  match tfirst_call bo i with inl t => no_lost t | inr (bo', _) => obj_ok bo' end.
Proof.
  intros [t|k|] i Hb; simpl in *; auto.
  destruct i as [v|e]; [destruct v|]; simpl; auto.
Qed.

Lemma nrun_idle : forall a, forall bo s evs s' nst, obj_ok bo -> mstate s m2 = 0 ->
  nrun s a bo = (evs, s', nst) -> Pidle s' nst.
Proof.
  induction a as [v|e|ev a IH|y k IH|m d k IH|m cl k IH]; intros bo s evs s' nst Hb H0 H.
  - simpl in H. inversion H; subst. exact H0.
  - simpl in H. inversion H; subst. exact H0.
  - simpl in H. destruct (nrun s a bo) as [[evs1 s1] st1] eqn:E. inversion H; subst.
    eapply IH; eauto.
  - simpl in H. inversion H; subst. simpl. auto.
  - simpl in H. destruct (mstate s m =? 1) eqn:Ea.
    + apply Z.eqb_eq in Ea. inversion H; subst. simpl.
      assert (m <> m2) by (intro; subst; lia).
      repeat split; auto. rewrite mstate_set_other by auto. exact H0.
    + eapply IH; eauto.
  - rewrite nrun_call in H. destruct (tskips cl bo).
    + eapply IH; eauto.
    + destruct (mstate s m =? 0) eqn:E0.
      * pose proof (tfirst_ok bo (call_input cl) Hb) as F.
        assert (Hs1 : mstate (setcell s m 1) m2 = incall m).
        { unfold incall. destruct (m =? m2) eqn:Em.
          - apply Z.eqb_eq in Em; subst. apply mstate_set_same.
          - apply Z.eqb_neq in Em. rewrite mstate_set_other by auto. exact H0. }
        destruct (tfirst_call bo (call_input cl)) as [t|[bo' e]].
        -- eapply nafter_idle; eauto; intros r; intros; eapply IH; eauto.
        -- eapply IH; [exact F| |exact H].
           destruct (m =? m2) eqn:Em.
           ++ apply Z.eqb_eq in Em; subst. apply mstate_set_same.
           ++ apply Z.eqb_neq in Em. rewrite !mstate_set_other by auto. exact H0.
      * eapply IH; eauto.
Qed.

Lemma nresume_idle : forall k s i evs s' nst, nk_ok k -> mstate s m2 = expect k ->
  nresume s k i = (evs, s', nst) -> Pidle s' nst.
Proof.
  intros [ka bo|m cl ka kb] s i evs s' nst Hk Hs H; simpl in Hk.
  - simpl in H. eapply nrun_idle; eauto.
  - assert (Hs' : mstate s m2 = incall m) by exact Hs.
    assert (IH : IHidle ka) by (intros r; intros; eapply nrun_idle; eauto).
    assert (D : i = Throw GeneratorExit \/ i <> Throw GeneratorExit).
    { destruct i as [v|e]; [right; discriminate|]. destruct e; try (right; discriminate). left; reflexivity. }
    destruct D as [->|Hi].
    + simpl in H.
      destruct (tclose_res (trun s (kb (Throw GeneratorExit)))) as [[evs1 s1] [bo x]] eqn:E.
      pose proof (tclose_m2 _ _ _ _ _ _ _ (Hk _) Hs' E) as [Hb Hz].
      apply Pidle_napp in H. destruct H as [e0 H]. eapply nrun_idle; eauto.
    + assert (N : nresume s (KIn m cl ka kb) i = nafter m cl ka (irelay m false (trun s (kb i)))).
      { unfold nresume. destruct i as [v|e]; [reflexivity|].
        destruct e; try reflexivity. contradiction. }
      rewrite N in H. eapply nafter_idle; eauto.
Qed.
End Idle.

Section Idle2.
Variables m1 m2 : Z.
Hypothesis Hne : m2 <> m1.

Definition Qidle (s : store) (st : ngstop) : Prop :=
  match st with
  | GEnd o' _ => mstate s m2 = expect_obj m2 o'
  | GSusp _ k => mstate s m2 = expect m2 k
  end.

Lemma nrelay_m2 : forall first evs s nst, Pidle m2 s nst -> 
  let '(_, s2, st) := nrelay m1 first (evs, s, nst) in Qidle s2 st.
Proof.
  intros first evs s nst P. destruct nst as [v|e|y k|m' d k]; simpl in *.
  - rewrite mstate_set_other by auto. exact P.
  - rewrite mstate_set_other by auto. exact P.
  - apply P.
  - destruct P as (Hm' & P & _). destruct (m' =? m1); simpl.
    + rewrite !mstate_set_other by auto. exact P.
    + exact P.
Qed.

Lemma nclose_m2 : forall evs s nst, Pidle m2 s nst -> 
  let '(_, s2, st) := nclose m1 (evs, s, nst) in Qidle s2 st.
Proof.
  intros evs s nst P. destruct nst as [v|e|y k|m' d k]; simpl in *;
    rewrite mstate_set_other by auto; try exact P; apply P.
Qed.

Lemma npost_m2 : forall cl r, (let '(_, s2, st) := r in Qidle s2 st) ->
  let '(_, s2, st) := npost cl r in Qidle s2 st.
Proof. intros cl [[evs s] [o x|y k]] H; exact H. Qed.

Lemma tobj_good_ok : forall bo, tobj_good m1 bo -> obj_ok bo.
Proof. intros [t|k|]; simpl; auto. - intros [H _]; exact H. - intros [H _] i. apply H. Qed.

Lemma nk_good_ok : forall s k, nk_good m1 s k -> nk_ok k.
Proof.
  intros s [ka bo|m cl ka kb]; simpl.
  - apply tobj_good_ok.
  - intros [[H _] _] i. apply H.
Qed.

Definition InvO (s : store) (o : nobj) : Prop :=
  nobj_good m1 s o /\ mstate s m2 = expect_obj m2 o.
Definition InvK (s : store) (k : nk) : Prop :=
  nk_good m1 s k /\ mstate s m2 = expect m2 k.
Definition idle_post (s' : store) (st : ngstop) : Prop :=
  match st with
  | GEnd o' _ => mstate s' m1 = 0 /\ InvO s' o'
  | GSusp _ k => mstate s' m1 = 1 /\ InvK s' k
  end.

Lemma ncall_run_m2 : forall s o cl, InvO s o ->
  let '(_, s2, st) := ncall_run m1 s o cl in Qidle s2 st.
Proof.
  intros s o cl [Hg H2]. unfold ncall_run. destruct (nskips cl o); [exact H2|].
  destruct (mstate s m1 =? 0); [|exact H2].
  apply npost_m2.
  assert (F : mstate (setcell s m1 1) m2 = mstate s m2) by (apply mstate_set_other; auto).
  destruct o as [a bo|k|]; simpl in Hg, H2 |- *.
  - destruct (call_input cl) as [v|e]; simpl.
    + destruct v; simpl; try (rewrite !mstate_set_other by auto; exact H2).
      destruct (nrun (setcell s m1 1) a bo) as [[evs s'] nst] eqn:E.
      apply nrelay_m2. eapply nrun_idle; [apply tobj_good_ok; exact Hg| |exact E]. rewrite F; exact H2.
    + rewrite !mstate_set_other by auto. exact H2.
  - destruct (nresume (setcell s m1 1) k (call_input cl)) as [[evs s'] nst] eqn:E.
    apply nrelay_m2. eapply nresume_idle; [eapply nk_good_ok; exact Hg| |exact E]. rewrite F; exact H2.
  - destruct (call_input cl); simpl; rewrite !mstate_set_other by auto; exact H2.
Qed.

Lemma ncall_resume_m2 : forall cl s k i, InvK s k ->
  let '(_, s2, st) := ncall_resume m1 cl s k i in Qidle s2 st.
Proof.
  intros cl s k i [Hg H2]. unfold ncall_resume. apply npost_m2.
  assert (P : forall j, let '(_, s', nst) := nresume s k j in Pidle m2 s' nst).
  { intro j. destruct (nresume s k j) as [[evs s'] nst] eqn:E.
    eapply nresume_idle; [eapply nk_good_ok; exact Hg|exact H2|exact E]. }
  assert (D : i = Throw GeneratorExit \/ i <> Throw GeneratorExit).
  { destruct i as [v|e]; [right; discriminate|]. destruct e; try (right; discriminate). left; reflexivity. }
  destruct D as [->|Hi].
  - specialize (P (Throw GeneratorExit)).
    destruct (nresume s k (Throw GeneratorExit)) as [[evs s'] nst]. apply nclose_m2; auto.
  - assert (E2 : match i with
                 | Throw GeneratorExit => nclose m1 (nresume s k (Throw GeneratorExit))
                 | _ => nrelay m1 false (nresume s k i)
                 end = nrelay m1 false (nresume s k i)).
    { destruct i as [v|e]; [reflexivity|]. destruct e; try reflexivity. contradiction. }
    rewrite E2. specialize (P i). destruct (nresume s k i) as [[evs s'] nst]. apply nrelay_m2; auto.
Qed.

(* After every step of a history on M1 -- [idle_post]: if the driver's call is over, M1 is
   idle; if it is suspended at a real suspension, M1 is active; and the inner monitor M2 is
   idle unless A is suspended INSIDE a call through it (then it is active).  The
   postcondition re-establishes the precondition of the next step (InvO / InvK, and
   M1.state), so this holds along every history that starts from InvO. *)
Theorem nested_idle_step : forall s cl,
  (forall o, InvO s o -> mstate s m1 = 0 ->
     let '(_, s', st) := ncall_run m1 s o cl in idle_post s' st)
  /\ (forall k i, InvK s k -> mstate s m1 = 1 ->
     let '(_, s', st) := ncall_resume m1 cl s k i in idle_post s' st).
Proof.
  intros s cl. split.
  - intros o Inv H0. pose proof (ncall_run_m2 s o cl Inv) as M2.
    destruct Inv as [Hg H2].
    pose proof (ncall_run_sim m1 s (nobj_emb o) o cl (conj eq_refl Hg)) as S.
    pose proof (call_run_idle m1 s (nobj_emb o) cl) as I.
    destruct (call_run m1 s (nobj_emb o) cl) as [[evs s1] st1].
    destruct (ncall_run m1 s o cl) as [[evs' s'] st].
    simpl in S. destruct S as (-> & -> & S).
    destruct st1 as [o1 r1|y1 k1], st as [o' r'|y' k']; simpl in S; try contradiction.
    + destruct S as [[_ Hg'] _]. simpl. split; [eapply I; eauto|]. split; auto.
    + destruct S as [_ (_ & Hg' & H1)]. simpl. split; [exact H1|]. split; auto.
  - intros k i Inv H1. pose proof (ncall_resume_m2 cl s k i Inv) as M2.
    destruct Inv as [Hg H2].
    pose proof (ncall_resume_sim m1 cl s (nk_emb k) k i (conj eq_refl (conj Hg H1))) as S.
    pose proof (call_resume_idle m1 cl s (nk_emb k) i) as I.
    destruct (call_resume m1 cl s (nk_emb k) i) as [[evs s1] st1].
    destruct (ncall_resume m1 cl s k i) as [[evs' s'] st].
    simpl in S. destruct S as (-> & -> & S).
    destruct st1 as [o1 r1|y1 k1], st as [o' r'|y' k']; simpl in S; try contradiction.
    + destruct S as [[_ Hg'] _]. simpl. split; [eapply I; eauto|]. split; auto.
    + destruct S as [_ (_ & Hg' & H1')]. simpl. split; [exact H1'|]. split; auto.
Qed.

(* the invariant holds at the start *)
Lemma nested_idle_init : forall a b s, no_lost b -> gx_ok m1 b -> mstate s m2 = 0 ->
  InvO s (NNew a (TNew b)).
Proof. intros a b s Hn Hg H2. split; [simpl; split; assumption|exact H2]. Qed.
End Idle2.

(* ------------------- script_k (the coroutines of the `nest` stream) are aprog programs *)
Definition exc_cont (next : aprog) (e : exn) : aprog :=
  if is_exception e then AEff (ECaught e) next else ARaise e.
Definition res_cont (next : aprog) (r : res) : aprog :=
  match r with RVal v => AEff (ECallRet v) next | RExc e => exc_cont next e end.
(* the value / exception an `await tok(..)` / `await m.oob(..)` of the script evaluates to
   (the helper is a generator: PEP 479 with the generator message) *)
Definition in_cont (next : aprog) (i : input) : aprog :=
  match i with Send v => AEff (ERecv v) next | Throw e => exc_cont next (pep479 KGen e) end.

Fixpoint of_items (items : list item) : aprog :=
  match items with
  | [] => ARet VNone
  | ICall m cl :: rest => ACall m cl (res_cont (of_items rest))
  | IOob m d :: rest => AEff (EUser m d) (AOob m d (in_cont (of_items rest)))
  | ITok y :: rest => ASusp (VInt y) (in_cont (of_items rest))
  | ILog n :: rest => AEff (ELog n) (of_items rest)
  end.

Lemma close_k_cong : forall c kont kont', (forall o r, eqv (kont o r) (kont' o r)) ->
  eqv (close_k c kont) (close_k c kont').
Proof.
  induction c as [v|e|ev c IH|x k IH|x v c IH|y k IH]; intros kont kont' H; simpl; auto.
  - destruct (is_genexit e); auto.
  - constructor; auto.
  - constructor; auto.
  - constructor; auto.
Qed.

Lemma relay_k_cong : forall c m first kont kont' kc kc',
  (forall o r, eqv (kont o r) (kont' o r)) -> (forall o r, eqv (kc o r) (kc' o r)) ->
  eqv (relay_k m first c kont kc) (relay_k m first c kont' kc').
Proof.
  induction c as [v|e|ev c IH|x k IH|x v c IH|y k IH]; intros m first kont kont' kc kc' H Hc; simpl.
  - constructor; auto.
  - constructor; auto.
  - constructor; auto.
  - constructor; auto.
  - constructor; auto.
  - constructor. intro sv. destruct (st sv =? -1).
    + constructor. constructor. auto.
    + constructor. intros [w|e]; [apply IH; auto|].
      destruct e; try (apply IH; auto).
      apply close_k_cong. intros o r. constructor. auto.
Qed.

Lemma call_k_cong : forall m o cl kont kont', (forall o' r, eqv (kont o' r) (kont' o' r)) ->
  eqv (call_k m o cl kont) (call_k m o cl kont').
Proof.
  intros m o cl kont kont' H. unfold call_k. destruct (skips cl o); auto.
  unfold asend_k. constructor. intro sv. destruct (st sv =? 0); auto.
  constructor. destruct (first_call o (call_input cl)) as [c|[o' e]].
  - apply relay_k_cong; auto.
  - constructor. auto.
Qed.

Lemma item_exc_cont : forall e rest o,
  eqv (script_k rest o) (adenote (of_items rest) o) ->
  eqv (item_exc e (script_k rest o)) (adenote (exc_cont (of_items rest) e) o).
Proof.
  intros e rest o H. unfold item_exc, exc_cont. destruct (is_exception e); simpl.
  - constructor; exact H.
  - constructor.
Qed.

Ltac tokc IH :=
  let v := fresh "v" in let e := fresh "e" in
  intros [v|e];
  [ simpl; constructor; apply IH
  | destruct e; simpl; unfold item_exc, exc_cont; simpl;
    first [ constructor; apply IH | constructor ] ].

Theorem script_as_aprog : forall items o, eqv (script_k items o) (adenote (of_items items) o).
Proof.
  induction items as [|it rest IH]; intro o; simpl.
  - constructor.
  - destruct it as [m cl|m d|y|n]; simpl.
    + apply call_k_cong. intros o' [v|e]; simpl.
      * constructor. apply IH.
      * apply item_exc_cont. apply IH.
    + constructor. unfold await_oob, oob_gen. simpl. constructor. intro sv.
      destruct (st sv =? 1).
      * simpl. constructor. constructor. tokc IH.
      * simpl. apply (item_exc_cont (RuntimeError RtMonitorNotActive)). apply IH.
    + constructor. tokc IH.
    + constructor. apply IH.
Qed.

(* -------------------------- sessions do not distinguish bisimilar coroutine objects *)
Definition RKe (s : store) (k k' : input -> coro) : Prop := forall i, eqv (k i) (k' i).
Notation R3e := (@R3 cobj (input -> coro) cobj (input -> coro) obj_rel RKe).

Lemma relay_of_run_eqv : forall m first s c c', eqv c c' ->
  R3e (lift3 gstop_of (relay_of_run m first (run s c))) (lift3 gstop_of (relay_of_run m first (run s c'))).
Proof.
  intros m first s c c' H. destruct (run_eqv c c' H s) as (evs & s' & stp & stp' & -> & -> & R).
  destruct R as [v|e|y k k' Hk]; simpl.
  - repeat split; constructor.
  - repeat split; constructor.
  - destruct (mstate s' m =? -1); simpl; repeat split; auto. constructor; auto.
Qed.

Lemma close_of_run_eqv : forall m s c c', eqv c c' ->
  R3e (close_end m (close_of_run (run s c))) (close_end m (close_of_run (run s c'))).
Proof.
  intros m s c c' H. destruct (run_eqv c c' H s) as (evs & s' & stp & stp' & -> & -> & R).
  destruct R as [v|e|y k k' Hk]; simpl; repeat split; auto; constructor; auto.
Qed.

Lemma post_R3e : forall cl a b, R3e a b ->
  R3e (let '(evs, s, st) := a in
       (evs, s, match st with GEnd o x => GEnd o (post cl x) | GSusp y k => GSusp y k end))
      (let '(evs, s, st) := b in
       (evs, s, match st with GEnd o x => GEnd o (post cl x) | GSusp y k => GSusp y k end)).
Proof.
  intros cl [[evs s] st] [[evs' s'] st'] (-> & -> & H). simpl.
  destruct st as [o x|y k], st' as [o' x'|y' k']; simpl in *; try contradiction.
  - destruct H as [Ho ->]. repeat split; auto.
  - destruct H as [-> Hk]. repeat split; auto.
Qed.

Lemma call_run_eqv : forall m s o o' cl, obj_rel o o' ->
  R3e (lift3 gstop_of (call_run m s o cl)) (lift3 gstop_of (call_run m s o' cl)).
Proof.
  intros m s o o' cl Ho. unfold call_run.
  assert (Hsk : skips cl o = skips cl o') by (destruct Ho, cl; reflexivity).
  rewrite <- Hsk. destruct (skips cl o).
  - simpl. repeat split; auto.
  - rewrite !lift3_post. apply post_R3e. unfold asend_run.
    destruct (mstate s m =? 0).
    + destruct Ho as [c c' Hc|k k' Hk| |]; simpl.
      * destruct (call_input cl) as [v|e]; simpl.
        -- destruct v; simpl; try (repeat split; auto; constructor; auto; fail).
           rewrite !relay_run_of_run. apply relay_of_run_eqv; auto.
        -- repeat split; auto; constructor.
      * rewrite !relay_run_of_run. apply relay_of_run_eqv; auto.
      * repeat split; auto; constructor.
      * repeat split; auto; constructor.
    + simpl. repeat split; auto.
Qed.

Lemma call_resume_eqv : forall m cl s k k' i, RKe s k k' ->
  R3e (lift3 gstop_of (call_resume m cl s k i)) (lift3 gstop_of (call_resume m cl s k' i)).
Proof.
  intros m cl s k k' i Hk. unfold call_resume. rewrite !lift3_post. apply post_R3e.
  unfold resume_run. destruct i as [v|e].
  - rewrite !relay_run_of_run. apply relay_of_run_eqv; auto.
  - destruct e; try (rewrite !relay_run_of_run; apply relay_of_run_eqv; auto).
    rewrite !close_run_of_run.
    pose proof (close_of_run_eqv m s _ _ (Hk (Throw GeneratorExit))) as C.
    destruct (close_of_run (run s (k (Throw GeneratorExit)))) as [[evs1 s1] [o1 x1]].
    destruct (close_of_run (run s (k' (Throw GeneratorExit)))) as [[evs2 s2] [o2 x2]].
    exact C.
Qed.

Theorem msession_eqv : forall m s o o' h, obj_rel o o' -> msession m s o h = msession m s o' h.
Proof.
  intros m s o o' h Ho. unfold msession.
  apply gsession_sim with (RO := obj_rel) (RK := RKe).
  - intros; apply call_run_eqv; auto.
  - intros; apply call_resume_eqv; auto.
  - exact Ho.
Qed.

(* the history theorem for the script coroutines of the correspondence stream `nest`
   (MonitorCorr.node_tree (NMid items (NBody p)) = script_k items (New (emb (tbody p)))) *)
Corollary nested_history_script : forall m1 items b s h, no_lost b -> gx_ok m1 b ->
  msession m1 s (New (script_k items (New (emb b)))) h
  = nsession m1 s (NNew (of_items items) (TNew b)) h.
Proof.
  intros m1 items b s h Hn Hg. rewrite <- (nested_history m1 (of_items items) b s h Hn Hg).
  apply msession_eqv. constructor. apply script_as_aprog.
Qed.

(* ------------------------------------------------------------------ examples *)
Definition ret_or_raise (i : input) : mtree :=
  match i with Send v => TRet v | Throw e => TRaise e end.

(* B:  a = await M2.oob(1); log a; b = await tok(11); log b;
       try: c = await M1.oob(2); log c
       except Exception as e: log e
       return await M2.oob(3)                                             (M1 = 1, M2 = 2) *)
Definition exB : mtree :=
  TOob 2 (VInt 1) (fun i => match i with Throw e => TRaise e | Send v => TEff (ERecv v)
  (TSusp (VInt 11) (fun i => match i with Throw e => TRaise e | Send v => TEff (ERecv v)
  (TOob 1 (VInt 2) (fun i =>
     let rest := TOob 2 (VInt 3) ret_or_raise in
     match i with
     | Throw e => if is_exception e then TEff (ECaught e) rest else TRaise e
     | Send v => TEff (ERecv v) rest
     end)) end)) end).

Definition plus100 (v : val) : val := match v with VInt z => VInt (z + 100) | _ => v end.

(* A: the handler loop: answers every datum d of M2 with d + 100, logging it as [EUser 2 d] *)
Definition exA : aprog := aloop 2 plus100 5 VNone.

(* driver on M1: aawait(None), answering the real suspension with 31; then athrow(E 5) *)
Definition exH : list (call * list input) :=
  [(CAwait VNone, [Send (VInt 31)]); (CThrow (E 5), [])].

Example ex_good : no_lost exB /\ gx_ok 1 exB.
Proof.
  split.
  - simpl. intros [v|e]; simpl; auto. intros [v'|e']; simpl; auto.
    intros [v2|e2]; simpl.
    + intros [?|?]; exact I.
    + destruct (is_exception e2); simpl; auto. intros [?|?]; exact I.
  - simpl. split; [|exact I].
    intros [v|e]; simpl; auto. split; [|exact I].
    intros [v'|e']; simpl; auto. split; [|exact I].
    assert (R : gx_ok 1 (TOob 2 (VInt 3) ret_or_raise)).
    { simpl. split; [intros [?|?]; exact I|exact I]. }
    intros [v2|e2]; simpl; auto. destruct (is_exception e2); simpl; auto.
Qed.

(* what surfaces at the M1 driver, with (state M1, state M2) after every step, and the log:
   M2's data 1 and 3 reach A (logged EUser 2 d) and never the driver; the real suspension 11
   is yielded through both relays; M1's datum 2 passes M2 untouched and ends the driver's
   call while A stays inside M2.aawait (states 0, 1); the E 5 thrown by athrow is raised
   from that M1.oob(2) in B; A's answers 101 / 103 are what the M2.oob calls return; B's result
   ends A's aawait and A's result the driver's athrow; both monitors idle at the end *)
Example ex_nested_history :
  surfaced 1 2 (msession 1 [] (New (adenote exA (New (emb exB)))) exH)
  = [ [(OYield (VInt 11), 1, 1); (ORaise (OOBData (VInt 2)), 0, 1)];
      [(OReturn (VInt 103), 0, 0)] ]
  /\ logged (msession 1 [] (New (adenote exA (New (emb exB)))) exH)
  = [EUser 2 (VInt 1); ERecv (VInt 101); ERecv (VInt 31); ECaught (E 5); EUser 2 (VInt 3)]
  /\ msession 1 [] (New (adenote exA (New (emb exB)))) exH = nsession 1 [] (NNew exA (TNew exB)) exH.
Proof. split; [|split]; vm_compute; reflexivity. Qed.

(* the carve-out gx_ok is necessary: B answers the GeneratorExit of a close() with
   M1.oob(5); the yield is swallowed, M1.state stays -1, and A's next REAL suspension (token
   12) reaches the M1 driver as OOBData 12 *)
Definition exB_gx : mtree :=
  TOob 1 (VInt 2) (fun i => match i with
    | Throw GeneratorExit => TOob 1 (VInt 5) (fun _ => TRet VNone)
    | _ => TRet VNone end).
Definition exA_gx : aprog :=
  ACall 2 (CAwait VNone) (fun r =>
    match r with
    | RExc (RuntimeError _) => ASusp (VInt 12) (fun _ => ARet VNone)
    | _ => ARet VNone
    end).

Example ex_gx_confuses :
  let h := [(CAwait VNone, []); (CThrow GeneratorExit, [])] in
  map (map (fun g : gobs => snd (fst g))) (msession 1 [] (New (adenote exA_gx (New (emb exB_gx)))) h)
    = [[ORaise (OOBData (VInt 2))]; [ORaise (OOBData (VInt 12))]]
  /\ map (map (fun g : gobs => snd (fst g))) (nsession 1 [] (NNew exA_gx (TNew exB_gx)) h)
    = [[ORaise (OOBData (VInt 2))]; [OYield (VInt 12)]]
  /\ no_lost exB_gx.
Proof.
  split; [|split]; try (vm_compute; reflexivity).
  simpl. intros [v|e]; simpl; auto. destruct e; simpl; auto.
Qed.

(* the handler loop of the property text is one of the programs the theorem quantifies over *)
Example ex_loop_instance : forall m1 m2 f n v b s h, no_lost b -> gx_ok m1 b ->
  msession m1 s (New (adenote (aloop m2 f n v) (New (emb b)))) h
  = nsession m1 s (NNew (aloop m2 f n v) (TNew b)) h.
Proof. intros; apply nested_history; assumption. Qed.
