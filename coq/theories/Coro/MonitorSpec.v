(* Reference semantics for C07 and driver sessions (definitions only).

   [tcall_run] / [tcall_resume] run a body given as an [mtree] (Monitor.v) under
   a monitor m WITHOUT looking at the state flag to find out-of-band data: an
   out-of-band value is what an explicit [TOob m d k] node yields, a real
   suspension is what a [TSusp y k] node (or the oob node of ANOTHER active
   monitor) yields.  The flag is only used as the guard of oob() ("Monitor not
   active") and is kept up to date.  It is the Coq twin of the harness's
   RefMonitor.

   [gsession] is a driver history, generic in the stepper: a list of calls,
   each with the inputs the driver gives at the real suspensions the call
   meets; a call whose inputs run out is abandoned there (and the history ends:
   the coroutine is in use).  [msession] = the model (Monitor.call_run on
   arbitrary coroutine objects, out-of-band data recognised by state = -1),
   [tsession] = the reference. *)
From Asynkit Require Import Base.Prelude Coro.Tree Coro.Native Coro.Monitor.
Open Scope Z_scope.

(* ------------------------------------------------------------ generic part *)
Section Session.
  Variables O K : Type.
  Inductive gstop := GEnd (o : O) (r : res) | GSusp (y : val) (k : K).
  Variable first : store -> O -> call -> list event * store * gstop.
  Variable resume : call -> store -> K -> input -> list event * store * gstop.

  Definition gout (st : gstop) : outcome :=
    match st with
    | GSusp y _ => OYield y
    | GEnd _ (RVal v) => OReturn v
    | GEnd _ (RExc e) => ORaise e
    end.

  (* what the driver sees of one step: the body's events, what came out, the store *)
  Definition gobs := (list event * outcome * store)%type.

  (* the call is suspended at k; None = abandoned while suspended *)
  Fixpoint gsteps (cl : call) (s : store) (k : K) (ins : list input)
    : list gobs * store * option O :=
    match ins with
    | [] => ([], s, None)
    | i :: t =>
        let '(evs, s', st) := resume cl s k i in
        match st with
        | GEnd o _ => ([(evs, gout st, s')], s', Some o)
        | GSusp _ k' => let '(tr, s2, o2) := gsteps cl s' k' t in ((evs, gout st, s') :: tr, s2, o2)
        end
    end.

  Fixpoint gsession (s : store) (o : O) (h : list (call * list input)) : list (list gobs) :=
    match h with
    | [] => []
    | (cl, ins) :: t =>
        let '(evs, s', st) := first s o cl in
        match st with
        | GEnd o' _ => [(evs, gout st, s')] :: gsession s' o' t
        | GSusp _ k =>
            let '(tr, s2, o2) := gsteps cl s' k ins in
            ((evs, gout st, s') :: tr) ::
            match o2 with Some o' => gsession s2 o' t | None => [] end
        end
    end.
End Session.
Arguments GEnd {O K}.
Arguments GSusp {O K}.

(* ---------------------------------------------------------------- the model *)
Definition gstop_of (st : mstop) : gstop cobj (input -> coro) :=
  match st with MEnd o r => GEnd o r | MSusp y k => GSusp y k end.

Definition lift3 {A B} (f : A -> B) (r : list event * store * A) : list event * store * B :=
  let '(evs, s, a) := r in (evs, s, f a).

Definition msession (m : Z) : store -> cobj -> list (call * list input) -> list (list gobs) :=
  @gsession cobj (input -> coro) (fun s o cl => lift3 gstop_of (call_run m s o cl))
           (fun cl s k i => lift3 gstop_of (call_resume m cl s k i)).

(* ------------------------------------------------------------ the reference *)
Inductive tobj := TNew (t : mtree) | TAt (k : input -> mtree) | TFinished.

Definition obj_emb (o : tobj) : cobj :=
  match o with
  | TNew t => New (emb t)
  | TAt k => Suspended (fun i => emb (k i))
  | TFinished => Finished
  end.

Inductive tstop :=
| TsRet (v : val)
| TsRaise (e : exn)
| TsReal (y : val) (k : input -> mtree)            (* a TSusp node *)
| TsOob (m : Z) (d : val) (k : input -> mtree).    (* a TOob node of an active monitor *)

(* run the body to its next stop.  An oob node of an idle monitor raises
   "Monitor not active" inside the body; of an active one marks the cell and stops. *)
Fixpoint trun (s : store) (t : mtree) : list event * store * tstop :=
  match t with
  | TRet v => ([], s, TsRet v)
  | TRaise e => ([], s, TsRaise e)
  | TEff ev t' => let '(evs, s', r) := trun s t' in (ev :: evs, s', r)
  | TSusp y k => ([], s, TsReal y k)
  | TOob m d k => if mstate s m =? 1 then ([], setcell s m (-1), TsOob m d k)
                  else trun s (k not_active)
  | TLost m d ta tn => if mstate s m =? 1 then trun (setcell s m (-1)) ta else trun s tn
  end.

Definition tgstop := gstop tobj (input -> mtree).

(* the relay around a stop of the body, for the monitor m that drives it *)
Definition trelay (m : Z) (first : bool) (r : list event * store * tstop)
  : list event * store * tgstop :=
  let '(evs, s, st) := r in
  match st with
  | TsRet v => (evs, setcell s m 0, GEnd TFinished (RVal v))
  | TsRaise e => (evs, setcell s m 0, GEnd TFinished (RExc (first_exn first (pep479 KCoro e))))
  | TsReal y k => (evs, s, GSusp y k)
  | TsOob m' d k =>
      if m' =? m
      then (* the out-of-band datum of THIS monitor: the call ends with OOBData d, the
              body stays at the node, waiting for the next call's input *)
           (evs, setcell (setcell s m 1) m 0, GEnd (TAt k) (RExc (OOBData d)))
      else (* somebody else's: passes outward like a real suspension *)
           (evs, s, GSusp d k)
  end.

(* coro.close() *)
Definition tclose (m : Z) (r : list event * store * tstop) : list event * store * tgstop :=
  let '(evs, s, st) := r in
  let fin o x := (evs, setcell s m 0, GEnd o (RExc (exn_after_close x))) in
  match st with
  | TsRet _ => fin TFinished None
  | TsRaise e => fin TFinished (if is_genexit e then None else Some (pep479 KCoro e))
  | TsReal _ k => fin (TAt k) (Some (RuntimeError RtIgnoredGenExit))
  | TsOob _ _ k => fin (TAt k) (Some (RuntimeError RtIgnoredGenExit))
  end.

Definition tfirst_call (o : tobj) (i : input) : mtree + (tobj * exn) :=
  match o, i with
  | TNew t, Send VNone => inl t
  | TNew _, Send _ => inr (o, TypeError 1)
  | TNew _, Throw e => inr (TFinished, e)
  | TAt k, _ => inl (k i)
  | TFinished, _ => inr (o, RuntimeError RtReuse)
  end.

Definition tskips (cl : call) (o : tobj) : bool :=
  match cl, o with CClose, TFinished => true | _, _ => false end.

Definition tpost (cl : call) (r : list event * store * tgstop) : list event * store * tgstop :=
  let '(evs, s, st) := r in
  (evs, s, match st with GEnd o x => GEnd o (post cl x) | _ => st end).

Definition tcall_run (m : Z) (s : store) (o : tobj) (cl : call) : list event * store * tgstop :=
  if tskips cl o then ([], s, GEnd o (RVal VNone))
  else if mstate s m =? 0 then
    let s1 := setcell s m 1 in
    tpost cl match tfirst_call o (call_input cl) with
             | inl t => trelay m true (trun s1 t)
             | inr (o', e) => ([], setcell s1 m 0, GEnd o' (imm_res e))
             end
  else ([], s, GEnd o (RExc (RuntimeError RtMonitorReentered))).

Definition tcall_resume (m : Z) (cl : call) (s : store) (k : input -> mtree) (i : input)
  : list event * store * tgstop :=
  tpost cl match i with
           | Throw GeneratorExit => tclose m (trun s (k (Throw GeneratorExit)))
           | _ => trelay m false (trun s (k i))
           end.

Definition tsession (m : Z) : store -> tobj -> list (call * list input) -> list (list gobs) :=
  @gsession tobj (input -> mtree) (tcall_run m) (tcall_resume m).

(* no oob() swallowed by a close() anywhere in the body (the carve-out) *)
Fixpoint no_lost (t : mtree) : Prop :=
  match t with
  | TEff _ t' => no_lost t'
  | TSusp _ k | TOob _ _ k => forall i, no_lost (k i)
  | TLost _ _ _ _ => False
  | _ => True
  end.

(* the out-of-band data a driver saw, and the oob nodes of monitor m the body reached *)
Definition oob_seen (tr : list (list gobs)) : list val :=
  flat_map (fun c => flat_map (fun (g : gobs) =>
    match g with (_, ORaise (OOBData d), _) => [d] | _ => [] end) c) tr.
