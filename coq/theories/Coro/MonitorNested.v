(* Nested monitors as ONE history (property C07, DESIGN 9.3 gap "nested monitors not as
   one two-monitor history equality").  Definitions only; proofs: MonitorNestedProofs.v.

   CONFIGURATION
     outer monitor M1 (number m1) drives coroutine A  (the driver's calls: M1.aawait(A, v),
     M1.athrow(A, e), aclose, start, try_await -- a history as in MonitorSpec.gsession);
     A drives ONE sub-coroutine B through inner monitors (`r = await M.<call>(B, ..)`, M any
     monitor: M2 in the property text, but nothing forces A to use a single one, and a call
     through M1 itself is the re-entrant use that must be refused);
     B (an [mtree], Monitor.v) talks to every monitor: `await M1.oob(d)`, `await M2.oob(d)`,
     real suspensions, and -- folded into the tree by tawait_/tdenote -- nested calls and
     handlers.

   THE MODEL SIDE needs nothing new: Monitor.v already keeps one state cell per monitor
   number in the store, and the code of a coroutine that awaits a Monitor call is
   [call_k] (validated against asynkit by the `nest` stream of ./check C07 through
   [script_k]).  [aprog] below is the general form of such a coroutine -- an arbitrary
   well-founded tree whose nodes are A's own effects, real suspensions, oob() calls and
   Monitor calls on B with a continuation for EVERY result -- and [adenote] its code:
   [script_k items] is the instance "straight-line list of items"
   (MonitorNestedProofs.script_as_aprog).

   THE REFERENCE SIDE ([nrun], [nresume], [ncall_run], [ncall_resume], [nsession]) is the
   two-level twin of MonitorSpec.tsession.  It never looks at a state flag to find out what
   a yielded value is: an out-of-band datum is what an explicit oob node yields, it belongs
   to the monitor NAMED IN THE NODE, and it is delivered to the innermost enclosing relay of
   that monitor: an [TOob m d] of B with m = the monitor A is calling through ends A's call
   with OOBData d (B stays at the node); any other oob node of B, and every real
   suspension of B, leaves A suspended inside its call ([KIn]) and goes outward; at the
   outer relay (M1) an oob node of m1 -- B's or A's own -- ends the driver's call with
   OOBData d, everything else is yielded to the driver (the event loop).  The flags are
   only read where monitor.py reads them as GUARDS (oob(): "Monitor not active";
   _asend: "Monitor cannot be re-entered") and are kept up to date. *)
From Asynkit Require Import Base.Prelude Coro.Tree Coro.Native Coro.Monitor Coro.MonitorSpec.
Open Scope Z_scope.

(* ------------------------------------------------------------ A's programs *)
Inductive aprog :=
| ARet (v : val)                                   (* return v *)
| ARaise (e : exn)                                 (* raise e *)
| AEff (ev : event) (a : aprog)                    (* log *)
| ASusp (y : val) (k : input -> aprog)             (* A's own real suspension (await future) *)
| AOob (m : Z) (d : val) (k : input -> aprog)      (* r = await M[m].oob(d)  issued by A itself *)
| ACall (m : Z) (cl : call) (k : res -> aprog).    (* r = await M[m].<cl>(B): k (RVal v) after a
                                                      return, k (RExc e) after an exception,
                                                      k (RExc (OOBData d)) after out-of-band data *)

(* the code of A, given the coroutine object of B *)
Fixpoint adenote (a : aprog) (o : cobj) : coro :=
  match a with
  | ARet v => Ret v
  | ARaise e => Raise e
  | AEff ev a' => Eff ev (adenote a' o)
  | ASusp y k => Susp y (fun i => adenote (k i) o)
  | AOob m d k =>
      Get (cell m) (fun s =>
        if st s =? 1 then setst m (-1) (Susp d (fun i => adenote (k i) o))
        else adenote (k not_active) o)
  | ACall m cl k => call_k m o cl (fun o' r => adenote (k r) o')
  end.

(* the handler loop of the property text, n times unrolled:
     while True:
         try: return await M.aawait(B, v)
         except OOBData as x: log x.data; v = f(x.data)                         *)
Fixpoint aloop (m : Z) (f : val -> val) (n : nat) (v : val) : aprog :=
  match n with
  | O => ARaise AssertionError
  | S n' => ACall m (CAwait v) (fun r =>
              match r with
              | RVal x => ARet x
              | RExc (OOBData d) => AEff (EUser m d) (aloop m f n' (f d))
              | RExc e => ARaise e
              end)
  end.

(* --------------------------------------------------- the carve-out for B *)
(* [quiet1 m1 t]: the first stop of t is not an oob of m1 *)
Fixpoint quiet1 (m1 : Z) (t : mtree) : Prop :=
  match t with
  | TEff _ t' => quiet1 m1 t'
  | TOob m _ k => m <> m1 /\ quiet1 m1 (k not_active)
  | TLost _ _ _ _ => False
  | _ => True
  end.

(* B never answers a GeneratorExit with `await M1.oob(..)` as its next suspension.  When
   the GeneratorExit comes from a close() (the inner relay closes B because GeneratorExit
   was thrown into A) that oob is "an oob() issued while the coroutine is being closed":
   its yield is swallowed by close(), M1.state stays -1 (the carve-out of the property,
   cf. no_lost; necessity: MonitorNestedProofs.ex_gx_confuses). *)
Fixpoint gx_ok (m1 : Z) (t : mtree) : Prop :=
  match t with
  | TEff _ t' => gx_ok m1 t'
  | TSusp _ k | TOob _ _ k => (forall i, gx_ok m1 (k i)) /\ quiet1 m1 (k (Throw GeneratorExit))
  | TLost _ _ ta tn => gx_ok m1 ta /\ gx_ok m1 tn
  | _ => True
  end.

(* ------------------------------------------------------------ the reference *)
(* where A is suspended *)
Inductive nk :=
| KAt (k : input -> aprog) (bo : tobj)     (* at one of its own nodes; B's object *)
| KIn (m : Z) (cl : call) (ka : res -> aprog) (kb : input -> mtree).
                                           (* inside `await M[m].<cl>(B)`, B suspended at kb *)

Inductive nobj := NNew (a : aprog) (bo : tobj) | NSus (k : nk) | NFin.

Inductive nstop :=
| NsRet (v : val)
| NsRaise (e : exn)
| NsReal (y : val) (k : nk)              (* a real suspension of A or of B *)
| NsOob (m : Z) (d : val) (k : nk).      (* an oob node (of A, or of B and not of the monitor
                                            A is calling through) of an active monitor *)

(* what the relay of the INNER call (through monitor m) makes of a stop of B *)
Inductive iout :=
| IEnd (bo : tobj) (r : res)                    (* the call is over *)
| IReal (y : val) (kb : input -> mtree)         (* B's real suspension: outward *)
| IOut (m' : Z) (d : val) (kb : input -> mtree).  (* somebody else's datum: outward, untouched *)

Definition irelay (m : Z) (first : bool) (r : list event * store * tstop)
  : list event * store * iout :=
  let '(evs, s, st) := r in
  match st with
  | TsRet v => (evs, setcell s m 0, IEnd TFinished (RVal v))
  | TsRaise e => (evs, setcell s m 0, IEnd TFinished (RExc (first_exn first (pep479 KCoro e))))
  | TsReal y k => (evs, s, IReal y k)
  | TsOob m' d k =>
      if m' =? m then (evs, setcell (setcell s m 1) m 0, IEnd (TAt k) (RExc (OOBData d)))
      else (evs, s, IOut m' d k)
  end.

(* B.close() inside the inner relay: what B is afterwards, what close() raised *)
Definition tclose_res (r : list event * store * tstop) : list event * store * (tobj * option exn) :=
  let '(evs, s, st) := r in
  match st with
  | TsRet _ => (evs, s, (TFinished, None))
  | TsRaise e => (evs, s, (TFinished, if is_genexit e then None else Some (pep479 KCoro e)))
  | TsReal _ k => (evs, s, (TAt k, Some (RuntimeError RtIgnoredGenExit)))
  | TsOob _ _ k => (evs, s, (TAt k, Some (RuntimeError RtIgnoredGenExit)))
  end.

Definition napp (evs : list event) (r : list event * store * nstop) : list event * store * nstop :=
  let '(e, s, st) := r in (evs ++ e, s, st).

(* run A from program point a (B's object bo) to A's next stop *)
Fixpoint nrun (s : store) (a : aprog) (bo : tobj) : list event * store * nstop :=
  match a with
  | ARet v => ([], s, NsRet v)
  | ARaise e => ([], s, NsRaise e)
  | AEff ev a' => let '(evs, s', r) := nrun s a' bo in (ev :: evs, s', r)
  | ASusp y k => ([], s, NsReal y (KAt k bo))
  | AOob m d k =>
      if mstate s m =? 1 then ([], setcell s m (-1), NsOob m d (KAt k bo))
      else nrun s (k not_active) bo
  | ACall m cl k =>
      if tskips cl bo then nrun s (k (RVal VNone)) bo
      else if mstate s m =? 0 then
        let s1 := setcell s m 1 in
        match tfirst_call bo (call_input cl) with
        | inr (bo', e) => nrun (setcell s1 m 0) (k (post cl (imm_res e))) bo'
        | inl t =>
            let '(evs, s2, io) := irelay m true (trun s1 t) in
            match io with
            | IEnd bo' r => napp evs (nrun s2 (k (post cl r)) bo')
            | IReal y kb => (evs, s2, NsReal y (KIn m cl k kb))
            | IOut m' d kb => (evs, s2, NsOob m' d (KIn m cl k kb))
            end
        end
      else nrun s (k (RExc (RuntimeError RtMonitorReentered))) bo
  end.

(* A after the inner relay has looked at B's stop *)
Definition nafter (m : Z) (cl : call) (ka : res -> aprog) (r : list event * store * iout)
  : list event * store * nstop :=
  let '(evs, s2, io) := r in
  match io with
  | IEnd bo' x => napp evs (nrun s2 (ka (post cl x)) bo')
  | IReal y kb => (evs, s2, NsReal y (KIn m cl ka kb))
  | IOut m' d kb => (evs, s2, NsOob m' d (KIn m cl ka kb))
  end.

(* i is sent / thrown into A where it is suspended *)
Definition nresume (s : store) (k : nk) (i : input) : list event * store * nstop :=
  match k with
  | KAt ka bo => nrun s (ka i) bo
  | KIn m cl ka kb =>
      match i with
      | Throw GeneratorExit =>
          (* the inner relay closes B and re-raises; `finally: state = 0`; A's own await
             re-raises GeneratorExit whatever the call did with it (bound_fix) *)
          let '(evs, s2, (bo', x)) := tclose_res (trun s (kb (Throw GeneratorExit))) in
          napp evs (nrun (setcell s2 m 0)
                         (ka (bound_fix true i (post cl (RExc (exn_after_close x))))) bo')
      | _ => nafter m cl ka (irelay m false (trun s (kb i)))
      end
  end.

(* ---- the OUTER relay (M1) around A: mirror of MonitorSpec.trelay / tclose / tcall_* *)
Definition ngstop := gstop nobj nk.

Definition nrelay (m1 : Z) (first : bool) (r : list event * store * nstop)
  : list event * store * ngstop :=
  let '(evs, s, st) := r in
  match st with
  | NsRet v => (evs, setcell s m1 0, GEnd NFin (RVal v))
  | NsRaise e => (evs, setcell s m1 0, GEnd NFin (RExc (first_exn first (pep479 KCoro e))))
  | NsReal y k => (evs, s, GSusp y k)
  | NsOob m' d k =>
      if m' =? m1 then (evs, setcell (setcell s m1 1) m1 0, GEnd (NSus k) (RExc (OOBData d)))
      else (evs, s, GSusp d k)
  end.

Definition nclose (m1 : Z) (r : list event * store * nstop) : list event * store * ngstop :=
  let '(evs, s, st) := r in
  let fin o x := (evs, setcell s m1 0, GEnd o (RExc (exn_after_close x))) in
  match st with
  | NsRet _ => fin NFin None
  | NsRaise e => fin NFin (if is_genexit e then None else Some (pep479 KCoro e))
  | NsReal _ k => fin (NSus k) (Some (RuntimeError RtIgnoredGenExit))
  | NsOob _ _ k => fin (NSus k) (Some (RuntimeError RtIgnoredGenExit))
  end.

(* the first A.send / A.throw of a call: inl = A runs, inr = raises at once *)
Definition nfirst_call (s : store) (o : nobj) (i : input)
  : (list event * store * nstop) + (nobj * exn) :=
  match o, i with
  | NNew a bo, Send VNone => inl (nrun s a bo)
  | NNew _ _, Send _ => inr (o, TypeError 1)
  | NNew _ _, Throw e => inr (NFin, e)
  | NSus k, _ => inl (nresume s k i)
  | NFin, _ => inr (o, RuntimeError RtReuse)
  end.

Definition nskips (cl : call) (o : nobj) : bool :=
  match cl, o with CClose, NFin => true | _, _ => false end.

Definition npost (cl : call) (r : list event * store * ngstop) : list event * store * ngstop :=
  let '(evs, s, st) := r in
  (evs, s, match st with GEnd o x => GEnd o (post cl x) | _ => st end).

Definition ncall_run (m1 : Z) (s : store) (o : nobj) (cl : call) : list event * store * ngstop :=
  if nskips cl o then ([], s, GEnd o (RVal VNone))
  else if mstate s m1 =? 0 then
    let s1 := setcell s m1 1 in
    npost cl match nfirst_call s1 o (call_input cl) with
             | inl r => nrelay m1 true r
             | inr (o', e) => ([], setcell s1 m1 0, GEnd o' (imm_res e))
             end
  else ([], s, GEnd o (RExc (RuntimeError RtMonitorReentered))).

Definition ncall_resume (m1 : Z) (cl : call) (s : store) (k : nk) (i : input)
  : list event * store * ngstop :=
  npost cl match i with
           | Throw GeneratorExit => nclose m1 (nresume s k (Throw GeneratorExit))
           | _ => nrelay m1 false (nresume s k i)
           end.

(* a whole driver history on M1 *)
Definition nsession (m1 : Z) : store -> nobj -> list (call * list input) -> list (list gobs) :=
  @gsession nobj nk (ncall_run m1) (ncall_resume m1).

(* ------------------------------------------- embedding into the model's objects *)
Definition bemb (k : input -> mtree) : input -> coro := fun i => emb (k i).

Definition akont (ka : res -> aprog) : cobj -> res -> coro := fun o' r => adenote (ka r) o'.

(* the continuation a caller's `await m.<cl>(o)` stores at a real suspension
   (= MonitorProofs.call_cont) *)
Definition ccont (m : Z) (cl : call) (k : input -> coro) (kont : cobj -> res -> coro) :=
  relay_cont m k (fun o' r => kont o' (post cl r))
             (fun o' r => kont o' (bound_fix true (Throw GeneratorExit) (post cl r))).

Definition nk_emb (k : nk) : input -> coro :=
  match k with
  | KAt ka bo => fun i => adenote (ka i) (obj_emb bo)
  | KIn m cl ka kb => ccont m cl (bemb kb) (akont ka)
  end.

Definition nobj_emb (o : nobj) : cobj :=
  match o with
  | NNew a bo => New (adenote a (obj_emb bo))
  | NSus k => Suspended (nk_emb k)
  | NFin => Finished
  end.

(* ----------------------------------------------------------- what was seen where *)
(* is A suspended inside a call through monitor m? *)
Definition inside (m : Z) (k : nk) : bool :=
  match k with KIn m' _ _ _ => m' =? m | KAt _ _ => false end.
Definition inside_obj (m : Z) (o : nobj) : bool :=
  match o with NSus k => inside m k | _ => false end.

(* per step: what came out at the M1 driver, and the states of two monitors *)
Definition surfaced (m1 m2 : Z) (tr : list (list gobs)) : list (list (outcome * Z * Z)) :=
  map (map (fun g : gobs => (snd (fst g), mstate (snd g) m1, mstate (snd g) m2))) tr.
Definition logged (tr : list (list gobs)) : list event :=
  flat_map (flat_map (fun g : gobs => fst (fst g))) tr.
