(* Correspondence interface of C02 (and of the shared coroutine layer).

   native : a generated body driven directly as a coroutine object by an
            arbitrary send/throw/close sequence (also before the start and
            after the end).  Reference = CPython itself: validates Tree.v,
            Native.v and Prog.denote.
   wrap   : the body behind a stack of asynkit wrappers, the outermost
            wrapper's iterator driven until the await is over.
   cs     : CoroStart(body) followed by `await cs.athrow(e)` / `await
            cs.aclose()` / a second await after the first is over. *)
From Asynkit Require Import Base.Prelude Base.Obs Coro.Tree Coro.Native Coro.Prog Coro.Relay.

(* --- native ------------------------------------------------------------- *)
Fixpoint drive_states (kd : kind) (o : cobj) (s : store) (ops : list dop) : list obs :=
  match ops with
  | [] => []
  | op :: t => let r := apply_op kd o s op in
               OL [olist oevent (r_events r); ooutcome (r_out r); ostate (r_obj r)]
               :: drive_states kd (r_obj r) (r_store r) t
  end.

Definition native_run (i : prog * list dop) : obs :=
  let '(p, ops) := i in OL (drive_states KCoro (New (body_of p)) [] ops).

(* --- wrapper stacks ----------------------------------------------------- *)
Definition kind_of (w : wrapper) : kind :=
  match w with
  | WCoroStart | WCoroIter | WAwaitMethodIter => KGen
  | _ => KCoro
  end.

(* what the outermost wrapper's own bookkeeping shows after a step:
   Monitor.state for the monitors, `start_result is None` for CoroStart *)
Definition aux_after (w : wrapper) (out : outcome) : Z :=
  match w with
  | WMonitor | WBoundMonitor => match out with OYield _ => 1 | _ => 0 end
  | WCoroStart | WAsCoroutine => 1
  | _ => 0
  end.

Fixpoint drive_aux (w : wrapper) (kd : kind) (o : cobj) (s : store) (ops : list dop) : list obs :=
  match ops with
  | [] => []
  | op :: t => let r := apply_op kd o s op in
               OL [olist oevent (r_events r); ooutcome (r_out r); OI (aux_after w (r_out r))]
               :: match r_out r with
                  | OYield _ => drive_aux w kd (r_obj r) (r_store r) t
                  | _ => []
                  end
  end.

(* number of log entries written while the stack is being constructed: the
   first segment of the body if some wrapper of the stack is eager *)
Definition construction_events (ws : list wrapper) (c : coro) : Z :=
  if existsb eager_wrapper ws
  then let '(evs, _, _) := run [] c in Z.of_nat (length evs)
  else 0.

Definition wrap_run (i : list wrapper * prog * list dop) : obs :=
  let '(ws, p, ops) := i in
  let c := body_of p in
  match ws with
  | [] => OL []
  | w :: _ =>
      OL [OI (construction_events ws c);
          OL (drive_aux w (kind_of w) (New (wrap_stack ws c)) [] ops)]
  end.

(* --- CoroStart.athrow / aclose / reuse ------------------------------------ *)
Inductive cs_mode := MAthrow (e : exn) | MAclose | MAwait.

Definition cs_of_stop (st : stop) : cs_state :=
  match st with
  | SRet v => CsValue v
  | SRaise e => CsExc (pep479 KCoro e)
  | SSusp y k => CsSusp y k
  end.

Definition ocs (st : cs_state) : obs :=     (* [done(), start_result is None] *)
  OL [ob (cs_done st); ob (match st with CsNone => true | _ => false end)].

(* the trace of one awaitable derived from the CoroStart, and whether it ran to its end *)
Definition cs_tree (st : cs_state) (m : cs_mode) : kind * coro :=
  match m with
  | MAthrow e => (KCoro, cs_athrow st e)
  | MAclose => (KCoro, cs_aclose st)
  | MAwait => (KGen, cs_await st)
  end.

Definition cs_run (i : prog * cs_mode * list dop * cs_mode * list dop) : obs :=
  let '(p, m1, ops1, m2, ops2) := i in
  let '(evs0, s0, stp) := run [] (body_of p) in
  let st := cs_of_stop stp in
  let '(kd1, t1) := cs_tree st m1 in
  let tr1 := drive_stop kd1 (New t1) s0 ops1 in
  (* a second awaitable is only derived when the first one ran to its end:
     then start_result is None and the coroutine has finished *)
  let ended := match last (map snd tr1) (OYield VNone) with
               | OYield _ | ORaise (RuntimeError RtIgnoredGenExit) => false
               | _ => true
               end in
  let tr2 := if ended then
               let '(kd2, t2) := cs_tree CsNone m2 in drive_stop kd2 (New t2) s0 ops2
             else [] in
  OL [olist oevent evs0; ocs st; otrace tr1; otrace tr2].
