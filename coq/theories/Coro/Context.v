(* contextvars and the [context=] argument of CoroStart / coro_await / eager
   (property C04).

   A context is a finite map var -> val ([ctx] = Tree.store: association list,
   newest binding first, unset variables read as the ContextVar default None;
   an *empty* Context is the empty list: len() == 0, falsy).

   `context.run(f)` is written into the trees as a pair of marker events
       Eff (ev_enter vt) ( ... the code of f ... Eff ev_exit ( ... ))
   and interpreted by [crun] on a state (current context of the caller,
   optional supplied context, "inside run"): entering makes the supplied context
   the one that Get / Set_ act on, leaving makes the caller's context current
   again; the supplied context object keeps what was written (it is mutable).
   The marker carries which test guards the call:
       VInt 1   `if self.context is not None`     (repaired code)
       VInt 0   `if self.context`                 (original code: an empty
                                                   Context() is falsy -> not entered)
   [crun] also records every Get / Set_ it evaluates ([access]), whatever context
   it was evaluated against.

   Transcription (coroutine.py, after fixes/F3-context.patch; the [variant]
   switches give the original code back, path by path):
     CoroStart._start            -> ctx_run                 (context.run in both)
     CoroStart.__await__         -> cs_await_ctx/relay_ctx  (send, throw: context.run in both;
                                     GeneratorExit -> coro.close(): context.run iff v_run_genexit)
     CoroStart.athrow / aclose   -> cs_athrow_ctx / cs_aclose_ctx   (context.run in both)
     CoroStart.as_coroutine      -> cs_as_coroutine_ctx
     CoroStart.throw (sync)      -> cs_throw_sync           (context.run iff v_run_throw)
     CoroStart.close (sync)      -> cs_close_sync           (context.run iff v_run_close)
     coro_await(c, context=x)    -> coro_await_ctx
     coro_eager: CoroStart(c, context=copy_context()) -> [CEagerCopy]: the supplied
                                     context starts as a copy of the caller's
   [given] = a context argument was passed (`context is not None` never changes
   after __init__); with [given = false] no marker is produced at all and the
   trees are those of Relay.v.

   Scope: one awaitable of a CoroStart at a time, each driven until it ends
   (as in C02); after 'coroutine ignored GeneratorExit' the script stops.

   Model file: definitions only.  Proofs: ContextProofs.v. *)
From Asynkit Require Import Base.Prelude Base.Obs Coro.Tree Coro.Native Coro.Relay.

Definition ctx := store.

(* ------------------------------------------------------------- variants *)
Record variant := mkvariant {
  v_not_none : bool;      (* tests are `is not None` (else truthiness) *)
  v_run_genexit : bool;   (* __await__: GeneratorExit -> context.run(coro.close) *)
  v_run_throw : bool;     (* throw(): context.run(coro.throw, ..) *)
  v_run_close : bool      (* close(): context.run(coro.close) *)
}.
Definition repaired : variant := mkvariant true true true true.
Definition original : variant := mkvariant false false false false.

(* ------------------------------------------------------ context.run markers *)
Definition TAG_ENTER : Z := 90.
Definition TAG_EXIT : Z := 91.
Definition ev_enter (vt : variant) : event :=
  EUser TAG_ENTER (VInt (if v_not_none vt then 1 else 0)).
Definition ev_exit : event := EUser TAG_EXIT VNone.

Definition mark (b : bool) (ev : event) (c : coro) : coro := if b then Eff ev c else c.

(* ------------------------------------------------------------ interpreter *)
Record cstate := mkcstate { cur : ctx; sup : option ctx; inside : bool }.

Inductive access := ARead (x : var) (v : val) | AWrite (x : var) (v : val).

Definition truthy (c : ctx) : bool := match c with [] => false | _ => true end.

(* does `context.run` get called?  k = the kind of test carried by the marker *)
Definition test_passes (k : val) (s : option ctx) : bool :=
  match s with
  | None => false
  | Some x => match k with VInt 1 => true | _ => truthy x end
  end.

Definition active (s : cstate) : ctx :=
  if inside s then match sup s with Some x => x | None => cur s end else cur s.

Definition write (s : cstate) (x : var) (v : val) : cstate :=
  if inside s
  then match sup s with
       | Some c => mkcstate (cur s) (Some (update c x v)) true
       | None => mkcstate (update (cur s) x v) None true
       end
  else mkcstate (update (cur s) x v) (sup s) false.

Definition enter (k : val) (s : cstate) : cstate :=
  if inside s then s
  else if test_passes k (sup s) then mkcstate (cur s) (sup s) true else s.
Definition leave (s : cstate) : cstate := mkcstate (cur s) (sup s) false.

Definition cresult := (list event * list access * cstate * stop)%type.

Definition add_ev (ev : event) (r : cresult) : cresult :=
  let '(evs, log, s, st) := r in (ev :: evs, log, s, st).
Definition add_acc (a : access) (r : cresult) : cresult :=
  let '(evs, log, s, st) := r in (evs, a :: log, s, st).

(* run a tree to its next stop; markers switch the context and are not events *)
Fixpoint crun (s : cstate) (c : coro) : cresult :=
  match c with
  | Ret v => ([], [], s, SRet v)
  | Raise e => ([], [], s, SRaise e)
  | Eff ev c' =>
      match ev with
      | EUser t k =>
          if (t =? TAG_ENTER)%Z then crun (enter k s) c'
          else if (t =? TAG_EXIT)%Z then crun (leave s) c'
          else add_ev ev (crun s c')
      | _ => add_ev ev (crun s c')
      end
  | Get x k => let v := lookup (active s) x in add_acc (ARead x v) (crun s (k v))
  | Set_ x v c' => add_acc (AWrite x v) (crun (write s x v) c')
  | Susp y k => ([], [], s, SSusp y k)
  end.

(* what a context looks like after the writes of a log, and whether every read
   of the log returned the latest write before it (or the initial value) *)
Definition apply_access (c : ctx) (a : access) : ctx :=
  match a with AWrite x v => update c x v | ARead _ _ => c end.
Definition replay (c : ctx) (log : list access) : ctx := fold_left apply_access log c.

Fixpoint reads_latest (c : ctx) (log : list access) : Prop :=
  match log with
  | [] => True
  | ARead x v :: t => v = lookup c x /\ reads_latest c t
  | AWrite x v :: t => reads_latest (update c x v) t
  end.

(* -------------------------------------------- objects driven under [crun] *)
Record cresp := mkcresp {
  cr_events : list event; cr_log : list access; cr_out : outcome; cr_obj : cobj; cr_state : cstate }.

Definition csettle (kd : kind) (r : cresult) : cresp :=
  let '(evs, log, s, st) := r in
  match st with
  | SRet v => mkcresp evs log (OReturn v) Finished s
  | SRaise e => mkcresp evs log (ORaise (pep479 kd e)) Finished s
  | SSusp y k => mkcresp evs log (OYield y) (Suspended k) s
  end.

Definition c_send (kd : kind) (o : cobj) (s : cstate) (v : val) : cresp :=
  match o with
  | New c => match v with
             | VNone => csettle kd (crun s c)
             | _ => mkcresp [] [] (ORaise (TypeError 1)) o s
             end
  | Suspended k => csettle kd (crun s (k (Send v)))
  | Running => mkcresp [] [] (ORaise (ValueError 1)) o s
  | Finished => mkcresp [] [] (match kd with
                               | KCoro => ORaise (RuntimeError RtReuse)
                               | KGen => OReturn VNone
                               end) o s
  end.

Definition c_throw (kd : kind) (o : cobj) (s : cstate) (e : exn) : cresp :=
  match o with
  | New c => mkcresp [] [] (ORaise e) Finished s
  | Suspended k => csettle kd (crun s (k (Throw e)))
  | Running => mkcresp [] [] (ORaise (ValueError 1)) o s
  | Finished => mkcresp [] [] (ORaise (match kd with
                                       | KCoro => RuntimeError RtReuse
                                       | KGen => e
                                       end)) o s
  end.

Definition c_close (kd : kind) (o : cobj) (s : cstate) : cresp :=
  match o with
  | New c => mkcresp [] [] (OReturn VNone) Finished s
  | Suspended k =>
      let '(evs, log, s', st) := crun s (k (Throw GeneratorExit)) in
      match st with
      | SRet _ => mkcresp evs log (OReturn VNone) Finished s'
      | SRaise e => if is_genexit e then mkcresp evs log (OReturn VNone) Finished s'
                    else mkcresp evs log (ORaise (pep479 kd e)) Finished s'
      | SSusp _ k' => mkcresp evs log (ORaise (RuntimeError RtIgnoredGenExit)) (Suspended k') s'
      end
  | Running => mkcresp [] [] (ORaise (ValueError 1)) o s
  | Finished => mkcresp [] [] (OReturn VNone) o s
  end.

Definition c_apply (kd : kind) (o : cobj) (s : cstate) (op : dop) : cresp :=
  match op with
  | DSend v => c_send kd o s v
  | DThrow e => c_throw kd o s e
  | DClose => c_close kd o s
  end.

(* apply operations until the first one that does not yield (the await is over) *)
Fixpoint c_drive_stop (kd : kind) (o : cobj) (s : cstate) (ops : list dop) : list cresp :=
  match ops with
  | [] => []
  | op :: t => let r := c_apply kd o s op in
               r :: match cr_out r with
                    | OYield _ => c_drive_stop kd (cr_obj r) (cr_state r) t
                    | _ => []
                    end
  end.

(* --------------------------------------------------------- the CoroStart *)
(* `context.run(coro.send / coro.throw, ..) if <test> else coro.send(..)`:
   [c] is what the coroutine does in answer; [kont] gets how the segment ended
   (value / exception with PEP 479 / suspended at y with continuation k) *)
Definition ctx_run (vt : variant) (use_run : bool) (c : coro) (kont : cs_state -> coro) : coro :=
  mark use_run (ev_enter vt) (cs_start c (fun st => mark use_run ev_exit (kont st))).

(* `context.run(coro.close) if <test> else coro.close()` *)
Definition ctx_close (vt : variant) (use_run : bool) (c : coro) (kont : option exn -> coro) : coro :=
  mark use_run (ev_enter vt) (close_then KCoro c (fun r => mark use_run ev_exit (kont r))).

(* the relay loop of CoroStart.__await__ ; [c] = the coroutine's answer to the
   coro.send / coro.throw just made (under context.run when [given]) *)
Fixpoint relay_ctx (vt : variant) (given : bool) (c : coro) : coro :=
  match c with
  | Ret v => mark given ev_exit (Ret v)
  | Raise e => mark given ev_exit (Raise (pep479 KCoro e))
  | Eff ev c' => Eff ev (relay_ctx vt given c')
  | Get x k => Get x (fun v => relay_ctx vt given (k v))
  | Set_ x v c' => Set_ x v (relay_ctx vt given c')
  | Susp y k =>
      mark given ev_exit
        (Susp y (fun i =>
           match i with
           | Throw GeneratorExit =>            (* self._close(); raise *)
               ctx_close vt (given && v_run_genexit vt) (k (Throw GeneratorExit))
                         (fun r => Raise (exn_after_close r))
           | _ => mark given (ev_enter vt) (relay_ctx vt given (k i))
           end))
  end.

(* the generator suspended at `yield out_value` with the coroutine suspended at k *)
Definition relay_wait (vt : variant) (given : bool) (y : val) (k : input -> coro) : coro :=
  Susp y (fun i =>
    match i with
    | Throw GeneratorExit =>
        ctx_close vt (given && v_run_genexit vt) (k (Throw GeneratorExit))
                  (fun r => Raise (exn_after_close r))
    | _ => mark given (ev_enter vt) (relay_ctx vt given (k i))
    end).

(* self.start_result *)
Inductive sres :=
| SrNone                 (* None *)
| SrOut (y : val)        (* (y, None) *)
| SrVal (v : val)        (* (None, StopIteration(v)) *)
| SrExc (e : exn).       (* (None, e) *)

Definition sr_done (r : sres) : bool := match r with SrVal _ | SrExc _ => true | _ => false end.
Definition sr_none (r : sres) : bool := match r with SrNone => true | _ => false end.

Definition sres_of (st : cs_state) : sres :=
  match st with CsValue v => SrVal v | CsExc e => SrExc e | CsSusp y _ => SrOut y | CsNone => SrNone end.
Definition body_of_cs (st : cs_state) : cobj :=
  match st with CsSusp _ k => Suspended k | _ => Finished end.

(* the generator CoroStart.__await__(); [b] = the wrapped coroutine object *)
Definition cs_await_ctx (vt : variant) (given : bool) (r : sres) (b : cobj) : coro :=
  match r with
  | SrNone => Raise (RuntimeError RtReuse)        (* self.coro.send(None) on the finished coroutine *)
  | SrVal v => Ret v
  | SrExc e => Raise e
  | SrOut y =>
      match b with
      | Suspended k => relay_wait vt given y k
      | _ =>                                       (* the coroutine was finished by a sync throw() *)
          Susp y (fun i => match i with
                           | Throw GeneratorExit => Raise GeneratorExit   (* close(): no-op; raise *)
                           | _ => Raise (RuntimeError RtReuse)
                           end)
      end
  end.

Definition cs_await_of (vt : variant) (given : bool) (st : cs_state) : coro :=
  cs_await_ctx vt given (sres_of st) (body_of_cs st).

(* async def as_coroutine(self): return await self *)
Definition cs_as_coroutine_ctx (vt : variant) (given : bool) (r : sres) (b : cobj) : coro :=
  native_await_gen (cs_await_ctx vt given r b).

(* async def athrow(self, exc) *)
Definition cs_athrow_ctx (vt : variant) (given : bool) (b : cobj) (e : exn) : coro :=
  match b with
  | Suspended k =>
      ctx_run vt given (k (Throw e)) (fun st => native_await_gen (cs_await_of vt given st))
  | _ => native_await_gen (cs_await_ctx vt given (SrExc (RuntimeError RtReuse)) b)
  end.

(* async def aclose(self) *)
Definition cs_aclose_ctx (vt : variant) (given : bool) (r : sres) (b : cobj) : coro :=
  match r with
  | SrOut _ =>
      await_ KCoro (cs_athrow_ctx vt given b GeneratorExit)
             (fun _ => Ret VNone)
             (fun e => if is_genexit e then Ret VNone else Raise e)
  | _ => Ret VNone
  end.

(* async def coro_await(coro, *, context=None): cs = CoroStart(coro, context=context); return await cs *)
Definition coro_await_ctx (vt : variant) (given : bool) (c : coro) : coro :=
  ctx_run vt given c (fun st => native_await_gen (cs_await_of vt given st)).

(* ------------------------------------------ the synchronous throw() / close() *)
Definition unstop (st : cs_state) : coro :=
  match st with
  | CsValue v => Ret v
  | CsExc e => Raise e
  | CsSusp y k => Susp y k
  | CsNone => Ret VNone
  end.

Record sync_result := mksync {
  sy_events : list event; sy_log : list access; sy_out : outcome; sy_body : cobj; sy_state : cstate }.

(* def throw(self, exc, tries=1) *)
Fixpoint cs_throw_sync (vt : variant) (given : bool) (s : cstate) (b : cobj) (e : exn) (tries : nat)
  : sync_result :=
  match tries with
  | O => mksync [] [] (ORaise (RuntimeError (if is_genexit e then RtIgnoredGenExit else RtOther 99))) b s
  | S n =>
      match b with
      | Suspended k =>
          let '(evs, log, s', st) :=
            crun s (ctx_run vt (given && v_run_throw vt) (k (Throw e)) unstop) in
          match st with
          | SRet v => mksync evs log (OReturn v) Finished s'
          | SRaise e' => mksync evs log (ORaise e') Finished s'
          | SSusp _ k' =>
              let r := cs_throw_sync vt given s' (Suspended k') e n in
              mksync (evs ++ sy_events r) (log ++ sy_log r) (sy_out r) (sy_body r) (sy_state r)
          end
      | _ => mksync [] [] (ORaise (RuntimeError RtReuse)) b s
      end
  end.

(* def close(self): self.start_result = None; self._close() *)
Definition cs_close_sync (vt : variant) (given : bool) (s : cstate) (b : cobj) : sync_result :=
  match b with
  | Suspended k =>
      let '(evs, log, s', st) :=
        crun s (ctx_close vt (given && v_run_close vt) (k (Throw GeneratorExit))
                          (fun r => match r with None => Ret VNone | Some e => Raise e end)) in
      match st with
      | SRaise e' => mksync evs log (ORaise e') (match e' with
                                                  | RuntimeError RtIgnoredGenExit => Running
                                                  | _ => Finished
                                                  end) s'
      | _ => mksync evs log (OReturn VNone) Finished s'
      end
  | _ => mksync [] [] (OReturn VNone) b s
  end.

(* ------------------------------------------------------------- scripts *)
Inductive amode := MAwait | MAthrow (e : exn) | MAclose | MAsCoro.

Inductive phase :=
| PThrow (e : exn) (tries : nat)          (* cs.throw(e, tries) *)
| PClose                                  (* cs.close() *)
| PAwaitable (m : amode) (ops : list dop).
     (* it = cs.__await__() / cs.athrow(e) / cs.aclose() / cs.as_coroutine();
        it.send(None), then ops, until it ends *)

Record world := mkworld { w_state : cstate; w_sr : sres; w_body : cobj }.

Record step := mkstep {
  st_events : list event; st_log : list access; st_out : outcome;
  st_cur : ctx; st_sup : option ctx; st_done : bool; st_srnone : bool }.

Definition awaitable (vt : variant) (given : bool) (w : world) (m : amode) : kind * coro :=
  match m with
  | MAwait => (KGen, cs_await_ctx vt given (w_sr w) (w_body w))
  | MAthrow e => (KCoro, cs_athrow_ctx vt given (w_body w) e)
  | MAclose => (KCoro, cs_aclose_ctx vt given (w_sr w) (w_body w))
  | MAsCoro => (KCoro, cs_as_coroutine_ctx vt given (w_sr w) (w_body w))
  end.

Definition step_of_cresp (r : cresp) : step :=
  mkstep (cr_events r) (cr_log r) (cr_out r) (cur (cr_state r)) (sup (cr_state r)) false true.

Definition still_going (o : outcome) : bool :=
  match o with
  | OYield _ | ORaise (RuntimeError RtIgnoredGenExit) => true
  | _ => false
  end.

(* one phase: its steps, the world after it, and whether the script goes on *)
Definition run_phase (vt : variant) (given : bool) (w : world) (p : phase) : list step * world * bool :=
  match p with
  | PThrow e n =>
      let r := cs_throw_sync vt given (w_state w) (w_body w) e n in
      ([mkstep (sy_events r) (sy_log r) (sy_out r) (cur (sy_state r)) (sup (sy_state r))
               (sr_done (w_sr w)) (sr_none (w_sr w))],
       mkworld (sy_state r) (w_sr w) (sy_body r), true)
  | PClose =>
      let r := cs_close_sync vt given (w_state w) (w_body w) in
      ([mkstep (sy_events r) (sy_log r) (sy_out r) (cur (sy_state r)) (sup (sy_state r)) false true],
       mkworld (sy_state r) SrNone (sy_body r),
       negb (still_going (sy_out r)))
  | PAwaitable m ops =>
      let '(kd, t) := awaitable vt given w m in
      let rs := c_drive_stop kd (New t) (w_state w) (DSend VNone :: ops) in
      let last_r := last rs (mkcresp [] [] (OYield VNone) Finished (w_state w)) in
      (map step_of_cresp rs,
       mkworld (cr_state last_r) SrNone Finished,
       negb (still_going (cr_out last_r)))
  end.

Fixpoint run_phases (vt : variant) (given : bool) (w : world) (ps : list phase) : list step :=
  match ps with
  | [] => []
  | p :: t => let '(steps, w', go) := run_phase vt given w p in
              steps ++ (if go then run_phases vt given w' t else [])
  end.

(* the context argument *)
Inductive ctxarg :=
| CNone                  (* context=None *)
| CGiven (x : ctx)       (* context=x (possibly the empty Context()) *)
| CEagerCopy.            (* coro_eager: context=copy_context() *)

Definition is_given (a : ctxarg) : bool := match a with CNone => false | _ => true end.
Definition supplied (a : ctxarg) (caller : ctx) : option ctx :=
  match a with CNone => None | CGiven x => Some x | CEagerCopy => Some caller end.

(* cs = CoroStart(c, context=a) constructed in context [caller] *)
Definition cs_construct (vt : variant) (a : ctxarg) (caller : ctx) (c : coro) : step * world :=
  let s0 := mkcstate caller (supplied a caller) false in
  let '(evs, log, s, st) := crun s0 (ctx_run vt (is_given a) c unstop) in
  let '(r, b) := match st with
                 | SRet v => (SrVal v, Finished)
                 | SRaise e => (SrExc e, Finished)
                 | SSusp y k => (SrOut y, Suspended k)
                 end in
  (mkstep evs log (match st with SSusp y _ => OYield y | SRet v => OReturn v | SRaise e => ORaise e end)
          (cur s) (sup s) (sr_done r) false,
   mkworld s r b).

(* CoroStart(c, context=a), then the phases *)
Definition run_corostart (vt : variant) (a : ctxarg) (caller : ctx) (c : coro) (ps : list phase)
  : list step :=
  let '(s0, w) := cs_construct vt a caller c in
  s0 :: run_phases vt (is_given a) w ps.

(* it = coro_await(c, context=a); it.send(None); ops *)
Definition run_coro_await (vt : variant) (a : ctxarg) (caller : ctx) (c : coro) (ops : list dop)
  : list step :=
  map step_of_cresp
      (c_drive_stop KCoro (New (coro_await_ctx vt (is_given a) c))
                    (mkcstate caller (supplied a caller) false) (DSend VNone :: ops)).

(* coro_eager(c): started at once in a copy of the caller's context; if it did not
   finish, cs.as_coroutine() is what the Task drives *)
Definition run_eager (vt : variant) (caller : ctx) (c : coro) (ops : list dop) : list step :=
  let '(s0, w) := cs_construct vt CEagerCopy caller c in
  s0 :: (if sr_done (w_sr w) then [] else run_phases vt true w [PAwaitable MAsCoro ops]).
