(* Correspondence interface of C07 (Monitor with out-of-band data).

   [mprog]   bodies = Prog.prog without context variables, plus `await M[m].oob(d)`;
             denoted directly into [mtree] (Monitor.v), so every generated body
             is literally of the form [emb t] the theorems quantify over.
   raw_run   one body driven through monitors by a history of calls
             (aawait / athrow / aclose / start / try_await, plain or through a
             BoundMonitor); every call is a coroutine driven by raw
             send / throw / close; after a step that leaves the call suspended at
             a real suspension an optional re-entrant call is probed.
   nest_run  nested monitors: a stack of script coroutines (Monitor.script_k),
             each driving the next one through some monitor, the innermost an
             [mprog] body that may talk to every monitor; the outermost script
             coroutine is driven by raw send/throw/close, by a real Task (same
             operations: the answers of the futures) or by await_sync. *)
From Asynkit Require Import Base.Prelude Base.Obs Coro.Tree Coro.Native Coro.Monitor.
Open Scope Z_scope.

Inductive mprog :=
| MSkip
| MLog (n : Z)
| MTok (y : Z)                     (* L.append([1, enc(await tok(y))]) *)
| MOob (m : Z) (d : val)           (* L.append([4, m, enc(d)]); L.append([1, enc(await M[m].oob(d))]) *)
| MCall (p : mprog)
| MSeq (p q : mprog)
| MTry (body : mprog) (cls : list exc_class) (handler : mprog)
| MFin (body fin : mprog)
| MReturn (v : val)
| MRaise (e : exn)
| MReraise.

Fixpoint tdenote (p : mprog) (cur : option exn) (kn : mtree) (kr : val -> mtree)
         (ke : exn -> mtree) : mtree :=
  match p with
  | MSkip => kn
  | MLog n => TEff (ELog n) kn
  | MTok y => tawait_ KGen (ttok (VInt y)) (fun v => TEff (ERecv v) kn) ke
  | MOob m d => TEff (EUser m d) (tawait_ KGen (toob_gen m d) (fun v => TEff (ERecv v) kn) ke)
  | MCall q => tawait_ KCoro (tdenote q cur (TRet VNone) TRet TRaise)
                       (fun v => TEff (ECallRet v) kn) ke
  | MSeq a b => tdenote a cur (tdenote b cur kn kr ke) kr ke
  | MTry b cls h =>
      tdenote b cur kn kr
              (fun e => if matches_any cls e
                        then TEff (ECaught e) (tdenote h (Some e) kn kr ke)
                        else ke e)
  | MFin b f =>
      tdenote b cur (tdenote f cur kn kr ke)
              (fun v => tdenote f cur (kr v) kr ke)
              (fun e => tdenote f (Some e) (ke e) kr ke)
  | MReturn v => kr v
  | MRaise e => ke e
  | MReraise => ke (match cur with Some e => e | None => RuntimeError RtNoActiveExc end)
  end.

Definition tbody (p : mprog) : mtree := tdenote p None (TRet VNone) TRet TRaise.

(* ------------------------------------------------------------ observations *)
Definition ostates (nm : nat) (s : store) : obs :=
  OL (map (fun i => OI (mstate s (Z.of_nat i))) (seq 0 nm)).

Definition out_of_stop (stp : mstop) : outcome :=
  match stp with
  | MSusp y _ => OYield y
  | MEnd _ (RVal v) => OReturn v
  | MEnd _ (RExc e) => ORaise e
  end.

(* what close() of the call coroutine reports *)
Definition out_of_close (stp : mstop) : outcome :=
  match stp with
  | MEnd _ (RVal _) | MEnd _ (RExc GeneratorExit) => OReturn VNone
  | MEnd _ (RExc e) => ORaise e
  | MSusp _ _ => ORaise (RuntimeError RtIgnoredGenExit)
  end.

Definition obj_of_stop (stp : mstop) (dflt : cobj) : cobj :=
  match stp with MEnd o _ => o | MSusp _ k => Suspended k end.

(* a re-entrant call issued while the call in progress is suspended at a real suspension *)
Definition probe (nm : nat) (m : Z) (s : store) (k : input -> coro) (pc : option call)
  : obs * store :=
  match pc with
  | None => (OL [], s)
  | Some cl => let '(evs, s', stp) := call_run m s (Suspended k) cl in
               (OL [olist oevent evs; ooutcome (out_of_stop stp); ostates nm s'], s')
  end.

Definition rawop := (dop * option call)%type.

Definition step_obs (nm : nat) (evs : list event) (out : outcome) (s : store) (pr : obs) : obs :=
  OL [olist oevent evs; ooutcome out; ostates nm s; pr].

(* the call is suspended at a real suspension (continuation k of the driven coroutine) *)
Fixpoint raw_steps (nm : nat) (bd : bool) (m : Z) (cl : call) (s : store) (k : input -> coro)
         (ops : list rawop) : list obs * store * cobj :=
  match ops with
  | [] => (* the harness closes a call it abandons *)
      let '(evs, s', stp) := bound_resume bd m cl s k (Throw GeneratorExit) in
      ([step_obs nm evs (out_of_close stp) s' (OL [])], s', obj_of_stop stp Finished)
  | (op, pc) :: t =>
      let i := match op with DSend v => Send v | DThrow e => Throw e | DClose => Throw GeneratorExit end in
      let '(evs, s', stp) := bound_resume bd m cl s k i in
      let out := match op with DClose => out_of_close stp | _ => out_of_stop stp end in
      match stp with
      | MEnd o _ => ([step_obs nm evs out s' (OL [])], s', o)
      | MSusp _ k' =>
          let '(pr, s'') := probe nm m s' k' pc in
          let '(rest, s3, o3) := raw_steps nm bd m cl s'' k' t in
          (step_obs nm evs out s' pr :: rest, s3, o3)
      end
  end.

(* monitor, through a BoundMonitor?, call, probe after the first step, further operations *)
Definition rawcall := (Z * bool * call * option call * list rawop)%type.

Definition raw_call (nm : nat) (s : store) (o : cobj) (rc : rawcall) : list obs * store * cobj :=
  let '(m, bd, cl, pc, ops) := rc in
  let '(evs, s', stp) := call_run m s o cl in
  match stp with
  | MEnd o' _ => ([step_obs nm evs (out_of_stop stp) s' (OL [])], s', o')
  | MSusp _ k' =>
      let '(pr, s'') := probe nm m s' k' pc in
      let '(rest, s3, o3) := raw_steps nm bd m cl s'' k' ops in
      (step_obs nm evs (out_of_stop stp) s' pr :: rest, s3, o3)
  end.

Fixpoint raw_session (nm : nat) (s : store) (o : cobj) (calls : list rawcall) : list obs :=
  match calls with
  | [] => []
  | rc :: t => let '(tr, s', o') := raw_call nm s o rc in
               OL (tr ++ [ostate o']) :: raw_session nm s' o' t
  end.

Definition raw_run (i : mprog * nat * list rawcall) : obs :=
  let '(p, nm, calls) := i in OL (raw_session nm [] (New (emb (tbody p))) calls).

(* ---------------------------------------------------------- nested monitors *)
Inductive node := NBody (p : mprog) | NMid (sc : list item) (sub : node).

Fixpoint node_tree (n : node) : coro :=
  match n with
  | NBody p => emb (tbody p)
  | NMid sc sub => script_k sc (New (node_tree sub))
  end.

Fixpoint drive_mon (nm : nat) (o : cobj) (s : store) (ops : list dop) : list obs :=
  match ops with
  | [] => []
  | op :: t => let r := apply_op KCoro o s op in
               OL [olist oevent (r_events r); ooutcome (r_out r); ostates nm (r_store r)]
               :: match r_out r with
                  | OYield _ => drive_mon nm (r_obj r) (r_store r) t
                  | _ => []
                  end
  end.

(* asynkit.await_sync(coro): run to the first suspension; if it suspends throw
   SynchronousAbort into it, close it, raise SynchronousError *)
Definition sync_run (nm : nat) (c : coro) : list obs :=
  let r := co_send KCoro (New c) [] VNone in
  match r_out r with
  | OYield _ =>
      let r2 := co_throw KCoro (r_obj r) (r_store r) SynchronousAbort in
      let r3 := co_close KCoro (r_obj r2) (r_store r2) in
      let out := match r_out r3 with ORaise e => ORaise e | _ => ORaise SynchronousError end in
      [OL [olist oevent (r_events r ++ r_events r2 ++ r_events r3); ooutcome out;
           ostates nm (r_store r3)]]
  | out => [OL [olist oevent (r_events r); ooutcome out; ostates nm (r_store r)]]
  end.

(* mode 0 = raw send/throw/close, 1 = Task on a real loop (same operations), 2 = await_sync *)
Definition nest_run (i : node * nat * Z * list dop) : obs :=
  let '(n, nm, mode, ops) := i in
  if mode =? 2 then OL (sync_run nm (node_tree n))
  else OL (drive_mon nm (New (node_tree n)) [] ops).
