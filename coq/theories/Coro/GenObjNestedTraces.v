(* C06, part 4: the trace-level lifting of nested ayield.  Bodies that are
   bisimilar for every input except a thrown StopIteration ([eqvn],
   GenObjNested.v) give EQUAL GeneratorObjectIterator traces on every consumer
   history that throws no StopIteration; hence the body with every `yield d`
   replaced by `await g.ayield(d)` under n coroutine frames ([deepen n c])
   behaves, as a GeneratorObject, exactly like c, and (with C06_equiv_traces)
   like the native async generator with body c. *)
From Asynkit Require Import Base.Prelude Base.Obs Coro.Tree Coro.Native Coro.TreeProofs
  Coro.AsyncGen Coro.GenObj Coro.GenObjSim Coro.GenObjProofs Coro.GenObjNested.
Open Scope Z_scope.

Definition krel (k k' : input -> coro) : Prop := forall i, nsi i = true -> eqvn (k i) (k' i).

Inductive gstop_rel : gstop -> gstop -> Prop :=
| gr_ret v : gstop_rel (GRet v) (GRet v)
| gr_raise e : gstop_rel (GRaise e) (GRaise e)
| gr_yield d k k' : krel k k' -> gstop_rel (GYield d k) (GYield d k')
| gr_susp y k k' : krel k k' -> gstop_rel (GSusp y k) (GSusp y k').

(* running two such bodies to their next stop: same events, same store, same
   kind of stop with the same value, related continuations *)
Lemma grun_eqvn : forall c c', eqvn c c' -> forall s,
  exists evs s' st st', grun s c = (evs, s', st) /\ grun s c' = (evs, s', st') /\ gstop_rel st st'.
Proof.
  induction 1 as [v|e|ev c c' H IH|x g g' H IH|x v c c' H IH|y g g' H IH]; intros s.
  - exists [], s, (GRet v), (GRet v). split; [reflexivity|]. split; [reflexivity|constructor].
  - exists [], s, (GRaise e), (GRaise e). split; [reflexivity|]. split; [reflexivity|constructor].
  - rewrite !grun_eff_eq.
    inversion H as [v0|e0|ev0 c0 c0' H0|x0 k0 k0' H0|x0 v0 c0 c0' H0|y0 k0 k0' Hk0]; subst;
      try (destruct (IH s) as (evs & s' & st & st' & E1 & E2 & R); rewrite E1; rewrite ?E2;
           exists (ev :: evs), s', st, st'; split; [reflexivity|];
           split; [first [reflexivity | congruence]|exact R]).
    destruct (is_mark ev).
    + exists [], s, (GYield y0 k0), (GYield y0 k0'). split; [reflexivity|]. split; [reflexivity|].
      constructor. exact Hk0.
    + exists [ev], s, (GSusp y0 k0), (GSusp y0 k0'). split; [reflexivity|]. split; [reflexivity|].
      constructor. exact Hk0.
  - simpl. apply IH.
  - simpl. apply IH.
  - exists [], s, (GSusp y g), (GSusp y g'). split; [reflexivity|]. split; [reflexivity|].
    constructor. exact H.
Qed.

Inductive cobj_rel : cobj -> cobj -> Prop :=
| cr_new c c' : eqvn c c' -> cobj_rel (New c) (New c')
| cr_susp k k' : krel k k' -> cobj_rel (Suspended k) (Suspended k')
| cr_run : cobj_rel Running Running
| cr_fin : cobj_rel Finished Finished.

Definition gobj_rel (g g' : gobj) : Prop :=
  go_run g = go_run g' /\ go_mstate g = go_mstate g' /\ go_st g = go_st g' /\
  cobj_rel (go_coro g) (go_coro g').

(* consumer operations that put no StopIteration into the body *)
Definition nsi_hop (op : hop) : bool :=
  match op with
  | HStart (CThrow e) => nsi (Throw e)
  | HStart _ => true
  | HResume i => nsi i
  end.

Definition nsi_history (h : list hop) : Prop := forallb nsi_hop h = true.

Ltac run_pair Hk :=
  match goal with
  | |- context [grun ?s (?k ?i)] =>
      let evs := fresh "evs" in let s' := fresh "s'" in let st := fresh "st" in
      let st' := fresh "st'" in let E1 := fresh "E1" in let E2 := fresh "E2" in let R := fresh "R" in
      destruct (grun_eqvn _ _ (Hk i ltac:(first [reflexivity | assumption])) s)
        as (evs & s' & st & st' & E1 & E2 & R);
      rewrite E1, E2; destruct R as [?|ee|? ? ? ?|? ? ? ?]; [|destruct ee| |]
  end.

Ltac fin_rel :=
  cbn; repeat split; try reflexivity; try (constructor; assumption); try constructor.

Lemma go_hstep_eqvn : forall g g' p op, gobj_rel g g' -> nsi_hop op = true ->
  fst (go_hstep (g, p) op) = fst (go_hstep (g', p) op) /\
  snd (snd (go_hstep (g, p) op)) = snd (snd (go_hstep (g', p) op)) /\
  gobj_rel (fst (snd (go_hstep (g, p) op))) (fst (snd (go_hstep (g', p) op))).
Proof.
  intros [run m o s] [run' m' o' s'] p op (Hr & Hm & Hs & Ho) Hop. cbn in Hr, Hm, Hs, Ho. subst run' m' s'.
  assert (Hself : gobj_rel (mkgo run m o s) (mkgo run m o' s)) by (repeat split; assumption).
  destruct op as [c|i].
  - (* a call is started *)
    unfold go_hstep, go_start. cbn [go_run go_coro go_mstate go_st].
    destruct run; [destruct Ho; fin_rel|].
    destruct Ho as [c0 c0' Hc|k k' Hk| |]; cbn [co_finished].
    + (* created *)
      unfold mon_start. destruct (m =? 0); [|destruct c; fin_rel; assumption].
      destruct c as [v|e|]; cbn [gco_resume].
      * destruct v; try (fin_rel; assumption).
        destruct (grun_eqvn _ _ Hc s) as (evs & s' & st & st' & E1 & E2 & R). rewrite E1, E2.
        destruct R as [?|ee|? ? ? ?|? ? ? ?]; [|destruct ee| |]; fin_rel.
      * destruct e; fin_rel.
      * fin_rel.
    + (* suspended at a yield *)
      unfold mon_start. destruct (m =? 0); [|destruct c; fin_rel; assumption].
      destruct c as [v|e|]; cbn [gco_resume].
      * run_pair Hk; fin_rel.
      * cbn in Hop. run_pair Hk; fin_rel.
      * run_pair Hk; fin_rel.
    + unfold mon_start. destruct (m =? 0); destruct c; fin_rel.
    + destruct c; fin_rel.
  - (* the suspended awaitable is resumed *)
    unfold go_hstep. destruct p as [p|]; [|destruct Ho; fin_rel].
    unfold go_resume. cbn [go_coro go_st]. cbn in Hop.
    destruct Ho as [c0 c0' Hc|k k' Hk| |].
    + (* a created body below a suspended awaitable: unreachable, still related *)
      destruct i as [v|e].
      * cbn [mon_resume gco_resume]. destruct v; try (destruct p; fin_rel; assumption).
        destruct (grun_eqvn _ _ Hc s) as (evs & s' & st & st' & E1 & E2 & R). rewrite E1, E2.
        destruct R as [?|ee|? ? ? ?|? ? ? ?]; [|destruct ee| |]; destruct p; fin_rel.
      * destruct e; destruct p; fin_rel.
    + destruct i as [v|e].
      * cbn [mon_resume gco_resume]. run_pair Hk; destruct p; fin_rel.
      * destruct e; cbn [mon_resume gco_resume gco_close]; run_pair Hk; destruct p; fin_rel.
    + destruct i as [v|e]; [|destruct e]; destruct p; fin_rel.
    + destruct i as [v|e]; [|destruct e]; destruct p; fin_rel.
Qed.

Lemma go_trace_eqvn : forall h g g' p, gobj_rel g g' -> nsi_history h ->
  go_trace (g, p) h = go_trace (g', p) h.
Proof.
  induction h as [|op t IH]; intros g g' p Hrel Hh; [reflexivity|].
  unfold nsi_history in Hh. simpl in Hh. apply andb_prop in Hh. destruct Hh as [Hop Ht].
  cbn [go_trace].
  destruct (go_hstep_eqvn g g' p op Hrel Hop) as (E1 & E2 & R).
  destruct (go_hstep (g, p) op) as [o [g1 p1]]. destruct (go_hstep (g', p) op) as [o' [g1' p1']].
  cbn [fst snd] in *. subst o' p1'. f_equal. apply IH; assumption.
Qed.

(* bodies bisimilar up to thrown StopIteration: EQUAL GeneratorObjectIterator traces
   (events, exact outcome, ag_running, coroutine state, awaitable left suspended)
   on every history that throws no StopIteration *)
Theorem eqvn_go_traces : forall c c' s h, eqvn c c' -> nsi_history h ->
  go_trace (go_new c s, None) h = go_trace (go_new c' s, None) h.
Proof.
  intros c c' s h Hc Hh. apply go_trace_eqvn; [|assumption].
  repeat split; try reflexivity. constructor. assumption.
Qed.

(* every `yield d` of c replaced by `await g.ayield(d)` under n coroutine frames *)
Theorem nested_ayield_traces : forall n c s h, nsi_history h ->
  go_trace (go_new (deepen n c) s, None) h = go_trace (go_new c s, None) h.
Proof. intros n c s h Hh. apply eqvn_go_traces; [apply deepen_eqvn|assumption]. Qed.

Lemma ok_history_nsi : forall h,
  ok_history h ->
  forallb (fun op => match op with HResume (Throw (StopIteration _)) => false | _ => true end) h = true ->
  nsi_history h.
Proof.
  induction h as [|op t IH]; intros Hok Hn; [reflexivity|].
  unfold ok_history, nsi_history in *. simpl in *.
  apply andb_prop in Hok. destruct Hok as [Hop Hok]. apply andb_prop in Hn. destruct Hn as [Hn1 Hn].
  rewrite (IH Hok Hn), Bool.andb_true_r.
  destruct op as [[v|e|]|[v|e]]; try reflexivity; destruct e; simpl in *; try reflexivity; discriminate.
Qed.

(* ... against the NATIVE async generator with the flat body c (`yield d`):
   whole-trace equivalence, composing with C06_equiv_traces *)
Theorem nested_ayield_native : forall n c s h,
  oob_free c -> ok_history h -> nsi_history h ->
  never_stops (ag_new c s, None) h = true ->
  Forall2 same_obs (ag_trace (ag_new c s, None) h) (go_trace (go_new (deepen n c) s, None) h).
Proof.
  intros n c s h Hc Hok Hn Hns. rewrite (nested_ayield_traces n c s h Hn).
  apply genobj_equiv_traces; assumption.
Qed.

(* the same with the condition on the history spelled out *)
Theorem nested_ayield_traces_spelled : forall n c s h,
  forallb (fun op => match op with
                     | HStart (CThrow (StopIteration _)) | HResume (Throw (StopIteration _)) => false
                     | _ => true
                     end) h = true ->
  go_trace (go_new (deepen n c) s, None) h = go_trace (go_new c s, None) h.
Proof.
  intros n c s h H. apply nested_ayield_traces. unfold nsi_history.
  induction h as [|op t IH]; [reflexivity|]. simpl in *.
  apply andb_prop in H. destruct H as [H1 H2]. rewrite (IH H2), Bool.andb_true_r.
  destruct op as [[v|e|]|[v|e]]; try reflexivity; destruct e; simpl in *; try reflexivity; discriminate.
Qed.

(* ----------------------------------------------------------------- example *)
(* try: log 1; v = yield 1; log v; w = await tok(11); yield w   finally: log 9 *)
Definition ex_nt_body : coro :=
  Eff (ELog 1) (yield_ (VInt 1)
     (fun r => Eff (ERecv r) (await_ KGen (tok (VInt 11))
                                (fun v => yield_ v (fun _ => Eff (ELog 9) (Ret VNone))
                                                 (fun e => Eff (ELog 9) (Raise e)))
                                (fun e => Eff (ELog 9) (Raise e))))
     (fun e => Eff (ELog 9) (Raise e))).

Lemma ex_nt_body_free : oob_free ex_nt_body.
Proof.
  unfold ex_nt_body, yield_, tok. simpl. prove_free.
  match goal with H : not_oob ?x = true |- _ => destruct x; simpl in *; try discriminate end;
    prove_free.
Qed.

(* anext; asend 7 (suspends on the token); the token answers 5 (second value);
   athrow E1 at the second yield (the finally block runs); anext on the dead generator *)
Definition ex_nt_hist : list hop :=
  [HStart (CSend VNone); HStart (CSend (VInt 7)); HResume (Send (VInt 5));
   HStart (CThrow (E 1)); HStart (CSend VNone)].

Example ex_nested_traces :
  oob_free ex_nt_body /\ ok_history ex_nt_hist /\ nsi_history ex_nt_hist /\
  never_stops (ag_new ex_nt_body [], None) ex_nt_hist = true /\
  map ho_out (go_trace (go_new (deepen 2 ex_nt_body) [], None) ex_nt_hist) =
    [Some (OReturn (VInt 1)); Some (OYield (VInt 11)); Some (OReturn (VInt 5));
     Some (ORaise (E 1)); Some (ORaise StopAsyncIteration)] /\
  map ho_events (go_trace (go_new (deepen 2 ex_nt_body) [], None) ex_nt_hist) =
    [[ELog 1]; [ERecv (VInt 7)]; []; [ELog 9]; []].
Proof.
  split; [exact ex_nt_body_free|]. repeat split; reflexivity.
Qed.

(* why a thrown StopIteration is excluded: at an ayield it passes through oob()'s
   generator frame, which turns it into RuntimeError("generator raised
   StopIteration") before the body sees it; at a plain `yield` the body sees
   StopIteration itself (here it leaves the body: "coroutine raised StopIteration") *)
Example ex_nested_stopiter_differs :
  let h := [HStart (CSend VNone); HStart (CThrow (StopIteration VNone))] in
  map ho_out (go_trace (go_new ex_nt_body [], None) h) =
    [Some (OReturn (VInt 1)); Some (ORaise (RuntimeError RtCoroStopIter))] /\
  map ho_out (go_trace (go_new (deepen 2 ex_nt_body) [], None) h) =
    [Some (OReturn (VInt 1)); Some (ORaise (RuntimeError RtGenStopIter))].
Proof. split; reflexivity. Qed.
