(* The bodies the C04 correspondence generates (Coro/Prog.v) never contain the reserved
   context.run marker events: C04_isolated applies to every one of them. *)
From Asynkit Require Import Base.Prelude Coro.Tree Coro.Native Coro.Prog Coro.Context Coro.ContextProofs.

Lemma nomark_close_then : forall kd c kont,
  nomark c -> (forall r, nomark (kont r)) -> nomark (close_then kd c kont).
Proof.
  induction c as [v|e|ev c IH|x k IH|x v c IH|y k IH]; intros kont Hc Hk; simpl in *; auto.
  - destruct (is_genexit e); auto.
  - destruct Hc; split; auto.
Qed.

Lemma nomark_await : forall kd c kr ke,
  nomark c -> (forall v, nomark (kr v)) -> (forall e, nomark (ke e)) -> nomark (await_ kd c kr ke).
Proof.
  induction c as [v|e|ev c IH|x k IH|x v c IH|y k IH]; intros kr ke Hc Hr He; simpl in *; auto.
  - destruct Hc; split; auto.
  - intros [v|e]; auto. destruct e; auto. apply nomark_close_then; auto.
Qed.

Lemma nomark_denote : forall p cur kn kr ke,
  nomark kn -> (forall v, nomark (kr v)) -> (forall e, nomark (ke e)) ->
  nomark (denote p cur kn kr ke).
Proof.
  induction p as [|n|y|q IH|a IHa b IHb|b IHb cls h IHh|b IHb f IHf|v|e| |x v|x];
    intros cur kn kr ke Hn Hr He; cbn [denote]; auto; try (simpl; auto; fail).
  - apply nomark_await; auto.
    + simpl. intros [v|e]; simpl; auto.
    + intros v; simpl; auto.
  - apply nomark_await; auto.
    + apply IH; simpl; auto.
    + intros v; simpl; auto.
  - apply IHb; auto. intros e. destruct (matches_any cls e); auto. simpl. split; auto.
Qed.

(* every body of the generated syntax is marker-free: the theorems apply to all of them *)
Lemma nomark_body_of : forall p, nomark (body_of p).
Proof. intros; apply nomark_denote; simpl; auto. Qed.
