(* C06, part 1: domain, what is compared, the state relation between the native
   async generator object (AsyncGen.v) and GeneratorObjectIterator over Monitor
   (GenObj.v), and the one-step simulation [step_sim].  Theorems: GenObjProofs.v. *)
From Asynkit Require Import Base.Prelude Base.Obs Coro.Tree Coro.Native Coro.TreeProofs
  Coro.AsyncGen Coro.GenObj.
Open Scope Z_scope.

(* ------------------------------------------------------------- the domain *)
Definition not_oob (e : exn) : bool := match e with OOBData _ => false | _ => true end.

Definition dom_input (i : input) : bool :=
  match i with Send _ => true | Throw e => not_oob e end.

(* the body never raises asynkit's own OOBData (as long as none is thrown in) *)
Inductive oob_free : coro -> Prop :=
| of_ret v : oob_free (Ret v)
| of_raise e : not_oob e = true -> oob_free (Raise e)
| of_eff ev c : oob_free c -> oob_free (Eff ev c)
| of_get x k : (forall v, oob_free (k v)) -> oob_free (Get x k)
| of_set x v c : oob_free c -> oob_free (Set_ x v c)
| of_susp y k : (forall i, dom_input i = true -> oob_free (k i)) -> oob_free (Susp y k).

(* exceptions a consumer passes to athrow(): not StopIteration / StopAsyncIteration / OOBData *)
Definition ok_thrown (e : exn) : bool :=
  match e with StopIteration _ | StopAsyncIteration | OOBData _ => false | _ => true end.

(* a suspended awaitable is resumed by send(v) or throw(e), e not OOBData and not
   GeneratorExit (an `await` never throws GeneratorExit into what it awaits: it calls close()) *)
Definition ok_hop (op : hop) : bool :=
  match op with
  | HStart (CThrow e) => ok_thrown e
  | HStart _ => true
  | HResume (Send _) => true
  | HResume (Throw e) => not_oob e && negb (is_genexit e)
  end.

Definition ok_history (h : list hop) : Prop := forallb ok_hop h = true.

(* ------------------------------------------------------- what is compared *)
Definition same_result (oa og : hobs) : Prop :=
  ho_events oa = ho_events og /\
  option_map abs_outcome (ho_out oa) = option_map abs_outcome (ho_out og).

Definition same_obs (oa og : hobs) : Prop :=
  same_result oa og /\ ho_running oa = ho_running og /\ ho_fstate oa = ho_fstate og /\
  ho_pending oa = ho_pending og.

(* lock step up to (and including the result of) the first step after which
   the native object is marked closed with a live frame ("ignored
   GeneratorExit") or is ill-formed (ag_running, frame gone) *)
Fixpoint agree (sa : agen * option pend) (sg : gobj * option pend) (h : list hop) : Prop :=
  match h with
  | [] => True
  | op :: t =>
      let '(oa, sa') := ag_hstep sa op in
      let '(og, sg') := go_hstep sg op in
      same_result oa og /\
      (ag_stop oa (fst sa') = false -> same_obs oa og /\ agree sa' sg' t)
  end.

(* ------------------------------------------------------------------ grun *)
Definition stop_free (st : gstop) : Prop :=
  match st with
  | GRet _ => True
  | GRaise e => not_oob e = true
  | GYield _ k | GSusp _ k => forall i, dom_input i = true -> oob_free (k i)
  end.

Lemma grun_eff_eq : forall ev c s,
  grun s (Eff ev c) =
  match c with
  | Susp y k => if is_mark ev then ([], s, GYield y k) else ([ev], s, GSusp y k)
  | _ => let '(evs, s', st) := grun s c in (ev :: evs, s', st)
  end.
Proof. reflexivity. Qed.

Lemma grun_oob_free : forall c, oob_free c -> forall s, stop_free (snd (grun s c)).
Proof.
  induction 1 as [v|e He|ev c Hc IH|x k Hk IH|x v c Hc IH|y k Hk IH]; intros s.
  - exact I.
  - exact He.
  - specialize (IH s). rewrite grun_eff_eq.
    destruct c;
      try (match goal with |- context [grun ?s ?c] => destruct (grun s c) as [[? ?] ?] end; exact IH).
    destruct (is_mark ev); exact IH.
  - simpl. apply IH.
  - simpl. apply IH.
  - exact Hk.
Qed.

(* -------------------------------------------------------- state relation *)
Definition frame_free (fr : frame) : Prop :=
  match fr with
  | FNew c => oob_free c
  | FSusp k => forall i, dom_input i = true -> oob_free (k i)
  | FDone => True
  end.

Definition proj_frame (fr : frame) : cobj :=
  match fr with FNew c => New c | FSusp k => Suspended k | FDone => Finished end.

(* the GeneratorObjectIterator that corresponds to a native generator *)
Definition proj (a : agen) (p : option pend) : gobj :=
  mkgo (ag_run a) (if is_some p then 1 else 0) (proj_frame (ag_fr a)) (ag_st a).

Definition inv (a : agen) (p : option pend) : Prop :=
  frame_free (ag_fr a) /\
  ag_run a = is_some p /\
  (is_some p = true -> exists k, ag_fr a = FSusp k) /\
  (ag_closed a = true -> ag_fr a = FDone \/ p = Some PClose).

Lemma not_oob_pep479 : forall kd e, not_oob e = true -> not_oob (pep479 kd e) = true.
Proof. intros kd [] H; simpl in *; auto; destruct kd; auto. Qed.

Ltac fin :=
  repeat match goal with
         | |- _ /\ _ => split
         | |- _ -> _ => intro
         | H : _ /\ _ |- _ => destruct H
         | H : exists _, _ |- _ => destruct H
         | H : _ \/ _ |- _ => destruct H
         end;
  simpl in *; subst; try discriminate; try congruence; auto.

Ltac leaf :=
  simpl; unfold same_obs, same_result, inv, ag_stop, ag_ignored, ag_illformed; simpl;
  repeat match goal with
         | |- _ /\ _ => split
         | |- _ -> _ => intro
         end;
  simpl in *; try discriminate; try reflexivity; eauto;
  try (match goal with H : _ || true = false |- _ => rewrite Bool.orb_true_r in H; discriminate end);
  try (left; reflexivity); try (right; reflexivity); try tauto.

Ltac open_defs :=
  unfold ag_hstep, go_hstep, ag_start, go_start, ag_resume, go_resume, proj,
    finish, mon_start, mon_resume, gco_resume, gco_close, gsettle,
    gen_resume, exec_frame, unwrap, close_result; simpl.

(* run the body segment, split on how it stops *)
Ltac run_body Hfree :=
  match goal with
  | |- context [grun ?s ?c] =>
      let Hst := fresh "Hst" in
      assert (Hst : stop_free (snd (grun s c)))
        by (apply grun_oob_free; first [exact Hfree | apply Hfree; reflexivity | apply Hfree; assumption]);
      let evs := fresh "evs" in let s' := fresh "s'" in let st := fresh "st" in
      destruct (grun s c) as [[evs s'] st];
      destruct st as [?v|?e|?d ?k|?y ?k]; simpl in Hst
  end.

Lemma ok_thrown_not_oob : forall e, ok_thrown e = true -> not_oob e = true.
Proof. intros [] H; auto; discriminate. Qed.

Lemma step_sim : forall a p op, inv a p -> ok_hop op = true ->
  let '(oa, sa') := ag_hstep (a, p) op in
  let '(og, sg') := go_hstep (proj a p, p) op in
  same_result oa og /\
  (ag_stop oa (fst sa') = false ->
   same_obs oa og /\ sg' = (proj (fst sa') (snd sa'), snd sa') /\ inv (fst sa') (snd sa')).
Proof.
  intros [fr run closed s] p op (Hfree & Hrun & Hp & Hcl) Hop. simpl in Hfree, Hrun, Hp, Hcl.
  destruct op as [c|i].
  - (* a call is started *)
    destruct p as [p|]; simpl in Hrun; subst run.
    + destruct (Hp eq_refl) as [k ->].
      destruct c; cbv; repeat split; intros; try discriminate; auto; eauto.
    + assert (Hc : closed = true -> fr = FDone) by (intros H; destruct (Hcl H); [assumption|discriminate]).
      clear Hcl Hp.
      destruct fr as [c0|k|].
      * (* created *)
        assert (closed = false) by (destruct closed; auto; specialize (Hc eq_refl); discriminate). subst.
        destruct c as [v|e|]; open_defs.
        -- destruct v; try (leaf; fail).
           run_body Hfree; try (destruct e; simpl in *; try discriminate); leaf.
        -- destruct e; simpl in Hop; try discriminate; leaf.
        -- leaf.
      * (* suspended at a yield *)
        assert (closed = false) by (destruct closed; auto; specialize (Hc eq_refl); discriminate). subst.
        destruct c as [v|e|]; open_defs.
        -- run_body Hfree; try (destruct e; simpl in *; try discriminate); leaf.
        -- apply ok_thrown_not_oob in Hop.
           run_body Hfree; try (destruct e0; simpl in *; try discriminate); leaf.
        -- run_body Hfree; try (destruct e; simpl in *; try discriminate); leaf.
      * (* frame gone *)
        destruct c as [v|e|]; open_defs; leaf.
  - (* the suspended awaitable is resumed *)
    destruct p as [p|]; simpl in Hrun; subst run; [|open_defs; destruct fr; leaf].
    destruct (Hp eq_refl) as [k ->]. clear Hp. simpl in Hfree.
    destruct i as [v|e].
    + destruct p; open_defs;
        run_body Hfree; try (destruct e; simpl in *; try discriminate);
        try (assert (closed = false) by (destruct closed; auto; destruct (Hcl eq_refl); discriminate); subst);
        leaf.
    + simpl in Hop. apply andb_prop in Hop. destruct Hop as [Hno Hge].
      assert (Hk : oob_free (k (Throw e))) by (apply Hfree; exact Hno).
      destruct p; destruct e; simpl in Hno, Hge; try discriminate; open_defs;
        run_body Hk; try (destruct e; simpl in *; try discriminate);
        try (assert (closed = false) by (destruct closed; auto; destruct (Hcl eq_refl); discriminate); subst);
        leaf.
Qed.

