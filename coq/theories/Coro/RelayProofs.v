(* Proofs for C02: the wrappers of Relay.v are transparent to the await
   protocol.  Everything is by induction on trees, i.e. for all bodies. *)
From Asynkit Require Import Base.Prelude Coro.Tree Coro.Native Coro.TreeProofs Coro.Relay.

(* ------------------------------------------------------------ relay loop *)
(* the relay loop of coro_iter / CoroStart.__await__ / Monitor._asend is PEP 380 delegation *)
Lemma relay_transparent : forall c, eqv (relay_loop c) (native_await c).
Proof.
  unfold native_await.
  induction c as [v|e|ev c IH|x g IH|x v c IH|y g IH]; simpl; try (constructor; auto; fail).
  constructor. intros [v|e].
  - apply IH.
  - destruct e; try apply IH.
    apply close_then_cong; [apply eqv_refl|]. intros r _. apply eqv_refl.
Qed.

Lemma relay_cong : forall c c', eqv c c' -> eqv (relay_loop c) (relay_loop c').
Proof.
  intros c c' H.
  eapply eqv_trans; [apply relay_transparent|].
  eapply eqv_trans; [apply native_await_cong, H|].
  apply eqv_sym, relay_transparent.
Qed.

(* a native await of something that already behaves like [native_await c] *)
Lemma await_of_native : forall kd x c,
  eqv x (native_await c) -> eqv (await_ kd x Ret Raise) (native_await c).
Proof.
  intros kd x c H.
  eapply eqv_trans; [apply await_cong with (c' := native_await c); auto using eqv_refl|].
  apply await_native_await.
Qed.

(* ------------------------------------------------------------- CoroStart *)
Lemma cs_start_ext : forall c f g,
  (forall st, eqv (f st) (g st)) -> eqv (cs_start c f) (cs_start c g).
Proof.
  induction c as [v|e|ev c IH|x k IH|x v c IH|y k IH]; intros f g H; simpl; auto;
    constructor; auto.
Qed.

(* CoroStart(c) followed by its __await__() iterator: c's first segment runs at
   construction, the rest behind the relay loop; together: native await *)
Lemma corostart_transparent : forall c, eqv (corostart c) (native_await c).
Proof.
  unfold corostart, native_await.
  induction c as [v|e|ev c IH|x k IH|x v c IH|y k IH]; simpl; try (constructor; auto; fail).
  apply (relay_transparent (Susp y k)).
Qed.

Lemma cs_start_lifted : forall kd c,
  eqv (cs_start c (fun st => await_ kd (cs_await st) Ret Raise)) (native_await c).
Proof.
  unfold native_await.
  induction c as [v|e|ev c IH|x k IH|x v c IH|y k IH]; try (simpl; constructor; auto; fail).
  - simpl. rewrite pep479_idem. apply eqv_refl.
  - change (eqv (await_ kd (relay_loop (Susp y k)) Ret Raise) (native_await (Susp y k))).
    apply await_of_native, relay_transparent.
Qed.

Lemma as_coroutine_transparent : forall c, eqv (corostart_as_coroutine c) (native_await c).
Proof. intros; apply cs_start_lifted. Qed.

Lemma coro_await_transparent : forall c, eqv (coro_await c) (native_await c).
Proof. intros; apply cs_start_lifted. Qed.

Lemma coro_iter_transparent : forall c, eqv (coro_iter c) (native_await c).
Proof. exact relay_transparent. Qed.

Lemma awaitmethod_iter_transparent : forall c, eqv (awaitmethod_iter c) (native_await c).
Proof. exact relay_transparent. Qed.

(* ----------------------------------------------------------------- Monitor *)
(* the body's first segment does not end by raising OOBData (the Monitor's own
   protocol exception; "no out-of-band data") *)
Fixpoint no_oob_first (c : coro) : Prop :=
  match c with
  | Raise (OOBData _) => False
  | Eff _ c' => no_oob_first c'
  | Get _ k => forall v, no_oob_first (k v)
  | Set_ _ _ c' => no_oob_first c'
  | _ => True
  end.

Lemma monitor_first_transparent : forall c, no_oob_first c -> eqv (monitor_first c) (native_await c).
Proof.
  unfold native_await.
  induction c as [v|e|ev c IH|x k IH|x v c IH|y k IH]; intros H; simpl in *;
    try (constructor; auto; fail).
  - destruct e; simpl in *; try apply eqv_refl. contradiction.
  - apply (relay_transparent (Susp y k)).
Qed.

Lemma monitor_transparent : forall c, no_oob_first c -> eqv (monitor_aawait 0 c) (native_await c).
Proof.
  intros c H. unfold monitor_aawait, native_await_gen, monitor_asend. simpl.
  apply await_of_native, monitor_first_transparent, H.
Qed.

Lemma boundmonitor_transparent : forall c, no_oob_first c -> eqv (boundmonitor 0 c) (native_await c).
Proof. exact monitor_transparent. Qed.

Lemma no_oob_first_eqv : forall c c', eqv c c' -> no_oob_first c -> no_oob_first c'.
Proof.
  induction 1 as [v|e|ev a b Hab IH|x g g' Hg IH|x v a b Hab IH|y g g' Hg IH]; simpl; auto.
Qed.

Lemma no_oob_first_native : forall c, no_oob_first c -> no_oob_first (native_await c).
Proof.
  unfold native_await.
  induction c as [v|e|ev c IH|x k IH|x v c IH|y k IH]; simpl; auto.
  destruct e; simpl; auto.
Qed.

(* --------------------------------------------------------- all wrappers *)
(* "await-equivalent": indistinguishable once awaited natively *)
Definition aeq (c c' : coro) : Prop := eqv (native_await c) (native_await c').

Lemma eqv_aeq : forall c c', eqv c c' -> aeq c c'.
Proof. intros; apply native_await_cong; auto. Qed.

Lemma aeq_native : forall c, aeq (native_await c) c.
Proof. intros; apply native_await_idem. Qed.

Lemma aeq_trans : forall a b c, aeq a b -> aeq b c -> aeq a c.
Proof. unfold aeq; intros; eapply eqv_trans; eauto. Qed.

(* wrappers whose iterator itself already is the native await (every one but
   awaitmethod, whose iterator is the coroutine's own) *)
Definition raw_transparent (w : wrapper) : bool :=
  match w with WAwaitMethod => false | _ => true end.

Lemma wrap_transparent_raw : forall w c,
  raw_transparent w = true -> no_oob_first c -> eqv (wrap w c) (native_await c).
Proof.
  intros w c Hw Hc. destruct w; simpl in *; try discriminate.
  - apply corostart_transparent.
  - apply as_coroutine_transparent.
  - apply coro_await_transparent.
  - apply coro_iter_transparent.
  - apply awaitmethod_iter_transparent.
  - apply monitor_transparent, Hc.
  - apply boundmonitor_transparent, Hc.
  - apply eqv_refl.
Qed.

(* every wrapper, awaited natively, is a native await of the body *)
Lemma wrap_transparent : forall w c, no_oob_first c -> aeq (wrap w c) c.
Proof.
  intros w c Hc. destruct (raw_transparent w) eqn:Hw.
  - eapply aeq_trans; [apply eqv_aeq, wrap_transparent_raw; auto|]. apply aeq_native.
  - destruct w; try discriminate. apply eqv_refl.
Qed.

(* the coroutine made from a wrapper's awaitable ([lift] where needed) *)
Lemma wrap_lifted_transparent : forall w c,
  no_oob_first c -> eqv (wrap_lifted w c) (native_await c).
Proof.
  intros w c Hc. unfold wrap_lifted.
  destruct w; simpl gives_coroutine; cbv iota;
    try (apply wrap_transparent_raw; [reflexivity|assumption]);
    try (apply await_of_native; apply wrap_transparent_raw; [reflexivity|assumption]).
  apply eqv_refl.
Qed.

Lemma monitor_first_cong : forall c c', eqv c c' -> eqv (monitor_first c) (monitor_first c').
Proof.
  induction 1 as [v|e|ev a b Hab IH|x g g' Hg IH|x v a b Hab IH|y g g' Hg IH];
    simpl; try (constructor; auto; fail).
  - apply eqv_refl.
  - apply (relay_cong _ _ (eqv_susp y g g' Hg)).
Qed.

Lemma wrap_cong : forall w c c', eqv c c' -> eqv (wrap w c) (wrap w c').
Proof.
  intros w c c' H. destruct w; simpl.
  - unfold corostart.
    eapply eqv_trans; [apply corostart_transparent|].
    eapply eqv_trans; [apply native_await_cong, H|]. apply eqv_sym, corostart_transparent.
  - eapply eqv_trans; [apply as_coroutine_transparent|].
    eapply eqv_trans; [apply native_await_cong, H|]. apply eqv_sym, as_coroutine_transparent.
  - eapply eqv_trans; [apply coro_await_transparent|].
    eapply eqv_trans; [apply native_await_cong, H|]. apply eqv_sym, coro_await_transparent.
  - apply relay_cong, H.
  - exact H.
  - apply relay_cong, H.
  - unfold monitor_aawait, native_await_gen, monitor_asend; simpl.
    apply await_cong; auto using eqv_refl, monitor_first_cong.
  - unfold boundmonitor, monitor_aawait, native_await_gen, monitor_asend; simpl.
    apply await_cong; auto using eqv_refl, monitor_first_cong.
  - apply native_await_cong, H.
Qed.

(* ------------------------------------------------------------------ stacks *)
Lemma lifted_stack_transparent : forall ws c, no_oob_first c ->
  aeq (lifted_stack ws c) c /\ no_oob_first (lifted_stack ws c).
Proof.
  induction ws as [|w t IH]; intros c Hc; simpl.
  - split; [apply eqv_refl|assumption].
  - destruct (IH c Hc) as [Ha Hn].
    pose proof (wrap_lifted_transparent w _ Hn) as Hw.
    split.
    + eapply aeq_trans; [apply eqv_aeq, Hw|].
      eapply aeq_trans; [apply aeq_native|]. exact Ha.
    + eapply no_oob_first_eqv; [apply eqv_sym, Hw|]. apply no_oob_first_native, Hn.
Qed.

(* any stack of wrappers, of any depth, awaited natively = the body awaited natively *)
Theorem stack_transparent : forall ws c, no_oob_first c -> aeq (wrap_stack ws c) c.
Proof.
  intros [|w t] c Hc; simpl.
  - apply eqv_refl.
  - destruct (lifted_stack_transparent t _ Hc) as [Ha Hn].
    eapply aeq_trans; [apply wrap_transparent, Hn|]. exact Ha.
Qed.

(* ... and if the outermost wrapper is not awaitmethod, its iterator itself
   reacts like the native await of the body *)
Theorem stack_transparent_raw : forall w ws c,
  raw_transparent w = true -> no_oob_first c ->
  eqv (wrap_stack (w :: ws) c) (native_await c).
Proof.
  intros w t c Hw Hc; simpl.
  destruct (lifted_stack_transparent t _ Hc) as [Ha Hn].
  eapply eqv_trans; [apply wrap_transparent_raw; assumption|]. exact Ha.
Qed.

(* at the level of driver sequences *)
Theorem stack_drive : forall w ws c kd s ops,
  raw_transparent w = true -> no_oob_first c ->
  drive kd (New (wrap_stack (w :: ws) c)) s ops = drive kd (New (native_await c)) s ops.
Proof. intros; apply eqv_drive, stack_transparent_raw; assumption. Qed.

(* --------------------------------------------------------- athrow / aclose *)
(* await cs.athrow(e) on a suspended CoroStart = throw e at the suspension, await the rest *)
Theorem athrow_transparent : forall y k e,
  eqv (cs_athrow (CsSusp y k) e) (native_await (k (Throw e))).
Proof. intros; unfold cs_athrow; simpl. apply cs_start_lifted. Qed.

(* on a finished one: "cannot reuse already awaited coroutine", as a native throw would *)
Lemma athrow_finished : forall st e, cs_done st = true ->
  cs_athrow st e = Raise (RuntimeError RtReuse).
Proof. intros [v|e'|y k|] e H; try discriminate; reflexivity. Qed.

(* absorb GeneratorExit and any returned value *)
Definition absorb_genexit (c : coro) : coro :=
  await_ KCoro c (fun _ => Ret VNone) (fun e => if is_genexit e then Ret VNone else Raise e).

(* await cs.aclose() = throw GeneratorExit at the suspension, await the rest (the
   body may yield again: the yields pass through), absorb GeneratorExit *)
Theorem aclose_transparent : forall y k,
  eqv (cs_aclose (CsSusp y k)) (absorb_genexit (native_await (k (Throw GeneratorExit)))).
Proof.
  intros. unfold cs_aclose, absorb_genexit.
  apply await_cong; [apply athrow_transparent| |]; intros; apply eqv_refl.
Qed.

Lemma aclose_done : forall st, cs_done st = true -> cs_aclose st = Ret VNone.
Proof. intros [v|e'|y k|] H; try discriminate; reflexivity. Qed.

(* ---------------------------------------------------- non-vacuity examples *)
(* try: await tok(1)  except GeneratorExit: await tok(2)      -- a body that yields again *)
Definition ex_body : coro :=
  Susp (VInt 1) (fun i => match i with
    | Send v => Eff (ERecv v) (Ret VNone)
    | Throw GeneratorExit => Eff (ECaught GeneratorExit)
                               (Susp (VInt 2) (fun _ => Ret (VInt 9)))
    | Throw e => Raise e
    end).

Example ex_no_oob : no_oob_first ex_body.
Proof. exact I. Qed.

Example ex_stack_drive :
  drive KCoro (New (wrap_stack [WMonitor; WCoroStart; WAwaitMethod] ex_body)) []
        [DSend VNone; DThrow (E 1)]
  = [([], OYield (VInt 1)); ([], ORaise (E 1))]
  /\ drive KCoro (New (native_await ex_body)) [] [DSend VNone; DClose]
  = [([], OYield (VInt 1)); ([ECaught GeneratorExit], ORaise (RuntimeError RtIgnoredGenExit))].
Proof. split; reflexivity. Qed.

Example ex_aclose_yields_again :
  drive KCoro (New (cs_aclose (CsSusp (VInt 1) (fun i => match ex_body with Susp _ k => k i | c => c end))))
        [] [DSend VNone; DSend VNone]
  = [([ECaught GeneratorExit], OYield (VInt 2)); ([], OReturn VNone)].
Proof. reflexivity. Qed.
