(* C02, awaitmethod at the level of the raw iterator: func(..).__await__() is
   the coroutine's own iterator.  Driven by send / throw / close it answers
   exactly like a native await of the coroutine, as long as GeneratorExit is
   delivered the way `await` and every relay deliver it: by close(), not by
   throw(GeneratorExit).  (coroutine.throw(GeneratorExit) is the one place where
   a bare coroutine and `await coroutine` differ in CPython itself.) *)
From Asynkit Require Import Base.Prelude Coro.Tree Coro.Native Coro.TreeProofs Coro.Relay.

Definition not_throw_genexit (op : dop) : bool :=
  match op with DThrow GeneratorExit => false | _ => true end.

Definition nat_k (k : input -> coro) : input -> coro :=
  fun i => match i with
           | Throw GeneratorExit =>
               close_then KCoro (k (Throw GeneratorExit)) (fun r => Raise (exn_after_close r))
           | _ => await_ KCoro (k i) Ret Raise
           end.

Definition nat_stop (st : stop) : stop :=
  match st with
  | SRet v => SRet v
  | SRaise e => SRaise (pep479 KCoro e)
  | SSusp y k => SSusp y (nat_k k)
  end.

Lemma run_native : forall c s,
  run s (native_await c) = let '(evs, s', st) := run s c in (evs, s', nat_stop st).
Proof.
  unfold native_await.
  induction c as [v|e|ev c IH|x k IH|x v c IH|y k IH]; intros s; simpl; auto.
  rewrite IH. destruct (run s c) as [[evs s'] st]. reflexivity.
Qed.

Definition close_result (kd : kind) (st : stop) : option exn :=
  match st with
  | SRet _ => None
  | SRaise e => if is_genexit e then None else Some (pep479 kd e)
  | SSusp _ _ => Some (RuntimeError RtIgnoredGenExit)
  end.

Lemma run_close_then : forall kd c kont s,
  run s (close_then kd c kont) =
  let '(evs, s', st) := run s c in
  let '(evs2, s2, st2) := run s' (kont (close_result kd st)) in
  (evs ++ evs2, s2, st2).
Proof.
  induction c as [v|e|ev c IH|x k IH|x v c IH|y k IH]; intros kont s; simpl; auto.
  - destruct (run s (kont None)) as [[a b] d]; reflexivity.
  - destruct (is_genexit e); simpl;
      match goal with |- context [run s ?t] => destruct (run s t) as [[a b] d] end; reflexivity.
  - rewrite IH. destruct (run s c) as [[evs s'] st].
    destruct (run s' (kont (close_result kd st))) as [[a b] d]. reflexivity.
  - destruct (run s (kont (Some (RuntimeError RtIgnoredGenExit)))) as [[a b] d]; reflexivity.
Qed.

(* o' behaves like a native await of whatever o is the object of *)
Inductive nat_rel : cobj -> cobj -> Prop :=
| nr_new c c' : eqv c' (native_await c) -> nat_rel (New c) (New c')
| nr_susp k k' : (forall i, eqv (k' i) (nat_k k i)) -> nat_rel (Suspended k) (Suspended k')
| nr_running : nat_rel Running Running
| nr_finished : nat_rel Finished Finished.

Lemma settle_native : forall c c' s, eqv c' (native_await c) ->
  let r := settle KCoro (run s c) in
  let r' := settle KCoro (run s c') in
  r_events r = r_events r' /\ r_out r = r_out r' /\ r_store r = r_store r' /\
  nat_rel (r_obj r) (r_obj r').
Proof.
  intros c c' s H.
  destruct (run_eqv _ _ H s) as (evs & s' & st1 & st2 & H1 & H2 & H3).
  rewrite run_native in H2. destruct (run s c) as [[evs0 s0] st0] eqn:Hr.
  inversion H2; subst evs0 s0 st2; clear H2. rewrite H1. simpl.
  destruct st0 as [v|e|y k]; simpl in H3; inversion H3; subst; simpl.
  - repeat split; constructor.
  - rewrite pep479_idem. repeat split; constructor.
  - repeat split. constructor. assumption.
Qed.

Lemma apply_op_native : forall o o' s op, nat_rel o o' -> not_throw_genexit op = true ->
  let r := apply_op KCoro o s op in
  let r' := apply_op KCoro o' s op in
  r_events r = r_events r' /\ r_out r = r_out r' /\ r_store r = r_store r' /\
  (match r_out r with OYield _ => nat_rel (r_obj r) (r_obj r') | _ => True end).
Proof.
  intros o o' s op H Hop.
  assert (Hw : forall (r r' : resp),
            (r_events r = r_events r' /\ r_out r = r_out r' /\ r_store r = r_store r' /\
             nat_rel (r_obj r) (r_obj r')) ->
            r_events r = r_events r' /\ r_out r = r_out r' /\ r_store r = r_store r' /\
            match r_out r with OYield _ => nat_rel (r_obj r) (r_obj r') | _ => True end).
  { intros r r' (A & B & C & D). repeat split; auto. destruct (r_out r); auto. }
  destruct op as [v|e|]; simpl.
  - (* send *)
    destruct H as [c c' Hc|k k' Hk| |]; simpl.
    + destruct v; simpl; auto 6. apply Hw, settle_native, Hc.
    + apply Hw. apply (settle_native (k (Send v)) (k' (Send v)) s). apply (Hk (Send v)).
    + auto 6.
    + auto 6.
  - (* throw, not GeneratorExit *)
    destruct H as [c c' Hc|k k' Hk| |]; simpl.
    + auto 6.
    + apply Hw. apply (settle_native (k (Throw e)) (k' (Throw e)) s).
      pose proof (Hk (Throw e)) as Hke. destruct e; try discriminate; exact Hke.
    + auto 6.
    + auto 6.
  - (* close *)
    destruct H as [c c' Hc|k k' Hk| |]; simpl; auto 6.
    destruct (run_eqv _ _ (Hk (Throw GeneratorExit)) s) as (evs & s' & st1 & st2 & H1 & H2 & H3).
    simpl in H2. rewrite run_close_then in H2.
    destruct (run s (k (Throw GeneratorExit))) as [[evs0 s0] st0]. simpl in H2.
    inversion H2; subst evs s' st2; clear H2. rewrite H1. rewrite app_nil_r.
    inversion H3; subst. clear H3 H1.
    destruct st0 as [v|e|y g]; simpl.
    + auto 6.
    + destruct (is_genexit e) eqn:Hge; simpl; auto 6.
      rewrite pep479_genexit, Hge, pep479_idem. simpl. auto 6.
    + simpl. auto 6.
Qed.

Lemma drive_stop_native : forall ops o o' s, nat_rel o o' ->
  forallb not_throw_genexit ops = true ->
  drive_stop KCoro o s ops = drive_stop KCoro o' s ops.
Proof.
  induction ops as [|op t IH]; intros o o' s H Hops; simpl; auto.
  simpl in Hops. apply andb_true_iff in Hops. destruct Hops as [Hop Ht].
  destruct (apply_op_native _ _ s _ H Hop) as (He & Ho & Hs & Hobj).
  rewrite <- He, <- Ho, <- Hs. f_equal.
  destruct (r_out (apply_op KCoro o s op)); auto.
Qed.

(* the raw iterator made by awaitmethod answers like `await coroutine` *)
Theorem awaitmethod_raw_transparent : forall c s ops,
  forallb not_throw_genexit ops = true ->
  drive_stop KCoro (New (awaitmethod c)) s ops = drive_stop KCoro (New (native_await c)) s ops.
Proof.
  intros. apply drive_stop_native; auto. constructor. apply eqv_refl.
Qed.

(* and the one difference is real: a body that swallows GeneratorExit and returns *)
Example awaitmethod_raw_throw_genexit_differs :
  let c := Susp (VInt 1) (fun _ => Ret (VInt 5)) in
  drive_stop KCoro (New (awaitmethod c)) [] [DSend VNone; DThrow GeneratorExit]
    = [([], OYield (VInt 1)); ([], OReturn (VInt 5))]
  /\ drive_stop KCoro (New (native_await c)) [] [DSend VNone; DThrow GeneratorExit]
    = [([], OYield (VInt 1)); ([], ORaise GeneratorExit)].
Proof. split; reflexivity. Qed.
