(* Models of asynkit's coroutine wrappers (property C02), as transformers of
   trees: the argument is the body of the wrapped coroutine object, the result
   is the body of the iterator / coroutine the wrapper hands out.

     coroutine.py:485-511  coro_iter                    -> coro_iter
     coroutine.py:165-246  CoroStart._start/__await__   -> cs_start / cs_await
     coroutine.py:256-271  CoroStart.athrow             -> cs_athrow
     coroutine.py:305-318  CoroStart.aclose             -> cs_aclose
     coroutine.py:346-351  CoroStart.as_coroutine       -> cs_as_coroutine
     coroutine.py:384-394  coro_await                   -> coro_await
     coroutine.py:514-542  awaitmethod/awaitmethod_iter -> awaitmethod / awaitmethod_iter
     monitor.py:64-122     Monitor._asend / aawait      -> monitor_asend / monitor_aawait
     monitor.py:235-236    BoundMonitor.__await__       -> boundmonitor

   Out of the model (stated in notes/C02.md): two concurrent __await__() of one
   CoroStart, Monitor.oob() (C07: [state] stays 1 here), the [context=]
   argument of CoroStart (C04).

   Model file: definitions only.  Proofs: RelayProofs.v. *)
From Asynkit Require Import Base.Prelude Coro.Tree Coro.Native.

(* -------------------------------------------------------------------------
   The relay loop shared by coro_iter, CoroStart.__await__ and Monitor._asend:

       while True:
           try:    in_value = yield out_value
           except GeneratorExit:      coro.close(); raise
           except BaseException as exc:
               try:    out_value = coro.throw(exc)
               except StopIteration as exc: return exc.value
           else:
               try:    out_value = coro.send(in_value)
               except StopIteration as exc: return exc.value

   [relay_loop c]: c is what the inner coroutine does in answer to the last
   coro.send / coro.throw; the wrapped object is a coroutine, hence PEP 479
   with the coroutine message at its boundary. *)
Fixpoint relay_loop (c : coro) : coro :=
  match c with
  | Ret v => Ret v                                   (* StopIteration -> return exc.value *)
  | Raise e => Raise (pep479 KCoro e)                (* propagates out of the relay *)
  | Eff ev c' => Eff ev (relay_loop c')
  | Get x k => Get x (fun v => relay_loop (k v))
  | Set_ x v c' => Set_ x v (relay_loop c')
  | Susp y k =>
      Susp y (fun i =>
        match i with
        | Throw GeneratorExit =>                     (* coro.close(); raise *)
            close_then KCoro (k (Throw GeneratorExit)) (fun r => Raise (exn_after_close r))
        | _ => relay_loop (k i)                      (* coro.throw(exc) / coro.send(in_value) *)
        end)
  end.

(* coro_iter: out_value = coro.send(None), then the loop *)
Definition coro_iter (c : coro) : coro := relay_loop c.

(* ------------------------------------------------------------- CoroStart *)
(* self.start_result *)
Inductive cs_state :=
| CsValue (v : val)                      (* (None, StopIteration(v))          *)
| CsExc (e : exn)                        (* (None, e)                         *)
| CsSusp (y : val) (k : input -> coro)   (* (y, None); k = the suspended coro *)
| CsNone.                                (* None: consumed by __await__       *)

(* CoroStart(coro): _start() runs the coroutine to its first suspension inside
   whatever is constructing it; [kont] receives the resulting start_result *)
Fixpoint cs_start (c : coro) (kont : cs_state -> coro) : coro :=
  match c with
  | Ret v => kont (CsValue v)
  | Raise e => kont (CsExc (pep479 KCoro e))
  | Eff ev c' => Eff ev (cs_start c' kont)
  | Get x k => Get x (fun v => cs_start (k v) kont)
  | Set_ x v c' => Set_ x v (cs_start c' kont)
  | Susp y k => kont (CsSusp y k)
  end.

Definition cs_done (st : cs_state) : bool :=
  match st with CsValue _ | CsExc _ => true | _ => false end.

(* the generator CoroStart.__await__() *)
Definition cs_await (st : cs_state) : coro :=
  match st with
  | CsNone => Raise (RuntimeError RtReuse)   (* self.coro.send(None) on the exhausted coroutine *)
  | CsValue v => Ret v
  | CsExc e => Raise e
  | CsSusp y k => relay_loop (Susp y k)      (* yield out_value, then the loop *)
  end.

(* CoroStart(c).__await__()  with construction and iteration in one piece *)
Definition corostart (c : coro) : coro := cs_start c cs_await.

(* async def as_coroutine(self): return await self *)
Definition cs_as_coroutine (st : cs_state) : coro := native_await_gen (cs_await st).
Definition corostart_as_coroutine (c : coro) : coro := cs_start c cs_as_coroutine.

(* async def coro_await(coro): cs = CoroStart(coro); return await cs *)
Definition coro_await (c : coro) : coro := cs_start c (fun st => native_await_gen (cs_await st)).

(* the part of athrow() before `return await self`:
   self.start_result = (self.coro.throw(type(value), value), None), or (None, exception) *)
Definition cs_throw_in (st : cs_state) (e : exn) (kont : cs_state -> coro) : coro :=
  match st with
  | CsSusp _ k => cs_start (k (Throw e)) kont
  | _ => kont (CsExc (RuntimeError RtReuse))       (* the coroutine has finished *)
  end.

(* async def athrow(self, exc) *)
Definition cs_athrow (st : cs_state) (e : exn) : coro :=
  cs_throw_in st e (fun st' => native_await_gen (cs_await st')).

(* async def aclose(self) *)
Definition cs_aclose (st : cs_state) : coro :=
  match st with
  | CsNone => Ret VNone
  | CsValue _ | CsExc _ => Ret VNone
  | CsSusp _ _ =>
      await_ KCoro (cs_athrow st GeneratorExit)
             (fun _ => Ret VNone)
             (fun e => if is_genexit e then Ret VNone else Raise e)
  end.

(* ------------------------------------------------- awaitmethod decorators *)
(* awaitmethod: func(..).__await__() -- the coroutine's own iterator, which
   forwards send/throw/close to the coroutine: the same object behaviour *)
Definition awaitmethod (c : coro) : coro := c.
(* awaitmethod_iter: coro_iter(func(..)) *)
Definition awaitmethod_iter (c : coro) : coro := coro_iter c.

(* ----------------------------------------------------------------- Monitor *)
(* Monitor._asend(coro, coro.send, (None,)) with Monitor.state = st0 on entry.
   The first call is special: OOBData escaping it becomes RuntimeError.
   Without Monitor.oob() in the body, state stays 1 inside the loop. *)
Fixpoint monitor_first (c : coro) : coro :=
  match c with
  | Ret v => Ret v
  | Raise e => match pep479 KCoro e with
               | OOBData _ => Raise (RuntimeError RtRaisedOOB)
               | e' => Raise e'
               end
  | Eff ev c' => Eff ev (monitor_first c')
  | Get x k => Get x (fun v => monitor_first (k v))
  | Set_ x v c' => Set_ x v (monitor_first c')
  | Susp y k => relay_loop (Susp y k)
  end.

Definition monitor_asend (st0 : Z) (c : coro) : coro :=
  if (st0 =? 0)%Z then monitor_first c else Raise (RuntimeError RtMonitorReentered).

(* async def aawait(self, coro, data=None): return await self._asend(coro, coro.send, (data,)) *)
Definition monitor_aawait (st0 : Z) (c : coro) : coro := native_await_gen (monitor_asend st0 c).

(* BoundMonitor.__await__: self.monitor.aawait(self.coro, None).__await__() *)
Definition boundmonitor (st0 : Z) (c : coro) : coro := monitor_aawait st0 c.

(* ------------------------------------------------------- wrappers by name *)
Inductive wrapper :=
| WCoroStart | WAsCoroutine | WCoroAwait | WCoroIter
| WAwaitMethod | WAwaitMethodIter | WMonitor | WBoundMonitor
| WNative.                              (* async def lift(a): return await a *)

Definition wrap (w : wrapper) (c : coro) : coro :=
  match w with
  | WCoroStart => corostart c
  | WAsCoroutine => corostart_as_coroutine c
  | WCoroAwait => coro_await c
  | WCoroIter => coro_iter c
  | WAwaitMethod => awaitmethod c
  | WAwaitMethodIter => awaitmethod_iter c
  | WMonitor => monitor_aawait 0 c
  | WBoundMonitor => boundmonitor 0 c
  | WNative => native_await c
  end.

(* does the wrapper hand out a coroutine object (usable as the argument of the
   next wrapper as it is)?  Otherwise the harness inserts [lift]. *)
Definition gives_coroutine (w : wrapper) : bool :=
  match w with
  | WAsCoroutine | WCoroAwait | WMonitor | WNative => true
  | _ => false
  end.

(* a wrapped coroutine made into a coroutine again, ready to be wrapped *)
Definition wrap_lifted (w : wrapper) (c : coro) : coro :=
  if gives_coroutine w then wrap w c
  else match w with
       | WAwaitMethod | WBoundMonitor => native_await (wrap w c)   (* coroutine_wrapper: coroutine kind *)
       | _ => native_await_gen (wrap w c)
       end.

(* ws = outermost first; everything below the outermost wrapper is lifted *)
Fixpoint lifted_stack (ws : list wrapper) (c : coro) : coro :=
  match ws with
  | [] => c
  | w :: t => wrap_lifted w (lifted_stack t c)
  end.

Definition wrap_stack (ws : list wrapper) (c : coro) : coro :=
  match ws with
  | [] => c
  | w :: t => wrap w (lifted_stack t c)
  end.

(* a wrapper that starts the wrapped coroutine when it is constructed *)
Definition eager_wrapper (w : wrapper) : bool :=
  match w with WCoroStart | WAsCoroutine => true | _ => false end.
