(* CPython 3.12.1's native async generator object (Objects/genobject.c:
   async_gen_asend_send/_throw, async_gen_athrow_send/_throw,
   async_gen_unwrap_value), as a state machine around a body tree.  This is the
   REFERENCE of property C06; it is itself validated against CPython by the
   `native` stream of ./check C06.

   Reading of a body tree [c : coro] as the body of an async generator
   ------------------------------------------------------------------
   A `yield d` is the node            Eff (EUser 0 d) (Susp d k)       ([yield_])
   i.e. a suspension *marked* by the event [EUser 0 _] directly in front of it
   (for asynkit this marker is `Monitor.oob()` setting `state = -1` right before
   its `yield`, see GenObj.v); every other [Susp y k] is a real suspension: an
   `await` of something that yields y to the event loop.  [grun] runs a body to
   its next stop and tells the two apart; the marker is not a log entry.

   Consumer histories
   ------------------
   A consumer *starts* a call (creates the awaitable `ag.asend(v)` /
   `ag.athrow(e)` / `ag.aclose()` and sends None into it, as `await` does) or
   *resumes* the awaitable that is suspended on a real suspension with send /
   throw.  A second consumer may start a call while the first one's awaitable
   is suspended (it gets "already running").  At most one awaitable is ever
   suspended, since a call can only pass the `ag_running_async` test when no
   other one is inside the generator.

   Faithfully modelled quirk of 3.12.1 (fixed upstream later): when an
   exception -- or a GeneratorExit/StopAsyncIteration turned into "return
   None" -- leaves a suspended aclose() awaitable through its throw() method,
   `ag_running_async` is NOT reset: the generator's frame is gone and every
   later asend() says "already running" ([ag_illformed]).

   Out of the model: asyncgen hooks (sys.set_asyncgen_hooks: firstiter /
   finalizer) and __del__ -- they depend on garbage collection; re-entrant use
   (the body driving its own generator: "ValueError: already executing");
   awaitables sent a non-None first value, re-used after they ended, or driven
   with a direct throw() before their first send().

   Model file: definitions only.  Proofs: GenObjProofs.v. *)
From Asynkit Require Import Base.Prelude Base.Obs Coro.Tree Coro.Native.
Open Scope Z_scope.

(* ------------------------------------------------------------ yield nodes *)
Definition is_mark (ev : event) : bool :=
  match ev with EUser t _ => Z.eqb t 0 | _ => false end.

Definition resume_with (kr : val -> coro) (ke : exn -> coro) (i : input) : coro :=
  match i with Send v => kr v | Throw e => ke e end.

(* r = yield d      /      r = await monitor.oob(d)'s own generator frame *)
Definition yield_ (d : val) (kr : val -> coro) (ke : exn -> coro) : coro :=
  Eff (EUser 0 d) (Susp d (resume_with kr ke)).

Inductive gstop :=
| GRet (v : val)
| GRaise (e : exn)
| GYield (d : val) (k : input -> coro)     (* suspended at a yield *)
| GSusp (y : val) (k : input -> coro).     (* suspended at a real suspension *)

(* run a body until it returns, raises, yields or suspends; effects in order *)
Fixpoint grun (s : store) (c : coro) : list event * store * gstop :=
  match c with
  | Ret v => ([], s, GRet v)
  | Raise e => ([], s, GRaise e)
  | Eff ev c' =>
      match c' with
      | Susp y k => if is_mark ev then ([], s, GYield y k) else ([ev], s, GSusp y k)
      | _ => let '(evs, s', st) := grun s c' in (ev :: evs, s', st)
      end
  | Get x k => grun s (k (lookup s x))
  | Set_ x v c' => grun (update s x v) c'
  | Susp y k => ([], s, GSusp y k)
  end.

(* ------------------------------------------------------ consumer histories *)
Inductive call :=
| CSend (v : val)        (* ag.asend(v);  __anext__() = asend(None) *)
| CThrow (e : exn)       (* ag.athrow(e) *)
| CClose.                (* ag.aclose() *)

Inductive hop :=
| HStart (c : call)      (* a consumer creates the awaitable and starts it: send(None) *)
| HResume (i : input).   (* the suspended awaitable is resumed with send(v) / throw(e) *)

(* which awaitable is suspended on a real suspension of the body *)
Inductive pend := PSend | PThrow | PClose.

(* what a step of a history shows (the same record for both objects) *)
Record hobs := mkhobs {
  ho_events : list event;           (* body log entries written during the step *)
  ho_out : option outcome;          (* None: resume with nothing suspended (no-op) *)
  ho_running : bool;                (* ag_running after the step *)
  ho_fstate : Z;                    (* 0 body not started, 1 suspended, 2 frame gone *)
  ho_pending : bool                 (* an awaitable is left suspended *)
}.

(* RuntimeError kinds of this layer (message texts; rt_code = 100 + n) *)
Definition RtAgenStopIter := RtOther 1.        (* "async generator raised StopIteration" *)
Definition RtAgenStopAsyncIter := RtOther 2.   (* "async generator raised StopAsyncIteration" *)
Definition RtAgenRunning := RtOther 3.         (* "...(): asynchronous generator is already running" *)

(* ------------------------------------------------- the generator's frame *)
Inductive frame :=
| FNew (c : coro)                   (* created *)
| FSusp (k : input -> coro)         (* suspended at a yield or inside an await *)
| FDone.                            (* completed / cleared: ag_frame is None *)

(* what gen_send / gen_throw on the async generator produce *)
Inductive gres :=
| RYield (d : val)                  (* an _PyAsyncGenWrappedValue: the body yielded d *)
| RSusp (y : val)                   (* a value yielded by something the body awaits *)
| RExc (e : exn).                   (* an exception (StopAsyncIteration for `return`) *)

(* PEP 479 / PEP 525 at the frame of an async generator *)
Definition conv_ag (e : exn) : exn :=
  match e with
  | StopIteration _ => RuntimeError RtAgenStopIter
  | StopAsyncIteration => RuntimeError RtAgenStopAsyncIter
  | _ => e
  end.

Definition exec_frame (s : store) (c : coro) : list event * store * frame * gres :=
  let '(evs, s', st) := grun s c in
  match st with
  | GRet _ => (evs, s', FDone, RExc StopAsyncIteration)
  | GRaise e => (evs, s', FDone, RExc (conv_ag e))
  | GYield d k => (evs, s', FSusp k, RYield d)
  | GSusp y k => (evs, s', FSusp k, RSusp y)
  end.

(* gen_send(ag, v) / gen_throw(ag, e): a throw into a created generator finishes
   it without running the body (and without conversion); a completed async
   generator answers send with StopAsyncIteration *)
Definition gen_resume (fr : frame) (s : store) (i : input) : list event * store * frame * gres :=
  match fr with
  | FNew c =>
      match i with
      | Send VNone => exec_frame s c
      | Send _ => ([], s, fr, RExc (TypeError 1))
      | Throw e => ([], s, FDone, RExc e)
      end
  | FSusp k => exec_frame s (k i)
  | FDone =>
      match i with
      | Send _ => ([], s, FDone, RExc StopAsyncIteration)
      | Throw e => ([], s, FDone, RExc e)
      end
  end.

(* ---------------------------------------------------------------- the object *)
Record agen := mkag {
  ag_fr : frame;
  ag_run : bool;          (* ag_running_async *)
  ag_closed : bool;       (* ag_closed *)
  ag_st : store
}.

Definition ag_new (c : coro) (s : store) : agen := mkag (FNew c) false false s.

Record astep := mkastep {
  as_events : list event;
  as_out : outcome;
  as_gen : agen;
  as_pend : option pend   (* the awaitable is left suspended *)
}.

Definition is_sai_or_ge (e : exn) : bool :=
  match e with StopAsyncIteration | GeneratorExit => true | _ => false end.

(* async_gen_unwrap_value, for asend() and athrow() awaitables *)
Definition unwrap (closed : bool) (p : pend) (r : list event * store * frame * gres) : astep :=
  let '(evs, s, fr, g) := r in
  match g with
  | RYield d => mkastep evs (OReturn d) (mkag fr false closed s) None
  | RSusp y => mkastep evs (OYield y) (mkag fr true closed s) (Some p)
  | RExc e => mkastep evs (ORaise e) (mkag fr false (closed || is_sai_or_ge e) s) None
  end.

(* the aclose() awaitable (ag_closed is already set).  [run_after]: value of
   ag_running_async when the call ends by an exception -- reset on the send()
   path, LEFT AS IT IS on the throw() path (the 3.12.1 quirk) *)
Definition close_result (run_after : bool) (r : list event * store * frame * gres) : astep :=
  let '(evs, s, fr, g) := r in
  match g with
  | RYield _ => mkastep evs (ORaise (RuntimeError RtIgnoredGenExit)) (mkag fr false true s) None
  | RSusp y => mkastep evs (OYield y) (mkag fr true true s) (Some PClose)
  | RExc e => mkastep evs (if is_sai_or_ge e then OReturn VNone else ORaise e)
                      (mkag fr run_after true s) None
  end.

Definition frame_done (fr : frame) : bool := match fr with FDone => true | _ => false end.

(* the first send(None) into a fresh awaitable *)
Definition ag_start (a : agen) (c : call) : astep :=
  match c with
  | CSend v =>
      if ag_run a then mkastep [] (ORaise (RuntimeError RtAgenRunning)) a None
      else unwrap (ag_closed a) PSend (gen_resume (ag_fr a) (ag_st a) (Send v))
  | CThrow e =>
      if frame_done (ag_fr a) then mkastep [] (OReturn VNone) a None
      else if ag_run a then mkastep [] (ORaise (RuntimeError RtAgenRunning)) a None
      else if ag_closed a then mkastep [] (ORaise StopAsyncIteration) a None
      else unwrap (ag_closed a) PThrow (gen_resume (ag_fr a) (ag_st a) (Throw e))
  | CClose =>
      if frame_done (ag_fr a) then mkastep [] (OReturn VNone) a None
      else if ag_run a then mkastep [] (ORaise (RuntimeError RtAgenRunning)) a None
      else if ag_closed a then mkastep [] (ORaise StopAsyncIteration) a None
      else close_result false (gen_resume (ag_fr a) (ag_st a) (Throw GeneratorExit))
  end.

(* send(v) / throw(e) into the suspended awaitable *)
Definition ag_resume (a : agen) (p : pend) (i : input) : astep :=
  match p with
  | PSend | PThrow => unwrap (ag_closed a) p (gen_resume (ag_fr a) (ag_st a) i)
  | PClose =>
      close_result (match i with Send _ => false | Throw _ => ag_run a end)
                   (gen_resume (ag_fr a) (ag_st a) i)
  end.

Definition fstate_of (fr : frame) : Z :=
  match fr with FNew _ => 0 | FSusp _ => 1 | FDone => 2 end.

Definition is_some {A} (o : option A) : bool := match o with Some _ => true | None => false end.

Definition or_else {A} (a b : option A) : option A := match a with Some _ => a | None => b end.

Definition ag_hstep (st : agen * option pend) (op : hop) : hobs * (agen * option pend) :=
  let '(a, p) := st in
  match op with
  | HStart c =>
      let r := ag_start a c in
      let p' := or_else (as_pend r) p in
      (mkhobs (as_events r) (Some (as_out r)) (ag_run (as_gen r)) (fstate_of (ag_fr (as_gen r)))
              (is_some p'), (as_gen r, p'))
  | HResume i =>
      match p with
      | None => (mkhobs [] None (ag_run a) (fstate_of (ag_fr a)) false, st)
      | Some k =>
          let r := ag_resume a k i in
          (mkhobs (as_events r) (Some (as_out r)) (ag_run (as_gen r)) (fstate_of (ag_fr (as_gen r)))
                  (is_some (as_pend r)), (as_gen r, as_pend r))
      end
  end.

Fixpoint ag_trace (st : agen * option pend) (h : list hop) : list hobs :=
  match h with
  | [] => []
  | op :: t => let '(o, st') := ag_hstep st op in o :: ag_trace st' t
  end.

(* the comparison with any other implementation stops after a step that
   reports "ignored GeneratorExit" or leaves the native object ill-formed *)
Definition ag_illformed (a : agen) : bool := ag_run a && frame_done (ag_fr a).

Definition is_ignored (o : option outcome) : bool :=
  match o with Some (ORaise (RuntimeError RtIgnoredGenExit)) => true | _ => false end.

(* aclose() reported "ignored GeneratorExit": the generator is marked closed
   (athrow/aclose now raise StopAsyncIteration) while its frame is still alive *)
Definition ag_ignored (o : hobs) (a : agen) : bool :=
  is_ignored (ho_out o) && negb (frame_done (ag_fr a)).

Definition ag_stop (o : hobs) (a : agen) : bool := ag_ignored o a || ag_illformed a.

(* ------------------------------------------- what the property compares *)
(* __cause__ of an exception: the PEP 479 / PEP 525 conversions (and asynkit's
   `raise RuntimeError(..) from err`) chain the converted exception *)
Definition cause_of (e : exn) : option exn :=
  match e with
  | RuntimeError RtCoroStopIter | RuntimeError RtGenStopIter => Some (StopIteration VNone)
  | RuntimeError (RtOther n) =>
      if n =? 1 then Some (StopIteration VNone)
      else if n =? 2 then Some StopAsyncIteration else None
  | _ => None
  end.

(* type of an exception (message text and StopIteration value dropped) *)
Definition exn_type (e : exn) : obs :=
  match e with
  | RuntimeError _ => OL [OI 5]
  | TypeError _ => OL [OI 6]
  | ValueError _ => OL [OI 7]
  | StopIteration _ => OL [OI 3]
  | _ => oexn e
  end.

(* result of a call as the property sees it: value yielded to the loop / value
   returned (StopIteration(v)) / exception type + cause type *)
Definition abs_outcome (o : outcome) : obs :=
  match o with
  | OYield y => OL [OI 0; oval y]
  | OReturn v => OL [OI 1; oval v]
  | ORaise (StopIteration v) => OL [OI 1; oval v]
  | ORaise e => OL [OI 2; exn_type e; oopt exn_type (cause_of e)]
  end.
