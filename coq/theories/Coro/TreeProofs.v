(* Lemmas about trees, bisimilarity and the drivers (shared, C01..C07). *)
From Asynkit Require Import Base.Prelude Coro.Tree Coro.Native.

Lemma eqv_refl : forall c, eqv c c.
Proof. induction c; constructor; auto. Qed.

Lemma eqv_sym : forall c c', eqv c c' -> eqv c' c.
Proof. induction 1; constructor; auto. Qed.

Lemma eqv_trans : forall a b, eqv a b -> forall c, eqv b c -> eqv a c.
Proof.
  induction 1 as [v|e|ev a b Hab IH|x k k' Hk IH|x v a b Hab IH|y k k' Hk IH];
    intros c Hbc; inversion Hbc; subst; constructor; auto.
Qed.

(* ---- exceptions that can cross a frame boundary ---- *)
Definition no_si (e : exn) : Prop := match e with StopIteration _ => False | _ => True end.

Lemma pep479_no_si : forall kd e, no_si (pep479 kd e).
Proof. destruct e; simpl; auto. Qed.

Lemma pep479_id : forall kd e, no_si e -> pep479 kd e = e.
Proof. destruct e; simpl; auto; contradiction. Qed.

Lemma pep479_idem : forall kd kd' e, pep479 kd' (pep479 kd e) = pep479 kd e.
Proof. intros; apply pep479_id, pep479_no_si. Qed.

Lemma pep479_genexit : forall kd e, is_genexit (pep479 kd e) = is_genexit e.
Proof. destruct e; reflexivity. Qed.

(* what close() can report: nothing, or an exception that is not StopIteration *)
Definition ok_r (r : option exn) : Prop := match r with None => True | Some e => no_si e end.

Lemma exn_after_close_no_si : forall r, ok_r r -> no_si (exn_after_close r).
Proof. destruct r; simpl; auto. Qed.

(* ---- congruence of close_then / await_ ---- *)
Lemma close_then_cong : forall kd c c', eqv c c' -> forall k k',
  (forall r, ok_r r -> eqv (k r) (k' r)) -> eqv (close_then kd c k) (close_then kd c' k').
Proof.
  induction 1 as [v|e|ev a b Hab IH|x g g' Hg IH|x v a b Hab IH|y g g' Hg IH];
    intros k k' Hk; simpl.
  - apply Hk; exact I.
  - destruct (is_genexit e); apply Hk; simpl; auto using pep479_no_si.
  - constructor; auto.
  - constructor; auto.
  - constructor; auto.
  - apply Hk; exact I.
Qed.

Lemma await_cong : forall kd c c', eqv c c' -> forall kr kr' ke ke',
  (forall v, eqv (kr v) (kr' v)) -> (forall e, no_si e -> eqv (ke e) (ke' e)) ->
  eqv (await_ kd c kr ke) (await_ kd c' kr' ke').
Proof.
  induction 1 as [v|e|ev a b Hab IH|x g g' Hg IH|x v a b Hab IH|y g g' Hg IH];
    intros kr kr' ke ke' Hr He; simpl.
  - apply Hr.
  - apply He, pep479_no_si.
  - constructor; auto.
  - constructor; auto.
  - constructor; auto.
  - constructor. intros [v|e].
    + apply IH; auto.
    + destruct e; try (apply IH; auto).
      apply close_then_cong; [apply Hg|].
      intros r Hr'. apply He, exn_after_close_no_si, Hr'.
Qed.

Lemma native_await_cong : forall c c', eqv c c' -> eqv (native_await c) (native_await c').
Proof. intros; apply await_cong; auto using eqv_refl. Qed.

(* ---- awaiting an await: a native layer in between changes nothing ---- *)
Definition conv_r (kd : kind) (r : option exn) : option exn :=
  match r with
  | None => None
  | Some e => if is_genexit e then None else Some (pep479 kd e)
  end.

Lemma close_close : forall kd kd2 c kont,
  eqv (close_then kd2 (close_then kd c (fun r => Raise (exn_after_close r))) kont)
      (close_then kd c (fun r => kont (conv_r kd2 r))).
Proof.
  induction c as [v|e|ev c IH|x g IH|x v c IH|y g IH]; intros kont; simpl.
  - apply eqv_refl.
  - destruct (is_genexit e) eqn:Hge; simpl.
    + apply eqv_refl.
    + rewrite pep479_genexit, Hge. apply eqv_refl.
  - constructor; auto.
  - constructor; auto.
  - constructor; auto.
  - apply eqv_refl.
Qed.

Lemma await_native : forall kd kd2 c kr ke,
  eqv (await_ kd2 (await_ kd c Ret Raise) kr ke)
      (await_ kd c kr (fun e => ke (pep479 kd2 e))).
Proof.
  induction c as [v|e|ev c IH|x g IH|x v c IH|y g IH]; intros kr ke; simpl.
  - apply eqv_refl.
  - apply eqv_refl.
  - constructor; auto.
  - constructor; auto.
  - constructor; auto.
  - constructor. intros [v|e].
    + apply IH.
    + destruct e; try apply IH.
      eapply eqv_trans; [apply close_close|].
      apply close_then_cong; [apply eqv_refl|].
      intros [e|] Hr; simpl.
      * destruct (is_genexit e) eqn:Hge; simpl; [|apply eqv_refl].
        destruct e; try discriminate. apply eqv_refl.
      * apply eqv_refl.
Qed.

(* exceptions reaching [ke] are never StopIteration, so an extra PEP 479 there is invisible *)
Lemma await_ke_pep479 : forall kd kd2 c kr ke,
  eqv (await_ kd c kr (fun e => ke (pep479 kd2 e))) (await_ kd c kr ke).
Proof.
  intros. apply await_cong; auto using eqv_refl.
  intros e He. rewrite pep479_id by assumption. apply eqv_refl.
Qed.

(* native await is idempotent, whatever kind of iterator sits in between *)
Lemma await_native_await : forall kd kd2 c,
  eqv (await_ kd2 (await_ kd c Ret Raise) Ret Raise) (await_ kd c Ret Raise).
Proof.
  intros. eapply eqv_trans; [apply await_native|]. apply await_ke_pep479 with (ke := Raise).
Qed.

Lemma native_await_idem : forall c, eqv (native_await (native_await c)) (native_await c).
Proof. intros; apply await_native_await. Qed.

(* ---- eqv bodies answer every driver sequence alike ---- *)
Inductive stop_rel : stop -> stop -> Prop :=
| sr_ret v : stop_rel (SRet v) (SRet v)
| sr_raise e : stop_rel (SRaise e) (SRaise e)
| sr_susp y k k' : (forall i, eqv (k i) (k' i)) -> stop_rel (SSusp y k) (SSusp y k').

Lemma run_eqv : forall c c', eqv c c' -> forall s,
  exists evs s' st st', run s c = (evs, s', st) /\ run s c' = (evs, s', st') /\ stop_rel st st'.
Proof.
  induction 1 as [v|e|ev a b Hab IH|x g g' Hg IH|x v a b Hab IH|y g g' Hg IH]; intros s; simpl.
  - do 4 eexists; repeat split; constructor.
  - do 4 eexists; repeat split; constructor.
  - destruct (IH s) as (evs & s' & st & st' & H1 & H2 & H3). rewrite H1, H2.
    do 4 eexists; repeat split; eauto.
  - apply IH.
  - apply IH.
  - do 4 eexists; repeat split; constructor; auto.
Qed.

Inductive obj_rel : cobj -> cobj -> Prop :=
| or_new c c' : eqv c c' -> obj_rel (New c) (New c')
| or_susp k k' : (forall i, eqv (k i) (k' i)) -> obj_rel (Suspended k) (Suspended k')
| or_running : obj_rel Running Running
| or_finished : obj_rel Finished Finished.

Definition resp_rel (r r' : resp) : Prop :=
  r_events r = r_events r' /\ r_out r = r_out r' /\ r_store r = r_store r' /\
  obj_rel (r_obj r) (r_obj r').

Lemma settle_rel : forall kd evs s st st',
  stop_rel st st' -> resp_rel (settle kd (evs, s, st)) (settle kd (evs, s, st')).
Proof.
  intros kd evs s st st' H; destruct H; simpl; repeat split; simpl; auto; constructor; auto.
Qed.

Lemma run_settle_rel : forall kd c c' s, eqv c c' ->
  resp_rel (settle kd (run s c)) (settle kd (run s c')).
Proof.
  intros kd c c' s H. destruct (run_eqv _ _ H s) as (evs & s' & st & st' & H1 & H2 & H3).
  rewrite H1, H2. apply settle_rel; auto.
Qed.

Lemma resp_rel_refl_obj : forall evs out o o' s, obj_rel o o' ->
  resp_rel (mkresp evs out o s) (mkresp evs out o' s).
Proof. intros; repeat split; auto. Qed.

Lemma apply_op_rel : forall kd o o' s op, obj_rel o o' ->
  resp_rel (apply_op kd o s op) (apply_op kd o' s op).
Proof.
  intros kd o o' s op H. destruct op as [v|e|]; simpl.
  - (* send *)
    destruct H as [c c' Hc|k k' Hk| |]; simpl.
    + destruct v; try (apply resp_rel_refl_obj; constructor; auto).
      apply run_settle_rel; auto.
    + apply run_settle_rel; auto.
    + apply resp_rel_refl_obj; constructor.
    + apply resp_rel_refl_obj; constructor.
  - (* throw *)
    destruct H as [c c' Hc|k k' Hk| |]; simpl.
    + apply resp_rel_refl_obj; constructor.
    + apply run_settle_rel; auto.
    + apply resp_rel_refl_obj; constructor.
    + apply resp_rel_refl_obj; constructor.
  - (* close *)
    destruct H as [c c' Hc|k k' Hk| |]; simpl.
    + apply resp_rel_refl_obj; constructor.
    + destruct (run_eqv _ _ (Hk (Throw GeneratorExit)) s) as (evs & s' & st & st' & H1 & H2 & H3).
      rewrite H1, H2. destruct H3 as [v|e|y g g' Hg].
      * apply resp_rel_refl_obj; constructor.
      * destruct (is_genexit e); apply resp_rel_refl_obj; constructor.
      * apply resp_rel_refl_obj; constructor; auto.
    + apply resp_rel_refl_obj; constructor.
    + apply resp_rel_refl_obj; constructor.
Qed.

Lemma drive_rel : forall kd ops o o' s, obj_rel o o' -> drive kd o s ops = drive kd o' s ops.
Proof.
  induction ops as [|op t IH]; intros o o' s H; simpl; auto.
  destruct (apply_op_rel kd _ _ s op H) as (He & Ho & Hs & Hobj).
  rewrite He, Ho, Hs. f_equal. apply IH; auto.
Qed.

Lemma drive_stop_rel : forall kd ops o o' s, obj_rel o o' ->
  drive_stop kd o s ops = drive_stop kd o' s ops.
Proof.
  induction ops as [|op t IH]; intros o o' s H; simpl; auto.
  destruct (apply_op_rel kd _ _ s op H) as (He & Ho & Hs & Hobj).
  rewrite He, Ho, Hs. f_equal. destruct (r_out (apply_op kd o' s op)); auto.
Qed.

(* bisimilar bodies are indistinguishable by any sequence of send/throw/close *)
Theorem eqv_drive : forall kd c c' s ops, eqv c c' ->
  drive kd (New c) s ops = drive kd (New c') s ops.
Proof. intros; apply drive_rel; constructor; auto. Qed.

Theorem eqv_drive_stop : forall kd c c' s ops, eqv c c' ->
  drive_stop kd (New c) s ops = drive_stop kd (New c') s ops.
Proof. intros; apply drive_stop_rel; constructor; auto. Qed.
