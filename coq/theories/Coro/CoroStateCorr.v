(* C20 - correspondence interface: a body of one of the three kinds, a drive
   history, and the observation (raw attributes + helper results + the model's
   ground truth) before and after every step and from inside the running body.
   The object state moves only through [CoroState.apply_ev] (see [ev]), so every
   state this interpreter passes through is [reachable]
   (CoroStateProofs.run_states_reachable).

   Transcribed: Objects/genobject.c of CPython 3.12.1 - gen_send_ex2, _gen_throw,
   gen_close, async_gen_asend_send/throw/close, async_gen_athrow_send/throw/close,
   async_gen_unwrap_value. *)
From Asynkit Require Import Base.Prelude Base.Obs Coro.CoroState.

(* ---------- bodies ---------- *)
Inductive stmt :=
| SObs                          (* observe the own object from the body *)
| SAwait (n : nat) (sw : bool)  (* await an object yielding n tokens; sw: its throw() swallows one
                                   exception and yields a token instead *)
| SYield.                       (* yield a value (generator kinds only) *)
Inductive term := TReturn | TRaise.
Record body := mkBody {
  bmain : list stmt; bterm : term;
  bhandler : option (list stmt * term)   (* except BaseException: ... around the main part *)
}.

(* exceptions that travel through a body *)
Inductive exn := XThrown | XBody | XGenExit.

(* ---------- drive operations ---------- *)
Inductive amode := MAsend | MAthrow | MAclose.
Inductive op :=
| OSend | OThrow | OClose                       (* coroutine / generator *)
| ONew (slot : bool) (m : amode)                (* agen.asend(None) / athrow(Thrown()) / aclose() *)
| OASend (slot : bool) | OAThrow (slot : bool) | OAClose (slot : bool).

(* ---------- observation ---------- *)
Definition site_out : Z := 0.  Definition site_start : Z := 1.  Definition site_exit : Z := 2.
Definition site_obs : Z := 3.  Definition site_next : Z := 4.   Definition site_throw : Z := 5.
Definition site_close : Z := 6.

Section Interp.
(* the three helpers under test: (coro_is_new, coro_is_suspended, coro_is_finished) *)
Variable H : ostate -> bool * bool * bool.

Definition oobs (site : Z) (s : ostate) : obs :=
  let '(n, u, f) := H s in
  OL [OI site; ob (gstarted s); ob (gexited s); ob (gonstack s);
      ob (a_frame_none s); ob (a_lasti_neg s); ob (a_fback s);
      ob (a_running s); ob (a_suspended s); ob (a_await_none s);
      ob n; ob u; ob f].

(* result codes of a step *)
Definition r_token : Z := 0.   Definition r_value : Z := 1.   Definition r_stopiter : Z := 2.
Definition r_none : Z := 8.    Definition r_stopasync : Z := 9.
Definition r_running : Z := 61. Definition r_reuse : Z := 62. Definition r_ignored : Z := 63.
Definition r_noslot : Z := 99.
Definition r_exn (e : exn) : Z := match e with XThrown => 3 | XBody => 4 | XGenExit => 5 end.

(* the only way the object state changes *)
Definition ev (e : event) (s : ostate) : ostate :=
  match apply_ev s e with Some s' => s' | None => s end.

(* ---------- running the body until it suspends or ends ---------- *)
Inductive xout := XTok | XYield | XEnd.

(* executes statements with the frame executing (object state [o] is constant
   meanwhile); returns how it stopped, the remaining code, the log *)
Fixpoint exec (o : ostate) (l : list stmt) (log : list obs) : xout * list stmt * list obs :=
  match l with
  | [] => (XEnd, [], log)
  | SObs :: t => exec o t (log ++ [oobs site_obs o])
  | SYield :: t => (XYield, t, log)
  | SAwait n sw :: t =>
      (* Tok.__next__ *)
      let log' := log ++ [oobs site_next o] in
      match n with
      | O => exec o t log'
      | S n' => (XTok, SAwait n' sw :: t, log')
      end
  end.

Inductive bres :=
| BSusp (inawait : bool) (rest : list stmt) (inh : bool)
| BRet
| BExn (e : exn).

Definition run_handler (b : body) (o : ostate) (e : exn) (log : list obs) : bres * list obs :=
  match bhandler b with
  | None => (BExn e, log)
  | Some (hs, ht) =>
      let '(x, r, log') := exec o hs log in
      match x with
      | XTok => (BSusp true r true, log')
      | XYield => (BSusp false r true, log')
      | XEnd => match ht with TReturn => (BRet, log') | TRaise => (BExn XBody, log') end
      end
  end.

(* continue the body at [rest] (in the handler iff [inh]) with a value or an exception *)
Definition run_from (b : body) (o : ostate) (rest : list stmt) (inh : bool) (inj : option exn)
           (log : list obs) : bres * list obs :=
  match inj with
  | Some e => if inh then (BExn e, log) else run_handler b o e log
  | None =>
      let '(x, r, log') := exec o rest log in
      match x with
      | XTok => (BSusp true r inh, log')
      | XYield => (BSusp false r inh, log')
      | XEnd =>
          if inh then
            match bhandler b with
            | Some (_, TRaise) => (BExn XBody, log')
            | _ => (BRet, log')
            end
          else
            match bterm b with
            | TReturn => (BRet, log')
            | TRaise => run_handler b o XBody log'
            end
      end
  end.

(* ---------- machine state ---------- *)
Inductive astate := AInit | AIter | AClosed.
Record mstate := mkM {
  mo : ostate;
  mrest : list stmt;     (* code left; while suspended in an await its head is that await *)
  minh : bool;           (* inside the handler *)
  mclosed : bool;        (* ag_closed *)
  mslot0 : option (amode * astate);
  mslot1 : option (amode * astate)
}.

Definition set_o (m : mstate) (o : ostate) : mstate :=
  mkM o (mrest m) (minh m) (mclosed m) (mslot0 m) (mslot1 m).
Definition set_code (m : mstate) (o : ostate) (r : list stmt) (h : bool) : mstate :=
  mkM o r h (mclosed m) (mslot0 m) (mslot1 m).
Definition set_closed (m : mstate) (c : bool) : mstate :=
  mkM (mo m) (mrest m) (minh m) c (mslot0 m) (mslot1 m).
Definition get_slot (m : mstate) (i : bool) := if i then mslot1 m else mslot0 m.
Definition set_slot (m : mstate) (i : bool) (v : option (amode * astate)) : mstate :=
  if i then mkM (mo m) (mrest m) (minh m) (mclosed m) (mslot0 m) v
  else mkM (mo m) (mrest m) (minh m) (mclosed m) v (mslot1 m).

(* result of getting into the generator object *)
Inductive gres :=
| GTok | GYield | GRet | GExn (e : exn)
| GDead (inj : option exn).    (* the frame was already cleared *)

(* the frame is executing (state [mo m]); run the body and leave it *)
Definition continue_body (b : body) (m : mstate) (inj : option exn) (keeprun : bool)
           (log : list obs) : gres * mstate * list obs :=
  let o := mo m in
  let '(r, log') := run_from b o (mrest m) (minh m) inj log in
  match r with
  | BSusp true rest h => (GTok, set_code m (ev EvAwait o) rest h, log')
  | BSusp false rest h => (GYield, set_code m (ev EvYield o) rest h, log')
  | BRet => (GRet, set_code m (ev (EvFinish keeprun) o) [] (minh m), log' ++ [oobs site_exit o])
  | BExn e => (GExn e, set_code m (ev (EvFinish keeprun) o) [] (minh m), log' ++ [oobs site_exit o])
  end.

(* gen_send_ex2: send a value, or raise [inj] at the point where the frame stands *)
Definition resume (b : body) (m : mstate) (inj : option exn) (setrun keeprun : bool)
  : gres * mstate * list obs :=
  match ofs (mo m), inj with
  | FCleared, _ => (GDead inj, m, [])
  | FCreated, Some e => (GExn e, set_o m (ev EvKill (mo m)), [])
  | FCreated, None =>
      let o := ev (EvEnter setrun) (mo m) in
      continue_body b (set_o m o) None keeprun [oobs site_start o]
  | _, _ =>
      let o := ev (EvEnter setrun) (mo m) in
      continue_body b (set_o m o) inj keeprun []
  end.

(* _gen_throw / gen_close: [closing] = close() of the awaited iterator instead of throw() *)
Definition throw_in (b : body) (m : mstate) (e : exn) (closing setrun keeprun : bool)
  : gres * mstate * list obs :=
  match ofs (mo m), mrest m with
  | FSuspAwait, SAwait n sw :: t =>
      let o1 := ev (EvThrowInto setrun) (mo m) in
      if closing then
        let o2 := ev EvThrowDone o1 in
        continue_body b (set_o m o2) (Some e) keeprun [oobs site_close o1]
      else if sw then
        (GTok, set_code m (ev EvThrowBack o1) (SAwait n false :: t) (minh m), [oobs site_throw o1])
      else
        let o2 := ev EvThrowDone o1 in
        continue_body b (set_o m o2) (Some e) keeprun [oobs site_throw o1]
  | _, _ => resume b m (Some e) setrun keeprun
  end.

(* ---------- coroutine / generator operations ---------- *)
Definition plain_step (b : body) (m : mstate) (o : op) : Z * mstate * list obs :=
  let k := okind (mo m) in
  match o with
  | OSend =>
      let '(g, m', log) := resume b m None false false in
      (match g with
       | GTok => r_token | GYield => r_value | GRet => r_stopiter | GExn e => r_exn e
       | GDead _ => match k with KCoro => r_reuse | _ => r_stopiter end
       end, m', log)
  | OThrow =>
      let '(g, m', log) := throw_in b m XThrown false false false in
      (match g with
       | GTok => r_token | GYield => r_value | GRet => r_stopiter | GExn e => r_exn e
       | GDead _ => match k with KCoro => r_reuse | _ => r_exn XThrown end
       end, m', log)
  | OClose =>
      match ofs (mo m) with
      | FCreated => (r_none, set_o m (ev EvKill (mo m)), [])
      | FCleared => (r_none, m, [])
      | _ =>
          let '(g, m', log) := throw_in b m XGenExit true false false in
          (match g with
           | GTok | GYield => r_ignored
           | GRet | GExn XGenExit | GDead _ => r_none
           | GExn e => r_exn e
           end, m', log)
      end
  | _ => (r_noslot, m, [])
  end.

(* ---------- async generator operations ---------- *)
(* async_gen_unwrap_value and the end of async_gen_asend_send / athrow in athrow() mode *)
Definition unwrap (m : mstate) (g : gres) : Z * mstate :=
  match g with
  | GTok => (r_token, m)
  | GYield => (r_value, m)
  | GRet => (r_stopasync, set_closed m true)
  | GExn XGenExit => (r_exn XGenExit, set_closed m true)
  | GExn e => (r_exn e, m)
  | GDead None => (r_stopasync, set_closed (set_o m (ev EvBounce (mo m))) true)
  | GDead (Some e) => (r_exn e, set_o m (ev EvBounce (mo m)))
  end.

(* aclose() mode *)
Definition unwrap_close (m : mstate) (g : gres) : Z * mstate :=
  match g with
  | GTok => (r_token, m)
  | GYield => (r_ignored, m)
  | GRet | GExn XGenExit | GDead None | GDead (Some XGenExit) => (r_stopiter, m)
  | GExn e | GDead (Some e) => (r_exn e, m)
  end.

Definition closed_unless_token (r : Z) (m : amode) (st : astate) : option (amode * astate) :=
  Some (m, if (r =? r_token)%Z then st else AClosed).

Definition agen_step (b : body) (m : mstate) (o : op) : Z * mstate * list obs :=
  match o with
  | ONew i md => (r_none, set_slot m i (Some (md, AInit)), [])
  | OAClose i =>
      match get_slot m i with
      | None => (r_noslot, m, [])
      | Some (md, _) => (r_none, set_slot m i (Some (md, AClosed)), [])
      end
  | OASend i =>
      match get_slot m i with
      | None => (r_noslot, m, [])
      | Some (_, AClosed) => (r_reuse, m, [])
      | Some (MAsend, st) =>
          if match st with AInit => orun (mo m) | _ => false end then (r_running, m, [])
          else
            let '(g, m1, log) := resume b m None true false in
            let '(r, m2) := unwrap m1 g in
            (r, set_slot m2 i (closed_unless_token r MAsend AIter), log)
      | Some (md, st) =>
          if fstate_eqb (ofs (mo m)) FCleared then (r_stopiter, set_slot m i (Some (md, AClosed)), [])
          else
            match st with
            | AInit =>
                if orun (mo m) then (r_running, set_slot m i (Some (md, AClosed)), [])
                else if mclosed m then (r_stopasync, set_slot m i (Some (md, AClosed)), [])
                else
                  match md with
                  | MAclose =>
                      let '(g, m1, log) := throw_in b (set_closed m true) XGenExit false true false in
                      let '(r, m2) := unwrap_close m1 g in
                      (r, set_slot m2 i (closed_unless_token r md AIter), log)
                  | _ =>
                      let '(g, m1, log) := throw_in b m XThrown false true false in
                      let '(r, m2) := unwrap m1 g in
                      (r, set_slot m2 i (closed_unless_token r md AIter), log)
                  end
            | _ =>
                let '(g, m1, log) := resume b m None false false in
                match md with
                | MAclose =>
                    let '(r, m2) := unwrap_close m1 g in
                    (r, set_slot m2 i (closed_unless_token r md AIter), log)
                | _ =>
                    (* athrow() mode after the first step: the result is passed on, the awaitable
                       is not marked closed *)
                    let '(r, m2) := unwrap m1 g in (r, m2, log)
                end
            end
      end
  | OAThrow i =>
      match get_slot m i with
      | None => (r_noslot, m, [])
      | Some (_, AClosed) => (r_reuse, m, [])
      | Some (MAsend, st) =>
          let '(g, m1, log) := throw_in b m XThrown false false false in
          let '(r, m2) := unwrap m1 g in
          (r, set_slot m2 i (closed_unless_token r MAsend st), log)
      | Some (MAthrow, _) =>
          let '(g, m1, log) := throw_in b m XThrown false false false in
          let '(r, m2) := unwrap m1 g in
          (r, m2, log)
      | Some (MAclose, _) =>
          let '(g, m1, log) := throw_in b m XThrown false false true in
          let '(r, m2) := unwrap_close m1 g in
          (* only "async generator ignored GeneratorExit" closes the awaitable here *)
          (r, match g with GYield => set_slot m2 i (Some (MAclose, AClosed)) | _ => m2 end, log)
      end
  | _ => (r_noslot, m, [])
  end.

Definition step (b : body) (m : mstate) (o : op) : Z * mstate * list obs :=
  match okind (mo m) with
  | KAgen => agen_step b m o
  | _ => plain_step b m o
  end.

Fixpoint run_from_state (b : body) (m : mstate) (ops : list op) : list obs :=
  match ops with
  | [] => []
  | o :: t =>
      let '(r, m', log) := step b m o in
      OL [oobs site_out (mo m); OL log; OI r; oobs site_out (mo m')] :: run_from_state b m' t
  end.

Definition start_state (k : kind) (b : body) : mstate :=
  mkM (init k) (bmain b) false false None None.

Definition run_with (i : kind * body * list op) : obs :=
  let '(k, b, ops) := i in OL (run_from_state b (start_state k b) ops).

(* every object state the interpreter passes through, for the reachability lemma *)
Fixpoint states_from (b : body) (m : mstate) (ops : list op) : list ostate :=
  match ops with
  | [] => [mo m]
  | o :: t => let '(_, m', _) := step b m o in mo m :: states_from b m' t
  end.

End Interp.

(* the helpers after fix F12 (what the check compares with the tree) and before it
   (compared once with the unrepaired tree, see notes/C20.md) *)
Definition new_helpers (s : ostate) := (is_new s, is_suspended s, is_finished s).
Definition old_helpers (s : ostate) := (old_is_new s, old_is_suspended s, old_is_finished s).
Definition run : kind * body * list op -> obs := run_with new_helpers.
Definition run_old : kind * body * list op -> obs := run_with old_helpers.
