(* Model of asynkit.monitor.Monitor / BoundMonitor WITH out-of-band data
   (property C07; reusable by C06).  Model of the CURRENT monitor.py (relay
   loop restructured by the F14 repair).

   INTERFACE (everything below is a definition; proofs are in MonitorProofs.v)
   -----------------------------------------------------------------------
   Monitor.state        lives in the [store] that Tree.run threads through a
                        body: monitor number m owns the variable [cell m]
                        (= 100 + m, away from the ContextVar numbers of the
                        harness); [mstate s m] reads it (0 idle, 1 active,
                        -1 oob value in flight).  Several monitors = several
                        cells of the same store.
   m.oob(d)             [oob_gen m d] is the generator (types.coroutine) made by
                        Monitor.oob; [await_oob m d kr ke] is `r = await m.oob(d)`
                        inside a body (kr r = code after, ke e = handlers).
   bodies               [mtree] = trees with an explicit out-of-band node
                        [TOob m d k]; [emb : mtree -> coro] expands the node to
                        what the body really does (read the cell, raise
                        "Monitor not active" or write -1 and yield d).
   calls                CPS transformers: the tree of the CALLER's code
                        `r = await m.aawait(c, v)` etc., where [o : cobj] is the
                        driven coroutine object and [kont o' r] is the caller's
                        code after the call, given the object as the call left
                        it and the result [r : res] (RVal v = returned v,
                        RExc e = raised e; OOBData d arrives as RExc (OOBData d)):
                          asend_k m o i kont kc    Monitor._asend (i = Send v | Throw e; kc = the
                                                   caller after an external GeneratorExit)
                          call_k m o cl kont       cl : call = CAwait v | CThrow e | CClose
                                                   | CStart | CTry v sentinel
                          (BoundMonitor methods = the same calls: bound_call_k)
                        Real suspensions of the driven coroutine are yielded
                        outward unchanged ([Susp y] stays [Susp y]).
   direct evaluator     [relay_run], [asend_run], [resume_run]: the same, as a
                        first-order function returning [MEnd o' r] or
                        [MSusp y k] (suspended at a real suspension); used for
                        the top-level driver sessions.  MonitorProofs.relay_k_run
                        proves it equal to running the CPS tree.
   script coroutines    [script_k items o]: a coroutine that drives ONE
                        sub-coroutine through monitors (nested monitors).

   The two native await layers between the caller and the _asend generator
   (`return await self._asend(..)` inside aawait, and the caller's own await)
   are folded into [relay_k]: C02 (relay_transparent, await_native_await) shows
   they are transparent -- with ONE exception, modelled by [bound_fix] and the
   separate continuation [kc] of relay_k: a GeneratorExit thrown from outside
   into a frame that AWAITS a call coroutine closes that coroutine and then
   raises GeneratorExit in the awaiting frame whatever the call coroutine did
   with it (aclose()'s `except GeneratorExit: pass` only matters for a raw
   driver of the Monitor.aclose coroutine itself).  The correspondence check of
   C07 compares this model directly with the real coroutine objects.

   monitor.py:76-111   _asend       -> asend_k / relay_k / close_k
   monitor.py:113-125  aawait       -> call_k (CAwait v)
   monitor.py:157-168  athrow       -> call_k (CThrow e)
   monitor.py:170-182  oob          -> oob_gen / await_oob / emb (TOob ..)
   monitor.py:184-196  aclose       -> call_k CClose
   monitor.py:198-208  start        -> call_k CStart
   monitor.py:210-225  try_await    -> call_k (CTry v sentinel)
   monitor.py:228-283  BoundMonitor -> bound_call_k *)
From Asynkit Require Import Base.Prelude Coro.Tree Coro.Native.
Open Scope Z_scope.

(* ------------------------------------------------------------ state cells *)
Definition cell (m : Z) : var := 100 + m.
Definition st (v : val) : Z := match v with VInt z => z | _ => 0 end.
Definition mstate (s : store) (m : Z) : Z := st (lookup s (cell m)).
Definition setcell (s : store) (m z : Z) : store := update s (cell m) (VInt z).
Definition setst (m z : Z) (c : coro) : coro := Set_ (cell m) (VInt z) c.

(* ---------------------------------------------------------------- oob() *)
(*  @types.coroutine
    def oob(self, data):
        if self.state != 1: raise RuntimeError("Monitor not active")
        self.state = -1
        return (yield data)                                                  *)
Definition oob_gen (m : Z) (d : val) : coro :=
  Get (cell m) (fun s =>
    if st s =? 1 then setst m (-1) (tok d)
    else Raise (RuntimeError RtMonitorNotActive)).

Definition await_oob (m : Z) (d : val) (kr : val -> coro) (ke : exn -> coro) : coro :=
  await_ KGen (oob_gen m d) kr ke.

(* ----------------------------------------------- bodies with oob nodes *)
(* [TOob m d k]   r = await m.oob(d) : if m is active the body marks the cell,
                  yields d and continues with k (Send r) / k (Throw e); if m is
                  not active it continues with k (Throw "Monitor not active").
   [TLost m d ta tn]  an oob() whose yield is swallowed by a close() of the
                  frame that issued it (PEP 380: a sub-coroutine that answers
                  GeneratorExit with oob()): if m is active the cell is marked
                  and the body goes on with ta WITHOUT suspending (the closer got
                  "coroutine ignored GeneratorExit"); else tn.  Only produced
                  by closing (tclose_then); the carve-out of the property. *)
Inductive mtree :=
| TRet (v : val)
| TRaise (e : exn)
| TEff (ev : event) (t : mtree)
| TSusp (y : val) (k : input -> mtree)
| TOob (m : Z) (d : val) (k : input -> mtree)
| TLost (m : Z) (d : val) (ta tn : mtree).

Definition not_active : input := Throw (RuntimeError RtMonitorNotActive).

Fixpoint emb (t : mtree) : coro :=
  match t with
  | TRet v => Ret v
  | TRaise e => Raise e
  | TEff ev t' => Eff ev (emb t')
  | TSusp y k => Susp y (fun i => emb (k i))
  | TOob m d k =>
      Get (cell m) (fun s =>
        if st s =? 1 then setst m (-1) (Susp d (fun i => emb (k i)))
        else emb (k not_active))
  | TLost m d ta tn =>
      Get (cell m) (fun s => if st s =? 1 then setst m (-1) (emb ta) else emb tn)
  end.

(* native await of a callee given as an mtree (mirror of Native.close_then / await_) *)
Fixpoint tclose_then (kd : kind) (t : mtree) (kont : option exn -> mtree) : mtree :=
  match t with
  | TRet _ => kont None
  | TRaise e => if is_genexit e then kont None else kont (Some (pep479 kd e))
  | TEff ev t' => TEff ev (tclose_then kd t' kont)
  | TSusp _ _ => kont (Some (RuntimeError RtIgnoredGenExit))
  | TOob m d k => TLost m d (kont (Some (RuntimeError RtIgnoredGenExit)))
                            (tclose_then kd (k not_active) kont)
  | TLost m d ta tn => TLost m d (tclose_then kd ta kont) (tclose_then kd tn kont)
  end.

Fixpoint tawait_ (kd : kind) (t : mtree) (kr : val -> mtree) (ke : exn -> mtree) : mtree :=
  match t with
  | TRet v => kr v
  | TRaise e => ke (pep479 kd e)
  | TEff ev t' => TEff ev (tawait_ kd t' kr ke)
  | TSusp y k =>
      TSusp y (fun i =>
        match i with
        | Throw GeneratorExit =>
            tclose_then kd (k (Throw GeneratorExit)) (fun r => ke (exn_after_close r))
        | _ => tawait_ kd (k i) kr ke
        end)
  | TOob m d k =>
      TOob m d (fun i =>
        match i with
        | Throw GeneratorExit =>
            tclose_then kd (k (Throw GeneratorExit)) (fun r => ke (exn_after_close r))
        | _ => tawait_ kd (k i) kr ke
        end)
  | TLost m d ta tn => TLost m d (tawait_ kd ta kr ke) (tawait_ kd tn kr ke)
  end.

(* the oob() generator and the token helper as mtrees *)
Definition toob_gen (m : Z) (d : val) : mtree :=
  TOob m d (fun i => match i with Send v => TRet v | Throw e => TRaise e end).
Definition ttok (y : val) : mtree :=
  TSusp y (fun i => match i with Send v => TRet v | Throw e => TRaise e end).

(* --------------------------------------------------------------- results *)
Inductive res := RVal (v : val) | RExc (e : exn).

(* coro.close() of the driven coroutine, keeping the object: a coroutine that
   yields again stays suspended where it yielded *)
Fixpoint close_k (c : coro) (kont : cobj -> option exn -> coro) : coro :=
  match c with
  | Ret _ => kont Finished None
  | Raise e => if is_genexit e then kont Finished None
               else kont Finished (Some (pep479 KCoro e))
  | Eff ev c' => Eff ev (close_k c' kont)
  | Get x k => Get x (fun v => close_k (k v) kont)
  | Set_ x v c' => Set_ x v (close_k c' kont)
  | Susp _ k' => kont (Suspended k') (Some (RuntimeError RtIgnoredGenExit))
  end.

(* `except OOBData: raise RuntimeError("coroutine raised OOBData")` guards the first call only *)
Definition first_exn (first : bool) (e : exn) : exn :=
  if first then match e with OOBData _ => RuntimeError RtRaisedOOB | _ => e end else e.

(* The loop of _asend.  [c] is what the driven coroutine does in answer to the
   last coro.send / coro.throw (state = 1 on entry); `finally: state = 0`.
   [kont] = the caller's code after the call; [kc] = the caller's code when the call
   ends because GeneratorExit was thrown in from outside at a real suspension (they
   differ: see call_k). *)
Fixpoint relay_k (m : Z) (first : bool) (c : coro) (kont kc : cobj -> res -> coro) : coro :=
  match c with
  | Ret v => setst m 0 (kont Finished (RVal v))
  | Raise e => setst m 0 (kont Finished (RExc (first_exn first (pep479 KCoro e))))
  | Eff ev c' => Eff ev (relay_k m first c' kont kc)
  | Get x k => Get x (fun v => relay_k m first (k v) kont kc)
  | Set_ x v c' => Set_ x v (relay_k m first c' kont kc)
  | Susp y k =>
      Get (cell m) (fun s =>
        if st s =? -1
        then (* state = 1; raise OOBData(out_value) *)
             setst m 1 (setst m 0 (kont (Suspended k) (RExc (OOBData y))))
        else (* in_value = yield out_value *)
             Susp y (fun i =>
               match i with
               | Throw GeneratorExit =>          (* coro.close(); raise thrown *)
                   close_k (k (Throw GeneratorExit))
                           (fun o' r => setst m 0 (kc o' (RExc (exn_after_close r))))
               | _ => relay_k m false (k i) kont kc (* coro.send / coro.throw *)
               end))
  end.

(* the continuation stored at a real suspension of the relay *)
Definition relay_cont (m : Z) (k : input -> coro) (kont kc : cobj -> res -> coro) : input -> coro :=
  fun i => match i with
           | Throw GeneratorExit =>
               close_k (k (Throw GeneratorExit))
                       (fun o' r => setst m 0 (kc o' (RExc (exn_after_close r))))
           | _ => relay_k m false (k i) kont kc
           end.

(* the first call raised e without running the body *)
Definition imm_res (e : exn) : res :=
  match e with
  | StopIteration v => RVal v
  | OOBData _ => RExc (RuntimeError RtRaisedOOB)
  | _ => RExc e
  end.

(* what the first coro.send / coro.throw does to the object:
   inl c = the body runs c ; inr (o', e) = raises e at once, object becomes o' *)
Definition first_call (o : cobj) (i : input) : coro + (cobj * exn) :=
  match o, i with
  | New c, Send VNone => inl c
  | New _, Send _ => inr (o, TypeError 1)
  | New _, Throw e => inr (Finished, e)
  | Suspended k, _ => inl (k i)
  | Running, _ => inr (o, ValueError 1)
  | Finished, _ => inr (o, RuntimeError RtReuse)
  end.

(* r = await m._asend(coro, coro.send, (v,))  /  (coro, coro.throw, (e,)) *)
Definition asend_k (m : Z) (o : cobj) (i : input) (kont kc : cobj -> res -> coro) : coro :=
  Get (cell m) (fun s =>
    if st s =? 0 then
      setst m 1 (match first_call o i with
                 | inl c => relay_k m true c kont kc
                 | inr (o', e) => setst m 0 (kont o' (imm_res e))
                 end)
    else kont o (RExc (RuntimeError RtMonitorReentered))).

(* ------------------------------------------------------- the public calls *)
Inductive call :=
| CAwait (v : val)             (* aawait(coro, v) *)
| CThrow (e : exn)             (* athrow(coro, e) *)
| CClose                       (* aclose(coro) *)
| CStart                       (* start(coro) *)
| CTry (v sentinel : val).     (* try_await(coro, v, sentinel) *)

Definition call_input (cl : call) : input :=
  match cl with
  | CAwait v => Send v
  | CThrow e => Throw e
  | CClose => Throw GeneratorExit
  | CStart => Send VNone
  | CTry v _ => Send v
  end.

(* the handlers the helper puts around aawait / athrow.
   "Monitor coroutine ignored GeneratorExit" is encoded as RtIgnoredGenExit (the
   harness classifies RuntimeErrors by message fragment), "Coroutine did not
   await Monitor.oob()" as RtOther 99. *)
Definition post (cl : call) (r : res) : res :=
  match cl, r with
  | CClose, RExc GeneratorExit => RVal VNone
  | CClose, RExc (OOBData _) => RExc (RuntimeError RtIgnoredGenExit)
  | CClose, RVal _ => RVal VNone
  | CStart, RExc (OOBData d) => RVal d
  | CStart, RVal _ => RExc (RuntimeError (RtOther 99))
  | CTry _ sen, RExc (OOBData _) => RVal sen
  | _, _ => r
  end.

(* aclose(): `if coro.cr_frame is None: return` *)
Definition skips (cl : call) (o : cobj) : bool :=
  match cl, o with CClose, Finished => true | _, _ => false end.

(* A GeneratorExit thrown from outside into a coroutine that is AWAITING the call
   coroutine (PEP 380): the await closes the call coroutine and then raises
   GeneratorExit whatever the call coroutine did with it -- aclose()'s
   `except GeneratorExit: pass` makes the call coroutine return None, but the awaiting
   frame still gets GeneratorExit.  (Thrown directly into the call coroutine, as a raw
   driver does, aclose() does return None.) *)
Definition bound_fix (bound : bool) (i : input) (r : res) : res :=
  match i, r with
  | Throw GeneratorExit, RVal _ => if bound then RExc GeneratorExit else r
  | _, _ => r
  end.

(* r = await m.<cl>(o)  inside a caller whose code after the call is [kont o' r] *)
Definition call_k (m : Z) (o : cobj) (cl : call) (kont : cobj -> res -> coro) : coro :=
  if skips cl o then kont o (RVal VNone)
  else asend_k m o (call_input cl)
               (fun o' r => kont o' (post cl r))
               (fun o' r => kont o' (bound_fix true (Throw GeneratorExit) (post cl r))).

(* BoundMonitor(m, coro).aawait / athrow / aclose / start / try_await / __await__:
   `return await self.monitor.<method>(self.coro, ..)` -- one more native await: for a
   caller that awaits it nothing changes ([bound_call_k]); for a raw driver that throws
   GeneratorExit into the BoundMonitor coroutine the rule [bound_fix] applies
   ([bound_resume] below with bound = true). *)
Definition bound_call_k := call_k.

(* ------------------------------------------------------- direct evaluator *)
Inductive mstop :=
| MEnd (o : cobj) (r : res)              (* the call is over: object, result *)
| MSusp (y : val) (k : input -> coro).   (* real suspension: y goes outward; k = the driven
                                            coroutine's continuation *)

Fixpoint close_run (s : store) (c : coro) : list event * store * (cobj * option exn) :=
  match c with
  | Ret _ => ([], s, (Finished, None))
  | Raise e => ([], s, (Finished, if is_genexit e then None else Some (pep479 KCoro e)))
  | Eff ev c' => let '(evs, s', r) := close_run s c' in (ev :: evs, s', r)
  | Get x k => close_run s (k (lookup s x))
  | Set_ x v c' => close_run (update s x v) c'
  | Susp _ k' => ([], s, (Suspended k', Some (RuntimeError RtIgnoredGenExit)))
  end.

Fixpoint relay_run (m : Z) (first : bool) (s : store) (c : coro) : list event * store * mstop :=
  match c with
  | Ret v => ([], setcell s m 0, MEnd Finished (RVal v))
  | Raise e => ([], setcell s m 0, MEnd Finished (RExc (first_exn first (pep479 KCoro e))))
  | Eff ev c' => let '(evs, s', r) := relay_run m first s c' in (ev :: evs, s', r)
  | Get x k => relay_run m first s (k (lookup s x))
  | Set_ x v c' => relay_run m first (update s x v) c'
  | Susp y k =>
      if mstate s m =? -1
      then ([], setcell (setcell s m 1) m 0, MEnd (Suspended k) (RExc (OOBData y)))
      else ([], s, MSusp y k)
  end.

(* the driver answers a real suspension with i *)
Definition resume_run (m : Z) (s : store) (k : input -> coro) (i : input)
  : list event * store * mstop :=
  match i with
  | Throw GeneratorExit =>
      let '(evs, s', (o', r)) := close_run s (k (Throw GeneratorExit)) in
      (evs, setcell s' m 0, MEnd o' (RExc (exn_after_close r)))
  | _ => relay_run m false s (k i)
  end.

Definition asend_run (m : Z) (s : store) (o : cobj) (i : input) : list event * store * mstop :=
  if mstate s m =? 0 then
    let s1 := setcell s m 1 in
    match first_call o i with
    | inl c => relay_run m true s1 c
    | inr (o', e) => ([], setcell s1 m 0, MEnd o' (imm_res e))
    end
  else ([], s, MEnd o (RExc (RuntimeError RtMonitorReentered))).

Definition post_stop (cl : call) (st : mstop) : mstop :=
  match st with MEnd o r => MEnd o (post cl r) | _ => st end.

Definition call_run (m : Z) (s : store) (o : cobj) (cl : call) : list event * store * mstop :=
  if skips cl o then ([], s, MEnd o (RVal VNone))
  else let '(evs, s', st) := asend_run m s o (call_input cl) in (evs, s', post_stop cl st).

Definition call_resume (m : Z) (cl : call) (s : store) (k : input -> coro) (i : input)
  : list event * store * mstop :=
  let '(evs, s', st) := resume_run m s k i in (evs, s', post_stop cl st).

(* the same for a call coroutine that is awaited by one more frame when [bound]: a
   BoundMonitor method driven raw, or any call awaited by a caller (call_k) *)
Definition bound_resume (bound : bool) (m : Z) (cl : call) (s : store) (k : input -> coro) (i : input)
  : list event * store * mstop :=
  let '(evs, s', st) := call_resume m cl s k i in
  (evs, s', match st with MEnd o r => MEnd o (bound_fix bound i r) | _ => st end).

(* ----------------------------------------------------- script coroutines *)
(* A coroutine that drives one sub-coroutine [o] through monitors:
     for item in items:
         try:    <item>; log the value
         except Exception as e: log e          (BaseExceptions end the script)
     return None                                                           *)
Inductive item :=
| ICall (m : Z) (cl : call)      (* r = await M[m].<cl>(sub, ..) *)
| IOob (m : Z) (d : val)         (* log the call [EUser m d]; r = await M[m].oob(d) *)
| ITok (y : Z)                   (* r = await tok(y) *)
| ILog (n : Z).

Definition item_exc (e : exn) (next : coro) : coro :=
  if is_exception e then Eff (ECaught e) next else Raise e.

Fixpoint script_k (items : list item) (o : cobj) : coro :=
  match items with
  | [] => Ret VNone
  | ICall m cl :: rest =>
      call_k m o cl (fun o' r =>
        match r with
        | RVal v => Eff (ECallRet v) (script_k rest o')
        | RExc e => item_exc e (script_k rest o')
        end)
  | IOob m d :: rest =>
      Eff (EUser m d)
          (await_oob m d (fun v => Eff (ERecv v) (script_k rest o))
                         (fun e => item_exc e (script_k rest o)))
  | ITok y :: rest =>
      await_ KGen (tok (VInt y)) (fun v => Eff (ERecv v) (script_k rest o))
                                 (fun e => item_exc e (script_k rest o))
  | ILog n :: rest => Eff (ELog n) (script_k rest o)
  end.
