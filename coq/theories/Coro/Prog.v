(* A small first-order syntax of coroutine bodies with a CPS denotation into
   trees.  It exists ONLY for the correspondence check: the harness prints the
   same [prog] as Python source (harness/coro_lang.py), so CPython's own await,
   handlers and finally blocks are the reference for [denote] and Native.v.
   Theorems never mention [prog]; they quantify over [coro].

   Model file: definitions only. *)
From Asynkit Require Import Base.Prelude Coro.Tree Coro.Native.

Inductive prog :=
| PSkip                                   (* pass *)
| PLog (n : Z)                            (* L.append([0, n]) *)
| PAwaitTok (y : Z)                       (* L.append([1, enc(await tok(y))]) *)
| PCall (p : prog)                        (* L.append([3, enc(await f_i())])  -- f_i has body p *)
| PSeq (p q : prog)
| PTry (body : prog) (cls : list exc_class) (handler : prog)
                                          (* try: body  except (cls) as e: L.append([2, code(e)]); handler *)
| PFinally (body fin : prog)              (* try: body  finally: fin *)
| PReturn (v : val)                       (* return v *)
| PRaise (e : exn)                        (* raise e *)
| PReraise                                (* bare raise *)
| PSetVar (x : var) (v : val)             (* CV[x].set(v) *)
| PGetVar (x : var).                      (* L.append([1, enc(CV[x].get())]) *)

(* [cur]  the exception currently being handled (for a bare raise); it is
          inherited by a nested call, as CPython's exc_info chain does
   [kn]   what follows when the statement completes normally
   [kr v] what a [return v] does (runs the enclosing finally blocks)
   [ke e] what an exception e does (enclosing handlers / finally blocks) *)
Fixpoint denote (p : prog) (cur : option exn) (kn : coro) (kr : val -> coro) (ke : exn -> coro)
  : coro :=
  match p with
  | PSkip => kn
  | PLog n => Eff (ELog n) kn
  | PAwaitTok y => await_ KGen (tok (VInt y)) (fun v => Eff (ERecv v) kn) ke
  | PCall q => await_ KCoro (denote q cur (Ret VNone) Ret Raise) (fun v => Eff (ECallRet v) kn) ke
  | PSeq a b => denote a cur (denote b cur kn kr ke) kr ke
  | PTry b cls h =>
      denote b cur kn kr
             (fun e => if matches_any cls e
                       then Eff (ECaught e) (denote h (Some e) kn kr ke)
                       else ke e)
  | PFinally b f =>
      denote b cur (denote f cur kn kr ke)
             (fun v => denote f cur (kr v) kr ke)
             (fun e => denote f (Some e) (ke e) kr ke)
  | PReturn v => kr v
  | PRaise e => ke e
  | PReraise => ke (match cur with Some e => e | None => RuntimeError RtNoActiveExc end)
  | PSetVar x v => Set_ x v kn
  | PGetVar x => Get x (fun v => Eff (ERecv v) kn)
  end.

(* the body of   async def f(): <p>   *)
Definition body_of (p : prog) : coro := denote p None (Ret VNone) Ret Raise.
