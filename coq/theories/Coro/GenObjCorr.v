(* Correspondence interface of C06.

   gprog  : bodies of async generators over {log, await token (a real
            suspension), yield, nested call, seq, try/except, try/finally,
            return, raise, bare raise}.  The harness (harness/props/c06.py)
            prints the same gprog twice: as a native `async def` generator with
            `yield v`, and as a coroutine with `await g.ayield(v)` for
            GeneratorObject -- with [depth] pass-through coroutines
            `async def n_i(v): return await n_(i-1)(v)` around the ayield.
   native : AsyncGen.v against CPython's async generator (validates the
            REFERENCE, incl. the ag_running quirk of 3.12.1).
   genobj : GenObj.v against asynkit.GeneratorObject.
   Each step: [events; outcome (exact exception, message kind included);
   cause type; ag_running; frame state; awaitable left suspended] and, for
   genobj, Monitor.state. *)
From Asynkit Require Import Base.Prelude Base.Obs Coro.Tree Coro.Native Coro.AsyncGen Coro.GenObj.
Open Scope Z_scope.

Inductive gprog :=
| GSkip
| GLog (n : Z)                              (* L.append([0, n]) *)
| GAwaitTok (y : Z)                         (* L.append([1, enc(await tok(y))]) *)
| GYieldP (v : val) (depth : nat)           (* L.append([1, enc((yield v))]) / enc(await n_depth(v)) *)
| GCall (p : gprog)                         (* L.append([3, enc(await f_i())]) ; no yield inside p *)
| GSeq (p q : gprog)
| GTry (body : gprog) (cls : list exc_class) (handler : gprog)
| GFinally (body fin : gprog)
| GReturn (v : val)
| GRaiseP (e : exn)
| GReraise.

(* [nested] = false: the native reading (`yield`), true: the asynkit rendering *)
Fixpoint gdenote (nested : bool) (p : gprog) (cur : option exn) (kn : coro) (kr : val -> coro)
                 (ke : exn -> coro) : coro :=
  match p with
  | GSkip => kn
  | GLog n => Eff (ELog n) kn
  | GAwaitTok y => await_ KGen (tok (VInt y)) (fun v => Eff (ERecv v) kn) ke
  | GYieldP v d =>
      if nested then await_ KCoro (ayield_frames d v) (fun r => Eff (ERecv r) kn) ke
      else yield_ v (fun r => Eff (ERecv r) kn) ke
  | GCall q => await_ KCoro (gdenote nested q cur (Ret VNone) Ret Raise) (fun v => Eff (ECallRet v) kn) ke
  | GSeq a b => gdenote nested a cur (gdenote nested b cur kn kr ke) kr ke
  | GTry b cls h =>
      gdenote nested b cur kn kr
              (fun e => if matches_any cls e
                        then Eff (ECaught e) (gdenote nested h (Some e) kn kr ke)
                        else ke e)
  | GFinally b f =>
      gdenote nested b cur (gdenote nested f cur kn kr ke)
              (fun v => gdenote nested f cur (kr v) kr ke)
              (fun e => gdenote nested f (Some e) (ke e) kr ke)
  | GReturn v => kr v
  | GRaiseP e => ke e
  | GReraise => ke (match cur with Some e => e | None => RuntimeError RtNoActiveExc end)
  end.

Definition gbody_of (nested : bool) (p : gprog) : coro := gdenote nested p None (Ret VNone) Ret Raise.

(* ------------------------------------------------------------ observations *)
Definition oout (o : option outcome) : obs :=
  match o with
  | None => OL []
  | Some out =>
      OL [ooutcome out;
          match out with
          | ORaise e => oopt exn_type (cause_of e)
          | _ => OL []
          end]
  end.

Definition ohobs (o : hobs) : list obs :=
  [olist oevent (ho_events o); oout (ho_out o); ob (ho_running o); OI (ho_fstate o); ob (ho_pending o)].

Fixpoint ag_obs (st : agen * option pend) (h : list hop) : list obs :=
  match h with
  | [] => []
  | op :: t => let '(o, st') := ag_hstep st op in OL (ohobs o) :: ag_obs st' t
  end.

Fixpoint go_obs (st : gobj * option pend) (h : list hop) : list obs :=
  match h with
  | [] => []
  | op :: t => let '(o, st') := go_hstep st op in
               OL (ohobs o ++ [OI (go_mstate (fst st'))]) :: go_obs st' t
  end.

Definition native_run (i : gprog * list hop) : obs :=
  let '(p, h) := i in OL (ag_obs (ag_new (gbody_of false p) [], None) h).

Definition genobj_run (i : gprog * list hop) : obs :=
  let '(p, h) := i in OL (go_obs (go_new (gbody_of true p) [], None) h).
