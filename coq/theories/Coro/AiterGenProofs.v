(* Proofs about aiter_sync over the two generator objects (AiterGen.v):
   C05_aiter_asyncgen* (the native async generator as the iterable, link with
   C05's tree model of await_sync) and C06_aiter_sync (GeneratorObjectIterator
   iterated synchronously behaves like the native async generator iterated
   synchronously), the latter through the step simulation C06_step. *)
From Asynkit Require Import Base.Prelude Base.Obs Coro.Tree Coro.Native Coro.TreeProofs
  Coro.AwaitSync Coro.AwaitSyncProofs Coro.AsyncGen Coro.GenObj Coro.GenObjSim Coro.GenObjProofs
  Coro.GenObjCorr Coro.AiterGen.
Open Scope Z_scope.

(* ================================================== the driver, generically *)
Section DriverFacts.
  Variable X : Type.
  Variable hstep : X * option pend -> hop -> hobs * (X * option pend).
  Variable closep : X * option pend -> list event * option exn * (X * option pend).

  Notation trace := (h_trace X hstep).
  Notation after := (h_after X hstep).
  Notation asy := (await_sync_it X hstep closep).
  Notation ait := (aiter_it X hstep closep).

  Definition prepend (evs : list event) (r : aiter_it_res X) : aiter_it_res X :=
    mkaiterit X (evs ++ ii_events r) (ii_end r) (ii_state r) (ii_world r) (ii_ignored r).

  Lemma out_of_cls : forall o k, option_map cls (ho_out o) = Some k -> cls (out_of o) = k.
  Proof. intros o k H. unfold out_of. destruct (ho_out o); simpl in H; congruence. Qed.

  Lemma nexts_S : forall n, nexts (S n) = HStart (CSend VNone) :: nexts n.
  Proof. reflexivity. Qed.

  (* an __anext__() that hands out a value synchronously *)
  Lemma await_value : forall fixd w st o st' d,
    hstep st (HStart (CSend VNone)) = (o, st') ->
    option_map cls (ho_out o) = Some (KV d) ->
    asy fixd w st = mksyncit X (ho_events o) (SyValue d) st' w false.
  Proof.
    intros fixd w st o st' d Hs Hc. unfold await_sync_it. rewrite Hs.
    rewrite (out_of_cls _ _ Hc). reflexivity.
  Qed.

  (* ... that raises synchronously *)
  Lemma await_raise : forall fixd w st o st' e,
    hstep st (HStart (CSend VNone)) = (o, st') ->
    option_map cls (ho_out o) = Some (KE e) ->
    asy fixd w st = mksyncit X (ho_events o) (SyRaise e) st' w false.
  Proof.
    intros fixd w st o st' e Hs Hc. unfold await_sync_it. rewrite Hs.
    rewrite (out_of_cls _ _ Hc). reflexivity.
  Qed.

  (* ... that suspends *)
  Lemma await_block : forall fixd w st o0 st0 y o1 st1,
    hstep st (HStart (CSend VNone)) = (o0, st0) ->
    option_map cls (ho_out o0) = Some (KY y) ->
    hstep st0 (HResume (Throw SynchronousAbort)) = (o1, st1) ->
    asy fixd w st =
    let w1 := fst (capture fixd (arm w y) y) in
    match cls (out_of o1) with
    | KV _ => mksyncit X (ho_events o0 ++ ho_events o1) (SySyncError true None) st1 w1 false
    | KE e => mksyncit X (ho_events o0 ++ ho_events o1) (SySyncError false (Some e)) st1 w1 false
    | KY y2 =>
        let w2 := fst (capture fixd (arm w1 y2) y2) in
        let '(ev2, ce, st2) := closep st1 in
        mksyncit X (ho_events o0 ++ ho_events o1 ++ ev2)
                 (match ce with
                  | None => SySyncError false (Some rt_ignored_abort)
                  | Some e => SyCloseRaised e
                  end) st2 w2 true
    end.
  Proof.
    intros fixd w st o0 st0 y o1 st1 Hs0 Hc0 Hs1. unfold await_sync_it.
    rewrite Hs0, (out_of_cls _ _ Hc0), Hs1. reflexivity.
  Qed.

  (* as long as the __anext__() calls hand out values, aiter_sync hands them on *)
  Lemma aiter_it_prefix : forall n take fixd w st,
    Forall is_value (trace st (nexts n)) ->
    ait fixd w st (n + take) =
    prepend (items (trace st (nexts n))) (ait fixd w (after st (nexts n)) take).
  Proof.
    induction n as [|n IH]; intros take fixd w st Hv.
    - simpl. unfold prepend. simpl. destruct (ait fixd w st take); reflexivity.
    - rewrite nexts_S in *. cbn [h_trace h_after] in *.
      destruct (hstep st (HStart (CSend VNone))) as [o st'] eqn:Hs. cbn [snd].
      inversion Hv as [|? ? [d Hd] Hrest]; subst.
      change (S n + take)%nat with (S (n + take)). cbn [aiter_it].
      rewrite (await_value fixd w st o st' d Hs Hd). cbn [si_out si_world si_state si_events].
      rewrite (IH take fixd w st' Hrest). unfold prepend. cbn.
      unfold items_of. rewrite Hd. rewrite <- !app_assoc. reflexivity.
  Qed.

  (* n values, then the consumer stops *)
  Theorem aiter_it_taken : forall fixd w st n,
    Forall is_value (trace st (nexts n)) ->
    let r := ait fixd w st n in
    ii_events r = items (trace st (nexts n)) /\ ii_end r = ATaken /\
    ii_state r = after st (nexts n) /\ ii_world r = w /\ ii_ignored r = false.
  Proof.
    intros fixd w st n Hv. cbv zeta. pose proof (aiter_it_prefix n 0 fixd w st Hv) as H.
    rewrite Nat.add_0_r in H. rewrite H. unfold prepend; cbn. rewrite app_nil_r.
    repeat split; reflexivity.
  Qed.

  (* n values, then __anext__() raises e (StopAsyncIteration: the end) *)
  Theorem aiter_it_complete : forall fixd w st n take o st' e,
    Forall is_value (trace st (nexts n)) ->
    hstep (after st (nexts n)) (HStart (CSend VNone)) = (o, st') ->
    option_map cls (ho_out o) = Some (KE e) ->
    let r := ait fixd w st (n + S take) in
    ii_events r = items (trace st (nexts n)) ++ ho_events o /\
    ii_end r = (if is_sai e then AEnd else ARaise (SyRaise e)) /\
    ii_state r = st' /\ ii_world r = w /\ ii_ignored r = false.
  Proof.
    intros fixd w st n take o st' e Hv Hs Hc. cbv zeta.
    rewrite (aiter_it_prefix n (S take) fixd w st Hv). cbn [aiter_it].
    rewrite (await_raise fixd w _ o st' e Hs Hc). unfold prepend; cbn. repeat split; reflexivity.
  Qed.

  (* n values, then __anext__() suspends (yields y to a loop that is not there):
     SynchronousAbort is thrown into the suspended call *)
  Theorem aiter_it_blocking : forall fixd w st n take o0 st0 y o1 st1,
    Forall is_value (trace st (nexts n)) ->
    hstep (after st (nexts n)) (HStart (CSend VNone)) = (o0, st0) ->
    option_map cls (ho_out o0) = Some (KY y) ->
    hstep st0 (HResume (Throw SynchronousAbort)) = (o1, st1) ->
    let r := ait fixd w st (n + S take) in
    let w1 := fst (capture fixd (arm w y) y) in
    match option_map cls (ho_out o1) with
    | Some (KE e) =>          (* the abort (or what a handler made of it) comes out *)
        ii_events r = items (trace st (nexts n)) ++ ho_events o0 ++ ho_events o1 /\
        ii_end r = ARaise (SySyncError false (Some e)) /\
        ii_state r = st1 /\ ii_world r = w1 /\ ii_ignored r = false
    | Some (KV _) =>          (* the body caught the abort and yielded / returned a value *)
        ii_events r = items (trace st (nexts n)) ++ ho_events o0 ++ ho_events o1 /\
        ii_end r = ARaise (SySyncError true None) /\
        ii_state r = st1 /\ ii_world r = w1 /\ ii_ignored r = false
    | Some (KY y2) =>         (* it caught the abort and suspended again: close() *)
        let '(ev2, ce, st2) := closep st1 in
        ii_events r = items (trace st (nexts n)) ++ ho_events o0 ++ ho_events o1 ++ ev2 /\
        ii_end r = match ce with
                   | None => ARaise (SySyncError false (Some rt_ignored_abort))
                   | Some e => if is_sai e then AEnd else ARaise (SyCloseRaised e)
                   end /\
        ii_state r = st2 /\ ii_world r = fst (capture fixd (arm w1 y2) y2) /\ ii_ignored r = true
    | None => True
    end.
  Proof.
    intros fixd w st n take o0 st0 y o1 st1 Hv Hs0 Hc0 Hs1. cbv zeta.
    rewrite (aiter_it_prefix n (S take) fixd w st Hv). cbn [aiter_it].
    rewrite (await_block fixd w _ o0 st0 y o1 st1 Hs0 Hc0 Hs1). cbv zeta.
    destruct (option_map cls (ho_out o1)) as [k|] eqn:Hc1; [|exact I].
    rewrite (out_of_cls _ _ Hc1).
    destruct k as [y2|v|e]; unfold prepend; cbn.
    - destruct (closep st1) as [[ev2 ce] st2]. destruct ce as [e|]; cbn; repeat split; reflexivity.
    - repeat split; reflexivity.
    - repeat split; reflexivity.
  Qed.
End DriverFacts.

Arguments prepend {X}.

(* ============================================ the native async generator *)
Notation ag_after := (h_after agen ag_hstep).

Lemma h_trace_ag : forall h st, h_trace agen ag_hstep st h = ag_trace st h.
Proof.
  induction h as [|op t IH]; intros st; simpl; [reflexivity|].
  destruct (ag_hstep st op) as [o st']. rewrite IH. reflexivity.
Qed.

Lemma cls_conv_ag : forall e, cls (ORaise (conv_ag e)) = KE (conv_ag e).
Proof. destruct e; reflexivity. Qed.

(* one __anext__() on a generator that is not running: how it can end, and the
   state of the generator object afterwards *)
Lemma ag_next_shape : forall a o st',
  ag_run a = false ->
  ag_hstep (a, None) (HStart (CSend VNone)) = (o, st') ->
  match ho_out o with
  | Some (OReturn _) =>            (* the body yielded a value *)
      snd st' = None /\ ag_run (fst st') = false /\ (exists k, ag_fr (fst st') = FSusp k) /\
      ag_closed (fst st') = ag_closed a
  | Some (ORaise e) =>             (* the body ended / the generator was exhausted *)
      cls (ORaise e) = KE e /\
      snd st' = None /\ ag_run (fst st') = false /\ ag_fr (fst st') = FDone /\
      ag_closed (fst st') = (ag_closed a || is_sai_or_ge e)
  | Some (OYield _) =>             (* the body is suspended inside an await *)
      snd st' = Some PSend /\ ag_run (fst st') = true /\ (exists k, ag_fr (fst st') = FSusp k) /\
      ag_closed (fst st') = ag_closed a
  | None => False
  end.
Proof.
  intros [fr run cl s] o st' Hrun H. simpl in Hrun. subst run.
  unfold ag_hstep, ag_start in H. cbn [ag_run ag_fr ag_st ag_closed] in H.
  destruct fr as [c|k|]; cbn [gen_resume] in H.
  - unfold exec_frame in H. destruct (grun s c) as [[evs s'] st]. destruct st as [v|e|d k|y k];
      cbn in H; inversion H; subst; clear H; cbn; repeat split; eauto using cls_conv_ag.
  - unfold exec_frame in H. destruct (grun s (k (Send VNone))) as [[evs s'] st].
    destruct st as [v|e|d k'|y k']; cbn in H; inversion H; subst; clear H; cbn; repeat split;
      eauto using cls_conv_ag.
  - cbn in H. inversion H; subst; clear H. cbn. repeat split; auto.
Qed.

(* SynchronousAbort (any input) into the suspended __anext__() awaitable *)
Lemma ag_abort_shape : forall a k i o st',
  ag_fr a = FSusp k ->
  ag_hstep (a, Some PSend) (HResume i) = (o, st') ->
  match ho_out o with
  | Some (OReturn _) =>
      snd st' = None /\ ag_run (fst st') = false /\ (exists k', ag_fr (fst st') = FSusp k') /\
      ag_closed (fst st') = ag_closed a
  | Some (ORaise e) =>
      cls (ORaise e) = KE e /\
      snd st' = None /\ ag_run (fst st') = false /\ ag_fr (fst st') = FDone /\
      ag_closed (fst st') = (ag_closed a || is_sai_or_ge e)
  | Some (OYield _) =>
      snd st' = Some PSend /\ ag_run (fst st') = true /\ (exists k', ag_fr (fst st') = FSusp k') /\
      ag_closed (fst st') = ag_closed a
  | None => False
  end.
Proof.
  intros [fr run cl s] k i o st' Hfr H. simpl in Hfr. subst fr.
  unfold ag_hstep, ag_resume in H. cbn [ag_run ag_fr ag_st ag_closed gen_resume] in H.
  unfold exec_frame in H. destruct (grun s (k i)) as [[evs s'] st].
  destruct st as [v|e|d k'|y k']; cbn in H; inversion H; subst; clear H; cbn; repeat split;
    eauto using cls_conv_ag.
Qed.

Lemma is_value_out : forall o, is_value o <-> exists d, cls (out_of o) = KV d /\ ho_out o <> None.
Proof.
  intros o. unfold is_value, out_of. destruct (ho_out o) as [x|]; simpl; split; intros [d H].
  - exists d. split; [congruence|discriminate].
  - exists d. destruct H. congruence.
  - discriminate.
  - destruct H. congruence.
Qed.

(* while __anext__() hands out values the generator stays idle between the calls *)
Lemma ag_values_idle : forall n a,
  ag_run a = false -> Forall is_value (ag_trace (a, None) (nexts n)) ->
  exists a', ag_after (a, None) (nexts n) = (a', None) /\ ag_run a' = false.
Proof.
  induction n as [|n IH]; intros a Hrun Hv.
  - exists a. split; [reflexivity|assumption].
  - rewrite nexts_S in *. cbn [ag_trace h_after] in *.
    destruct (ag_hstep (a, None) (HStart (CSend VNone))) as [o [a1 p1]] eqn:Hs. cbn [snd].
    inversion Hv as [|? ? [d Hd] Hrest]; subst.
    pose proof (ag_next_shape a o (a1, p1) Hrun Hs) as Hsh.
    destruct (ho_out o) as [[y|v|e]|]; simpl in Hd; try discriminate.
    + destruct Hsh as (Hp & Hr & _). simpl in Hp, Hr. subst p1. apply IH; assumption.
    + destruct Hsh as (Hk & _). destruct e; simpl in Hd, Hk; discriminate.
Qed.

(* n values, then __anext__() raises: aiter_sync over a native async generator *)
Theorem aiter_ag_complete : forall fixd w a n take,
  ag_run a = false ->
  let tr := ag_trace (a, None) (nexts n) in
  Forall is_value tr ->
  let '(o, st') := ag_hstep (ag_after (a, None) (nexts n)) (HStart (CSend VNone)) in
  forall e, ho_out o = Some (ORaise e) ->
  let r := aiter_ag fixd w (a, None) (n + S take) in
  ii_events r = items tr ++ ho_events o /\
  ii_end r = (if is_sai e then AEnd else ARaise (SyRaise e)) /\
  ii_world r = w /\ ii_ignored r = false /\
  ii_state r = st' /\ snd st' = None /\ ag_run (fst st') = false /\ ag_fr (fst st') = FDone.
Proof.
  intros fixd w a n take Hrun tr Hv. subst tr.
  destruct (ag_values_idle n a Hrun Hv) as (a' & Haft & Hrun').
  destruct (ag_hstep (ag_after (a, None) (nexts n)) (HStart (CSend VNone))) as [o st'] eqn:Hs.
  intros e He. cbv zeta.
  pose proof Hs as Hs2. rewrite Haft in Hs2.
  pose proof (ag_next_shape a' o st' Hrun' Hs2) as Hsh. rewrite He in Hsh.
  destruct Hsh as (Hk & Hp & Hr & Hf & _).
  rewrite <- h_trace_ag in *.
  destruct (aiter_it_complete agen ag_hstep ag_closep fixd w (a, None) n take o st' e Hv Hs)
    as (E1 & E2 & E3 & E4 & E5); [rewrite He; cbn [option_map]; rewrite Hk; reflexivity|].
  unfold aiter_ag. repeat split; assumption.
Qed.

Theorem aiter_ag_taken : forall fixd w a n,
  ag_run a = false ->
  let tr := ag_trace (a, None) (nexts n) in
  Forall is_value tr ->
  let r := aiter_ag fixd w (a, None) n in
  ii_events r = items tr /\ ii_end r = ATaken /\ ii_world r = w /\ ii_ignored r = false /\
  ii_state r = ag_after (a, None) (nexts n) /\
  snd (ii_state r) = None /\ ag_run (fst (ii_state r)) = false.
Proof.
  intros fixd w a n Hrun tr Hv. subst tr. cbv zeta.
  destruct (ag_values_idle n a Hrun Hv) as (a' & Haft & Hrun').
  rewrite <- h_trace_ag in *.
  destruct (aiter_it_taken agen ag_hstep ag_closep fixd w (a, None) n Hv) as (E1 & E2 & E3 & E4 & E5).
  unfold aiter_ag. rewrite E3, Haft. repeat split; assumption.
Qed.

(* n values, then __anext__() suspends *)
Theorem aiter_ag_blocking : forall fixd w a n take,
  ag_run a = false ->
  let tr := ag_trace (a, None) (nexts n) in
  Forall is_value tr ->
  let '(o0, st0) := ag_hstep (ag_after (a, None) (nexts n)) (HStart (CSend VNone)) in
  forall y, ho_out o0 = Some (OYield y) ->
  let '(o1, st1) := ag_hstep st0 (HResume (Throw SynchronousAbort)) in
  let r := aiter_ag fixd w (a, None) (n + S take) in
  let w1 := fst (capture fixd (arm w y) y) in
  ii_events r = items tr ++ ho_events o0 ++ ho_events o1 /\
  match ho_out o1 with
  | Some (ORaise e) =>
      ii_end r = ARaise (SySyncError false (Some e)) /\ ii_world r = w1 /\ ii_ignored r = false /\
      ii_state r = st1 /\ snd st1 = None /\ ag_run (fst st1) = false /\ ag_fr (fst st1) = FDone
  | Some (OReturn _) =>
      ii_end r = ARaise (SySyncError true None) /\ ii_world r = w1 /\ ii_ignored r = false /\
      ii_state r = st1 /\ snd st1 = None /\ ag_run (fst st1) = false /\
      exists k, ag_fr (fst st1) = FSusp k
  | Some (OYield y2) =>
      ii_end r = ARaise (SySyncError false (Some rt_ignored_abort)) /\
      ii_world r = fst (capture fixd (arm w1 y2) y2) /\ ii_ignored r = true /\
      ii_state r = (fst st1, None) /\ ag_run (fst st1) = true /\
      exists k, ag_fr (fst st1) = FSusp k
  | None => False
  end.
Proof.
  intros fixd w a n take Hrun tr Hv. subst tr.
  destruct (ag_values_idle n a Hrun Hv) as (a' & Haft & Hrun').
  destruct (ag_hstep (ag_after (a, None) (nexts n)) (HStart (CSend VNone))) as [o0 [a0 p0]] eqn:Hs0.
  intros y Hy.
  destruct (ag_hstep (a0, p0) (HResume (Throw SynchronousAbort))) as [o1 st1] eqn:Hs1. cbv zeta.
  pose proof Hs0 as Hs2. rewrite Haft in Hs2.
  pose proof (ag_next_shape a' o0 (a0, p0) Hrun' Hs2) as Hsh. rewrite Hy in Hsh.
  destruct Hsh as (Hp & Hr & (k & Hf) & _). simpl in Hp, Hr, Hf. subst p0.
  pose proof (ag_abort_shape a0 k _ o1 st1 Hf Hs1) as Hsh1.
  rewrite <- h_trace_ag in *.
  pose proof (aiter_it_blocking agen ag_hstep ag_closep fixd w (a, None) n take o0 (a0, Some PSend) y o1 st1
                Hv Hs0 ltac:(rewrite Hy; reflexivity) Hs1) as Hb. cbv zeta in Hb.
  unfold aiter_ag.
  destruct (ho_out o1) as [[y2|v|e]|]; [| | |contradiction].
  - simpl in Hb. destruct Hb as (E1 & E2 & E3 & E4 & E5).
    destruct Hsh1 as (_ & Hr1 & Hk1 & _). rewrite app_nil_r in E1.
    repeat split; assumption.
  - simpl in Hb. destruct Hb as (E1 & E2 & E3 & E4 & E5).
    destruct Hsh1 as (Hp1 & Hr1 & Hk1 & _). repeat split; assumption.
  - destruct Hsh1 as (Hk1 & Hp1 & Hr1 & Hf1 & _).
    cbn [option_map] in Hb. rewrite Hk1 in Hb. destruct Hb as (E1 & E2 & E3 & E4 & E5).
    repeat split; assumption.
Qed.

(* ============== link with C05's tree model of await_sync (AwaitSync.v) ===== *)
Lemma asend_tree_eff_eq : forall ev c',
  asend_tree (Eff ev c') =
  match c' with
  | Susp y k => if is_mark ev then Ret y else Eff ev (Susp y (fun i => asend_tree (k i)))
  | _ => Eff ev (asend_tree c')
  end.
Proof. reflexivity. Qed.

Definition asend_stop (st : gstop) : stop :=
  match st with
  | GRet _ => SRaise StopAsyncIteration
  | GRaise e => SRaise (conv_ag e)
  | GYield d _ => SRet d
  | GSusp y k => SSusp y (fun i => asend_tree (k i))
  end.

(* the asend() awaitable runs the generator's frame to its next stop *)
Lemma run_asend_tree : forall c s,
  run s (asend_tree c) = let '(evs, s', st) := grun s c in (evs, s', asend_stop st).
Proof.
  induction c as [v|e|ev c IH|x g IH|x v c IH|y g IH]; intros s.
  - reflexivity.
  - reflexivity.
  - rewrite asend_tree_eff_eq, grun_eff_eq.
    destruct c as [v0|e0|ev0 c0|x0 g0|x0 v0 c0|y0 k0];
      try (cbn [run]; rewrite IH; destruct (grun s _) as [[evs s'] st]; reflexivity).
    destruct (is_mark ev); reflexivity.
  - cbn [asend_tree run grun]. apply IH.
  - cbn [asend_tree run grun]. apply IH.
  - reflexivity.
Qed.

Definition helper_stop (st : stop) : stop :=
  match st with
  | SSusp y k => SSusp y (fun i => match i with
                                   | Throw GeneratorExit => Raise GeneratorExit
                                   | _ => helper_asend (k i)
                                   end)
  | x => x
  end.

(* helper() awaiting the asend object: same run, close() does not reach the generator *)
Lemma run_helper_asend : forall t s,
  run s (helper_asend t) = let '(evs, s', st) := run s t in (evs, s', helper_stop st).
Proof.
  induction t as [v|e|ev c IH|x g IH|x v c IH|y g IH]; intros s.
  - reflexivity.
  - reflexivity.
  - cbn [helper_asend run]. rewrite IH. destruct (run s c) as [[evs s'] st]. reflexivity.
  - cbn [helper_asend run]. apply IH.
  - cbn [helper_asend run]. apply IH.
  - reflexivity.
Qed.

Lemma run_helper_tree : forall c s,
  run s (helper_asend (asend_tree c)) =
  let '(evs, s', st) := grun s c in (evs, s', helper_stop (asend_stop st)).
Proof.
  intros c s. rewrite run_helper_asend, run_asend_tree. destruct (grun s c) as [[evs s'] st].
  reflexivity.
Qed.

Lemma pep479_conv_ag : forall e, pep479 KCoro (conv_ag e) = conv_ag e.
Proof. destruct e; reflexivity. Qed.

(* C05's await_sync applied to helper() awaiting the asend object of a
   generator whose frame is about to execute c *)
Lemma await_sync_frame_tree : forall fixd w s c,
  let t := await_sync fixd w s (helper_asend (asend_tree c)) in
  let '(ev0, s0, st0) := grun s c in
  match st0 with
  | GRet _ => t = mksync ev0 (SyRaise StopAsyncIteration) Finished s0 w
  | GRaise e => t = mksync ev0 (SyRaise (conv_ag e)) Finished s0 w
  | GYield d _ => t = mksync ev0 (SyValue d) Finished s0 w
  | GSusp y k =>
      let w1 := fst (capture fixd (arm w y) y) in
      let '(ev1, s1, st1) := grun s0 (k (Throw SynchronousAbort)) in
      match st1 with
      | GRet _ => t = mksync (ev0 ++ ev1) (SySyncError false (Some StopAsyncIteration)) Finished s1 w1
      | GRaise e => t = mksync (ev0 ++ ev1) (SySyncError false (Some (conv_ag e))) Finished s1 w1
      | GYield d _ => t = mksync (ev0 ++ ev1) (SySyncError true None) Finished s1 w1
      | GSusp y2 _ => t = mksync (ev0 ++ ev1) (SySyncError false (Some rt_ignored_abort)) Finished s1
                                 (fst (capture fixd (arm w1 y2) y2))
      end
  end.
Proof.
  intros fixd w s c. cbv zeta. unfold await_sync. rewrite run_helper_tree.
  destruct (grun s c) as [[ev0 s0] st0].
  destruct st0 as [v|e|d k|y k]; cbn [asend_stop helper_stop].
  - reflexivity.
  - rewrite pep479_conv_ag. reflexivity.
  - reflexivity.
  - unfold cs_throw1. cbv beta match. rewrite run_helper_tree.
    destruct (grun s0 (k (Throw SynchronousAbort))) as [[ev1 s1] st1].
    destruct st1 as [v|e|d k2|y2 k2]; cbn; rewrite ?app_nil_r, ?pep479_conv_ag; reflexivity.
Qed.

Definition ag_step_of (cl : bool) (r : list event * store * frame * gres)
  : hobs * (agen * option pend) :=
  let '(evs, s', fr', g) := r in
  match g with
  | RYield d => (mkhobs evs (Some (OReturn d)) false (fstate_of fr') false, (mkag fr' false cl s', None))
  | RSusp y => (mkhobs evs (Some (OYield y)) true (fstate_of fr') true, (mkag fr' true cl s', Some PSend))
  | RExc e => (mkhobs evs (Some (ORaise e)) false (fstate_of fr') false,
               (mkag fr' false (cl || is_sai_or_ge e) s', None))
  end.

Lemma ag_next_exec : forall fr cl s,
  ag_hstep (mkag fr false cl s, None) (HStart (CSend VNone)) =
  ag_step_of cl (gen_resume fr s (Send VNone)).
Proof.
  intros. unfold ag_hstep, ag_start, ag_step_of. cbn [ag_run ag_fr ag_st ag_closed].
  destruct (gen_resume fr s (Send VNone)) as [[[evs s'] fr'] g]. destruct g; reflexivity.
Qed.

Lemma ag_abort_exec : forall k cl s i,
  ag_hstep (mkag (FSusp k) true cl s, Some PSend) (HResume i) =
  ag_step_of cl (exec_frame s (k i)).
Proof.
  intros. unfold ag_hstep, ag_resume, ag_step_of. cbn [ag_run ag_fr ag_st ag_closed gen_resume].
  destruct (exec_frame s (k i)) as [[[evs s'] fr'] g]. destruct g; reflexivity.
Qed.

(* the object-level driver on the same frame *)
Lemma await_sync_frame_obj : forall fixd w a c,
  ag_run a = false ->
  gen_resume (ag_fr a) (ag_st a) (Send VNone) = exec_frame (ag_st a) c ->
  let r := await_sync_ag fixd w (a, None) in
  let '(ev0, s0, st0) := grun (ag_st a) c in
  match st0 with
  | GRet _ => si_events r = ev0 /\ si_out r = SyRaise StopAsyncIteration /\ ag_st (fst (si_state r)) = s0 /\ si_world r = w
  | GRaise e => si_events r = ev0 /\ si_out r = SyRaise (conv_ag e) /\ ag_st (fst (si_state r)) = s0 /\ si_world r = w
  | GYield d _ => si_events r = ev0 /\ si_out r = SyValue d /\ ag_st (fst (si_state r)) = s0 /\ si_world r = w
  | GSusp y k =>
      let w1 := fst (capture fixd (arm w y) y) in
      let '(ev1, s1, st1) := grun s0 (k (Throw SynchronousAbort)) in
      match st1 with
      | GRet _ => si_events r = ev0 ++ ev1 /\ si_out r = SySyncError false (Some StopAsyncIteration) /\ ag_st (fst (si_state r)) = s1 /\ si_world r = w1
      | GRaise e => si_events r = ev0 ++ ev1 /\ si_out r = SySyncError false (Some (conv_ag e)) /\ ag_st (fst (si_state r)) = s1 /\ si_world r = w1
      | GYield d _ => si_events r = ev0 ++ ev1 /\ si_out r = SySyncError true None /\ ag_st (fst (si_state r)) = s1 /\ si_world r = w1
      | GSusp y2 _ => si_events r = ev0 ++ ev1 /\ si_out r = SySyncError false (Some rt_ignored_abort) /\ ag_st (fst (si_state r)) = s1 /\
                      si_world r = fst (capture fixd (arm w1 y2) y2)
      end
  end.
Proof.
  intros fixd w [fr run cl s] c Hrun Hc. cbn [ag_run ag_fr ag_st] in *. subst run. cbv zeta.
  unfold await_sync_ag, await_sync_it. rewrite ag_next_exec, Hc. unfold exec_frame.
  destruct (grun s c) as [[ev0 s0] st0].
  destruct st0 as [v|e|d k|y k]; cbn [ag_step_of].
  - cbn. repeat split; reflexivity.
  - unfold out_of. cbn [ho_out]. rewrite cls_conv_ag. cbn. repeat split; reflexivity.
  - cbn. repeat split; reflexivity.
  - unfold out_of. cbn [ho_out cls]. rewrite ag_abort_exec. unfold exec_frame.
    destruct (grun s0 (k (Throw SynchronousAbort))) as [[ev1 s1] st1].
    destruct st1 as [v|e|d k2|y2 k2]; cbn [ag_step_of].
    + cbn. repeat split; reflexivity.
    + unfold out_of. cbn [ho_out]. rewrite cls_conv_ag. cbn. repeat split; reflexivity.
    + cbn. repeat split; reflexivity.
    + cbn. rewrite app_nil_r. repeat split; reflexivity.
Qed.

Lemma await_sync_ag_frame : forall fixd w a c,
  ag_run a = false ->
  gen_resume (ag_fr a) (ag_st a) (Send VNone) = exec_frame (ag_st a) c ->
  let r := await_sync_ag fixd w (a, None) in
  let t := await_sync fixd w (ag_st a) (helper_asend (asend_tree c)) in
  si_events r = sr_events t /\ si_out r = sr_out t /\ ag_st (fst (si_state r)) = sr_store t /\
  si_world r = sr_world t /\ sr_obj t = Finished.
Proof.
  intros fixd w a c Hrun Hc.
  pose proof (await_sync_frame_tree fixd w (ag_st a) c) as Ht.
  pose proof (await_sync_frame_obj fixd w a c Hrun Hc) as Ho. cbv zeta in *.
  destruct (grun (ag_st a) c) as [[ev0 s0] st0].
  destruct st0 as [v|e|d k|y k];
    try (rewrite Ht; destruct Ho as (E1 & E2 & E3 & E4); cbn; repeat split; assumption).
  destruct (grun s0 (k (Throw SynchronousAbort))) as [[ev1 s1] st1].
  destruct st1 as [v|e|d k2|y2 k2];
    rewrite Ht; destruct Ho as (E1 & E2 & E3 & E4); cbn; repeat split; assumption.
Qed.

(* await_sync(helper()) over the native generator object IS C05's await_sync
   (AwaitSync.v, the model validated by ./check C05) applied to the tree of
   helper() awaiting the generator's asend object: same events, same outcome,
   same ContextVars, same futures; the helper coroutine is always finished. *)
Theorem await_sync_ag_tree : forall fixd w a,
  ag_run a = false ->
  let r := await_sync_ag fixd w (a, None) in
  let t := await_sync fixd w (ag_st a) (helper_asend (anext_tree a)) in
  si_events r = sr_events t /\ si_out r = sr_out t /\ ag_st (fst (si_state r)) = sr_store t /\
  si_world r = sr_world t /\ sr_obj t = Finished.
Proof.
  intros fixd w a Hrun. unfold anext_tree.
  destruct (ag_fr a) as [c|k|] eqn:Hfr.
  - apply (await_sync_ag_frame fixd w a c Hrun). rewrite Hfr. reflexivity.
  - apply (await_sync_ag_frame fixd w a (k (Send VNone)) Hrun). rewrite Hfr. reflexivity.
  - change (Raise StopAsyncIteration) with (asend_tree (Ret VNone)).
    apply (await_sync_ag_frame fixd w a (Ret VNone) Hrun). rewrite Hfr. reflexivity.
Qed.

(* ====================== GeneratorObjectIterator vs native, under aiter_sync *)
Lemma oval_inj : forall a b, oval a = oval b -> a = b.
Proof. intros [|x|x] [|z|z] H; simpl in H; inversion H; reflexivity. Qed.

Definition abs_k (k : ocls) : obs :=
  match k with
  | KY y => OL [OI 0; oval y]
  | KV v => OL [OI 1; oval v]
  | KE e => OL [OI 2; exn_type e; oopt exn_type (cause_of e)]
  end.

Lemma abs_outcome_cls : forall o, abs_outcome o = abs_k (cls o).
Proof. intros [y|v|e]; try reflexivity. destruct e; reflexivity. Qed.

(* equal abstract outcomes are seen alike by the helper coroutine *)
Lemma abs_cls : forall o1 o2, abs_outcome o1 = abs_outcome o2 ->
  match cls o1, cls o2 with
  | KY y1, KY y2 => y1 = y2
  | KV v1, KV v2 => v1 = v2
  | KE e1, KE e2 => abs_exn e1 = abs_exn e2
  | _, _ => False
  end.
Proof.
  intros o1 o2 H. rewrite !abs_outcome_cls in H.
  destruct (cls o1) as [y1|v1|e1], (cls o2) as [y2|v2|e2]; simpl in H; try discriminate.
  - inversion H as [H1]. apply oval_inj; assumption.
  - inversion H as [H1]. apply oval_inj; assumption.
  - inversion H as [[H1 H2]]. unfold abs_exn. rewrite H1, H2. reflexivity.
Qed.

Lemma exn_type_sai : forall e, exn_type e = OL [OI 4] -> e = StopAsyncIteration.
Proof. intros e H. destruct e; simpl in H; try discriminate; reflexivity. Qed.

Lemma abs_exn_sai : forall e1 e2, abs_exn e1 = abs_exn e2 -> is_sai e1 = is_sai e2.
Proof.
  intros e1 e2 H. unfold abs_exn in H. inversion H as [[H1 H2]].
  destruct (is_sai e1) eqn:E1.
  - destruct e1; try discriminate. simpl in H1. symmetry in H1. apply exn_type_sai in H1. subst. reflexivity.
  - destruct (is_sai e2) eqn:E2; [|reflexivity].
    destruct e2; try discriminate. simpl in H1. apply exn_type_sai in H1. subst. discriminate.
Qed.

(* the two steps the driver issues never put the native object into a stop state *)
Lemma ag_next_facts : forall a o st',
  ag_run a = false ->
  ag_hstep (a, None) (HStart (CSend VNone)) = (o, st') ->
  exists x, ho_out o = Some x /\ ag_stop o (fst st') = false /\
            snd st' = match cls x with KY _ => Some PSend | _ => None end.
Proof.
  intros a o st' Hrun Hs. pose proof (ag_next_shape a o st' Hrun Hs) as Hsh.
  unfold ag_stop, ag_ignored, ag_illformed.
  destruct (ho_out o) as [[y|v|e]|]; [| | |contradiction].
  - destruct Hsh as (Hp & Hr & (k & Hf) & _). exists (OYield y). rewrite Hf, Hr, Hp.
    repeat split; reflexivity.
  - destruct Hsh as (Hp & Hr & (k & Hf) & _). exists (OReturn v). rewrite Hr, Hp.
    repeat split; reflexivity.
  - destruct Hsh as (Hk & Hp & Hr & Hf & _). exists (ORaise e). rewrite Hk, Hr, Hf, Hp.
    cbn [frame_done negb]. rewrite Bool.andb_false_r. repeat split; reflexivity.
Qed.

Lemma ag_abort_facts : forall a k i o st',
  ag_fr a = FSusp k ->
  ag_hstep (a, Some PSend) (HResume i) = (o, st') ->
  exists x, ho_out o = Some x /\ ag_stop o (fst st') = false /\
            snd st' = match cls x with KY _ => Some PSend | _ => None end.
Proof.
  intros a k i o st' Hfr Hs. pose proof (ag_abort_shape a k i o st' Hfr Hs) as Hsh.
  unfold ag_stop, ag_ignored, ag_illformed.
  destruct (ho_out o) as [[y|v|e]|]; [| | |contradiction].
  - destruct Hsh as (Hp & Hr & (k' & Hf) & _). exists (OYield y). rewrite Hf, Hr, Hp.
    repeat split; reflexivity.
  - destruct Hsh as (Hp & Hr & (k' & Hf) & _). exists (OReturn v). rewrite Hr, Hp.
    repeat split; reflexivity.
  - destruct Hsh as (Hk & Hp & Hr & Hf & _). exists (ORaise e). rewrite Hk, Hr, Hf, Hp.
    cbn [frame_done negb]. rewrite Bool.andb_false_r. repeat split; reflexivity.
Qed.

(* one step of C06's simulation, in the form the driver needs: from related
   states, a step of the domain that does not stop the native object gives equal
   events, outcomes the helper cannot tell apart, and related states again *)
Lemma step_bridge : forall a p op oa a' p' og sg',
  inv a p -> ok_hop op = true ->
  ag_hstep (a, p) op = (oa, (a', p')) ->
  go_hstep (proj a p, p) op = (og, sg') ->
  ag_stop oa a' = false ->
  forall x, ho_out oa = Some x ->
  ho_events og = ho_events oa /\
  (exists x', ho_out og = Some x' /\ abs_outcome x = abs_outcome x') /\
  sg' = (proj a' p', p') /\ inv a' p'.
Proof.
  intros a p op oa a' p' og sg' Hinv Hop Ha Hg Hns x Hx.
  pose proof (step_sim a p op Hinv Hop) as H. rewrite Ha, Hg in H. cbn [fst snd] in H.
  destruct H as [[He Ho] Hrest]. destruct (Hrest Hns) as (_ & Hsg & Hinv').
  split; [symmetry; exact He|]. split; [|split; assumption].
  rewrite Hx in Ho. destruct (ho_out og) as [x'|]; simpl in Ho; [|discriminate].
  exists x'. split; [reflexivity|]. congruence.
Qed.

Lemma await_sync_sim : forall fixd w a, inv a None ->
  let ra := await_sync_ag fixd w (a, None) in
  let rg := await_sync_go fixd w (proj a None, None) in
  si_world ra = si_world rg /\ si_ignored ra = si_ignored rg /\
  if si_ignored ra then
    let '(evc, ce, stc) := go_closep (proj (fst (si_state ra)) (Some PSend), Some PSend) in
    si_out ra = SySyncError false (Some rt_ignored_abort) /\
    snd (si_state ra) = None /\
    si_events rg = si_events ra ++ evc /\
    si_out rg = match ce with None => si_out ra | Some e => SyCloseRaised e end /\
    si_state rg = stc
  else
    si_events ra = si_events rg /\ abs_sync (si_out ra) = abs_sync (si_out rg) /\
    snd (si_state ra) = None /\ si_state rg = (proj (fst (si_state ra)) None, None) /\
    inv (fst (si_state ra)) None.
Proof.
  intros fixd w a Hinv. cbv zeta.
  assert (Hrun : ag_run a = false) by (destruct Hinv as (_ & Hr & _); exact Hr).
  unfold await_sync_ag, await_sync_go, await_sync_it.
  destruct (ag_hstep (a, None) (HStart (CSend VNone))) as [oa [a1 p1]] eqn:Ha1.
  destruct (go_hstep (proj a None, None) (HStart (CSend VNone))) as [og sg1] eqn:Hg1.
  destruct (ag_next_facts a oa (a1, p1) Hrun Ha1) as (x & Hx & Hns & Hp1). cbn [fst snd] in Hns, Hp1.
  destruct (step_bridge a None (HStart (CSend VNone)) oa a1 p1 og sg1 Hinv eq_refl Ha1 Hg1 Hns x Hx)
    as (Hev & (x' & Hx' & Habs) & Hsg & Hinv1).
  unfold out_of. rewrite Hx, Hx'. apply abs_cls in Habs.
  destruct (cls x) as [y|v|e], (cls x') as [y'|v'|e']; try contradiction; subst.
  - (* suspended: the abort *)
    destruct Hinv1 as (Hfree1 & Hrun1 & Hk1 & Hcl1).
    destruct (Hk1 eq_refl) as [k Hfr1].
    assert (Hinv1 : inv a1 (Some PSend)) by (repeat split; auto).
    destruct (ag_hstep (a1, Some PSend) (HResume (Throw SynchronousAbort))) as [ob [a2 p2]] eqn:Ha2.
    destruct (go_hstep (proj a1 (Some PSend), Some PSend) (HResume (Throw SynchronousAbort)))
      as [og2 sg2] eqn:Hg2.
    destruct (ag_abort_facts a1 k _ ob (a2, p2) Hfr1 Ha2) as (z & Hz & Hns2 & Hp2).
    cbn [fst snd] in Hns2, Hp2.
    destruct (step_bridge a1 (Some PSend) (HResume (Throw SynchronousAbort)) ob a2 p2 og2 sg2 Hinv1 eq_refl Ha2 Hg2 Hns2 z Hz)
      as (Hev2 & (z' & Hz' & Habs2) & Hsg2 & Hinv2).
    rewrite Hz, Hz'. apply abs_cls in Habs2.
    destruct (cls z) as [y2|v2|e2], (cls z') as [y2'|v2'|e2']; try contradiction; subst.
    + (* suspended again: close() *)
      cbn -[go_closep]. destruct (go_closep (proj a2 (Some PSend), Some PSend)) as [[evc ce] stc].
      cbn. rewrite Hev, Hev2, !app_nil_r, <- !app_assoc. repeat split; try reflexivity.
    + cbn. rewrite Hev, Hev2. repeat split; auto; apply Hinv2.
    + cbn. rewrite Hev, Hev2, Habs2. repeat split; auto; apply Hinv2.
  - cbn. rewrite Hev. repeat split; auto; apply Hinv1.
  - cbn. rewrite Hev, Habs. repeat split; auto; apply Hinv1.
Qed.

Lemma abs_sync_cases : forall o1 o2, abs_sync o1 = abs_sync o2 ->
  match o1, o2 with
  | SyValue v1, SyValue v2 => v1 = v2
  | SyRaise e1, SyRaise e2 => abs_exn e1 = abs_exn e2
  | SySyncError _ _, SySyncError _ _ => True
  | SyCloseRaised e1, SyCloseRaised e2 => abs_exn e1 = abs_exn e2
  | _, _ => False
  end.
Proof.
  intros [v1|e1|b1 c1|e1] [v2|e2|b2 c2|e2] H; simpl in H; try discriminate; try exact I.
  - inversion H. apply oval_inj; assumption.
  - inversion H as [[H1 H2]]. unfold abs_exn. rewrite H1, H2. reflexivity.
  - inversion H as [[H1 H2]]. unfold abs_exn. rewrite H1, H2. reflexivity.
Qed.

Lemma aiter_sim : forall take fixd w a, inv a None ->
  let ra := aiter_ag fixd w (a, None) take in
  let rg := aiter_go fixd w (proj a None, None) take in
  ii_world ra = ii_world rg /\ ii_ignored ra = ii_ignored rg /\
  if ii_ignored ra then
    let '(evc, ce, stc) := go_closep (proj (fst (ii_state ra)) (Some PSend), Some PSend) in
    ii_end ra = ARaise (SySyncError false (Some rt_ignored_abort)) /\
    snd (ii_state ra) = None /\
    ii_events rg = ii_events ra ++ evc /\
    ii_end rg = match ce with
                | None => ii_end ra
                | Some e => if is_sai e then AEnd else ARaise (SyCloseRaised e)
                end /\
    ii_state rg = stc
  else
    ii_events ra = ii_events rg /\ abs_end (ii_end ra) = abs_end (ii_end rg) /\
    snd (ii_state ra) = None /\ ii_state rg = (proj (fst (ii_state ra)) None, None) /\
    inv (fst (ii_state ra)) None.
Proof.
  induction take as [|take IH]; intros fixd w a Hinv; cbv zeta.
  - cbn. repeat split; auto; apply Hinv.
  - unfold aiter_ag, aiter_go. cbn [aiter_it].
    pose proof (await_sync_sim fixd w a Hinv) as Hs. cbv zeta in Hs.
    fold await_sync_ag await_sync_go.
    destruct (await_sync_ag fixd w (a, None)) as [eva oa [a1 p1] wa iga].
    destruct (await_sync_go fixd w (proj a None, None)) as [evg og sg1 wg igg].
    cbn [si_events si_out si_state si_world si_ignored fst snd] in *.
    destruct Hs as (Hw & Hig & Hs). subst wg igg.
    destruct iga.
    + (* outside the domain: the iteration ends here in both *)
      destruct (go_closep (proj a1 (Some PSend), Some PSend)) as [[evc ce] stc] eqn:Hcl.
      destruct Hs as (Hoa & Hp1 & Hev & Hog & Hst). subst oa p1 evg og sg1.
      destruct ce as [e|]; cbn -[go_closep]; rewrite Hcl; repeat split; reflexivity.
    + destruct Hs as (Hev & Habs & Hp1 & Hst & Hinv1). subst evg p1 sg1.
      pose proof (abs_sync_cases _ _ Habs) as Hc.
      destruct oa as [v1|e1|b1 c1|e1], og as [v2|e2|b2 c2|e2]; try contradiction.
      * (* a value: go on *)
        subst v2. fold (aiter_ag fixd wa (a1, None) take) (aiter_go fixd wa (proj a1 None, None) take).
        pose proof (IH fixd wa a1 Hinv1) as Hr. cbv zeta in Hr.
        destruct (aiter_ag fixd wa (a1, None) take) as [eva' enda [a2 p2] wa' iga'].
        destruct (aiter_go fixd wa (proj a1 None, None) take) as [evg' endg sg2 wg' igg'].
        cbn [ii_events ii_end ii_state ii_world ii_ignored fst snd] in *.
        destruct Hr as (Hw' & Hig' & Hr). subst wg' igg'.
        split; [reflexivity|]. split; [reflexivity|].
        destruct iga'.
        -- destruct (go_closep (proj a2 (Some PSend), Some PSend)) as [[evc ce] stc].
           destruct Hr as (R1 & R2 & R3 & R4 & R5). subst. 
           repeat split; try reflexivity. rewrite <- app_assoc. reflexivity.
        -- destruct Hr as (R1 & R2 & R3 & R4 & R5). subst. repeat split; auto; apply R5.
      * pose proof (abs_exn_sai _ _ Hc) as Hsai. cbn -[abs_sync]. rewrite <- Hsai.
        destruct (is_sai e1); cbn -[abs_sync]; rewrite ?Habs; repeat split; auto; apply Hinv1.
      * cbn -[abs_sync]. rewrite Habs. repeat split; auto; apply Hinv1.
      * pose proof (abs_exn_sai _ _ Hc) as Hsai. cbn -[abs_sync]. rewrite <- Hsai.
        destruct (is_sai e1); cbn -[abs_sync]; rewrite ?Habs; repeat split; auto; apply Hinv1.
Qed.

(* aiter_sync over GeneratorObject()(body) against aiter_sync over the native
   async generator with the same body *)
Theorem genobj_aiter_sync : forall c s fixd w take,
  oob_free c ->
  let ra := aiter_ag fixd w (ag_new c s, None) take in
  let rg := aiter_go fixd w (go_new c s, None) take in
  ii_world ra = ii_world rg /\ ii_ignored ra = ii_ignored rg /\
  if ii_ignored ra then
    let '(evc, ce, stc) := go_closep (proj (fst (ii_state ra)) (Some PSend), Some PSend) in
    ii_end ra = ARaise (SySyncError false (Some rt_ignored_abort)) /\
    snd (ii_state ra) = None /\
    ii_events rg = ii_events ra ++ evc /\
    ii_end rg = match ce with
                | None => ii_end ra
                | Some e => if is_sai e then AEnd else ARaise (SyCloseRaised e)
                end /\
    ii_state rg = stc
  else
    ii_events ra = ii_events rg /\ abs_end (ii_end ra) = abs_end (ii_end rg) /\
    snd (ii_state ra) = None /\ ii_state rg = (proj (fst (ii_state ra)) None, None) /\
    inv (fst (ii_state ra)) None.
Proof.
  intros c s fixd w take Hc.
  exact (aiter_sim take fixd w (ag_new c s) (inv_new c s Hc)).
Qed.

(* ----------------------------------------------------------------- examples *)
(* try: log 1; yield 1; log 2; yield 2  finally: log 9 *)
Definition ex_it_ok : coro :=
  gbody_of false (GFinally (GSeq (GLog 1) (GSeq (GYieldP (VInt 1) 0) (GSeq (GLog 2) (GYieldP (VInt 2) 0))))
                           (GLog 9)).
(* try: log 1; yield 1; log 2; await tok(11); yield 2  finally: log 9 *)
Definition ex_it_susp : coro :=
  gbody_of false (GFinally (GSeq (GLog 1) (GSeq (GYieldP (VInt 1) 0) (GSeq (GLog 2)
                              (GSeq (GAwaitTok 11) (GYieldP (VInt 2) 0))))) (GLog 9)).
(* try: yield 1
        try: await tok(11)  except BaseException: pass
        try: await tok(12)  except BaseException: raise
        yield 2
   finally: log 9                    -- swallows the abort and suspends again *)
Definition ex_it_ign : coro :=
  gbody_of false (GFinally (GSeq (GYieldP (VInt 1) 0)
                             (GSeq (GTry (GAwaitTok 11) [CBaseException] GSkip)
                                (GSeq (GTry (GAwaitTok 12) [CBaseException] GReraise)
                                      (GYieldP (VInt 2) 0)))) (GLog 9)).

Lemma ex_it_ok_free : oob_free ex_it_ok.
Proof. unfold ex_it_ok, gbody_of. simpl. unfold yield_. prove_free. Qed.

Lemma ex_it_susp_free : oob_free ex_it_susp.
Proof.
  unfold ex_it_susp, gbody_of. simpl. unfold yield_. prove_free.
  match goal with H : not_oob ?x = true |- _ => destruct x; simpl in *; try discriminate end;
    prove_free.
Qed.

(* the non-suspending body: both hand out 1, 2, run the finally block and end *)
Example ex_aiter_ok :
  oob_free ex_it_ok /\
  let ra := aiter_ag true world0 (ag_new ex_it_ok [], None) 9 in
  let rg := aiter_go true world0 (go_new ex_it_ok [], None) 9 in
  ii_ignored ra = false /\
  ii_events rg = [ELog 1; item (VInt 1); ERecv VNone; ELog 2; item (VInt 2); ERecv VNone; ELog 9] /\
  ii_events ra = ii_events rg /\ ii_end ra = AEnd /\ ii_end rg = AEnd /\
  ag_fr (fst (ii_state ra)) = FDone /\ go_coro (fst (ii_state rg)) = Finished.
Proof. split; [exact ex_it_ok_free|]. vm_compute. repeat split; reflexivity. Qed.

(* the suspending body: 1 is handed out, then SynchronousError chained to the
   abort, the finally block has run, both generators are finished *)
Example ex_aiter_susp :
  oob_free ex_it_susp /\
  let ra := aiter_ag true world0 (ag_new ex_it_susp [], None) 9 in
  let rg := aiter_go true world0 (go_new ex_it_susp [], None) 9 in
  ii_ignored ra = false /\
  ii_events rg = [ELog 1; item (VInt 1); ERecv VNone; ELog 2; ELog 9] /\
  ii_events ra = ii_events rg /\
  ii_end ra = ARaise (SySyncError false (Some SynchronousAbort)) /\ ii_end rg = ii_end ra /\
  ag_fr (fst (ii_state ra)) = FDone /\ ag_run (fst (ii_state ra)) = false /\
  go_coro (fst (ii_state rg)) = Finished /\ go_run (fst (ii_state rg)) = false.
Proof. split; [exact ex_it_susp_free|]. vm_compute. repeat split; reflexivity. Qed.

(* outside the domain of C05 the two differ, exactly as [genobj_aiter_sync]
   says: CPython 3.12 leaves the native generator suspended and "running",
   asynkit closes the body (its GeneratorExit handler and finally block run) *)
Example ex_aiter_ignored :
  let ra := aiter_ag true world0 (ag_new ex_it_ign [], None) 9 in
  let rg := aiter_go true world0 (go_new ex_it_ign [], None) 9 in
  ii_ignored ra = true /\
  ii_end ra = ARaise (SySyncError false (Some rt_ignored_abort)) /\ ii_end rg = ii_end ra /\
  ii_events ra = [item (VInt 1); ERecv VNone; ECaught SynchronousAbort] /\
  ii_events rg = ii_events ra ++ [ECaught GeneratorExit; ELog 9] /\
  ag_run (fst (ii_state ra)) = true /\ fstate_of (ag_fr (fst (ii_state ra))) = 1 /\
  go_run (fst (ii_state rg)) = false /\ go_coro (fst (ii_state rg)) = Finished.
Proof. vm_compute. repeat split; reflexivity. Qed.

(* the hypotheses of aiter_ag_complete / aiter_ag_blocking are satisfiable *)
Example ex_ag_complete :
  Forall is_value (ag_trace (ag_new ex_it_ok [], None) (nexts 2)) /\
  ho_out (fst (ag_hstep (ag_after (ag_new ex_it_ok [], None) (nexts 2)) (HStart (CSend VNone))))
    = Some (ORaise StopAsyncIteration).
Proof.
  split; [|reflexivity]. vm_compute. repeat constructor; eexists; reflexivity.
Qed.

Example ex_ag_blocking :
  Forall is_value (ag_trace (ag_new ex_it_susp [], None) (nexts 1)) /\
  let '(o0, st0) := ag_hstep (ag_after (ag_new ex_it_susp [], None) (nexts 1)) (HStart (CSend VNone)) in
  ho_out o0 = Some (OYield (VInt 11)) /\
  ho_out (fst (ag_hstep st0 (HResume (Throw SynchronousAbort)))) = Some (ORaise SynchronousAbort).
Proof.
  split; [vm_compute; repeat constructor; eexists; reflexivity|]. vm_compute. split; reflexivity.
Qed.
