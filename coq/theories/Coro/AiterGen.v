(* asynkit's aiter_sync (coroutine.py) over a STATEFUL async iterator object:
   CPython's native async generator (AsyncGen.v) and asynkit's
   GeneratorObjectIterator (GenObj.v).  Composition of the models of C05
   (AwaitSync.v: await_sync / aiter_sync over an abstract iterable given as the
   list of its __anext__ bodies) and C06 (consumer histories on the two
   generator objects).

     def aiter_sync(async_iterable):
         ai = async_iterable.__aiter__()
         async def helper(): return await ai.__anext__()
         try:
             while True: yield await_sync(helper())
         except StopAsyncIteration: pass

     def await_sync(coro):
         start = CoroStart(coro)                    # coro.send(None)
         if start.done(): return start.result()
         try:     start.throw(SynchronousAbort())   # coro.throw(..), one try
         except BaseException as err: raise SynchronousError(..) from err
         else:    raise SynchronousError(".. (caught BaseException)")
         finally: start.close()                     # coro.close()

   helper() only awaits the awaitable `ai.__anext__()`; a native await forwards
   send / throw unchanged (C02, TreeProofs.await_native), so
     helper.send(None)             = the consumer STARTS the call __anext__():   HStart (CSend VNone)
     helper.throw(SynchronousAbort) = the suspended awaitable is RESUMED by throw: HResume (Throw SynchronousAbort)
   i.e. the driver issues a particular consumer history of AsyncGen.v, and
   looks at the outcome of each step to decide how to go on.  StopIteration(v)
   leaving the awaitable is `return v` for the helper.
     helper.close()  with the awaitable still suspended (the body swallowed the
   abort and suspended again -- outside the domain of property C05): `await`
   calls the awaitable's close().  This is the one operation that is NOT a
   step of a C06 history, and where the two objects differ ([ag_closep],
   [go_closep] below; probed on CPython 3.12.1 / asynkit).

   Reading results: [rt_ignored_abort] (AwaitSync.v, "coroutine ignored
   SynchronousAbort") and [RtAgenStopIter] (AsyncGen.v, "async generator raised
   StopIteration") are both [RuntimeError (RtOther 1)] -- the two layers
   numbered their messages independently.  As the cause of a SynchronousError
   the former occurs exactly when [si_ignored] / [ii_ignored] is true, the
   latter only when it is false.

   Checked against the real code (not part of ./check; scratch script
   .work/gen2/diff/gen.py): 2 300 random C06 bodies x take, aiter_sync over the
   native async generator and over GeneratorObject (ayield from depth 0..3):
   events, values, end (type + cause type), ag_running and frame state after
   the iteration -- 0 mismatches, 162 of the cases outside C05's domain.

   The driver is written once, over any object with a history step function
   [hstep] of the shape of [ag_hstep] / [go_hstep].

   Model file: definitions only.  Proofs: AiterGenProofs.v. *)
From Asynkit Require Import Base.Prelude Base.Obs Coro.Tree Coro.Native Coro.AwaitSync
  Coro.AsyncGen Coro.GenObj.
Open Scope Z_scope.

(* how the helper coroutine sees the outcome of a send / throw into the awaitable *)
Inductive ocls :=
| KY (y : val)      (* it yielded y: the helper yields y and stays suspended *)
| KV (v : val)      (* StopIteration(v): the await evaluates to v, helper returns v *)
| KE (e : exn).     (* it raised e: helper raises e *)

Definition cls (o : outcome) : ocls :=
  match o with
  | OYield y => KY y
  | OReturn v => KV v
  | ORaise (StopIteration v) => KV v
  | ORaise e => KE e
  end.

Definition is_sai (e : exn) : bool :=
  match e with StopAsyncIteration => true | _ => false end.

(* the consumer history  __anext__(), __anext__(), ...  *)
Definition nexts (n : nat) : list hop := repeat (HStart (CSend VNone)) n.

(* what one step shows, as the consumer of aiter_sync sees it: the body's log
   entries, then the value handed out (if the call returned one) *)
Definition items_of (o : hobs) : list event :=
  ho_events o ++ match option_map cls (ho_out o) with Some (KV d) => [item d] | _ => [] end.

Definition items (tr : list hobs) : list event := flat_map items_of tr.

Definition is_value (o : hobs) : Prop := exists d, option_map cls (ho_out o) = Some (KV d).

Section Driver.
  Variable X : Type.                                   (* the iterator object *)
  Variable hstep : X * option pend -> hop -> hobs * (X * option pend).
  (* helper().close() while the __anext__() awaitable is suspended:
     events, what close() raised, the object afterwards *)
  Variable closep : X * option pend -> list event * option exn * (X * option pend).

  Fixpoint h_trace (st : X * option pend) (h : list hop) : list hobs :=
    match h with
    | [] => []
    | op :: t => let '(o, st') := hstep st op in o :: h_trace st' t
    end.

  Fixpoint h_after (st : X * option pend) (h : list hop) : X * option pend :=
    match h with
    | [] => st
    | op :: t => h_after (snd (hstep st op)) t
    end.

  (* a resume with nothing suspended cannot happen in the driver (it resumes
     only after an OYield); "cannot reuse already awaited .." *)
  Definition out_of (o : hobs) : outcome :=
    match ho_out o with Some x => x | None => ORaise (RuntimeError RtReuse) end.

  Record sync_it := mksyncit {
    si_events : list event;          (* what the generator's body logged *)
    si_out : sync_out;               (* as AwaitSync.sync_out *)
    si_state : X * option pend;      (* the iterator object afterwards *)
    si_world : fworld;               (* the futures *)
    si_ignored : bool                (* the body swallowed the abort and suspended again:
                                        close() was called on the suspended awaitable *)
  }.

  (* await_sync(helper()) *)
  Definition await_sync_it (fixd : bool) (w : fworld) (st : X * option pend) : sync_it :=
    let '(o0, st0) := hstep st (HStart (CSend VNone)) in       (* CoroStart: helper.send(None) *)
    match cls (out_of o0) with
    | KV v => mksyncit (ho_events o0) (SyValue v) st0 w false
    | KE e => mksyncit (ho_events o0) (SyRaise e) st0 w false
    | KY y =>
        let w1 := fst (capture fixd (arm w y) y) in
        let '(o1, st1) := hstep st0 (HResume (Throw SynchronousAbort)) in   (* start.throw(..) *)
        match cls (out_of o1) with
        | KV _ => mksyncit (ho_events o0 ++ ho_events o1) (SySyncError true None) st1 w1 false
        | KE e => mksyncit (ho_events o0 ++ ho_events o1) (SySyncError false (Some e)) st1 w1 false
        | KY y2 =>
            (* the yielded object is dropped (repaired code: its flag cleared);
               pending SynchronousError from "coroutine ignored SynchronousAbort";
               finally: start.close() *)
            let w2 := fst (capture fixd (arm w1 y2) y2) in
            let '(ev2, ce, st2) := closep st1 in
            mksyncit (ho_events o0 ++ ho_events o1 ++ ev2)
                     (match ce with
                      | None => SySyncError false (Some rt_ignored_abort)
                      | Some e => SyCloseRaised e
                      end) st2 w2 true
        end
    end.

  Record aiter_it_res := mkaiterit {
    ii_events : list event;          (* body events, interleaved with [item v] per value handed out *)
    ii_end : aiter_end;              (* as AwaitSync.aiter_end *)
    ii_state : X * option pend;      (* the iterator object afterwards: aiter_sync never calls aclose() *)
    ii_world : fworld;
    ii_ignored : bool
  }.

  (* the consumer takes at most [take] values and then closes the (synchronous)
     generator aiter_sync(..): GeneratorExit at its `yield`, the iterable is not touched *)
  Fixpoint aiter_it (fixd : bool) (w : fworld) (st : X * option pend) (take : nat) : aiter_it_res :=
    match take with
    | O => mkaiterit [] ATaken st w false
    | S take' =>
        let r := await_sync_it fixd w st in
        match si_out r with
        | SyValue v =>
            let r' := aiter_it fixd (si_world r) (si_state r) take' in
            mkaiterit (si_events r ++ item v :: ii_events r') (ii_end r') (ii_state r')
                      (ii_world r') (ii_ignored r')
        | SyRaise e | SyCloseRaised e =>              (* whatever await_sync raises is caught *)
            mkaiterit (si_events r) (if is_sai e then AEnd else ARaise (si_out r))
                      (si_state r) (si_world r) (si_ignored r)
        | o => mkaiterit (si_events r) (ARaise o) (si_state r) (si_world r) (si_ignored r)
        end
    end.
End Driver.

Arguments si_events {X}. Arguments si_out {X}. Arguments si_state {X}. Arguments si_world {X}.
Arguments si_ignored {X}.
Arguments ii_events {X}. Arguments ii_end {X}. Arguments ii_state {X}. Arguments ii_world {X}.
Arguments ii_ignored {X}.

(* ------------------------------------------- the native async generator *)
(* CPython 3.12: async_gen_asend_close only marks the asend() awaitable closed;
   the generator is NOT resumed: its frame stays suspended inside the await and
   ag_running_async stays set.  GeneratorExit is then raised in helper(), which
   ends it: close() returns None. *)
Definition ag_closep (st : agen * option pend) : list event * option exn * (agen * option pend) :=
  ([], None, (fst st, None)).

Definition await_sync_ag := await_sync_it agen ag_hstep ag_closep.
Definition aiter_ag := aiter_it agen ag_hstep ag_closep.

(* --------------------------------------------- GeneratorObjectIterator *)
(* helper -> __anext__() -> asend() -> Monitor.aawait() -> Monitor._asend are
   coroutines / a generator awaiting each other: close() of the outermost
   throws GeneratorExit, every await on the way calls close() of what it
   awaits, and at _asend's `yield` GeneratorExit arrives: `coro.close(); raise`,
   which is [go_hstep .. (HResume (Throw GeneratorExit))] (GenObj.mon_resume).
   GeneratorExit coming back out makes every close() return None; any other
   exception e (the body raised, or "coroutine ignored GeneratorExit") is
   raised by every close() on the way out. *)
Definition go_closep (st : gobj * option pend) : list event * option exn * (gobj * option pend) :=
  let '(o, st') := go_hstep st (HResume (Throw GeneratorExit)) in
  (ho_events o,
   match ho_out o with
   | Some (ORaise GeneratorExit) => None
   | Some (ORaise e) => Some e
   | Some (OYield _) => Some (RuntimeError RtIgnoredGenExit)
   | Some (OReturn _) | None => None
   end, st').

Definition await_sync_go := await_sync_it gobj go_hstep go_closep.
Definition aiter_go := aiter_it gobj go_hstep go_closep.

(* ------------------------- the asend() awaitable as a tree (link with C05) *)
(* Body of the awaitable `ag.asend(None)` (= ag.__anext__()) when the
   generator's frame is about to execute c: it runs c up to the next `yield d`
   (-> returns d), passes real suspensions through, and converts the end of the
   body (return -> StopAsyncIteration, PEP 479/525).  With it, helper() is the
   tree [AwaitSync.helper_asend (asend_tree c)] of C05's own model. *)
Fixpoint asend_tree (c : coro) : coro :=
  match c with
  | Ret _ => Raise StopAsyncIteration
  | Raise e => Raise (conv_ag e)
  | Eff ev c' =>
      match c' with
      | Susp y k => if is_mark ev then Ret y
                    else Eff ev (Susp y (fun i => asend_tree (k i)))
      | _ => Eff ev (asend_tree c')
      end
  | Get x k => Get x (fun v => asend_tree (k v))
  | Set_ x v c' => Set_ x v (asend_tree c')
  | Susp y k => Susp y (fun i => asend_tree (k i))
  end.

(* the awaitable __anext__() of a generator that is not running *)
Definition anext_tree (a : agen) : coro :=
  match ag_fr a with
  | FNew c => asend_tree c
  | FSusp k => asend_tree (k (Send VNone))
  | FDone => Raise StopAsyncIteration
  end.

(* --------------------------------- what C06_aiter_sync compares (as C06) *)
(* exceptions by type and cause type (message texts dropped), as [abs_outcome] *)
Definition abs_exn (e : exn) : obs := OL [exn_type e; oopt exn_type (cause_of e)].

Definition abs_sync (o : sync_out) : obs :=
  match o with
  | SyValue v => OL [OI 0; oval v]
  | SyRaise e => OL [OI 1; abs_exn e]
  | SySyncError caught cause => OL [OI 2; ob caught; oopt abs_exn cause]
  | SyCloseRaised e => OL [OI 3; abs_exn e]
  end.

Definition abs_end (e : aiter_end) : obs :=
  match e with
  | AEnd => OL [OI 0]
  | ARaise o => OL [OI 1; abs_sync o]
  | ATaken => OL [OI 2]
  end.
